#!/usr/bin/env python3
"""Regenerates the generated tables of DESIGN.md (between <!-- BEGIN x --> / <!-- END x --> markers):
fixed defects and open known findings from known_findings.json, seeded changes from seeded/*/meta.json."""
import json
import os
import re
import subprocess
import sys

VERIF = os.path.dirname(os.path.dirname(os.path.abspath(__file__)))


def esc(s):
    return s.replace("|", "\\|").replace("\n", " ")


def fixed_table(fs):
    rows = ["| Commit | Property | Defect (fixed in /repo by a `fix:` commit) |", "|---|---|---|"]
    for f in fs:
        if f.get("status") == "fixed":
            what = re.sub(r"^fixed: property=\S+ \S+ ", "", f["what"])
            rows.append("| %s | %s | %s |" % (f.get("commit"), f["property"], esc(what)))
    return "\n".join(rows)


def open_table(fs):
    rows = ["| Id | Property | Known finding (open, reported as KNOWN-FINDING) | Descriptor |", "|---|---|---|---|"]
    for f in fs:
        if f.get("status") != "fixed":
            rows.append("| %s | %s | %s | `%s` |" % (f["id"], f["property"], esc(f["what"]), json.dumps(f.get("match"), sort_keys=True)))
    return "\n".join(rows)


def seeded_table():
    return subprocess.run([sys.executable, os.path.join(VERIF, "lib", "seeded_table.py")], capture_output=True, text=True).stdout.strip()


def main():
    fs = json.load(open(os.path.join(VERIF, "known_findings.json")))["findings"]
    parts = {"fixed-table": fixed_table(fs), "open-table": open_table(fs), "seeded-table": seeded_table()}
    p = os.path.join(VERIF, "DESIGN.md")
    s = open(p).read()
    for k, v in parts.items():
        b, e = "<!-- BEGIN %s -->" % k, "<!-- END %s -->" % k
        if b not in s:
            print("marker %s missing" % k)
            continue
        i, j = s.index(b) + len(b), s.index(e)
        s = s[:i] + "\n" + v + "\n" + s[j:]
    open(p, "w").write(s)
    print("fixed %d, open %d" % (sum(f.get("status") == "fixed" for f in fs), sum(f.get("status") != "fixed" for f in fs)))


main()
