#!/usr/bin/env python3
"""Prints a markdown table of the seeded changes under /verif/seeded (from their meta.json)."""
import glob
import json
import os

VERIF = os.path.dirname(os.path.dirname(os.path.abspath(__file__)))
rows = ["| Seeded change | Property | What it changes / what it needs to manifest | Confirmed (demo fails with / passes without, pkg tests pass) | Detected by |",
        "|---|---|---|---|---|"]
n = det = 0
for d in sorted(glob.glob(os.path.join(VERIF, "seeded", "*"))):
    mp = os.path.join(d, "meta.json")
    if not os.path.exists(mp):
        continue
    m = json.load(open(mp))
    v = m.get("verification", {})
    if not v.get("confirmed"):
        status = v.get("status") or "not confirmed"
        rows.append("| %s | %s | %s | %s | - |" % (os.path.basename(d), m.get("property"), (m.get("summary") or "")[:160].replace("|", "/").replace("\n", " "), status[:80]))
        continue
    n += 1
    by = v.get("detected_by") or []
    det += 1 if by else 0
    how = ""
    for c in by:
        outs = v["checks"][c]["out"]
        cases = [o.strip() for o in outs if o.strip().startswith("case:")]
        how = (cases[0][5:].strip()[:110] if cases else "")
    rows.append("| %s | %s | %s NEEDS: %s | yes | %s |" % (
        os.path.basename(d), m.get("property"), (m.get("summary") or "")[:170].replace("|", "/").replace("\n", " "),
        (m.get("needs") or "")[:120].replace("|", "/").replace("\n", " "),
        (", ".join(by) + (" `" + how.replace("|", "/") + "`" if how else "")) if by else "**missed**"))
print("\n".join(rows))
print("\n%d confirmed seeded changes, %d detected." % (n, det))
