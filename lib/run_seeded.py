#!/usr/bin/env python3
"""Confirm a seeded change produced by an independent sub-agent and run our checks against it.

usage: run_seeded.py <dir with patch.diff, demo/, meta.json> [--checks C01,C04] [--tier quick]
Steps (all in a scratch worktree of /repo, removed afterwards):
  1. git apply patch.diff on the current HEAD; go build ./...
  2. demo passes WITHOUT the patch and FAILS with it
  3. the tests of the packages the patch touches still pass with it
  4. VERIF_REPO=<worktree> ./check <property> for the property (and any extra checks)
Writes /verif/seeded/<id>/{patch.diff,demo/,meta.json}."""
import json
import os
import shutil
import subprocess
import sys
import time

VERIF = os.path.dirname(os.path.dirname(os.path.abspath(__file__)))
ENV = dict(os.environ, GOFLAGS="-mod=mod", GOPROXY="off", GOWORK="off")


def sh(cmd, cwd=None, timeout=3600, env=None):
    p = subprocess.run(cmd, cwd=cwd, shell=isinstance(cmd, str), stdout=subprocess.PIPE, stderr=subprocess.STDOUT, text=True,
                       timeout=timeout, env=env or ENV)
    return p.returncode, p.stdout


def main():
    src = sys.argv[1].rstrip("/")
    sid = os.path.basename(src)
    extra = []
    tier = "quick"
    for i, a in enumerate(sys.argv):
        if a == "--checks":
            extra = sys.argv[i + 1].split(",")
        if a == "--tier":
            tier = sys.argv[i + 1]
    meta = json.load(open(os.path.join(src, "meta.json")))
    prop = meta["property"]
    wt = "/tmp/wt-seed-%s" % sid
    sh("git -C /repo worktree remove --force %s" % wt)
    rc, out = sh("git -C /repo worktree add -q %s HEAD" % wt)
    res = {"id": sid, "property": prop, "summary": meta.get("summary"), "needs": meta.get("needs"), "ran": {}}
    try:
        demo_dir = os.path.join(src, "demo")
        demos = []
        paths = meta.get("demo_path_in_repo")
        if isinstance(paths, str):
            paths = [paths]
        for rel, tgt in (meta.get("demo_map") or {}).items():
            os.makedirs(os.path.dirname(os.path.join(wt, tgt)), exist_ok=True)
            shutil.copy(os.path.join(demo_dir, rel), os.path.join(wt, tgt))
            demos.append(tgt)
        files = sorted(f for f in os.listdir(demo_dir) if os.path.isfile(os.path.join(demo_dir, f)))
        for f in files:
            tgt = None
            for p in (paths or []):
                if os.path.basename(p) == f:
                    tgt = p
            if tgt is None and paths and len(paths) == 1 and len(files) == 1:
                tgt = paths[0]
            if tgt is None:
                continue
            tgt = tgt.lstrip("./")
            os.makedirs(os.path.dirname(os.path.join(wt, tgt)), exist_ok=True)
            shutil.copy(os.path.join(demo_dir, f), os.path.join(wt, tgt))
            demos.append(tgt)
        run = meta.get("demo_run", "")
        # 2a. demo without the patch
        rc0, out0 = sh(run, cwd=wt, timeout=1800)
        res["ran"]["demo_without_patch"] = {"cmd": run, "rc": rc0}
        rc, out = sh("git apply %s" % os.path.join(src, "patch.diff"), cwd=wt)
        if rc != 0:
            res["status"] = "patch does not apply to current HEAD: " + out[-300:]
            return res
        rc, out = sh("go build ./...", cwd=wt, timeout=1800)
        res["ran"]["build"] = rc
        if rc != 0:
            res["status"] = "does not build: " + out[-500:]
            return res
        rc1, out1 = sh(run, cwd=wt, timeout=1800)
        res["ran"]["demo_with_patch"] = {"cmd": run, "rc": rc1, "tail": out1[-400:]}
        # 3. tests of the touched packages (demo files excluded by -skip of their test names is not possible generically:
        #    remove the demo files first)
        for d in demos:
            os.remove(os.path.join(wt, d))
        rcx, touched = sh("git diff --name-only", cwd=wt)
        pkgs = sorted({"./" + os.path.dirname(f) + "/" for f in touched.split() if f.endswith(".go")})
        slow = [p for p in pkgs if p.startswith("./pkg/capture/") and p.count("/") == 3]
        rct, outt = sh("go test -count=1 -timeout 30m " + " ".join(pkgs), cwd=wt, timeout=2400)
        fails = [l for l in outt.splitlines() if l.startswith("--- FAIL") or l.startswith("FAIL")]
        fails = [l for l in fails if "TestResolveInConditional" not in l and "conditions/node" not in l and l.strip() != "FAIL"]
        res["ran"]["package_tests"] = {"pkgs": pkgs, "rc": rct, "failures": fails[:5]}
        res["confirmed"] = (rc0 == 0 and rc1 != 0 and not fails)
        # 4. our checks
        res["checks"] = {}
        for c in [prop] + [e for e in extra if e != prop]:
            t0 = time.time()
            rcc, outc = sh("./check %s --tier %s" % (c, tier), cwd=VERIF, timeout=5400, env=dict(os.environ, VERIF_REPO=wt))
            lines = [l for l in outc.splitlines() if l.startswith("VIOLATION") or l.strip().startswith("case:") or l.startswith(c + ":") or "MACHINERY" in l]
            res["checks"][c] = {"rc": rcc, "wall_s": round(time.time() - t0), "out": lines[:12]}
        res["detected_by"] = [c for c, v in res["checks"].items() if v["rc"] == 1]
        return res
    finally:
        sh("git -C /repo worktree remove --force %s" % wt)
        dst = os.path.join(VERIF, "seeded", sid)
        if res.get("confirmed") or res.get("status"):
            os.makedirs(dst, exist_ok=True)
            shutil.copy(os.path.join(src, "patch.diff"), dst)
            if os.path.isdir(os.path.join(dst, "demo")):
                shutil.rmtree(os.path.join(dst, "demo"))
            shutil.copytree(os.path.join(src, "demo"), os.path.join(dst, "demo"))
            m = dict(meta)
            m["verification"] = res
            json.dump(m, open(os.path.join(dst, "meta.json"), "w"), indent=1)
        print(json.dumps({k: res.get(k) for k in ("id", "confirmed", "status", "detected_by")}))
        if "checks" in res:
            for c, v in res["checks"].items():
                print("  ", c, v["rc"], v["wall_s"], "s", v["out"][:4])


if __name__ == "__main__":
    r = main()
