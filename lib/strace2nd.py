"""strace log of a `vh_store store-write` child  ->  NDJSON events for GPStoreTrace.tla.

Only calls on paths under the scratch database root are kept; every kept call becomes at most one
event named after the GPStore action it implements (see DESIGN.md Appendix A). Calls that have no
effect a reader could see (close, fchmodat, stat, unlink of an already renamed temp file) are
stuttering steps and are dropped.
"""
import json
import re

COLS = ["sip", "dip", "proto", "dport", "bytes_rcvd", "bytes_sent", "pkts_rcvd", "pkts_sent"]
_LINE = re.compile(r'^(\d+)\s+(\w+)\((.*)\)\s+=\s+(-?\d+|\?)(.*)$')
_DAY = re.compile(r'/(\d{10})(_[^/"]*)?$')


def _cstr(s):
    """decode a C-escaped strace string literal body"""
    out = bytearray()
    i = 0
    while i < len(s):
        c = s[i]
        if c == "\\" and i + 1 < len(s):
            n = s[i + 1]
            if n in "01234567":
                j = i + 1
                k = j
                while k < len(s) and k < j + 3 and s[k] in "01234567":
                    k += 1
                out.append(int(s[j:k], 8) & 0xFF)
                i = k
                continue
            m = {"n": 10, "t": 9, "r": 13, '"': 34, "\\": 92, "v": 11, "f": 12, "e": 27, "a": 7, "b": 8}
            if n in m:
                out.append(m[n])
                i += 2
                continue
            if n == "x":
                out.append(int(s[i + 2:i + 4], 16))
                i += 4
                continue
        out.append(ord(c) & 0xFF if ord(c) < 256 else 63)
        i += 1
    return bytes(out)


def parse(path):
    """yield (pid, name, args, ret:int|None, tail) for each completed syscall line; ('killed',) at the end if the
    traced process was killed by a signal"""
    calls = []
    killed = False
    pending = {}
    with open(path, errors="replace") as fh:
        for line in fh:
            line = line.rstrip("\n")
            if "+++ killed by" in line:
                killed = True
                continue
            if "--- SIG" in line or "+++ exited" in line:
                continue
            if line.endswith("<unfinished ...>"):
                mm = re.match(r'^(\d+)\s+(.*)<unfinished \.\.\.>$', line)
                if mm:
                    pending[mm.group(1)] = mm.group(2)
                continue
            mm = re.match(r'^(\d+)\s+<\.\.\. (\w+) resumed>(.*)$', line)
            if mm:
                head = pending.pop(mm.group(1), None)
                if head is None:
                    continue
                line = "%s %s%s" % (mm.group(1), head.rstrip(), mm.group(3).lstrip())
            m = _LINE.match(line)
            if not m:
                continue
            pid, name, args, ret, tail = m.groups()
            if ret == "?":
                continue        # the call was entered but never completed (process killed on entry)
            calls.append((pid, name, args, None if ret == "?" else int(ret), tail))
    return calls, killed


def fs_calls(path, root):
    """the calls relevant to the store model, in order: list of dicts {i, name, path, path2, fd, ret, injected, n, pos, marker}"""
    calls, killed = parse(path)
    fds = {}
    pos = {}
    out = []
    for idx, (pid, name, args, ret, tail) in enumerate(calls):
        inj = "(INJECTED)" in tail
        rec = None
        if name == "write":
            m = re.match(r'^(\d+), "((?:[^"\\]|\\.)*)"(\.\.\.)?, (\d+)$', args)
            if not m:
                continue
            fd, body, _, n = int(m.group(1)), m.group(2), m.group(3), int(m.group(4))
            if fd == 2 and body.startswith("VEVENT "):
                try:
                    ev = json.loads(_cstr(body)[7:].decode())
                except Exception:
                    continue
                rec = {"name": "marker", "marker": ev}
            elif fd in fds:
                rec = {"name": "write", "path": fds[fd], "n": n, "ret": ret, "pos": pos.get(fd, 0),
                       "data": _cstr(body) if not m.group(3) else None}
                if ret is not None and ret > 0:
                    pos[fd] = pos.get(fd, 0) + ret
        elif name == "openat":
            m = re.match(r'^AT_FDCWD, "([^"]*)", ([A-Z_|0-9]+)', args)
            if not m or not m.group(1).startswith(root):
                continue
            p, flags = m.group(1), m.group(2)
            if ret is not None and ret >= 0:
                fds[ret] = p
                pos[ret] = 0
            rec = {"name": "openat", "path": p, "flags": flags, "ret": ret}
        elif name == "close":
            try:
                fd = int(args)
            except ValueError:
                continue
            if fd in fds:
                rec = {"name": "close", "path": fds.pop(fd), "ret": ret}
        elif name == "lseek":
            m = re.match(r'^(\d+), (\d+), SEEK_SET', args)
            if m and int(m.group(1)) in fds:
                rec = {"name": "lseek", "path": fds[int(m.group(1))], "pos": int(m.group(2)), "ret": ret}
                if ret is not None and ret >= 0:
                    pos[int(m.group(1))] = int(m.group(2))
        elif name in ("mkdirat", "fchmodat", "unlinkat", "newfstatat"):
            m = re.match(r'^AT_FDCWD, "([^"]*)"', args)
            if m and m.group(1).startswith(root):
                rec = {"name": name, "path": m.group(1), "ret": ret}
        elif name in ("renameat", "renameat2"):
            m = re.match(r'^AT_FDCWD, "([^"]*)", AT_FDCWD, "([^"]*)"', args)
            if m and m.group(1).startswith(root):
                rec = {"name": "renameat", "path": m.group(1), "path2": m.group(2), "ret": ret}
        elif name in ("fsync", "fdatasync", "ftruncate", "pwrite64", "getdents64"):
            m = re.match(r'^(\d+)', args)
            if m and int(m.group(1)) in fds:
                rec = {"name": name, "path": fds[int(m.group(1))], "ret": ret}
        if rec is None:
            continue
        rec["i"] = idx
        rec["injected"] = inj
        rec["raw"] = name
        out.append(rec)
    return out, killed


def is_day(p):
    return _DAY.search(p) is not None


def to_events(calls, killed):
    """model events; faults are reported for injected failures of calls the model knows"""
    ev = []
    saw_mkdir = False
    in_session = False
    faulted = False
    for c in calls:
        n = c["name"]
        if n == "marker":
            m = c["marker"]
            if m["ev"] == "W_Begin":
                ev.append({"ev": "W_Begin", "bs": [b["id"] for b in m["blks"]],
                           "pays": [[[p[0], p[1]] for p in b["pays"]] for b in m["blks"]]})
                saw_mkdir, in_session, faulted = False, True, False
            elif m["ev"] == "W_Return":
                ev.append({"ev": "W_Return", "res": m["res"], "msg": m.get("msg", "")[:200]})
                in_session = False
            elif m["ev"] == "Observe":
                for k in ("reader_err", "query_err", "list_err"):
                    m[k] = (m.get(k) or "")[:300]
                ev.append(m)
            continue
        if not in_session or faulted:
            continue  # error-path clean-up after a fault is not modelled step by step
        failed = c["ret"] is not None and c["ret"] < 0
        p = c.get("path", "")
        base = p.rsplit("/", 1)[-1]
        if n == "mkdirat":
            if is_day(p):
                if failed and c["injected"]:
                    ev.append({"ev": "Fault", "at": "mkdir"}); faulted = True
                elif not failed:
                    ev.append({"ev": "W_Mkdir"}); saw_mkdir = True
            elif failed and c["injected"]:
                ev.append({"ev": "Fault", "at": "mkdir"}); faulted = True
        elif n == "openat":
            if failed and c["injected"] and "O_DIRECTORY" in c.get("flags", ""):
                # listing the month directory failed (NewDirWriter): the writer has not touched anything yet
                ev.append({"ev": "Fault", "at": "list"}); faulted = True
            elif base == ".blockmeta":
                if not saw_mkdir:
                    ev.append({"ev": "W_Mkdir"}); saw_mkdir = True
                if failed and c["injected"]:
                    ev.append({"ev": "Fault", "at": "openmeta"}); faulted = True
                else:
                    ev.append({"ev": "W_OpenMeta", "present": not failed})
            elif base.endswith(".gpf") and "O_WRONLY" in c.get("flags", ""):
                col = COLS.index(base[:-4]) + 1
                if failed:
                    ev.append({"ev": "Fault", "at": "opencol"}); faulted = True
                else:
                    ev.append({"ev": "W_OpenCol", "c": col})
            elif base.startswith(".tmp-metadata"):
                if failed:
                    ev.append({"ev": "Fault", "at": "mktmp"}); faulted = True
                else:
                    ev.append({"ev": "W_CreateTmp"})
        elif n == "lseek" and base.endswith(".gpf"):
            col = COLS.index(base[:-4]) + 1
            if failed:
                ev.append({"ev": "Fault", "at": "lseek"}); faulted = True
            else:
                ev.append({"ev": "Lseek", "c": col, "pos": c["pos"]})
        elif n == "write":
            if base.endswith(".gpf"):
                col = COLS.index(base[:-4]) + 1
                if failed:
                    ev.append({"ev": "Fault", "at": "fileop"}); faulted = True
                else:
                    ev.append({"ev": "Write", "c": col, "n": c["ret"], "want": c["n"]})
            elif base.startswith(".tmp-metadata"):
                if failed:
                    ev.append({"ev": "Fault", "at": "wrtmp"}); faulted = True
                else:
                    ev.append({"ev": "W_WriteTmp"})
        elif n == "close" and failed and c["injected"] and (base.endswith(".gpf") or base.startswith(".tmp-metadata") or base == ".blockmeta"):
            ev.append({"ev": "Fault", "at": "close_tmp" if base.startswith(".tmp-metadata") else
                       ("close_meta" if base == ".blockmeta" else "close_col")}); faulted = True
        elif n == "fchmodat" and failed and c["injected"]:
            ev.append({"ev": "Fault", "at": "wrtmp"}); faulted = True
        elif n == "renameat":
            if base.startswith(".tmp-metadata"):
                if failed:
                    ev.append({"ev": "Fault", "at": "renmeta"}); faulted = True
                else:
                    ev.append({"ev": "W_RenameMeta"})
            elif is_day(p):
                if failed:
                    ev.append({"ev": "Fault", "at": "rendir"}); faulted = True
                else:
                    ev.append({"ev": "W_RenameDir"})
    if killed:
        ev.append({"ev": "Crash"})
    return ev
