"""Shared machinery for the goProbe TLA+ verification checks.

Everything a check needs that is not property specific lives here:
  * Scratch      - temp directory outside /repo and /verif, removed on exit
  * tlc()        - run TLC on a copy of a spec family under `timeout`, parse counts,
                   coverage, emitted behaviours (<<"TRACE", json>>) and verdicts
  * build_vh()   - build the Go harness binary against /repo's *current* working tree
  * run_vh()     - run a harness sub-command, NDJSON in / NDJSON out
  * Run          - evidence + violation + known-finding bookkeeping for one check run

Exit codes: 0 property held on everything explored, 1 violation (with VIOLATION line),
2 machinery failure (never a verdict).
"""
import hashlib
import json
import os
import re
import shutil
import subprocess
import sys
import tempfile
import time

VERIF = os.path.dirname(os.path.dirname(os.path.abspath(__file__)))
REPO = os.environ.get("VERIF_REPO", "/repo")
SPEC = os.path.join(VERIF, "spec")
HARNESS = os.path.join(VERIF, "harness")
# evidence under /verif describes /repo only: a run against another tree (VERIF_REPO, seeded changes)
# writes its evidence and replay files elsewhere
EVID = os.environ.get("VERIF_EVIDENCE") or (
    os.path.join(VERIF, "evidence") if os.path.realpath(REPO) == "/repo"
    else os.path.join("/tmp", "verif-evidence-" + os.path.basename(os.path.realpath(REPO))))
REPLAYS = os.path.join(EVID, "replays")
NCPU = os.cpu_count() or 4


class MachineryError(Exception):
    """Something in the verification machinery failed (exit 2, never a violation)."""


def goenv(extra=None):
    env = dict(os.environ)
    env.update({"GOFLAGS": "-mod=mod", "GOPROXY": "off", "GOWORK": "off"})
    # GOSUMDB=off / GOTOOLCHAIN=local break the cached go1.25.0 toolchain switch here
    env.pop("GOSUMDB", None)
    env.pop("GOTOOLCHAIN", None)
    if extra:
        env.update(extra)
    return env


class Scratch:
    def __init__(self, prefix="verif-"):
        self.prefix = prefix
        self.path = None

    def __enter__(self):
        base = os.environ.get("VERIF_SCRATCH", tempfile.gettempdir())
        self.path = tempfile.mkdtemp(prefix=self.prefix, dir=base)
        return self.path

    def __exit__(self, *a):
        if self.path and not os.environ.get("VERIF_KEEP"):
            shutil.rmtree(self.path, ignore_errors=True)


# --------------------------------------------------------------------------- TLC

_TRACE_RE = re.compile(r'^<<"(TRACE|MISMATCH|INFO)", (.*)>>$')


def _unquote_tla(s):
    """TLC prints strings with \\" and \\\\ escapes; turn the printed literal back."""
    s = s.strip()
    if s.startswith('"') and s.endswith('"'):
        body = s[1:-1]
        out = []
        i = 0
        while i < len(body):
            c = body[i]
            if c == "\\" and i + 1 < len(body):
                n = body[i + 1]
                if n == "n":
                    out.append("\n")
                elif n == "t":
                    out.append("\t")
                else:
                    out.append(n)
                i += 2
            else:
                out.append(c)
                i += 1
        return "".join(out)
    return s


class TLCResult:
    def __init__(self):
        self.stdout = ""
        self.rc = None
        self.generated = 0
        self.distinct = 0
        self.depth = 0
        self.ok = False            # finished without error
        self.violation = None      # name of violated invariant/property, or "deadlock", or None
        self.error = None          # machinery-level error text
        self.traces = []           # decoded json objects printed as <<"TRACE", "...">>
        self.mismatches = []       # decoded <<"MISMATCH", ...>> payloads
        self.infos = []
        self.coverage = {}         # action -> (distinct, total) when -coverage was on
        self.wall = 0.0
        self.cex = []              # raw counterexample state lines

    def summary(self):
        return {"generated": self.generated, "distinct": self.distinct, "depth": self.depth,
                "violation": self.violation, "wall_s": round(self.wall, 2)}


def tlc(family, module, cfg, *, workers=None, timeout=600, simulate=None, depth=None, seed=None,
        coverage=False, files=None, extra=None, deadlock=None, env_extra=None, heap=None,
        want_traces=True, dfs=False, scratch=None, consts=None):
    """Run TLC on spec/<family>/<module>.tla with <cfg> in a scratch copy.

    files: {name: content-or-path} extra files placed next to the spec (trace NDJSON ...).
    simulate: None or number of behaviours (per worker) for -simulate.
    consts: optional text appended to a copy of the cfg (constant overrides are done by
            writing a fresh cfg: {"cfg_text": "..."} may be passed instead of a name).
    """
    own = None
    if scratch is None:
        own = Scratch("verif-tlc-")
        scratch = own.__enter__()
    try:
        wd = os.path.join(scratch, "spec-%s-%d" % (family, int(time.time() * 1000) % 10 ** 9))
        shutil.copytree(os.path.join(SPEC, family), wd)
        common = os.path.join(SPEC, "common")
        if os.path.isdir(common):
            for f in os.listdir(common):
                if not os.path.exists(os.path.join(wd, f)):
                    shutil.copy(os.path.join(common, f), wd)
        if files:
            for name, content in files.items():
                dst = os.path.join(wd, name)
                if isinstance(content, str) and os.path.exists(content) and "\n" not in content:
                    shutil.copy(content, dst)
                else:
                    with open(dst, "w") as fh:
                        fh.write(content)
        if isinstance(cfg, dict):
            cfgname = "Generated_%s.cfg" % module
            with open(os.path.join(wd, cfgname), "w") as fh:
                fh.write(cfg["cfg_text"])
            cfg = cfgname
        elif consts:
            with open(os.path.join(wd, cfg)) as fh:
                base = fh.read()
            cfgname = "Over_" + cfg
            with open(os.path.join(wd, cfgname), "w") as fh:
                fh.write(base + "\n" + consts + "\n")
            cfg = cfgname
        meta = os.path.join(wd, "meta")
        cmd = ["timeout", str(int(timeout)), "java", "-XX:+UseParallelGC"]
        cmd += ["-Xmx%s" % (heap or "8g"), "-Xss512m"]
        jtmp = os.path.join(wd, "jtmp")       # TLC leaves tlc-<n> directories in java.io.tmpdir
        os.makedirs(jtmp, exist_ok=True)
        cmd += ["-Djava.io.tmpdir=" + jtmp]
        if dfs:
            cmd += ["-Dtlc2.tool.queue.IStateQueue=StateDeque"]
        cmd += ["-cp", "/opt/veriftools/tla/tla2tools.jar:/opt/veriftools/tla/CommunityModules-deps.jar",
                "tlc2.TLC", "-metadir", meta, "-config", cfg, "-nowarning"]
        if workers is None:
            workers = min(NCPU, 8)
        cmd += ["-workers", str(workers)]
        if simulate is not None:
            cmd += ["-simulate", "num=%d" % simulate]
            if depth:
                cmd += ["-depth", str(depth)]
        if seed is not None:
            cmd += ["-seed", str(seed)]
        if coverage:
            cmd += ["-coverage", "1"]
        if deadlock is False:
            cmd += ["-deadlock"]
        if extra:
            cmd += list(extra)
        cmd += [module]
        t0 = time.time()
        env = dict(os.environ)
        env.pop("JAVA_TOOL_OPTIONS", None)
        if env_extra:
            env.update(env_extra)
        p = subprocess.run(cmd, cwd=wd, stdout=subprocess.PIPE, stderr=subprocess.STDOUT, env=env,
                           text=True, errors="replace")
        r = TLCResult()
        r.wall = time.time() - t0
        r.rc = p.returncode
        r.stdout = p.stdout
        _parse_tlc(r, want_traces)
        if p.returncode == 124:
            r.error = "TLC timed out after %ss" % timeout
        return r
    finally:
        if own:
            own.__exit__()


def _parse_tlc(r, want_traces=True):
    out = r.stdout
    for line in out.splitlines():
        m = _TRACE_RE.match(line)
        if m:
            kind, rest = m.group(1), m.group(2)
            if kind == "TRACE" and not want_traces:
                continue
            try:
                payload = json.loads(_unquote_tla(rest)) if rest.strip().startswith('"') else rest
            except Exception:
                payload = rest
            if kind == "TRACE":
                r.traces.append(payload)
            elif kind == "MISMATCH":
                r.mismatches.append(payload)
            else:
                r.infos.append(payload)
            continue
        m = re.match(r"^(\d+) states generated, (\d+) distinct states found", line)
        if m:
            r.generated, r.distinct = int(m.group(1)), int(m.group(2))
        m = re.match(r"^The depth of the complete state graph search is (\d+)", line)
        if m:
            r.depth = int(m.group(1))
        m = re.match(r"^Error: Invariant (\S+) is violated", line)
        if m:
            r.violation = m.group(1)
        m = re.match(r"^Error: Action property (\S+) is violated", line)
        if m:
            r.violation = m.group(1)
        if line.startswith("Error: Temporal properties were violated"):
            r.violation = "temporal"
        if line.startswith("Error: Deadlock reached"):
            r.violation = "deadlock"
        m = re.match(r"^Error: Postcondition (\S+) .*is false", line)
        if m or "POSTCONDITION" in line and "false" in line.lower():
            r.violation = r.violation or "postcondition"
        m = re.match(r"^Error: Assumption .* is false", line)
        if m:
            r.violation = r.violation or "assumption"
        m = re.match(r"^<(\w+) line .* of module (\w+)>: (\d+):(\d+)", line)
        if m:
            r.coverage[m.group(1)] = (int(m.group(3)), int(m.group(4)))
    m = re.search(r"The number of states generated: (\d+)", out)
    if m and not r.generated:
        r.generated = int(m.group(1))
    finished = "Model checking completed. No error has been found." in out or \
               "Finished computing initial states" in out and "Finished in" in out
    simdone = "Simulation" in out and ("Finished in" in out or "states checked" in out)
    if r.violation is None:
        if "Error:" in out and "Model checking completed. No error" not in out:
            errs = [l for l in out.splitlines() if l.startswith("Error:")]
            r.error = "; ".join(errs[:3]) or "TLC error"
        elif r.rc not in (0,) and not finished and not simdone:
            r.error = "TLC exit %s" % r.rc
    r.ok = r.error is None and r.violation is None
    if r.violation:
        # keep the counterexample text
        idx = out.find("Error:")
        r.cex = out[idx:idx + 20000].splitlines()


def sany(family, module):
    with Scratch("verif-sany-") as s:
        wd = os.path.join(s, family)
        shutil.copytree(os.path.join(SPEC, family), wd)
        common = os.path.join(SPEC, "common")
        if os.path.isdir(common):
            for f in os.listdir(common):
                if not os.path.exists(os.path.join(wd, f)):
                    shutil.copy(os.path.join(common, f), wd)
        p = subprocess.run(["timeout", "120", "java", "-Djava.io.tmpdir=" + s, "-cp",
                            "/opt/veriftools/tla/tla2tools.jar:/opt/veriftools/tla/CommunityModules-deps.jar",
                            "tla2sany.SANY", module + ".tla"], cwd=wd, stdout=subprocess.PIPE,
                           stderr=subprocess.STDOUT, text=True)
        ok = p.returncode == 0 and "Semantic errors" not in p.stdout and "***Parse Error***" not in p.stdout \
            and "Fatal" not in p.stdout and "Could not" not in p.stdout
        return ok, p.stdout


# --------------------------------------------------------------------------- Go harness

_BIN_CACHE = {}


def bindir():
    d = os.environ.get("VERIF_BIN", os.path.join(tempfile.gettempdir(), "verif-bin-%d" % os.getuid()))
    os.makedirs(d, exist_ok=True)
    return d


def build_vh(family, tags=("verif",), cgo=True, name=None, pkg=None, race=False):
    """(Re)build the harness binary against /repo's current tree. go's build cache makes this
    cheap when nothing changed; a change anywhere under /repo is picked up."""
    pkg = pkg or "./cmd/vh_%s" % family
    key = (tuple(tags), cgo, pkg, race, REPO)
    if key in _BIN_CACHE:
        return _BIN_CACHE[key]
    if name is None:
        name = "vh_%s-" % family + hashlib.sha1(repr(key).encode()).hexdigest()[:8]
    out = os.path.join(bindir(), name)
    tmp_out = "%s.tmp%d" % (out, os.getpid())      # built aside and renamed: concurrent checks share the directory
    cmd = ["go", "build", "-o", tmp_out]
    if REPO != "/repo":
        # checks can be pointed at a scratch worktree (VERIF_REPO) without touching /repo or harness/go.mod
        alt = os.path.join(bindir(), name + ".mod")
        with open(os.path.join(HARNESS, "go.mod")) as fh:
            mod = fh.read().replace("=> /repo/plugins/contrib", "=> %s/plugins/contrib" % REPO).replace("=> /repo\n", "=> %s\n" % REPO)
        with open(alt, "w") as fh:
            fh.write(mod)
        shutil.copy(os.path.join(REPO, "go.sum"), alt[:-4] + ".sum")
        cmd += ["-modfile", alt]
    else:
        gs = os.path.join(HARNESS, "go.sum")
        if not os.path.exists(gs) or open(gs).read() != open(os.path.join(REPO, "go.sum")).read():
            shutil.copy(os.path.join(REPO, "go.sum"), gs)
    if tags:
        cmd += ["-tags", ",".join(tags)]
    if race:
        cmd += ["-race"]
    cmd += [pkg]
    env = goenv({"CGO_ENABLED": "1" if cgo else "0"})
    t0 = time.time()
    p = subprocess.run(cmd, cwd=HARNESS, stdout=subprocess.PIPE, stderr=subprocess.STDOUT, text=True, env=env)
    if p.returncode != 0:
        raise MachineryError("harness build failed (tags=%s cgo=%s):\n%s" % (tags, cgo, p.stdout[-4000:]))
    os.replace(tmp_out, out)
    _BIN_CACHE[key] = out
    return out


def run_vh(binary, args, *, stdin_lines=None, timeout=600, env_extra=None, cwd=None, check=True, prefix=None):
    """Run the harness; returns (rc, list of decoded JSON output lines, raw stderr)."""
    data = None
    if stdin_lines is not None:
        data = "\n".join(json.dumps(x, separators=(",", ":")) if not isinstance(x, str) else x
                         for x in stdin_lines) + "\n"
    env = dict(os.environ)
    if env_extra:
        env.update(env_extra)
    cmd = list(prefix or []) + [binary] + list(args)
    try:
        p = subprocess.run(cmd, input=data, stdout=subprocess.PIPE, stderr=subprocess.PIPE, text=True,
                           timeout=timeout, env=env, cwd=cwd, errors="replace")
    except subprocess.TimeoutExpired as e:
        raise MachineryError("harness timed out: %s" % " ".join(cmd[:6]))
    outs = []
    for line in p.stdout.splitlines():
        line = line.strip()
        if not line:
            continue
        try:
            outs.append(json.loads(line))
        except Exception:
            outs.append({"_raw": line})
    if check and p.returncode not in (0,):
        raise MachineryError("harness %s failed rc=%s\nstderr: %s\nstdout tail: %s" %
                             (" ".join(args[:3]), p.returncode, p.stderr[-3000:], p.stdout[-1000:]))
    return p.returncode, outs, p.stderr


# --------------------------------------------------------------------------- known findings

def load_known():
    p = os.path.join(VERIF, "known_findings.json")
    if not os.path.exists(p):
        return []
    with open(p) as fh:
        return json.load(fh).get("findings", [])


def _match(desc, pat):
    """pat is a dict; every key must be present in desc with equal value (lists in pat = any of)."""
    for k, v in pat.items():
        if k not in desc:
            return False
        dv = desc[k]
        if isinstance(v, list) and not isinstance(dv, list):
            if dv not in v:
                return False
        elif dv != v:
            return False
    return True


# --------------------------------------------------------------------------- a check run

class Run:
    def __init__(self, prop, level, tier=None, seed=None):
        self.prop = prop
        self.level = level
        self.tier = tier or os.environ.get("VERIF_TIER", "quick")
        if self.tier not in ("quick", "thorough"):
            self.tier = "quick"
        try:
            self.seed = int(seed if seed is not None else os.environ.get("VERIF_SEED", "1"))
        except ValueError:
            self.seed = 1
        self.t0 = time.time()
        self.cov = {"evaluations": 0, "distinct_nontrivial": 0, "rule": "", "samples": [],
                    "states": 0, "transitions": 0, "traces_validated_against_impl": 0}
        self.assumptions = []
        self.violations = []       # (descriptor, replay path)
        self.known_hits = {}       # finding id -> count
        self.notes = []
        self.known = [k for k in load_known() if k.get("property") == prop and k.get("status", "open") == "open"]
        self.drift = []
        self._distinct = set()
        global _current_run
        _current_run = self

    # -- coverage accounting
    def add_tlc(self, r, label=None):
        self.cov["states"] += r.distinct
        self.cov["transitions"] += r.generated
        self.cov.setdefault("tlc_runs", []).append(dict(r.summary(), cfg=label))

    def count(self, n=1):
        self.cov["evaluations"] += n

    def distinct(self, key):
        self._distinct.add(key if isinstance(key, (str, int, tuple)) else json.dumps(key, sort_keys=True))

    def sample(self, s, limit=5):
        if len(self.cov["samples"]) < limit:
            self.cov["samples"].append(s)

    def note(self, s):
        self.notes.append(s)

    # -- verdicts
    def violation(self, descriptor, replay):
        """descriptor: abstract case signature (dict) matched against known_findings.json.
        replay: self-contained JSON-able object to reproduce."""
        for k in self.known:
            if _match(descriptor, k.get("match", {})):
                self.known_hits.setdefault(k["id"], [0, k])[0] += 1
                return False
        os.makedirs(REPLAYS, exist_ok=True)
        blob = json.dumps({"property": self.prop, "descriptor": descriptor, "replay": replay},
                          sort_keys=True, indent=1, default=str)
        h = hashlib.sha1(blob.encode()).hexdigest()[:10]
        path = os.path.join(REPLAYS, "%s-%s.json" % (self.prop, h))
        if len(self.violations) < 20:
            with open(path, "w") as fh:
                fh.write(blob)
        self.violations.append((descriptor, path))
        return True

    def finish(self, exhaustive=None):
        self.cov["distinct_nontrivial"] = max(self.cov["distinct_nontrivial"], len(self._distinct))
        if exhaustive is not None:
            self.cov["exhaustive"] = bool(exhaustive)
        if self.notes:
            self.cov["notes"] = self.notes
        if self.drift:
            self.cov["model_conformance"] = False
            self.cov["drift"] = self.drift[:10]
        if self.known_hits:
            self.cov["known_findings_hit"] = {k: v[0] for k, v in self.known_hits.items()}
        ev = {"property_id": self.prop, "tier": self.tier, "seed": self.seed, "level": self.level,
              "coverage": self.cov, "assumptions": self.assumptions,
              "wall_s": round(time.time() - self.t0, 2), "violations": len(self.violations)}
        os.makedirs(EVID, exist_ok=True)
        with open(os.path.join(EVID, "%s.json" % self.prop), "w") as fh:
            json.dump(ev, fh, indent=1, default=str)
        for kid, (n, k) in self.known_hits.items():
            print("KNOWN-FINDING: property=%s %s [%s, %d case(s)]" % (self.prop, k.get("what", kid), kid, n))
        seen = set()
        for desc, path in self.violations:
            if path in seen:
                continue
            seen.add(path)
            if len(seen) <= 20:
                print("VIOLATION property=%s replay=%s" % (self.prop, path))
                print("  case: %s" % json.dumps(desc, sort_keys=True, default=str)[:400])
        if self.violations:
            print("%s: %d violation(s) [%s tier, seed %d, %.1fs]" % (self.prop, len(self.violations), self.tier,
                                                                    self.seed, time.time() - self.t0))
            return 1
        print("%s: OK  evaluations=%d distinct=%d states=%d traces=%d [%s tier, seed %d, %.1fs]" % (
            self.prop, self.cov["evaluations"], self.cov["distinct_nontrivial"], self.cov["states"],
            self.cov["traces_validated_against_impl"], self.tier, self.seed, time.time() - self.t0))
        return 0


_current_run = None


def require(cond, msg):
    """Machinery self-check. A failing *negative control* (a corrupted case that must be rejected) is evaluated on
    the real code: when the run has already found violations of the property the code under test is not the code
    the control was designed for, so the failed control is recorded instead of turning the verdict into exit 2."""
    if cond:
        return
    r = _current_run
    if r is not None and "negative control" in str(msg).lower() and r.violations:
        r.note("negative control not conclusive on code that violates the property: %s" % msg)
        return
    raise MachineryError(msg)


def expect_tlc_ok(r, what):
    if r.error:
        raise MachineryError("%s: %s\n%s" % (what, r.error, r.stdout[-3000:]))
    return r
