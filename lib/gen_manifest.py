#!/usr/bin/env python3
"""Regenerates /verif/MANIFEST.json from the table below (single source of truth) and validates it."""
import json
import os
import subprocess
import sys

VERIF = os.path.dirname(os.path.dirname(os.path.abspath(__file__)))

import importlib
import glob
sys.path.insert(0, os.path.join(VERIF, "lib"))
sys.path.insert(0, VERIF)

# checks whose machinery exists but is not finished / reviewed yet are not claimed
UNFINISHED = set()

# Every checks/cNN.py that defines MANIFEST = {"level","technique","text","note","ref"} is claimed.
CLAIMED = {}
for f in sorted(glob.glob(os.path.join(VERIF, "checks", "c[0-9]*.py"))):
    name = os.path.basename(f)[:-3]
    mod = importlib.import_module("checks." + name)
    m = getattr(mod, "MANIFEST", None)
    if m and name.upper() not in UNFINISHED:
        CLAIMED[name.upper()] = (m["level"], m["technique"], m["text"], m["note"], m["ref"])

PENDING_REASON = "check not built yet in this round (planned, see DESIGN.md section 6); not claimed until its machinery exists"


def main():
    props = [json.loads(l) for l in open(os.path.join(VERIF, "properties.jsonl"))]
    checks, na = [], []
    for p in props:
        pid = p["id"]
        if pid in CLAIMED:
            lvl, tech, text, note, ref = CLAIMED[pid]
            checks.append({
                "property_id": pid,
                "quick_cmd": "./check %s --tier quick" % pid,
                "thorough_cmd": "./check %s --tier thorough" % pid,
                "evidence_file": "/verif/evidence/%s.json" % pid,
                "replay_cmd_template": "./check %s --replay {path}" % pid,
                "engine": "tlc+vh",
                "level_claimed": {"category": lvl, "text": text, "design_ref": "DESIGN.md section " + ref},
                "level_note": note,
                "technique": tech,
            })
        else:
            na.append({"property_id": pid, "reason": NA.get(pid, PENDING_REASON)})
    hooks = []
    hp = os.path.join(VERIF, "hooks_commits.txt")
    if os.path.exists(hp):
        hooks = [l.split()[0] for l in open(hp) if l.strip() and not l.startswith("#")]
    man = {
        "version": 1,
        "setup_cmd": "./setup.sh",
        "hooks": {
            "guard": "verif (Go build tag)",
            "enable": "harness is built with `go build -tags verif` against /repo via a replace directive (GOFLAGS=-mod=mod GOPROXY=off GOWORK=off)",
            "baseline_off_cmd": "for m in . plugins/contrib; do (cd /repo/$m && GOFLAGS=-mod=mod GOPROXY=off GOWORK=off go test -json -vet=off -count=1 -timeout 25m ./...); done",
            "source_commits": hooks,
            "add_only": True,
        },
        "engines": [
            {"name": "tlc+vh", "path": "/verif/check",
             "serves_properties": sorted(CLAIMED),
             "kind_free_text": "TLA+ specifications under /verif/spec checked by TLC (exhaustive, simulation, trace validation) and bound "
                               "to the Go code by the harness /verif/harness (replay of TLC behaviours; recording of implementation traces)"}
        ],
        "checks": checks,
        "not_applicable": na,
        "notes": "All verdicts come from the behaviour of the real code; TLC counterexamples on the model alone are never reported. "
                 "exit 2 = machinery failure. Known findings: /verif/known_findings.json.",
    }
    with open(os.path.join(VERIF, "MANIFEST.json"), "w") as fh:
        json.dump(man, fh, indent=1)
    # validate
    try:
        import jsonschema
        jsonschema.validate(man, json.load(open("/root/.vp/MANIFEST.schema.json")))
        print("MANIFEST.json valid: %d checks, %d not_applicable" % (len(checks), len(na)))
    except ImportError:
        print("MANIFEST.json written (jsonschema not importable in this python)")


NA = {}

if __name__ == "__main__":
    main()
