#!/usr/bin/env python3
"""Regenerates /verif/MANIFEST.json from the table below (single source of truth) and validates it."""
import json
import os
import subprocess
import sys

VERIF = os.path.dirname(os.path.dirname(os.path.abspath(__file__)))

# id -> (level, technique, level text, level note, design ref)
CLAIMED = {
    "C18": ("model_checking",
            "TLA+ spec FlowMap: TLC exhaustive + TLC-generated behaviours replayed on hashmap + TLC trace validation of seeded runs",
            "FlowMap.tla is an ordinary additive map by construction; TLC checks its algebra exhaustively, every TLC behaviour "
            "(depth 3 exhaustive, depth 60 simulated) is replayed on the real map with Len/Get/full iteration compared after "
            "every step, and long implementation traces (hundreds to thousands of keys, iteration and merge while growing) are "
            "accepted by TLC as behaviours of the spec.",
            "Trusts the harness' key concretisation/projection and TLC; key bytes and counters are sampled from the seed, sizes bounded "
            "by the driver (quick 600 keys, thorough 3000).", "6.5"),
}

PENDING_REASON = "check not built yet in this round (planned, see DESIGN.md section 6); not claimed until its machinery exists"


def main():
    props = [json.loads(l) for l in open(os.path.join(VERIF, "properties.jsonl"))]
    checks, na = [], []
    for p in props:
        pid = p["id"]
        if pid in CLAIMED:
            lvl, tech, text, note, ref = CLAIMED[pid]
            checks.append({
                "property_id": pid,
                "quick_cmd": "./check %s --tier quick" % pid,
                "thorough_cmd": "./check %s --tier thorough" % pid,
                "evidence_file": "/verif/evidence/%s.json" % pid,
                "replay_cmd_template": "./check %s --replay {path}" % pid,
                "engine": "tlc+vh",
                "level_claimed": {"category": lvl, "text": text, "design_ref": "DESIGN.md section " + ref},
                "level_note": note,
                "technique": tech,
            })
        else:
            na.append({"property_id": pid, "reason": NA.get(pid, PENDING_REASON)})
    hooks = []
    hp = os.path.join(VERIF, "hooks_commits.txt")
    if os.path.exists(hp):
        hooks = [l.split()[0] for l in open(hp) if l.strip() and not l.startswith("#")]
    man = {
        "version": 1,
        "setup_cmd": "./setup.sh",
        "hooks": {
            "guard": "verif (Go build tag)",
            "enable": "harness is built with `go build -tags verif` against /repo via a replace directive (GOFLAGS=-mod=mod GOPROXY=off GOWORK=off)",
            "baseline_off_cmd": "for m in . plugins/contrib; do (cd /repo/$m && GOFLAGS=-mod=mod GOPROXY=off go test -vet=off -count=1 -timeout 25m ./...) || exit 1; done",
            "source_commits": hooks,
            "add_only": True,
        },
        "engines": [
            {"name": "tlc+vh", "path": "/verif/check",
             "serves_properties": sorted(CLAIMED),
             "kind_free_text": "TLA+ specifications under /verif/spec checked by TLC (exhaustive, simulation, trace validation) and bound "
                               "to the Go code by the harness /verif/harness (replay of TLC behaviours; recording of implementation traces)"}
        ],
        "checks": checks,
        "not_applicable": na,
        "notes": "All verdicts come from the behaviour of the real code; TLC counterexamples on the model alone are never reported. "
                 "exit 2 = machinery failure. Known findings: /verif/known_findings.json.",
    }
    with open(os.path.join(VERIF, "MANIFEST.json"), "w") as fh:
        json.dump(man, fh, indent=1)
    # validate
    try:
        import jsonschema
        jsonschema.validate(man, json.load(open("/root/.vp/MANIFEST.schema.json")))
        print("MANIFEST.json valid: %d checks, %d not_applicable" % (len(checks), len(na)))
    except ImportError:
        print("MANIFEST.json written (jsonschema not importable in this python)")


NA = {}

if __name__ == "__main__":
    main()
