----------------------------- MODULE MergeCommit -----------------------------
(***************************************************************************)
(* How gpdb merge replaces / adds ONE day of ONE interface in the          *)
(* destination database, at file-system granularity (pkg/goDB/merge.go:    *)
(* MergeDatabases, stageCopyDay / rebuildDayToStage, commitStagedDay), and *)
(* what readers make of the destination tree at every point (C25).         *)
(*                                                                         *)
(*   stage root   <dst>/.gpdb-merge-stage-N/           (inside the DB root)*)
(*   staged day   <stage root>/<iface>/<yyyy>/<mm>/<day dir>               *)
(*   backup       <dst>/<iface>/<yyyy>/<mm>/<old day dir>.gpdb-merge-backup-T *)
(*                                                                         *)
(* Readers (query engine walk, interface listing, a later merge) parse     *)
(* directory names: an entry of the DB root that is a directory is an      *)
(* interface; an entry of a month directory whose name starts with the day *)
(* timestamp followed by "_" or nothing is that day.  A backup directory   *)
(* therefore IS a day directory of the same day to them.                   *)
(***************************************************************************)
EXTENDS Integers, Sequences, FiniteSets, TLC

CONSTANTS HasOld      \* sequence of booleans, one per day the merge handles (in order): TRUE = the
                      \* destination already holds the day (it is replaced), FALSE = the day is added

N == Len(HasOld)
DaysIdx == 1..N

VARIABLES
  live,       \* per day: the day directory under its normal name: "none", "old", "new"
  backup,     \* per day: the backup directory: "none", "old", "partial" (being removed file by file)
  stage,      \* per day: the staged copy: "none", "building", "ready"
  stageRoot,  \* the stage root exists in the destination root
  cur,        \* the day being handled
  pc, act

vars == <<live, backup, stage, stageRoot, cur, pc, act>>

Init == /\ live = [d \in DaysIdx |-> IF HasOld[d] THEN "old" ELSE "none"]
        /\ backup = [d \in DaysIdx |-> "none"] /\ stage = [d \in DaysIdx |-> "none"] /\ stageRoot = FALSE
        /\ cur = 1 /\ pc = "start" /\ act = [name |-> "Init"]

\* os.MkdirTemp(destination, ".gpdb-merge-stage-*")
MkStage == /\ pc = "start" /\ stageRoot' = TRUE /\ pc' = IF N = 0 THEN "rmstage" ELSE "build"
           /\ UNCHANGED <<live, backup, stage, cur>> /\ act' = [name |-> "MkStage"]

\* stageCopyDay / rebuildDayToStage: many file operations, all below the stage root
BuildStep == /\ pc = "build" /\ stage' = [stage EXCEPT ![cur] = "building"]
             /\ UNCHANGED <<live, backup, stageRoot, cur, pc>>
             /\ act' = [name |-> "BuildStep", d |-> cur]
BuildDone == /\ pc = "build" /\ stage' = [stage EXCEPT ![cur] = "ready"]
             /\ pc' = IF HasOld[cur] THEN "tobackup" ELSE "movein"
             /\ UNCHANGED <<live, backup, stageRoot, cur>> /\ act' = [name |-> "BuildDone", d |-> cur]

\* commitStagedDay: rename(existing day -> backup)
RenameToBackup == /\ pc = "tobackup" /\ live[cur] = "old"
                  /\ live' = [live EXCEPT ![cur] = "none"] /\ backup' = [backup EXCEPT ![cur] = "old"] /\ pc' = "movein"
                  /\ UNCHANGED <<stage, stageRoot, cur>> /\ act' = [name |-> "RenameToBackup", d |-> cur]

NextDay == IF cur < N THEN /\ cur' = cur + 1 /\ pc' = "build" ELSE /\ cur' = cur /\ pc' = "rmstage"

\* commitStagedDay: rename(staged day -> destination month directory)
RenameStagedIn == /\ pc = "movein" /\ stage[cur] = "ready"
                  /\ live' = [live EXCEPT ![cur] = "new"] /\ stage' = [stage EXCEPT ![cur] = "none"]
                  /\ IF backup[cur] = "old" THEN pc' = "rmbackup" /\ UNCHANGED cur ELSE NextDay
                  /\ UNCHANGED <<backup, stageRoot>> /\ act' = [name |-> "RenameStagedIn", d |-> cur]

\* os.RemoveAll(backup): files first, the directory last
RemoveBackupStep == /\ pc = "rmbackup" /\ backup[cur] \in {"old", "partial"}
                    /\ backup' = [backup EXCEPT ![cur] = "partial"] /\ UNCHANGED <<live, stage, stageRoot, cur, pc>>
                    /\ act' = [name |-> "RemoveBackupStep", d |-> cur]
RemoveBackupDone == /\ pc = "rmbackup" /\ backup' = [backup EXCEPT ![cur] = "none"] /\ NextDay
                    /\ UNCHANGED <<live, stage, stageRoot>> /\ act' = [name |-> "RemoveBackupDone", d |-> cur]

\* deferred os.RemoveAll(stage root)
RemoveStage == /\ pc = "rmstage" /\ stageRoot' = FALSE /\ pc' = "done"
               /\ UNCHANGED <<live, backup, stage, cur>> /\ act' = [name |-> "RemoveStage"]

\* the merge process is killed
Crash == /\ pc \notin {"crashed", "done"} /\ pc' = "crashed"
         /\ UNCHANGED <<live, backup, stage, stageRoot, cur>> /\ act' = [name |-> "Crash", at |-> pc]

Next == MkStage \/ BuildStep \/ BuildDone \/ RenameToBackup \/ RenameStagedIn
        \/ RemoveBackupStep \/ RemoveBackupDone \/ RemoveStage \/ Crash
Spec == Init /\ [][Next]_vars

-----------------------------------------------------------------------------
(* What readers see *)

\* the data sets a query over day d returns ("old" and "new" together = both are counted)
DayView(d) == (IF live[d] # "none" THEN {live[d]} ELSE {})
              \cup (IF backup[d] = "old" THEN {"old"} ELSE {})
              \cup (IF backup[d] = "partial" THEN {"damaged"} ELSE {})
\* names listed as interfaces besides the real ones.  StageListed = TRUE is the code before fix "merge
\* staging directory is not an interface" (info.GetInterfaces listed every directory of the database root)
StageListed == FALSE
BogusInterfaces == IF stageRoot /\ StageListed THEN {"stage-root"} ELSE {}

Pre(d) == IF HasOld[d] THEN {"old"} ELSE {}

\* C25: at every moment - in particular after a crash anywhere - every day shows its data from
\* before the merge or its merged data, never both, never neither, never damaged
EitherOr == \A d \in DaysIdx : DayView(d) \in {Pre(d), {"new"}}
\* C25: leftovers are not mistaken for interfaces
NoBogusInterface == pc \in {"crashed"} => BogusInterfaces = {}

\* As built the invariants do not hold; the deviations are named (known findings):
\*   KF-merge-backup-is-a-day : after RenameStagedIn and until the backup is gone both directories
\*                              parse as the same day (double counting / damaged day / later merge
\*                              refuses with "duplicate day")
\*   (KF-merge-stage-root-is-an-interface, repaired: a left-over stage root was listed as an interface)
KF_BackupIsADay(d) == live[d] = "new" /\ backup[d] # "none"
EitherOrKF == \A d \in DaysIdx : DayView(d) \in {Pre(d), {"new"}} \/ KF_BackupIsADay(d)
=============================================================================
