-------------------------- MODULE MergeCommitTrace --------------------------
(***************************************************************************)
(* Trace validation for C25: the system calls of a real `gpdb merge`       *)
(* (goDB.MergeDatabases in a child under strace, killed at a chosen call)  *)
(* mapped to MergeCommit actions, followed by Observe events: what the     *)
(* real query engine, interface listing and a later merge make of the      *)
(* destination.  Experiments are separated by Reset events.                *)
(***************************************************************************)
EXTENDS MergeCommit, Json

TraceLog == ndJsonDeserialize("trace.ndjson")
VARIABLE l
tvars == <<vars, l>>

ResetAll == /\ live' = [d \in DaysIdx |-> IF HasOld[d] THEN "old" ELSE "none"]
            /\ backup' = [d \in DaysIdx |-> "none"] /\ stage' = [d \in DaysIdx |-> "none"] /\ stageRoot' = FALSE
            /\ cur' = 1 /\ pc' = "start" /\ act' = [name |-> "Reset"]

Stutter == UNCHANGED vars
ToSeq(x) == x
DayKey(d) == ToString(d)

\* what the observers must show for day d given the model state
DayOK(e, d) ==
  LET ids == e.days[DayKey(d)]
  IN /\ e.doubled[DayKey(d)] = <<>> /\ e.other[DayKey(d)] = 0
     /\ (ids = e.pre[DayKey(d)] \/ ids = e.post[DayKey(d)])

Verdict(e) ==
  [line |-> l,
   \* property level (C25)
   query_ok |-> e.query_err = "",
   days_ok |-> [d \in DaysIdx |-> DayOK(e, d)],
   ifaces_ok |-> e.ifaces = <<"eth0">> /\ e.any_err = "",
   remerge_ok |-> e.remerge_err = "" /\ e.after_err = "" /\ \A d \in DaysIdx : e.after_days[DayKey(d)] = e.post[DayKey(d)],
   \* conformance level: observation agrees with what the model says readers see
   conf_days |-> [d \in DaysIdx |->
                    CASE DayView(d) = {"old"} -> e.days[DayKey(d)] = e.pre[DayKey(d)]
                      [] DayView(d) = {"new"} -> e.days[DayKey(d)] = e.post[DayKey(d)]
                      [] DayView(d) = {} -> e.days[DayKey(d)] = <<>>
                      [] OTHER -> TRUE],
   \* model state used to classify deviations
   backup_is_a_day |-> [d \in DaysIdx |-> KF_BackupIsADay(d)],
   stage_root |-> stageRoot, pc |-> pc, model_either_or |-> EitherOr]

Step(e) ==
  CASE e.ev = "Reset"            -> ResetAll
    [] e.ev = "M_Begin"          -> Stutter
    [] e.ev = "M_Return"         -> Stutter /\ pc = "done"
    [] e.ev = "MkStage"          -> MkStage
    [] e.ev = "BuildStep"        -> BuildStep /\ cur = e.d
    [] e.ev = "BuildDone"        -> BuildDone /\ cur = e.d
    [] e.ev = "RenameToBackup"   -> RenameToBackup /\ cur = e.d
    [] e.ev = "RenameStagedIn"   -> RenameStagedIn /\ cur = e.d
    [] e.ev = "RemoveBackupStep" -> RemoveBackupStep /\ cur = e.d
    [] e.ev = "RemoveBackupDone" -> RemoveBackupDone /\ cur = e.d
    [] e.ev = "RemoveStage"      -> RemoveStage
    [] e.ev = "Crash"            -> IF pc \in {"done", "crashed"} THEN Stutter ELSE Crash
    [] e.ev = "Observe"          -> Stutter /\ PrintT(<<"INFO", ToJson(Verdict(e))>>)

TraceInit == Init /\ l = 1
TraceNext == /\ l <= Len(TraceLog) /\ Step(TraceLog[l]) /\ l' = l + 1
TraceSpec == TraceInit /\ [][TraceNext]_tvars

TraceAccepted ==
  IF TLCGet("stats").diameter - 1 = Len(TraceLog) THEN TRUE
  ELSE PrintT(<<"MISMATCH", ToJson([consumed |-> TLCGet("stats").diameter - 1, total |-> Len(TraceLog)])>>) /\ FALSE
=============================================================================
