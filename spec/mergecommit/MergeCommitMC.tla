---------------------------- MODULE MergeCommitMC ----------------------------
EXTENDS MergeCommit
MCDays == <<TRUE, FALSE>>
MCDays3 == <<TRUE, FALSE, TRUE>>
=============================================================================
