------------------------- MODULE MergeCommitTraceMC -------------------------
EXTENDS MergeCommitTrace
TrDays == <<TRUE, FALSE>>
=============================================================================
