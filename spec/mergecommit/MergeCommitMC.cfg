SPECIFICATION Spec
CONSTANTS
  HasOld <- MCDays
INVARIANTS EitherOrKF NoBogusInterface
CHECK_DEADLOCK FALSE
