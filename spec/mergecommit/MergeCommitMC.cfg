SPECIFICATION Spec
CONSTANTS
  HasOld <- MCDays
INVARIANTS EitherOrKF
CHECK_DEADLOCK FALSE
