SPECIFICATION TraceSpec
CONSTANTS
  HasOld <- TrDays
POSTCONDITION TraceAccepted
CHECK_DEADLOCK FALSE
