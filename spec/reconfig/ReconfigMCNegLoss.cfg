SPECIFICATION Spec
CONSTANTS
  Links <- DLinks
  Matches <- DMatches
  CfgSet <- MCCfgs
  StopFlushes = FALSE
  FullEquals = TRUE
  MaxPackets = 3
  MaxUpdates = 3
INVARIANTS TypeOK Converged NoLoss NoLossOnStop
PROPERTIES OnlyUpdateChangesCaptures
CONSTRAINT Bound
VIEW View
CHECK_DEADLOCK FALSE
