------------------------------ MODULE Reconfig ------------------------------
(***************************************************************************)
(* Capture reconfiguration of goProbe (property C27).                      *)
(*                                                                         *)
(* The capture manager holds one running capture per selected interface.   *)
(* Manager.Update(cfg) brings it to a new configuration in the steps of    *)
(* the code (capture_manager.go, Update -> updateSelected -> update):      *)
(*                                                                         *)
(*   BeginUpdate(c)  select the interfaces of c on the host (explicit      *)
(*                   names first, then regexp patterns), diff against the  *)
(*                   running captures: `dis` = captures to stop (removed   *)
(*                   or parameters changed), `en` = captures to start      *)
(*   FinalWriteout   write out the flows of all captures in `dis`          *)
(*   StopAll         close the captures in `dis`                           *)
(*   StartAll        start the captures in `en` with their parameters      *)
(*                                                                         *)
(* with traffic (Packets) arriving at any point in between.  What the      *)
(* property demands:                                                       *)
(*   Converged   after an update the running captures are exactly the      *)
(*               interfaces the latest configuration selects, each with    *)
(*               the parameters the configuration gives it.  Where two     *)
(*               patterns with different parameters match one interface    *)
(*               the choice is free but FIXED: `choice` is an arbitrary    *)
(*               function of (configuration, interface), chosen once.      *)
(*   NoLoss      every packet a capture has counted is in the database or  *)
(*               still in the memory of a running capture; in particular   *)
(*               everything counted on an interface is in the database     *)
(*               once its capture is stopped.                              *)
(*                                                                         *)
(* Configurations are finite maps from entry keys (interface names and     *)
(* regexp patterns) to parameter records [promisc, rb, vlans, bpf,         *)
(* disable]: the five fields of config.CaptureConfig (rb = ring buffer     *)
(* variant, 0 = none; bpf = number of extra BPF instructions).  What a     *)
(* pattern matches is the table Matches (the harness checks it against the *)
(* real regexps).  An entry with disable = TRUE "explicitly disables       *)
(* capture on this interface" (config.go): such an interface is not        *)
(* selected.                                                               *)
(*                                                                         *)
(* Switches (TRUE = what the property demands; FALSE = deviation used by   *)
(* the negative runs, which must fail):                                    *)
(*   StopFlushes   stopping a capture writes out what it still holds; with *)
(*                 FALSE packets counted between the final write-out and   *)
(*                 the stop are dropped (NoLoss fails)                     *)
(*   FullEquals    the diff compares all parameters; with FALSE only       *)
(*                 promisc and rb (Converged fails)                        *)
(***************************************************************************)
EXTENDS Integers, Sequences, FiniteSets, TLC

CONSTANTS Links,        \* the host's interfaces
          Matches,      \* pattern -> set of links the pattern matches
          CfgSet,       \* the configurations that may be applied
          StopFlushes, FullEquals

VARIABLES st,       \* [cfg, running, log, db, counted, pc, dis, en, upd]; counted and upd (number of
                    \* updates begun) are ghosts
          choice,   \* <<configuration, link>> -> parameters, for links with several candidates
          act
vars == <<st, choice, act>>

Patterns == DOMAIN Matches
NoMap == <<>>
NoCfg == <<>>

(***************************************************************************)
(* Selection                                                               *)
(***************************************************************************)
HasRe(c) == \E k \in DOMAIN c : k \in Patterns
\* the parameter records configuration c offers interface l: its explicit entry, otherwise the
\* entries of all patterns matching it
Cands(c, l) == IF l \in DOMAIN c THEN {c[l]}
               ELSE {c[p] : p \in {p \in DOMAIN c \cap Patterns : l \in Matches[p]}}
\* without patterns the configuration names its interfaces itself; with patterns the host's
\* interfaces are matched
Considered(c) == IF HasRe(c) THEN Links ELSE DOMAIN c
Ambiguous(c, l) == Cardinality(Cands(c, l)) > 1
AmbiguousPairs == {x \in CfgSet \X Links : Ambiguous(x[1], x[2])}
ParamOf(ch, c, l) == IF Ambiguous(c, l) THEN ch[<<c, l>>] ELSE CHOOSE p \in Cands(c, l) : TRUE
Selected(ch, c) == {l \in Considered(c) : Cands(c, l) # {} /\ ~ParamOf(ch, c, l).disable}
Target(ch, c) == [l \in Selected(ch, c) |-> ParamOf(ch, c, l)]

SameParams(a, b) == IF FullEquals THEN a = b ELSE a.promisc = b.promisc /\ a.rb = b.rb

(***************************************************************************)
(* State transformers (one per step of the code)                           *)
(***************************************************************************)
Zeros == [l \in Links |-> 0]
St0 == [cfg |-> NoCfg, running |-> NoMap, log |-> Zeros, db |-> Zeros, counted |-> Zeros,
        pc |-> "idle", dis |-> {}, en |-> {}, upd |-> 0]

Without(f, S) == [x \in DOMAIN f \ S |-> f[x]]
With(f, g) == [x \in DOMAIN f \cup DOMAIN g |-> IF x \in DOMAIN g THEN g[x] ELSE f[x]]

\* one packet on every running interface in S
DoPackets(s, S) ==
  LET hit == S \cap DOMAIN s.running
  IN [s EXCEPT !.log = [l \in Links |-> s.log[l] + (IF l \in hit THEN 1 ELSE 0)],
               !.counted = [l \in Links |-> s.counted[l] + (IF l \in hit THEN 1 ELSE 0)]]

DoBegin(s, ch, c) ==
  LET tgt == Target(ch, c)
      changed == {l \in DOMAIN s.running \cap DOMAIN tgt : ~SameParams(tgt[l], s.running[l])}
  IN [s EXCEPT !.cfg = c, !.pc = "diffed", !.upd = s.upd + 1,
               !.dis = (DOMAIN s.running \ DOMAIN tgt) \cup changed,
               !.en  = (DOMAIN tgt \ DOMAIN s.running) \cup changed]

DoFinal(s) ==
  [s EXCEPT !.pc = "written",
            !.db  = [l \in Links |-> s.db[l] + (IF l \in s.dis THEN s.log[l] ELSE 0)],
            !.log = [l \in Links |-> IF l \in s.dis THEN 0 ELSE s.log[l]]]

DoStop(s) ==
  [s EXCEPT !.pc = "stopped",
            !.running = Without(s.running, s.dis),
            !.db  = [l \in Links |-> s.db[l] + (IF l \in s.dis /\ StopFlushes THEN s.log[l] ELSE 0)],
            !.log = [l \in Links |-> IF l \in s.dis THEN 0 ELSE s.log[l]]]

DoStart(s, ch) ==
  [s EXCEPT !.pc = "idle", !.dis = {}, !.en = {},
            !.running = With(s.running, [l \in s.en |-> ParamOf(ch, s.cfg, l)])]

\* Manager.Update as a whole, with one packet on every running interface of W inside the window
\* between the final write-out and the stop
DoUpdate(s, ch, c, W) == DoStart(DoStop(DoPackets(DoFinal(DoBegin(s, ch, c)), W)), ch)

(***************************************************************************)
(* Actions                                                                 *)
(***************************************************************************)
ChoiceFns == {f \in [AmbiguousPairs -> UNION {Cands(x[1], x[2]) : x \in AmbiguousPairs}] :
              \A x \in AmbiguousPairs : f[x] \in Cands(x[1], x[2])}

Init == st = St0 /\ choice \in ChoiceFns /\ act = [name |-> "Init"]

Packets(S) == /\ S \cap DOMAIN st.running # {}
              /\ st' = DoPackets(st, S) /\ UNCHANGED choice
              /\ act' = [name |-> "Packets", s |-> S]
BeginUpdate(c) == /\ st.pc = "idle"
                  /\ st' = DoBegin(st, choice, c) /\ UNCHANGED choice
                  /\ act' = [name |-> "BeginUpdate", cfg |-> c]
FinalWriteout == /\ st.pc = "diffed"
                 /\ st' = DoFinal(st) /\ UNCHANGED choice
                 /\ act' = [name |-> "FinalWriteout"]
StopAll == /\ st.pc = "written"
           /\ st' = DoStop(st) /\ UNCHANGED choice
           /\ act' = [name |-> "StopAll"]
StartAll == /\ st.pc = "stopped"
            /\ st' = DoStart(st, choice) /\ UNCHANGED choice
            /\ act' = [name |-> "StartAll"]

Next == \/ \E S \in SUBSET Links : Packets(S)
        \/ \E c \in CfgSet : BeginUpdate(c)
        \/ FinalWriteout \/ StopAll \/ StartAll
Spec == Init /\ [][Next]_vars

(***************************************************************************)
(* Observables (between updates)                                           *)
(***************************************************************************)
ObsOf(s) == [running |-> s.running, db |-> s.db, log |-> s.log]
Obs == ObsOf(st)

(***************************************************************************)
(* Properties                                                              *)
(***************************************************************************)
TypeOK == /\ st.pc \in {"idle", "diffed", "written", "stopped"}
          /\ DOMAIN st.running \subseteq Links
          /\ st.dis \subseteq Links /\ st.en \subseteq Links

Converged == st.pc = "idle" /\ st.cfg # NoCfg => st.running = Target(choice, st.cfg)

NoLoss == \A l \in Links : st.db[l] + st.log[l] = st.counted[l]
NoLossOnStop == \A l \in Links \ DOMAIN st.running : st.db[l] = st.counted[l]

\* the running set only changes in StopAll / StartAll, the database only in write-outs (and stops)
OnlyUpdateChangesCaptures ==
  [][act'.name \in {"Packets", "BeginUpdate", "FinalWriteout"} => st'.running = st.running]_vars
=============================================================================
