SPECIFICATION TraceSpec
CONSTANTS
  Links <- DLinks
  Matches <- DMatches
  CfgSet <- AllCfgs
  StopFlushes = TRUE
  FullEquals = TRUE
POSTCONDITION TraceAccepted
CHECK_DEADLOCK FALSE
