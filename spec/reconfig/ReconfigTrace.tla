---------------------------- MODULE ReconfigTrace ----------------------------
(***************************************************************************)
(* Trace validation (code -> spec) for C27, with the choice function as a  *)
(* witness built from the trace.                                           *)
(*                                                                         *)
(* The Go driver runs configuration histories that contain overlapping     *)
(* patterns on many fresh managers and logs one event per step:            *)
(*   Reset                 a fresh manager (empty database)                *)
(*   Packets  s            one packet on every running interface of s      *)
(*   Update   cfg win ...  Manager.Update(cfg) with window packets on win, *)
(*                         and what the manager showed afterwards: running *)
(*                         captures with the parameters they were started  *)
(*                         with, packets in the database / in memory       *)
(*   Crash    cfg note     Manager.Update(cfg) panicked, hung or failed    *)
(* The property lets the implementation choose among the candidates of an  *)
(* interface matched by several patterns, but the choice must be a fixed   *)
(* function of (configuration, interface).  `wit` is that function as far  *)
(* as the trace has revealed it: it survives Reset, the first observation  *)
(* of a pair defines it, every later observation (same manager or another) *)
(* must agree.  The trace is accepted iff every Update event is the        *)
(* specification's DoUpdate under a choice function extending `wit`.       *)
(* A rejected event prints MISMATCH and the rest of that manager's events  *)
(* is skipped (the model cannot follow a manager that left it).            *)
(***************************************************************************)
EXTENDS Reconfig, ReconfigDom, Json

TraceLog == ndJsonDeserialize("trace.ndjson")

VARIABLES l, wit, skip
tvars == <<vars, l, wit, skip>>

SetOf(s) == {s[j] : j \in DOMAIN s}
Par5(p) == [promisc |-> p.promisc, rb |-> p.rb, vlans |-> p.vlans, bpf |-> p.bpf, disable |-> p.disable]
CfgOf(c) == [k \in DOMAIN c |-> Par5(c[k])]
EntryOf(e, i) == e.running[CHOOSE j \in DOMAIN e.running : e.running[j].i = i]
RunningOf(e) == [i \in {e.running[j].i : j \in DOMAIN e.running} |-> Par5(EntryOf(e, i).p)]
Counts(f) == [x \in Links |-> f[x]]

\* ambiguous interfaces of configuration c whose choice the event shows
Shown(c, obs) == {x \in Links : Ambiguous(c, x) /\ x \in DOMAIN obs}
Conflict(c, obs) == \E x \in Shown(c, obs) : <<c, x>> \in DOMAIN wit /\ wit[<<c, x>>] # obs[x]
NotCandidate(c, obs) == \E x \in Shown(c, obs) : obs[x] \notin Cands(c, x)
Extend(c, obs) == [p \in DOMAIN wit \cup {<<c, x>> : x \in Shown(c, obs)} |->
                     IF p \in DOMAIN wit THEN wit[p] ELSE obs[p[2]]]
\* a total choice function extending w (pairs the trace has not shown yet: any candidate)
Total(w) == [p \in AmbiguousPairs |-> IF p \in DOMAIN w THEN w[p] ELSE CHOOSE q \in Cands(p[1], p[2]) : TRUE]

\* why an Update event is rejected ("" = accepted); m = model state after the update
Verdict(e, c, obs, m) ==
  IF c \notin CfgSet THEN "unknown-configuration"
  ELSE IF NotCandidate(c, obs) THEN "not-a-candidate"
  ELSE IF Conflict(c, obs) THEN "choice-conflict"
  ELSE IF DOMAIN obs # DOMAIN m.running THEN "running-set"
  ELSE IF obs # m.running THEN "params"
  ELSE IF Counts(e.db) # m.db THEN "db"
  ELSE IF Counts(e.log) # m.log THEN "log"
  ELSE ""

After(e) == DoUpdate(st, Total(Extend(CfgOf(e.cfg), RunningOf(e))), CfgOf(e.cfg), SetOf(e.win))

TraceInit == st = St0 /\ choice = <<>> /\ act = [name |-> "Init"] /\ l = 1 /\ wit = <<>> /\ skip = FALSE

StepReset == st' = St0 /\ skip' = FALSE /\ wit' = wit /\ act' = [name |-> "Reset"]
StepSkip  == UNCHANGED <<st, wit, skip>> /\ act' = [name |-> "Skip"]
StepCrash(e) == /\ PrintT(<<"MISMATCH", ToJson([line |-> l, kind |-> "crash", cfg |-> CfgOf(e.cfg), note |-> e.note])>>)
                /\ skip' = TRUE /\ UNCHANGED <<st, wit>> /\ act' = [name |-> "Rejected"]
StepPackets(e) == st' = DoPackets(st, SetOf(e.s)) /\ UNCHANGED <<wit, skip>> /\ act' = [name |-> "Packets"]
StepUpdate(e) ==
  LET c == CfgOf(e.cfg)
      obs == RunningOf(e)
  IN IF Verdict(e, c, obs, After(e)) = ""
     THEN /\ st' = After(e) /\ wit' = Extend(c, obs) /\ skip' = FALSE
          /\ act' = [name |-> "Update"]
     ELSE /\ PrintT(<<"MISMATCH", ToJson([line |-> l, kind |-> Verdict(e, c, obs, After(e)), cfg |-> c,
                                           observed |-> obs, model |-> ObsOf(After(e)),
                                           witness |-> [p \in {p \in DOMAIN wit : p[1] = c} |-> wit[p]]])>>)
          /\ skip' = TRUE /\ UNCHANGED <<st, wit>>
          /\ act' = [name |-> "Rejected"]

TraceNext ==
  /\ l <= Len(TraceLog)
  /\ l' = l + 1
  /\ UNCHANGED choice
  /\ LET e == TraceLog[l] IN
       IF e.ev = "Reset" THEN StepReset
       ELSE IF skip THEN StepSkip
       ELSE IF e.ev = "Packets" THEN StepPackets(e)
       ELSE IF e.ev = "Crash" THEN StepCrash(e)
       ELSE StepUpdate(e)
TraceSpec == TraceInit /\ [][TraceNext]_tvars

TraceAccepted ==
  \/ TLCGet("stats").diameter - 1 = Len(TraceLog)
  \/ PrintT(<<"INFO", ToJson([consumed |-> TLCGet("stats").diameter - 1, total |-> Len(TraceLog)])>>) /\ FALSE
=============================================================================
