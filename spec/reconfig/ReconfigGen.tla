----------------------------- MODULE ReconfigGen -----------------------------
(***************************************************************************)
(* Behaviour generator for forward replay (spec -> code) of C27.           *)
(*                                                                         *)
(* A behaviour is a configuration history c1 .. cn over GenCfgs (the       *)
(* configurations without a free choice; overlapping patterns with         *)
(* different parameters are the business of ReconfigTrace) executed as     *)
(*     Packets(Links) ; Update(c1, W) ; Packets(Links) ; Update(c2, W) ... *)
(* i.e. one packet on every running interface before each update and - if  *)
(* the history's window flag is set - one more on every running interface  *)
(* between the final write-out and the stop of that update.  After every   *)
(* step the observables the specification predicts are recorded: running   *)
(* captures with their parameters, packets in the database and in memory   *)
(* per interface.  Update(c, W) is the composition of the specification's  *)
(* steps BeginUpdate ; FinalWriteout ; Packets(W) ; StopAll ; StartAll.    *)
(*                                                                         *)
(* GenSet: "h1" .. "h4" = all histories of exactly that length (both       *)
(* window flags); "upto2", "upto3" = all histories up to that length;      *)
(* "h4s" = a seeded tenth of the histories of length four; "restart" = one *)
(* interface reconfigured forty times in a row (no window traffic);        *)
(* "quick" = upto2 + restart, "thorough" = upto3 + h4s + restart.          *)
(***************************************************************************)
EXTENDS Reconfig, ReconfigDom, Json
CONSTANTS GenSet, Seed
VARIABLES sched, pos, hist, done
LOCAL INSTANCE SequencesExt

GenCfgs == PlainCfgs

Pk == [a |-> "P"]
Up(c, w) == [a |-> "U", cfg |-> c, win |-> w]
\* history f (a sequence of configurations) with window flag w as a schedule
Sched(f, w) == [j \in 1..(2 * Len(f)) |-> IF j % 2 = 1 THEN Pk ELSE Up(f[j \div 2], IF w THEN Links ELSE {})]
           \o <<Pk>>
Hist(n) == {Sched(f, w) : f \in [1..n -> GenCfgs], w \in BOOLEAN}
\* every tenth history of length four (which tenth depends on the seed)
Hist4Sample == LET q == SetToSeq([1..4 -> GenCfgs])
               IN {Sched(q[j], w) : j \in {j \in 1..Len(q) : j % 10 = Seed % 10}, w \in BOOLEAN}
\* restart stress: e0 is reconfigured (promiscuous mode on / off) forty times in a row
RestartScheds == {Sched([j \in 1..40 |-> IF j % 2 = 1 THEN C2 ELSE C3], FALSE)}
Scheds == CASE GenSet = "h1" -> Hist(1)
            [] GenSet = "h2" -> Hist(2)
            [] GenSet = "h3" -> Hist(3)
            [] GenSet = "h4" -> Hist(4)
            [] GenSet = "upto2" -> Hist(1) \cup Hist(2)
            [] GenSet = "upto3" -> Hist(1) \cup Hist(2) \cup Hist(3)
            [] GenSet = "h4s" -> Hist4Sample
            [] GenSet = "quick" -> Hist(1) \cup Hist(2) \cup RestartScheds
            [] GenSet = "thorough" -> Hist(1) \cup Hist(2) \cup Hist(3) \cup Hist4Sample \cup RestartScheds
            [] GenSet = "restart" -> RestartScheds

GenInit == Init /\ sched \in Scheds /\ pos = 1 /\ hist = <<>> /\ done = FALSE

Do(x) == IF x.a = "P"
         THEN st' = DoPackets(st, Links) /\ act' = [name |-> "Packets", s |-> Links]
         ELSE st' = DoUpdate(st, choice, x.cfg, x.win) /\ act' = [name |-> "Update", cfg |-> x.cfg, win |-> x.win]

GenNext == \/ /\ ~done /\ pos <= Len(sched)
              /\ Do(sched[pos])
              /\ pos' = pos + 1
              /\ hist' = Append(hist, [act |-> act', exp |-> Obs'])
              /\ UNCHANGED <<choice, sched, done>>
           \/ /\ ~done /\ pos > Len(sched)
              /\ PrintT(<<"TRACE", ToJson(hist)>>)
              /\ done' = TRUE /\ hist' = <<>> /\ sched' = <<>> /\ pos' = 0 /\ st' = St0
              /\ act' = [name |-> "Done"] /\ UNCHANGED choice
GenSpec == GenInit /\ [][GenNext]_<<vars, sched, pos, hist, done>>

ASSUME AmbiguousPairs = {}
\* the domain, printed once: the harness takes links, patterns and their match table from here
ASSUME PrintT(<<"INFO", ToJson([links |-> Links, matches |-> Matches, plain |-> PlainCfgs, overlap |-> OverlapCfgs])>>)
=============================================================================
