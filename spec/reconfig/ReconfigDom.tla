----------------------------- MODULE ReconfigDom -----------------------------
(***************************************************************************)
(* The bounded domain of C27: three host interfaces, two explicit names,   *)
(* two overlapping regexp patterns, parameter records that differ in every *)
(* field of config.CaptureConfig, and the configurations built from them.  *)
(***************************************************************************)
EXTENDS Integers, Sequences, FiniteSets, TLC

DLinks == {"e0", "e1", "x0"}
PA == "/^e[0-9]$/"     \* matches e0 and e1
PB == "/0$/"           \* matches e0 and x0 - overlaps PA on e0
PC == "/^e[0-1]$/"     \* matches e0 and e1 - overlaps PA on both, and its expression is as long as PA's
DMatches == (PA :> {"e0", "e1"}) @@ (PB :> {"e0", "x0"}) @@ (PC :> {"e0", "e1"})

Par(pm, rb, vl, bpf) == [promisc |-> pm, rb |-> rb, vlans |-> vl, bpf |-> bpf, disable |-> FALSE]
D   == Par(FALSE, 1, FALSE, 0)     \* defaults: ring buffer 1 MiB x 4
Pm  == Par(TRUE,  1, FALSE, 0)     \* promiscuous mode
Rb  == Par(FALSE, 2, FALSE, 0)     \* ring buffer block size 2 MiB
Rn  == Par(FALSE, 3, FALSE, 0)     \* ring buffer 8 blocks
Vl  == Par(FALSE, 1, TRUE,  0)     \* ignore VLANs
Bp  == Par(FALSE, 1, FALSE, 1)     \* one extra BPF instruction
Dis == [promisc |-> FALSE, rb |-> 0, vlans |-> FALSE, bpf |-> 0, disable |-> TRUE]

C1  == ("e0" :> D)
C2  == ("e0" :> D)  @@ ("e1" :> D)
C3  == ("e0" :> Pm) @@ ("e1" :> D)
C4  == ("e0" :> Vl) @@ ("e1" :> D)
C5  == ("e0" :> Bp) @@ ("e1" :> Rb)
C6  == ("e0" :> D)  @@ ("e1" :> Dis)
C7  == (PA :> D)
C8  == (PA :> D)  @@ (PB :> Pm)
C9  == (PA :> Rn) @@ (PB :> Vl) @@ ("e1" :> Dis)
C10 == (PB :> D)  @@ ("e0" :> Bp)
C11 == (PA :> D)  @@ (PB :> D)
C12 == ("e1" :> Rn)
C13 == (PB :> Rb)
C14 == (PA :> Rb) @@ (PB :> Rn)
C15 == (PA :> Vl) @@ (PC :> Rb)

\* configurations in which every interface has exactly one candidate (no free choice)
PlainCfgs == {C1, C2, C3, C4, C5, C6, C7, C10, C11, C12, C13}
\* configurations in which two patterns with different parameters match e0 (C9 also disables e1; in
\* C15 the two expressions have the same length and both match e0 and e1)
OverlapCfgs == {C8, C9, C14, C15}
AllCfgs == PlainCfgs \cup OverlapCfgs
=============================================================================
