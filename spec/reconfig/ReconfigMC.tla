------------------------------ MODULE ReconfigMC ------------------------------
(***************************************************************************)
(* Bounded exhaustive exploration of Reconfig (C27, M): every sequence of  *)
(* updates over MCCfgs with packets on every subset of interfaces between  *)
(* all steps of an update, for every choice function.                      *)
(***************************************************************************)
EXTENDS Reconfig, ReconfigDom
CONSTANTS MaxPackets, MaxUpdates

MCCfgs == {C2, C4, C6, C8, C9, C12}

RECURSIVE SumOver(_, _)
SumOver(S, f) == IF S = {} THEN 0 ELSE LET x == CHOOSE y \in S : TRUE IN f[x] + SumOver(S \ {x}, f)
Bound == st.upd <= MaxUpdates /\ SumOver(Links, st.counted) <= MaxPackets
View == <<st, choice>>
\* vacuity: the interesting situations are reachable
ASSUME AmbiguousPairs # {}
=============================================================================
