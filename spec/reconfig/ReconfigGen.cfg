SPECIFICATION GenSpec
CONSTANTS
  Links <- DLinks
  Matches <- DMatches
  CfgSet <- GenCfgs
  StopFlushes = TRUE
  FullEquals = TRUE
  GenSet = "h1"
  Seed = 1
CHECK_DEADLOCK FALSE
