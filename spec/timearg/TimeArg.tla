------------------------------ MODULE TimeArg ------------------------------
(***************************************************************************)
(* Time arguments of a query (--first / --last), property C28.             *)
(*                                                                         *)
(* What the help text ("ALLOWED FORMATS", pkg/query/time.go) documents:    *)
(*  (1) DISPATCH.  A text starting with `-` is a relative time; a text of  *)
(*      decimal digits only is a UNIX epoch; any other text is tried       *)
(*      against the documented layout list IN ORDER, the first layout that *)
(*      accepts the text decides the instant; no layout accepts => reject. *)
(*  (2) RELATIVE GRAMMAR  -XdYhZm  in two spellings: chunks separated by   *)
(*      `:` (-15d:04h:05m) or written in one piece (-15d4h5m); any         *)
(*      combination of days, hours, minutes; it denotes                    *)
(*      now - (86400 X + 3600 Y + 60 Z).                                   *)
(*  (3) RANGE.  A range whose start lies after its end is rejected.        *)
(*  (4) ROUND TRIP.  For a layout L of the list and an instant t at L's    *)
(*      precision, with x = Format(L, t): if L is the only layout of the   *)
(*      list that accepts x then Parse(x) = t.                             *)
(* Calendar and zone arithmetic are NOT modelled: "layout L accepts text x *)
(* as instant u" is an input relation supplied by Go's time package (the   *)
(* trusted base).  Instants are decimal strings (UNIX seconds up to 2068   *)
(* exceed TLC's 32-bit integers); only durations are numbers.              *)
(***************************************************************************)
EXTENDS Naturals, Sequences, FiniteSets, TLC

VARIABLES act, res
vars == <<act, res>>

(***************************************************************************)
(* The documented layout list, in order (Go reference-time notation), with *)
(* its precision (sec: has seconds) and whether it carries a UTC offset.   *)
(***************************************************************************)
Ly(f, s, o) == [fmt |-> f, sec |-> s, off |-> o]
Layouts == <<
  Ly("2006-01-02T15:04:05Z07:00", TRUE, TRUE),           \* RFC3339
  Ly("Mon Jan _2 15:04:05 2006", TRUE, FALSE),           \* ANSIC
  Ly("Mon Jan 02 15:04:05 -0700 2006", TRUE, TRUE),      \* RUBY DATE
  Ly("02 Jan 06 15:04 -0700", FALSE, TRUE),              \* RFC822 with numeric zone
  Ly("Mon, 02 Jan 2006 15:04:05 -0700", TRUE, TRUE),     \* RFC1123 with numeric zone
  Ly("2006-01-02 15:04:05", TRUE, FALSE),                \* CUSTOM
  Ly("2006-01-02 15:04:05 -0700", TRUE, TRUE),
  Ly("2006-01-02 15:04 -0700", FALSE, TRUE),
  Ly("2006-01-02 15:04:05", TRUE, FALSE),
  Ly("2006-01-02 15:04", FALSE, FALSE),
  Ly("06-01-02 15:04:05 -0700", TRUE, TRUE),
  Ly("06-01-02 15:04 -0700", FALSE, TRUE),
  Ly("06-01-02 15:04:05", TRUE, FALSE),
  Ly("06-01-02 15:04", FALSE, FALSE),
  Ly("02-01-2006 15:04:05 -0700", TRUE, TRUE),
  Ly("02-01-2006 15:04 -0700", FALSE, TRUE),
  Ly("02-01-2006 15:04:05", TRUE, FALSE),
  Ly("02-01-2006 15:04", FALSE, FALSE),
  Ly("02-01-06 15:04:05 -0700", TRUE, TRUE),
  Ly("02-01-06 15:04 -0700", FALSE, TRUE),
  Ly("02-01-06 15:04:05", TRUE, FALSE),
  Ly("02-01-06 15:04", FALSE, FALSE),
  Ly("02.01.2006 15:04", FALSE, FALSE),
  Ly("02.01.2006 15:04 -0700", FALSE, TRUE),
  Ly("02.01.06 15:04", FALSE, FALSE),
  Ly("02.01.06 15:04 -0700", FALSE, TRUE),
  Ly("2.1.06 15:04:05", TRUE, FALSE),
  Ly("2.1.06 15:04:05 -0700", TRUE, TRUE),
  Ly("2.1.06 15:04", FALSE, FALSE),
  Ly("2.1.06 15:04 -0700", FALSE, TRUE),
  Ly("2.1.2006 15:04:05", TRUE, FALSE),
  Ly("2.1.2006 15:04:05 -0700", TRUE, TRUE),
  Ly("2.1.2006 15:04", FALSE, FALSE),
  Ly("2.1.2006 15:04 -0700", FALSE, TRUE),
  Ly("02.1.2006 15:04:05", TRUE, FALSE),
  Ly("02.1.2006 15:04:05 -0700", TRUE, TRUE),
  Ly("02.1.2006 15:04", FALSE, FALSE),
  Ly("02.1.2006 15:04 -0700", FALSE, TRUE),
  Ly("2.01.2006 15:04:05", TRUE, FALSE),
  Ly("2.01.2006 15:04:05 -0700", TRUE, TRUE),
  Ly("2.01.2006 15:04", FALSE, FALSE),
  Ly("2.01.2006 15:04 -0700", FALSE, TRUE),
  Ly("02.1.06 15:04:05", TRUE, FALSE),
  Ly("02.1.06 15:04:05 -0700", TRUE, TRUE),
  Ly("02.1.06 15:04", FALSE, FALSE),
  Ly("02.1.06 15:04 -0700", FALSE, TRUE),
  Ly("2.01.06 15:04:05", TRUE, FALSE),
  Ly("2.01.06 15:04:05 -0700", TRUE, TRUE),
  Ly("2.01.06 15:04", FALSE, FALSE),
  Ly("2.01.06 15:04 -0700", FALSE, TRUE)
>>
NL == Len(Layouts)

(***************************************************************************)
(* (1) Dispatch.  A text is given by its characters.                       *)
(***************************************************************************)
Digits == {"0", "1", "2", "3", "4", "5", "6", "7", "8", "9"}
Kind(chars) ==
  IF Len(chars) > 0 /\ chars[1] = "-" THEN "relative"
  ELSE IF Len(chars) > 0 /\ \A i \in DOMAIN chars : chars[i] \in Digits THEN "epoch"
  ELSE "absolute"

RECURSIVE Flatten(_)
Flatten(cs) == IF cs = <<>> THEN "" ELSE cs[1] \o Flatten(Tail(cs))
RECURSIVE DropZeros(_)
DropZeros(cs) == IF Len(cs) > 1 /\ cs[1] = "0" THEN DropZeros(Tail(cs)) ELSE cs
\* the instant an epoch text denotes, as canonical decimal string
EpochOf(chars) == Flatten(DropZeros(chars))

Reject == [ok |-> FALSE, u |-> ""]
Accept(u) == [ok |-> TRUE, u |-> u]

\* acc: the layouts accepting the text with the instant each one reads, ascending by layout
\* index (the input relation of the trusted base).  First accepting layout wins.
DispatchAbs(acc) == IF acc = <<>> THEN Reject ELSE Accept(acc[1].u)

(***************************************************************************)
(* (2) Relative grammar.  A specification r gives the numbers written      *)
(* before d, h, m (None = chunk absent), the spelling and zero padding.    *)
(***************************************************************************)
None == 1000000
RelNums == {None, 0, 1, 8, 45}   \* 8: a zero-padded "08" is not an octal number
RelSpecs == [d : RelNums, h : RelNums, m : RelNums, colon : BOOLEAN, pad : BOOLEAN]
WellFormed(r) == r.d # None \/ r.h # None \/ r.m # None

Num(n, pad) == IF pad /\ n < 10 THEN "0" \o ToString(n) ELSE ToString(n)
Chunk(n, unit, pad) == IF n = None THEN <<>> ELSE <<Num(n, pad) \o unit>>
Chunks(r) == Chunk(r.d, "d", r.pad) \o Chunk(r.h, "h", r.pad) \o Chunk(r.m, "m", r.pad)
RECURSIVE Join(_, _)
Join(cs, sep) == IF Len(cs) = 0 THEN "" ELSE IF Len(cs) = 1 THEN cs[1] ELSE cs[1] \o sep \o Join(Tail(cs), sep)
RelText(r) == "-" \o Join(Chunks(r), IF r.colon THEN ":" ELSE "")

Val(n) == IF n = None THEN 0 ELSE n
Delta(r) == 86400 * Val(r.d) + 3600 * Val(r.h) + 60 * Val(r.m)

\* texts that start with `-` but are not in the grammar (only "must not crash" is observed)
MalformedRel == {"-", "-d", "-h", "-5x", "-1d:", "-:5m", "-1d:2", "-1h:d", "-d5"}

(***************************************************************************)
(* (3) Range.  Candidate bounds with their chronological rank (`at`); u is *)
(* the exact instant when the text fixes one ("" = depends on now).        *)
(***************************************************************************)
Bd(t, a, u) == [text |-> t, at |-> a, u |-> u]
Bounds == <<
  Bd("1456358400", 1, "1456358400"),
  Bd("2016-02-25 00:00:00 +0000", 1, "1456358400"),
  Bd("1456473000", 2, "1456473000"),
  Bd("Fri, 26 Feb 2016 07:50:00 +0000", 2, "1456473000"),
  Bd("-45d", 3, ""),
  Bd("-1d:1h", 4, ""),
  Bd("-1d", 5, ""),
  Bd("-5m", 6, ""),
  Bd("", 7, ""),                           \* --last only: defaults to now
  Bd("4102444800", 8, "4102444800"),       \* 2100-01-01
  Bd("01.01.2100 00:01 +0000", 9, "4102444860")
>>
RangeFns == {"ParseTimeRange", "ParseTimeRangeCollectErrors"}
RangeVerdict(i, j) == IF Bounds[i].at > Bounds[j].at THEN "reject"
                      ELSE IF Bounds[i].at < Bounds[j].at THEN "accept"
                      ELSE "unspecified"      \* empty interval: the statement is silent

(***************************************************************************)
(* Steps.                                                                  *)
(***************************************************************************)
Init == act = [name |-> "Init"] /\ res = [none |-> TRUE]

\* ParseTimeArgument(RelText(r)) for a well-formed r
ParseRelative(r) ==
  /\ WellFormed(r)
  /\ act' = [name |-> "ParseRelative", text |-> RelText(r), r |-> r]
  /\ res' = [kind |-> "relative", delta |-> Delta(r)]

ParseMalformed(x) ==
  /\ act' = [name |-> "ParseMalformed", text |-> x]
  /\ res' = [kind |-> "unspecified"]

\* ParseTimeRange / ParseTimeRangeCollectErrors (Bounds[i].text, Bounds[j].text)
ParseRange(fn, i, j) ==
  /\ Bounds[i].text # ""
  /\ act' = [name |-> "ParseRange", fn |-> fn, first |-> Bounds[i].text, last |-> Bounds[j].text]
  /\ res' = [kind |-> "range", verdict |-> RangeVerdict(i, j), first |-> Bounds[i].u, last |-> Bounds[j].u]

\* ParseTimeArgument on a non-relative text whose accepting layouts are acc
\* (abstract here: the model checker enumerates small accept relations, the trace
\* specification feeds the real ones)
ParseAbsolute(chars, acc) ==
  /\ Kind(chars) # "relative"
  /\ act' = [name |-> "ParseAbsolute", chars |-> chars, acc |-> acc]
  /\ res' = IF Kind(chars) = "epoch" THEN Accept(EpochOf(chars)) ELSE DispatchAbs(acc)

Obs == res

(***************************************************************************)
(* Properties.                                                             *)
(***************************************************************************)
\* (4) follows from (1): if exactly one layout accepts, its instant is the result;
\* whatever is accepted is an instant some layout reads; nothing accepted => rejected
RoundTripOK ==
  (act.name = "ParseAbsolute" /\ Kind(act.chars) = "absolute") =>
     /\ (Len(act.acc) = 1 => res = Accept(act.acc[1].u))
     /\ (res.ok => \E k \in DOMAIN act.acc : act.acc[k].u = res.u)
     /\ (~res.ok <=> act.acc = <<>>)
     /\ (res.ok => \A k \in DOMAIN act.acc : act.acc[k].l >= act.acc[1].l)
EpochOK == (act.name = "ParseAbsolute" /\ Kind(act.chars) = "epoch") => res.ok /\ res.u = EpochOf(act.chars)
RelativeOK == act.name = "ParseRelative" =>
     /\ res.delta = 86400 * Val(act.r.d) + 3600 * Val(act.r.h) + 60 * Val(act.r.m)
     /\ res.delta = Delta([act.r EXCEPT !.colon = ~act.r.colon, !.pad = ~act.r.pad])   \* spelling independent
RangeOK == act.name = "ParseRange" =>
     \A i, j \in DOMAIN Bounds :
        (Bounds[i].text = act.first /\ Bounds[j].text = act.last /\ Bounds[i].at > Bounds[j].at) => res.verdict = "reject"
=============================================================================
