---------------------------- MODULE TimeArgGen ----------------------------
(* Case generator (spec -> code) for the relative grammar and the range rule; also     *)
(* prints the documented layout list for the trace driver (binding B).                 *)
EXTENDS TimeArg, Json
VARIABLES hist, done
GenStep == \/ \E r \in RelSpecs : ParseRelative(r)
           \/ \E x \in MalformedRel : ParseMalformed(x)
           \/ \E fn \in RangeFns, i, j \in DOMAIN Bounds : ParseRange(fn, i, j)
GenInit == Init /\ hist = <<>> /\ done = FALSE /\ PrintT(<<"INFO", ToJson([layouts |-> Layouts])>>)
GenNext == \/ /\ ~done /\ Len(hist) < 1
              /\ GenStep
              /\ hist' = Append(hist, [act |-> act', exp |-> Obs'])
              /\ UNCHANGED done
           \/ /\ ~done /\ Len(hist) = 1
              /\ PrintT(<<"TRACE", ToJson(hist)>>)
              /\ done' = TRUE /\ hist' = <<>> /\ res' = [none |-> TRUE]
              /\ act' = [name |-> "Done"]
GenSpec == GenInit /\ [][GenNext]_<<vars, hist, done>>
=============================================================================
