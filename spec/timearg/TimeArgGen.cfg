SPECIFICATION GenSpec
CHECK_DEADLOCK FALSE
