--------------------------- MODULE TimeArgTrace ---------------------------
(***************************************************************************)
(* Validation of recorded ParseTimeArgument calls (code -> spec).          *)
(* The Go driver (harness/internal/timearg, Drive) formats instants under  *)
(* every documented layout (zone offsets for layouts that carry one, the   *)
(* process' local zone otherwise), calls the real ParseTimeArgument and    *)
(* logs one event per call:                                                *)
(*   layout  index of the layout the text was written in (0: epoch digits) *)
(*   t       the instant that was formatted, at the layout's precision     *)
(*   chars   the characters of the text                                    *)
(*   acc     the trusted base: every layout of the list that accepts the   *)
(*           text (time.ParseInLocation in the local zone) with its instant*)
(*   twin    another instant formats to the same text (DST overlap)        *)
(*   got     what ParseTimeArgument returned                               *)
(* Each event is judged on its own against TimeArg's dispatch rule (1) and *)
(* the round-trip law (4).                                                 *)
(*   roundtrip  every layout accepting the text (its own one at least) reads *)
(*              the formatted instant, no twin, and the result differs     *)
(*   rejected   some layout accepts the text but it was rejected           *)
(*   foreign    accepted with an instant no layout of the list reads       *)
(*   epoch      digits not read as the epoch they spell                    *)
(*   order      several layouts accept with different instants and the     *)
(*              result is not the first one's (drift, not a violation:     *)
(*              the statement exempts texts valid under another layout)    *)
(*   axiom      the trusted base does not read a text back under its own   *)
(*              layout as the formatted instant (no verdict about goProbe) *)
(***************************************************************************)
EXTENDS TimeArg, Json

TraceLog == ndJsonDeserialize("trace.ndjson")

VARIABLE l
tvars == <<vars, l>>

Own(e) == {k \in DOMAIN e.acc : e.acc[k].l = e.layout}
AxiomOK(e) == e.layout = 0 \/ (Own(e) # {} /\ \A k \in Own(e) : e.acc[k].u = e.t \/ e.twin)

Class(e) ==
  LET want == IF Kind(e.chars) = "epoch" THEN Accept(EpochOf(e.chars)) ELSE DispatchAbs(e.acc)
      insts == {e.acc[k].u : k \in DOMAIN e.acc}
  IN  IF Kind(e.chars) = "relative" THEN "ok"                        \* not produced by the driver
      ELSE IF Kind(e.chars) = "epoch" THEN (IF e.got = want THEN "ok" ELSE "epoch")
      ELSE IF ~AxiomOK(e) THEN "axiom"
      ELSE IF ~e.got.ok /\ e.acc # <<>> THEN "rejected"
      ELSE IF e.got.ok /\ insts = {e.t} /\ ~e.twin /\ e.got.u # e.t THEN "roundtrip"
      ELSE IF e.got.ok /\ e.got.u \notin insts THEN "foreign"
      ELSE IF e.got # want THEN "order"
      ELSE "ok"

TraceInit == Init /\ l = 1

TraceNext ==
  /\ l <= Len(TraceLog)
  /\ LET e == TraceLog[l] IN
       /\ ParseAbsolute(e.chars, e.acc)
       /\ l' = l + 1
       /\ \/ Class(e) = "ok"
          \/ /\ Class(e) # "ok"
             /\ PrintT(<<"MISMATCH", ToJson([line |-> l, cls |-> Class(e), layout |-> e.layout, text |-> Flatten(e.chars),
                                             t |-> e.t, got |-> e.got, want |-> res', acc |-> e.acc, twin |-> e.twin])>>)

TraceSpec == TraceInit /\ [][TraceNext]_tvars

TraceAccepted ==
  \/ TLCGet("stats").diameter - 1 = Len(TraceLog)
  \/ PrintT(<<"INFO", ToJson([consumed |-> TLCGet("stats").diameter - 1, total |-> Len(TraceLog)])>>) /\ FALSE
=============================================================================
