SPECIFICATION MCSpec
INVARIANTS RoundTripOK EpochOK RelativeOK RangeOK
CHECK_DEADLOCK FALSE
