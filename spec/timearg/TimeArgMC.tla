----------------------------- MODULE TimeArgMC -----------------------------
(* Exhaustive exploration: every relative specification over {absent,0,1,8,45}^3 in  *)
(* both spellings and paddings, every pair of range bounds with both range functions, *)
(* and the dispatch rule over every accept relation of three abstract layouts and two *)
(* instants for three abstract texts.  One step from Init covers all (steps are       *)
(* independent of history).                                                           *)
EXTENDS TimeArg
AtInit == act.name = "Init"

\* the relative grammar is unambiguous: a text has one denotation
\* (as many distinct texts as distinct <<text, denotation>> pairs)
WF == {r \in RelSpecs : WellFormed(r)}
ASSUME Cardinality({RelText(r) : r \in WF}) = Cardinality({<<RelText(r), Delta(r)>> : r \in WF})
\* accept relations: each of 3 layouts accepts as u1, as u2, or not at all
AccOf(f) == LET RECURSIVE B(_)
                B(k) == IF k > 3 THEN <<>> ELSE (IF f[k] = "no" THEN <<>> ELSE <<[l |-> k, u |-> f[k]]>>) \o B(k + 1)
            IN B(1)
MCTexts == {<<"2", "0", "1", "6", "-", "0", "2">>, <<"0", "1", "4", "5">>, <<"7">>, <<"M", "o", "n">>}
MCRelative  == AtInit /\ \E r \in RelSpecs : ParseRelative(r)
MCMalformed == AtInit /\ \E x \in MalformedRel : ParseMalformed(x)
MCRange     == AtInit /\ \E fn \in RangeFns, i, j \in DOMAIN Bounds : ParseRange(fn, i, j)
MCAbsolute  == AtInit /\ \E cs \in MCTexts, f \in [1..3 -> {"no", "100", "200"}] : ParseAbsolute(cs, AccOf(f))
MCNext == MCRelative \/ MCMalformed \/ MCRange \/ MCAbsolute
MCSpec == Init /\ [][MCNext]_vars
=============================================================================
