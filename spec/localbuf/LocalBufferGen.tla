--------------------------- MODULE LocalBufferGen ---------------------------
(***************************************************************************)
(* Behaviour generator for the forward replay (spec -> code) of            *)
(* LocalBuffer, in REAL BYTES: Cap0 = 4096, an IPv4 record 21 bytes, an    *)
(* IPv6 record 45 bytes (see the size rule in LocalBuffer.tla).            *)
(*                                                                         *)
(* Every behaviour starts with New(limit) and is printed once as a JSON    *)
(* list of steps [act, exp] (exp = Obs after the step, the queue as a list *)
(* of item ids).  Each added item is stamped with a fresh id.              *)
(*                                                                         *)
(* Fill(f) is a macro step: f.n Adds of the items FillItem(f.pat, 1..n)    *)
(* onto an empty buffer, all of which the specification accepts; the       *)
(* resulting state is computed with the specification's own Decide.  It    *)
(* brings the buffer next to a boundary (the initial size, the limit, the  *)
(* doubled size) so that the exhaustive part - all operation sequences of  *)
(* length Depth - happens where fits / grows / refuses is decided.  The    *)
(* fill items are printed once (<<"INFO", FillTable>>), a Fill step only   *)
(* carries pattern, count and the id base.                                 *)
(***************************************************************************)
EXTENDS LocalBuffer, Json
CONSTANTS Depth,     \* steps after New (a Fill counts as one step)
          Ops,       \* subset of {"Add", "Next", "Reset", "Recycle", "Fill"}
          MaxFills,  \* Fill steps allowed per behaviour
          Pick,      \* 0: every item of Items is a candidate in every step; k > 0: k items of ItemsBytes
                     \* chosen by the step number (keeps simulation cheap, covers all 256 over time)
          Window     \* a fill is offered when it ends at most Window bytes below a boundary
VARIABLES hist, done, nid, nfill
gvars == <<vars, hist, done, nid, nfill>>

RealRecSize(it) == IF it.fam = 4 THEN 21 ELSE 45
RealLimits == {4096, 6000, 8192, 100, 4100}
\* two doublings; a second growth cut by the limit; a second growth smaller than a record
RealLimitsBig == {16384, 12288, 8193}

S(hi, lo) == <<hi, lo>>
\* field extremes: type/aux 0 and 255, errno -128/-1/127, size 0, 2^32-1, 2^24 (only the top byte set), 1
ItemsSmall ==
  { [id |-> 0, fam |-> 4, key |-> 1, type |-> 0,   aux |-> 255, errno |-> -128, size |-> S(65535, 65535)],
    [id |-> 0, fam |-> 6, key |-> 2, type |-> 255, aux |-> 0,   errno |-> 127,  size |-> S(0, 0)],
    [id |-> 0, fam |-> 4, key |-> 3, type |-> 4,   aux |-> 1,   errno |-> -1,   size |-> S(256, 0)],
    [id |-> 0, fam |-> 6, key |-> 4, type |-> 1,   aux |-> 128, errno |-> 2,    size |-> S(0, 1)] }
ItemsTwo ==
  { [id |-> 0, fam |-> 4, key |-> 5, type |-> 17,  aux |-> 254, errno |-> -1,   size |-> S(65535, 65534)],
    [id |-> 0, fam |-> 6, key |-> 6, type |-> 201, aux |-> 3,   errno |-> -127, size |-> S(32768, 1500)] }
\* one item per aux value 0..255; type, errno and the size halves co-vary so that no two
\* single-byte fields of an item are equal (an offset mix-up cannot go unnoticed)
ByteItem(i) == [id |-> 0, fam |-> IF i % 3 = 0 THEN 6 ELSE 4, key |-> 1 + (i % 16),
                type |-> 255 - i, aux |-> i, errno |-> ((i + 64) % 256) - 128,
                size |-> S((i * 257 + 77) % 65536, (65535 - i * 251) % 65536)]
ItemsBytes == {ByteItem(i) : i \in 0..255} \cup ItemsSmall

\* items of the fill patterns (position i of pattern pat)
Pats == {"v4", "v6", "mix"}
MaxFill == 400
FillItem(pat, i) ==
  [id |-> 0,
   fam |-> CASE pat = "v4" -> 4 [] pat = "v6" -> 6 [] OTHER -> (IF i % 3 = 0 THEN 6 ELSE 4),
   key |-> 1 + (i % 16), type |-> (i * 7) % 256, aux |-> (i * 13 + 5) % 256, errno |-> (i % 256) - 128,
   size |-> S((i * 4099) % 65536, (i * 7919) % 65536)]
FillTable == [pat \in Pats |-> [i \in 1..MaxFill |-> FillItem(pat, i)]]
ASSUME PrintT(<<"INFO", ToJson(FillTable)>>)

\* boundaries of interest below which a fill may end
NearBoundary(u, c0, l) == \E b \in {c0, l, Grown(c0, l), Grown(Grown(c0, l), l)} : u <= b /\ b - u <= Window
\* fills of pattern pat that the specification accepts completely, starting from (0, c0) under limit l
\* (a left fold over 1..MaxFill; FoldLeft is evaluated natively, a RECURSIVE operator with lazily
\* evaluated arguments is two orders of magnitude slower here)
SX == INSTANCE SequencesExt
FillStep(pat, l, c0, st, n) ==
  IF ~st.ok THEN st
  ELSE LET sz == RecSize(FillItem(pat, n))
           d  == Decide(st.u, st.c, l, sz)
       IN IF ~d.ok THEN [st EXCEPT !.ok = FALSE]
          ELSE [u |-> st.u + sz, c |-> d.cap, ok |-> TRUE,
                acc |-> IF NearBoundary(st.u + sz, c0, l)
                        THEN st.acc \cup {[pat |-> pat, n |-> n, used |-> st.u + sz, cap |-> d.cap]}
                        ELSE st.acc]
FillScan(pat, l, c0) ==
  SX!FoldLeft(LAMBDA st, n : FillStep(pat, l, c0, st, n), [u |-> 0, c |-> c0, ok |-> TRUE, acc |-> {}],
              [i \in 1..MaxFill |-> i]).acc
Fills(l, c0) == UNION {FillScan(pat, l, c0) : pat \in Pats}
\* slice lengths that can occur under limit l, and the fills per (limit, length): a constant, evaluated once
CapsOf(l) == {Cap0, Grown(Cap0, l), Grown(Grown(Cap0, l), l), Grown(Grown(Grown(Cap0, l), l), l)}
FillTab == [l \in Limits |-> [c \in CapsOf(l) |-> Fills(l, c)]]

Cands == IF Pick = 0 THEN Items ELSE {ByteItem((nid * 37 + j * 101 + 11) % 256) : j \in 0..(Pick - 1)}

Stamp(it, i) == [it EXCEPT !.id = i]

Fill(f) == /\ q = <<>> /\ used = 0
           /\ q' = [i \in 1..f.n |-> Stamp(FillItem(f.pat, i), nid + i)]
           /\ used' = f.used /\ cap' = f.cap /\ UNCHANGED limit
           /\ act' = [name |-> "Fill", pat |-> f.pat, n |-> f.n, base |-> nid]

GenInit == Init /\ hist = <<[act |-> act, exp |-> Obs]>> /\ done = FALSE /\ nid = 0 /\ nfill = 0

GenOp == \/ "Add" \in Ops /\ (\E it \in Cands : Add(Stamp(it, nid + 1))) /\ nid' = nid + 1 /\ UNCHANGED nfill
         \/ "Next" \in Ops /\ NextItem /\ UNCHANGED <<nid, nfill>>
         \/ "Reset" \in Ops /\ Reset /\ UNCHANGED <<nid, nfill>>
         \/ "Recycle" \in Ops /\ Recycle /\ UNCHANGED <<nid, nfill>>
         \/ "Fill" \in Ops /\ nfill < MaxFills /\ q = <<>> /\ used = 0
            /\ (\E f \in FillTab[limit][cap] : Fill(f) /\ nid' = nid + f.n) /\ nfill' = nfill + 1

GenNext == \/ /\ ~done /\ Len(hist) <= Depth
              /\ GenOp
              /\ hist' = Append(hist, [act |-> act', exp |-> Obs'])
              /\ UNCHANGED done
           \/ /\ ~done /\ Len(hist) = Depth + 1
              /\ PrintT(<<"TRACE", ToJson(hist)>>)
              /\ done' = TRUE /\ hist' = <<>> /\ nid' = 0 /\ nfill' = 0
              /\ q' = <<>> /\ used' = 0 /\ cap' = Cap0 /\ UNCHANGED limit
              /\ act' = [name |-> "Done"]
GenSpec == GenInit /\ [][GenNext]_gvars
=============================================================================
