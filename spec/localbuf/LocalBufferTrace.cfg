SPECIFICATION TraceSpec
CONSTANTS
  Cap0 = 4096
  Limits = {}
  Items = {}
  RecSize <- TraceRecSize
POSTCONDITION TraceAccepted
CHECK_DEADLOCK FALSE
