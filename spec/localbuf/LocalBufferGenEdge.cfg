SPECIFICATION GenSpec
CONSTANTS
  Cap0 = 4096
  Limits <- RealLimits
  Items <- ItemsTwo
  RecSize <- RealRecSize
  Depth = 5
  Ops = {"Add", "Next", "Fill"}
  MaxFills = 1
  Pick = 0
  Window = 70
CHECK_DEADLOCK FALSE
