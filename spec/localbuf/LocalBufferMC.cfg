SPECIFICATION MCSpec
CONSTANTS
  Cap0 = 8
  Limits <- MCLimits
  Items <- MCItems
  RecSize <- MCRecSize
  MaxDepth = 8
  WithBadRefuse = FALSE
INVARIANTS TypeOK Bounded FIFO UsedIsSum
PROPERTIES RefusedOnlyAtLimit RefusedWhenAtLimit RefusedUnchanged AcceptedAppends NextPopsHead NextIsOldest
CONSTRAINT Bound
CHECK_DEADLOCK FALSE
