SPECIFICATION GenSpec
CONSTANTS
  Cap0 = 4096
  Limits = {4096}
  Items <- ItemsSmall
  RecSize <- RealRecSize
  Depth = 5
  Ops = {"Add", "Next", "Reset", "Recycle"}
  MaxFills = 0
  Pick = 0
  Window = 0
CHECK_DEADLOCK FALSE
