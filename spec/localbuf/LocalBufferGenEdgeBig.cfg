SPECIFICATION GenSpec
CONSTANTS
  Cap0 = 4096
  Limits <- RealLimitsBig
  Items <- ItemsTwo
  RecSize <- RealRecSize
  Depth = 4
  Ops = {"Add", "Next", "Fill"}
  MaxFills = 1
  Pick = 0
  Window = 70
CHECK_DEADLOCK FALSE
