----------------------------- MODULE LocalBuffer -----------------------------
(***************************************************************************)
(* The local packet buffer of goProbe (pkg/capture/buffer.go, type         *)
(* LocalBuffer on top of LocalBufferPool) as property C23 sees it: a       *)
(* bounded FIFO of packet records that preserves every field.              *)
(*                                                                         *)
(* An item is the tuple handed to LocalBuffer.Add:                         *)
(*   [id, fam, key, type, aux, errno, size]                                *)
(*   fam   4 / 6          (isIPv4 = TRUE / FALSE)                          *)
(*   key   identity of the flow key (EPHash, 13 bytes for fam 4, 37 bytes  *)
(*         for fam 6; the harness owns id -> bytes and bytes -> id)        *)
(*   type  pktType byte, aux auxInfo byte, errno ParsingErrno (int8)       *)
(*   size  pktSize (uint32) as <<high 16 bits, low 16 bits>> because TLC   *)
(*         integers are 32 bit signed; the model only ever copies it       *)
(*   id    ghost identity of the insertion (lets the generator print the   *)
(*         queue compactly as a list of ids); never interpreted            *)
(*                                                                         *)
(* State: q    the items added and not yet taken, in insertion order       *)
(*        used bytes written since the last Reset (the write position;     *)
(*             Next does NOT give space back - LocalBuffer.Usage documents *)
(*             "independent of number of items already retrieved")         *)
(*        cap  current length of the underlying slice                      *)
(*        limit the pool's MaxBufferSize                                   *)
(*                                                                         *)
(* THE SIZE RULE IN REAL BYTES (derived from buffer.go, see the comments   *)
(* of Add/grow/Assign there):                                              *)
(*  - a record is  1 version byte + the key + pktType + auxInfo + errno    *)
(*    + 4 bytes pktSize  =  len(key) + 8  bytes: 21 bytes for IPv4 and 45  *)
(*    bytes for IPv6.  (The constant bufElementAddSize = 7 and its comment *)
(*    list "4 bytes pktSize + 1 byte for pktType, isIPv4, errno" and       *)
(*    forget the auxInfo byte that Add stores as well; the guard of Add,   *)
(*    `writeBufPos + len(key) + 7 >= len(data)`, is nevertheless exactly   *)
(*    "a record of len(key)+8 bytes does not fit": it is the write         *)
(*    position that is advanced by one byte too little.)                   *)
(*  - fits    <=>  used + RecSize <= cap          (an exact fit is a fit)  *)
(*  - if it does not fit and cap < limit the slice grows ONCE to           *)
(*    min(limit, 2*cap) ("attempt to grow the buffer"), the record is      *)
(*    stored if it fits now                                                *)
(*  - otherwise ("the buffer is full / may not grow any further") the      *)
(*    item is refused: content and write position do not change.  (When    *)
(*    the refusal comes after a growth attempt that did not make enough    *)
(*    room the slice has been raised to the limit by that attempt; the     *)
(*    slice length is not observable through the buffer's API and is       *)
(*    compared for drift only.)                                            *)
(*  - cap starts at Cap0 = the page size (4096) even when limit < Cap0     *)
(*    (Assign never shrinks), Reset keeps cap, handing the slice back to   *)
(*    the pool and claiming it again (Recycle) re-slices it to Cap0        *)
(*  Because a record is never larger than Cap0, "refused" is equivalent to *)
(*  used + RecSize > max(cap, limit): the record does not fit into the     *)
(*  largest slice the limit allows - this is the exact meaning given to    *)
(*  "the buffer has reached its size limit" (ReachedLimit below); TLC      *)
(*  checks that the step-wise rule never refuses earlier or later.         *)
(*  The bounded model (LocalBufferMC) uses scaled units: Cap0 = 8,         *)
(*  records 2 (IPv4) and 5 (IPv6) units, limits 8 / 12 / 16 / 5 / 9 for    *)
(*  the real 4096 (= Cap0, no growth) / 6000 (growth cut by the limit) /   *)
(*  8192 (one doubling) / 100 (below the initial size) / 4100 (growth      *)
(*  smaller than a record).  Generator and trace validation run in bytes.  *)
(***************************************************************************)
EXTENDS Integers, Sequences, TLC

CONSTANTS Cap0,        \* initial slice length (page size)
          Limits,      \* size limits a pool may be created with
          Items,       \* items the bounded model adds
          RecSize(_)   \* bytes (units) an item occupies

VARIABLES q, used, cap, limit, act
vars == <<q, used, cap, limit, act>>

Min(a, b) == IF a <= b THEN a ELSE b
Max(a, b) == IF a >= b THEN a ELSE b

Fits(u, c, sz) == u + sz <= c
Grown(c, l) == Min(l, 2 * c)

\* the buffer has reached its size limit for a record of sz bytes
ReachedLimit(u, c, l, sz) == u + sz > Max(c, l)

\* what Add does with a record of sz bytes in state (u, c) under limit l
Decide(u, c, l, sz) ==
  IF Fits(u, c, sz) THEN [ok |-> TRUE, cap |-> c, how |-> "fit"]
  ELSE IF c < l /\ Fits(u, Grown(c, l), sz) THEN [ok |-> TRUE, cap |-> Grown(c, l), how |-> "grow"]
  ELSE [ok |-> FALSE, cap |-> IF c < l THEN Grown(c, l) ELSE c, how |-> "refuse"]

\* bytes that would still be free in the largest allowed slice after storing the record
Room(u, c, l, sz) == Max(c, l) - (u + sz)

AddLabel(it, d) == [name |-> "Add", item |-> it, ok |-> d.ok, how |-> d.how,
                    room |-> Room(used, cap, limit, RecSize(it))]

\* NewLocalBufferPool(1, l) + NewLocalBuffer + pool.Get + Assign
New(l) == /\ q' = <<>> /\ used' = 0 /\ cap' = Cap0 /\ limit' = l
          /\ act' = [name |-> "New", limit |-> l]

Init == \E l \in Limits : /\ q = <<>> /\ used = 0 /\ cap = Cap0 /\ limit = l
                          /\ act = [name |-> "New", limit |-> l]

\* LocalBuffer.Add, the three cases
AddFit(it) == LET d == Decide(used, cap, limit, RecSize(it)) IN
  /\ d.how = "fit"
  /\ q' = Append(q, it) /\ used' = used + RecSize(it) /\ UNCHANGED <<cap, limit>>
  /\ act' = AddLabel(it, d)

AddGrow(it) == LET d == Decide(used, cap, limit, RecSize(it)) IN
  /\ d.how = "grow"
  /\ q' = Append(q, it) /\ used' = used + RecSize(it) /\ cap' = d.cap /\ UNCHANGED limit
  /\ act' = AddLabel(it, d)

AddRefuse(it) == LET d == Decide(used, cap, limit, RecSize(it)) IN
  /\ d.how = "refuse"
  /\ UNCHANGED <<q, used, limit>> /\ cap' = d.cap
  /\ act' = AddLabel(it, d)

Add(it) == AddFit(it) \/ AddGrow(it) \/ AddRefuse(it)

\* LocalBuffer.Next: the oldest item, or "nothing" on an empty buffer
NextItem == \/ /\ q # <<>>
               /\ q' = Tail(q) /\ UNCHANGED <<used, cap, limit>>
               /\ act' = [name |-> "Next", ok |-> TRUE, item |-> Head(q)]
            \/ /\ q = <<>>
               /\ UNCHANGED <<q, used, cap, limit>>
               /\ act' = [name |-> "Next", ok |-> FALSE]

\* LocalBuffer.Reset: both positions to zero, the slice stays as large as it is
Reset == /\ q' = <<>> /\ used' = 0 /\ UNCHANGED <<cap, limit>>
         /\ act' = [name |-> "Reset"]

\* what bufferPackets does at its end and the next lock cycle at its start:
\* Reset, pool.Put(data), ... pool.Get(initial), Assign - the slice comes back with length Cap0
Recycle == /\ q' = <<>> /\ used' = 0 /\ cap' = Cap0 /\ UNCHANGED limit
           /\ act' = [name |-> "Recycle"]

Next == \/ \E l \in Limits : New(l)
        \/ \E it \in Items : Add(it)
        \/ NextItem \/ Reset \/ Recycle

Spec == Init /\ [][Next]_vars

\* observable projection used by the forward replay
Ids(s) == [i \in 1..Len(s) |-> s[i].id]
Obs == [qids |-> Ids(q), qlen |-> Len(q), used |-> used, cap |-> cap, limit |-> limit]

(***************************************************************************)
(* Property C23 on the design.                                             *)
(***************************************************************************)
ASSUME \A it \in Items : RecSize(it) > 0 /\ RecSize(it) <= Cap0

TypeOK == /\ used >= 0 /\ cap >= Cap0 /\ limit \in Limits
          /\ \A i \in 1..Len(q) : q[i] \in Items

\* "bounded": never more written than the slice holds, the slice never beyond the limit
Bounded == used <= cap /\ cap <= Max(Cap0, limit)

IsAdd(a)    == a.name = "Add"
Refused(a)  == IsAdd(a) /\ ~a.ok
Accepted(a) == IsAdd(a) /\ a.ok

\* an item is refused only when the buffer has reached its size limit ...
RefusedOnlyAtLimit ==
  [][Refused(act') => ReachedLimit(used, cap, limit, RecSize(act'.item))]_vars
\* ... (and, for a bounded buffer, it is refused then)
RefusedWhenAtLimit ==
  [][IsAdd(act') /\ ReachedLimit(used, cap, limit, RecSize(act'.item)) => Refused(act')]_vars
\* ... and a refused insert leaves the buffer unchanged (content, write position; no later
\* decision is affected either: the slice may only have been raised to what the limit allows anyway)
RefusedUnchanged ==
  [][Refused(act') => UNCHANGED <<q, used, limit>> /\ Max(cap', limit) = Max(cap, limit)]_vars
\* an accepted item is stored behind everything else with every field as given
AcceptedAppends ==
  [][Accepted(act') => q' = Append(q, act'.item) /\ used' = used + RecSize(act'.item)]_vars
\* items are taken from the front, unaltered; taking does not free space
NextPopsHead ==
  [][act'.name = "Next" =>
       IF q = <<>> THEN ~act'.ok /\ UNCHANGED <<q, used, cap>>
       ELSE act'.ok /\ act'.item = Head(q) /\ q' = Tail(q) /\ UNCHANGED <<used, cap>>]_vars
=============================================================================
