--------------------------- MODULE LocalBufferMC ---------------------------
(***************************************************************************)
(* Bounded exhaustive exploration of LocalBuffer with scaled sizes (see    *)
(* the size rule in LocalBuffer.tla): Cap0 = 8 units, an IPv4 record 2     *)
(* units, an IPv6 record 5 units, limits 8 (= Cap0), 12 (growth cut by the *)
(* limit), 16 (one doubling), 5 (below the initial size), 9 (growth        *)
(* smaller than a record).  All operation sequences up to MaxDepth.        *)
(*                                                                         *)
(* An observer that only looks at the action labels keeps the history the  *)
(* FIFO property talks about: `added` = every item whose Add returned ok   *)
(* since the buffer was last emptied by New/Reset/Recycle, `taken` = how   *)
(* many Next calls returned an item since then.                            *)
(***************************************************************************)
EXTENDS LocalBuffer
CONSTANTS MaxDepth,
          WithBadRefuse   \* TRUE only in the negative control LocalBufferMCNeg.cfg
VARIABLES added, taken
mcvars == <<vars, added, taken>>

MCRecSize(it) == IF it.fam = 4 THEN 2 ELSE 5
MCLimits == {8, 12, 16, 5, 9}
MCItems == { [id |-> 1, fam |-> 4, key |-> 1, type |-> 0,   aux |-> 255, errno |-> -128, size |-> <<0, 0>>],
             [id |-> 2, fam |-> 6, key |-> 2, type |-> 255, aux |-> 0,   errno |-> 127,  size |-> <<65535, 65535>>],
             [id |-> 3, fam |-> 4, key |-> 1, type |-> 4,   aux |-> 1,   errno |-> -1,   size |-> <<256, 1>>] }

MCInit == Init /\ added = <<>> /\ taken = 0
Observe == /\ added' = CASE act'.name \in {"New", "Reset", "Recycle"} -> <<>>
                         [] Accepted(act')                              -> Append(added, act'.item)
                         [] OTHER                                       -> added
           /\ taken' = CASE act'.name \in {"New", "Reset", "Recycle"} -> 0
                         [] act'.name = "Next" /\ act'.ok               -> taken + 1
                         [] OTHER                                       -> taken
\* one named sub-action per case so that TLC's coverage shows which cases were taken
DoNew       == (\E l \in Limits : New(l)) /\ Observe
DoAddFit    == (\E it \in Items : AddFit(it)) /\ Observe
DoAddGrow   == (\E it \in Items : AddGrow(it)) /\ Observe
DoAddRefuse == (\E it \in Items : AddRefuse(it)) /\ Observe
DoNext      == NextItem /\ q # <<>> /\ Observe
DoNextEmpty == NextItem /\ q = <<>> /\ Observe
DoReset     == Reset /\ Observe
DoRecycle   == Recycle /\ Observe
\* negative control: a design that gives up without trying to grow must be caught by RefusedOnlyAtLimit
BadRefuse   == /\ WithBadRefuse
               /\ \E it \in Items : /\ ~Fits(used, cap, RecSize(it))
                                    /\ UNCHANGED <<q, used, cap, limit>>
                                    /\ act' = [name |-> "Add", item |-> it, ok |-> FALSE, how |-> "refuse", room |-> 0]
               /\ Observe
MCNext == BadRefuse \/ DoNew \/ DoAddFit \/ DoAddGrow \/ DoAddRefuse \/ DoNext \/ DoNextEmpty \/ DoReset \/ DoRecycle
MCSpec == MCInit /\ [][MCNext]_mcvars

Bound == TLCGet("level") <= MaxDepth

Drop(s, n) == SubSeq(s, n + 1, Len(s))
RECURSIVE SumSize(_)
SumSize(s) == IF s = <<>> THEN 0 ELSE RecSize(Head(s)) + SumSize(Tail(s))

\* items come out in insertion order: the buffer holds exactly the accepted items not yet taken
FIFO == q = Drop(added, taken)
\* every Next hands out the oldest accepted item that was not handed out yet, field by field
NextIsOldest == [][(act'.name = "Next" /\ act'.ok) => act'.item = added[taken + 1]]_mcvars
\* the write position is the sum of the accepted records (Next frees nothing)
UsedIsSum == used = SumSize(added)
=============================================================================
