-------------------------- MODULE LocalBufferTrace --------------------------
(***************************************************************************)
(* Trace validation (code -> spec) for the local packet buffer, in real    *)
(* bytes.  The Go driver (harness/internal/localbuf, Drive) performs long  *)
(* seeded operation sequences on capture.LocalBuffer through the pool path *)
(* and logs one NDJSON event per call: the arguments and what the call     *)
(* RETURNED (Add: ok; Next: ok and every field of the item).  `used`/`cap` *)
(* are internals read by reflection; they are only counted as drift.       *)
(*                                                                         *)
(* Judging follows the statement of C23, not the design's every choice:    *)
(*  * Next must return exactly Head(q) of the model (order and all fields) *)
(*    or "nothing" iff the model queue is empty           -> else MISMATCH *)
(*  * a refused Add is legitimate iff ReachedLimit holds in the model      *)
(*    (the record does not fit into the largest slice the limit allows);   *)
(*    the model queue stays unchanged either way          -> else MISMATCH *)
(*  * an Add the code ACCEPTS although the design refuses (AddOver) is not *)
(*    covered by the statement: the model follows the code (the item is    *)
(*    queued) and the event is counted as drift, not as a mismatch.        *)
(* Mismatches do not stop the validation (the model keeps following the    *)
(* calls); the first MaxReports of each class are printed, the check       *)
(* groups them.                                                            *)
(***************************************************************************)
EXTENDS LocalBuffer, Json

TraceLog == ndJsonDeserialize("trace.ndjson")
MaxReports == 12   \* printed mismatches per class
Classes == {"field-mismatch", "next-empty-mismatch", "refused-below-limit", "refused-exact-fit", "panic"}

VARIABLES l, nmis, ndrift,
          nrep   \* mismatches per class so far (only the first MaxReports of a class are printed)
tvars == <<vars, l, nmis, ndrift, nrep>>

TraceRecSize(it) == IF it.fam = 4 THEN 21 ELSE 45

ItemOf(e) == [id |-> 0, fam |-> e.fam, key |-> e.key, type |-> e.type, aux |-> e.aux,
              errno |-> e.errno, size |-> <<e.hi, e.lo>>]
Fields == {"fam", "key", "type", "aux", "errno", "size"}
Diff(a, b) == {f \in Fields : a[f] # b[f]}

Report(e, cls, extra) ==
  /\ nrep' = [nrep EXCEPT ![cls] = @ + 1]
  /\ nmis' = nmis + 1
  /\ IF nrep[cls] < MaxReports
     THEN PrintT(<<"MISMATCH", ToJson([line |-> l, tr |-> e.tr, ev |-> e.ev, cls |-> cls, limit |-> limit,
                                    model_used |-> used, model_cap |-> cap, model_qlen |-> Len(q),
                                    extra |-> extra])>>)
     ELSE TRUE
NoReport == nmis' = nmis /\ nrep' = nrep

\* internals differ from the model (never a verdict); the first few are printed for the evidence
InternalDrift(e) ==
  IF e.used # used' \/ e.cap # cap'
  THEN IF ndrift < 5 /\ PrintT(<<"INFO", ToJson([drift |-> "internal", line |-> l, ev |-> e.ev, limit |-> limit',
                                                 code_used |-> e.used, code_cap |-> e.cap,
                                                 model_used |-> used', model_cap |-> cap'])>>)
       THEN 1 ELSE 1
  ELSE 0

\* accepted by the code although the design refuses: follow the code
AddOver(it) == /\ q' = Append(q, it) /\ used' = used + RecSize(it) /\ UNCHANGED <<cap, limit>>
               /\ act' = [name |-> "Add", item |-> it, ok |-> TRUE, how |-> "over",
                          room |-> Room(used, cap, limit, RecSize(it))]

AddEv(e) ==
  LET it == ItemOf(e)
      sz == RecSize(it)
      d  == Decide(used, cap, limit, sz)
  IN \/ /\ d.ok = e.ok /\ Add(it)                          \* the specification's action
        /\ NoReport /\ ndrift' = ndrift + InternalDrift(e)
     \/ /\ e.ok /\ ~d.ok /\ AddOver(it)
        /\ NoReport /\ ndrift' = ndrift + 1
     \/ /\ ~e.ok /\ d.ok                                   \* refused below the size limit
        /\ UNCHANGED <<q, used, cap, limit>>
        /\ act' = [name |-> "Add", item |-> it, ok |-> FALSE, how |-> "refuse",
                   room |-> Room(used, cap, limit, sz)]
        /\ Report(e, IF Room(used, cap, limit, sz) = 0 THEN "refused-exact-fit" ELSE "refused-below-limit",
                  [fam |-> it.fam, room |-> Room(used, cap, limit, sz), how |-> d.how])
        /\ ndrift' = ndrift

NextEv(e) ==
  /\ NextItem
  /\ ndrift' = ndrift + InternalDrift(e)
  /\ IF act'.ok # e.ok
     THEN Report(e, "next-empty-mismatch", [model_ok |-> act'.ok, got_ok |-> e.ok])
     ELSE IF act'.ok /\ Diff(act'.item, ItemOf(e)) # {}
     THEN Report(e, "field-mismatch", [fields |-> Diff(act'.item, ItemOf(e)), putin |-> act'.item, cameout |-> ItemOf(e)])
     ELSE NoReport

Plain(e, A) == A /\ NoReport /\ ndrift' = ndrift + InternalDrift(e)

\* a crash of the code under test: reported; the model does not move (the driver continues the trace
\* with a fresh pool and buffer, i.e. a New event)
PanicEv(e) == /\ Report(e, "panic", [panic |-> e.panic])
              /\ UNCHANGED <<vars, ndrift>>

Step(e) ==
  IF e.panic # "" THEN PanicEv(e)
  ELSE CASE e.ev = "New"     -> Plain(e, New(e.limit))
         [] e.ev = "Add"     -> AddEv(e)
         [] e.ev = "Next"    -> NextEv(e)
         [] e.ev = "Reset"   -> Plain(e, Reset)
         [] e.ev = "Recycle" -> Plain(e, Recycle)

TraceInit == /\ q = <<>> /\ used = 0 /\ cap = Cap0 /\ limit = 0 /\ act = [name |-> "Start"]
             /\ l = 1 /\ nmis = 0 /\ ndrift = 0 /\ nrep = [c \in Classes |-> 0]

TraceNext ==
  /\ l <= Len(TraceLog)
  /\ Step(TraceLog[l])
  /\ l' = l + 1
  /\ (l = Len(TraceLog)) => PrintT(<<"INFO", ToJson([mismatches |-> nmis', per_class |-> nrep', drift_events |-> ndrift', events |-> l])>>)

TraceSpec == TraceInit /\ [][TraceNext]_tvars

TraceAccepted ==
  \/ TLCGet("stats").diameter - 1 = Len(TraceLog)
  \/ PrintT(<<"INFO", ToJson([consumed |-> TLCGet("stats").diameter - 1, total |-> Len(TraceLog)])>>) /\ FALSE
=============================================================================
