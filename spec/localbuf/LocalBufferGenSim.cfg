SPECIFICATION GenSpec
CONSTANTS
  Cap0 = 4096
  Limits <- RealLimits
  Items <- ItemsBytes
  RecSize <- RealRecSize
  Depth = 40
  Ops = {"Add", "Next", "Reset", "Recycle", "Fill"}
  MaxFills = 3
  Pick = 6
  Window = 70
CHECK_DEADLOCK FALSE
