---------------------------- MODULE ListRangeMC ----------------------------
(***************************************************************************)
(* Bounded instance of ListRange: the exhaustive DB family and range grid. *)
(*                                                                         *)
(* Slots (offsets inside a day, seconds): 300 first regular write-out,     *)
(* 43200 / 43500 two adjacent write-outs at mid day, 86300 a write-out     *)
(* inside the last 300 s before midnight.  Every subset of the NDays * 4   *)
(* write-outs is a DB (mask = sum of 2^k).                                 *)
(* Grid (15 points, D1 = 86400, D2 = 172800): before all data; between     *)
(* blocks of day 0; 200 s / 100 s (= on the last block of day 0) before    *)
(* midnight; on the day boundary; on / between every block of day 1;       *)
(* 200 s before the next midnight; on a block of day 2; after all data.    *)
(***************************************************************************)
EXTENDS ListRange, Json

MCSlots == <<300, 43200, 43500, 86300>>
\* second family: the first write-out of a day happens exactly at midnight (the periodic write-out on
\* the day boundary goes into the new day's directory): a block whose time IS the day start, which is
\* also a point of the grid (86400)
MCSlotsMidnight == <<0, 43200, 43500, 86300>>

MCGridSeq == <<-1000, 20000, 86200, 86300, 86400, 86700, 106400, 129600, 129750, 129900, 146400,
               172600, 172700, 216000, 262800>>
MCGrid == {MCGridSeq[i] : i \in 1..Len(MCGridSeq)}
\* a 5-point sub-grid for the negative model runs (each deviation must already fail here)
NegGrid == {-1000, 20000, 86200, 129600, 262800}
GridMin == -1000
GridMax == 262800

\* block statistics by write-out number k = 0..11: distinct powers of two in every additive field so that
\* a sum identifies the set of blocks it was taken over; k = 6 is a write-out without any flow (idle
\* interface, only drops); k = 5 has IPv6 flows only; some blocks have no drops
V4s == <<1, 2, 3, 1, 2, 0, 0, 1, 3, 2, 1, 2>>
V6s == <<0, 1, 0, 2, 1, 2, 0, 0, 1, 0, 3, 1>>
NoDropBlocks == {1, 4, 9}
MCBlockAt(d, s) ==
  LET k == d * 4 + (s - 1)
      p == Pow2(k)
      dr == IF k \in NoDropBlocks THEN 0 ELSE p
  IN IF V4s[k + 1] + V6s[k + 1] = 0
     THEN <<0, 0, dr, 0, 0, 0, 0>>
     ELSE <<V4s[k + 1], V6s[k + 1], dr, 100000 + 7 * p, 50000 + 3 * p, 100 + p, 50 + 5 * p>>

\* C12 on the model; a violation is printed as a machine-readable candidate for forward replay
AlgoEqualsDefinitionP ==
  \/ AlgoEqualsDefinition
  \/ /\ PrintT(<<"INFO", ToJson([mask |-> mask, f |-> q.f, l |-> q.l, algo |-> acc,
                                  def |-> Summary(db, q.f, q.l)])>>)
     /\ FALSE
=============================================================================
