---------------------------- MODULE ListRangeGen ----------------------------
(***************************************************************************)
(* Case generator for forward replay (spec -> code).  For every DB of the  *)
(* family named in Pick, the writer actions of ListRange are driven        *)
(* write-out by write-out (each Write step carries the whole-range summary *)
(* the definition predicts after it), then one line is printed with the    *)
(* definition's Summary for every (first, last) of the grid.  `alts` lists *)
(* what the modelled algorithm yields under each non-empty set of the      *)
(* named deviations whenever that differs from the definition; the harness *)
(* uses it only to name the root cause of a mismatch, never as the oracle. *)
(***************************************************************************)
EXTENDS ListRangeMC

CONSTANT Pick          \* set of DB masks to generate
VARIABLES want, hist, done

gvars == <<vars, want, hist, done>>

Bit(m, k) == (m \div Pow2(k)) % 2 = 1

AllBlocks(D) == LET RECURSIVE Cat(_)
                    Cat(ds) == IF ds = <<>> THEN <<>> ELSE D[ds[1]].blocks \o Cat(Tail(ds))
                IN Cat(DaySeq)

\* abstract position of a bound relative to the stored blocks (for descriptors and coverage only)
PointClass(bs, t) ==
  LET n  == Len(bs)
      day == IF t >= 0 THEN t \div DayLen ELSE -1
  IN IF n = 0 THEN "no-data"
     ELSE IF \E i \in 1..n : bs[i].ts = t THEN "on-block"
     ELSE IF t < bs[1].ts THEN "before-data"
     ELSE IF t > bs[n].ts THEN "after-data"
     ELSE IF t % DayLen = 0 THEN "day-boundary"
     ELSE LET prev == CHOOSE i \in 1..n : bs[i].ts < t /\ (i = n \/ bs[i + 1].ts > t)
          IN IF bs[prev].ts \div DayLen = day /\ bs[prev + 1].ts \div DayLen = day
             THEN "between-blocks"
             ELSE IF DayStart(day + 1) - t < WriteInterval /\ bs[prev + 1].ts \div DayLen = day + 1
                  THEN "before-midnight"
                  ELSE "between-days"

\* alts: result of the modelled algorithm under every minimal set of deviations that changes the result
\* (every LET name is evaluated at most once per case)
\* (values are bound by set comprehensions so that TLC evaluates each of them exactly once)
Variants(p) == <<Combine(p, {}), Combine(p, {"A"}), Combine(p, {"B"}), Combine(p, {"C"}), Combine(p, {"A", "B"}),
                 Combine(p, {"A", "C"}), Combine(p, {"B", "C"}), Combine(p, {"A", "B", "C"})>>

CaseRec(f, l, fc, lc, e, walked, R) ==
  LET one(n, r) == IF r # e THEN {[s |-> n, r |-> r]} ELSE {}
      two(n, r, x, y) == IF r # e /\ r # x /\ r # y THEN {[s |-> n, r |-> r]} ELSE {}
      three == IF \A i \in 2..7 : R[8] # R[i] THEN one("ABC", R[8]) ELSE {}
  IN [f |-> f, l |-> l, fc |-> fc, lc |-> lc, exp |-> e,
      repaired |-> (R[1] = e),
      asbuilt |-> R[8],
      walked |-> walked,
      alts |-> one("A", R[2]) \cup one("B", R[3]) \cup one("C", R[4]) \cup two("AB", R[5], R[2], R[3])
               \cup two("AC", R[6], R[2], R[4]) \cup two("BC", R[7], R[3], R[4]) \cup three]

ClassOf(pcs, t) == (CHOOSE pr \in pcs : pr[1] = t)[2]

Case(D, pcs, f, l) ==
  CHOOSE c \in UNION {{CaseRec(f, l, ClassOf(pcs, f), ClassOf(pcs, l), e, p.walked, R) : R \in {Variants(p)}} :
                        e \in {Summary(D, f, l)}, p \in {Parts(D, f, l)}} : TRUE

Cases(D) ==
  UNION {{Case(D, pcs, p[1], p[2]) : p \in {pp \in MCGrid \X MCGrid : pp[1] <= pp[2]}} :
         pcs \in {{<<t, PointClass(AllBlocks(D), t)>> : t \in MCGrid}}}

GenInit == Init /\ want \in Pick /\ hist = <<>> /\ done = FALSE

GenNext ==
  \/ /\ ~done /\ cur < NWrites /\ Bit(want, cur)
     /\ WriteBlock
     /\ hist' = Append(hist, [act |-> act', exp |-> Summary(db', GridMin, GridMax)])
     /\ UNCHANGED <<want, done>>
  \/ /\ ~done /\ cur < NWrites /\ ~Bit(want, cur)
     /\ SkipSlot
     /\ UNCHANGED <<want, hist, done>>
  \/ /\ ~done /\ cur = NWrites
     /\ Assert(mask = want, "mask")
     /\ PrintT(<<"TRACE", ToJson([mask |-> mask, min |-> GridMin, max |-> GridMax, steps |-> hist,
                                   cases |-> Cases(db)])>>)
     /\ done' = TRUE
     /\ UNCHANGED <<vars, want, hist>>

GenSpec == GenInit /\ [][GenNext]_gvars
=============================================================================
