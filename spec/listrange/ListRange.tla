----------------------------- MODULE ListRange -----------------------------
(***************************************************************************)
(* Property C12: the per-interface summary that `goQuery list` prints for  *)
(* a time range [first, last] equals the sum over the stored blocks whose  *)
(* time lies in that range (and therefore agrees with the totals of a      *)
(* query over the same interface and range, whose engine keeps exactly the *)
(* blocks with first <= ts <= last, DBWorkManager.readBlocksAndEvaluate).  *)
(*                                                                         *)
(* State: one interface of a goDB.  A day directory is a sequence of       *)
(* blocks [ts, st] in write order plus the day totals `tot` that the       *)
(* writer keeps in the directory-name suffix.  A block's statistics `st`   *)
(* are the 7-tuple <<v4 flows, v6 flows, drops, bytes rcvd, bytes sent,    *)
(* packets rcvd, packets sent>>.                                           *)
(*                                                                         *)
(* Summary(D, f, l) is the DEFINITION the property demands.  The module    *)
(* also models DBWorkManager.ReadMetadata step by step (walk the day       *)
(* directories, add the suffix totals of every walked day, subtract the    *)
(* blocks before `first` on the first walked day, subtract the blocks      *)
(* after `last` on the last walked day).  Where the code as written is     *)
(* suspected to deviate from the definition, the deviation is a named      *)
(* member of the constant Dev:                                             *)
(*   "A"  storage.BlockHeader.BlocksAfter(last) skips the first block with *)
(*        ts >= last even when its ts > last (bound between blocks, or     *)
(*        before the first block of the last walked day)                   *)
(*   "B"  readMetadataAndEvaluate never fills Traffic.NumDrops, so drops   *)
(*        of subtracted blocks stay in the summary                         *)
(*   "C"  walkDB visits the day that starts less than 300 s after `last`;  *)
(*        the after-`last` subtraction is applied to that (last walked)    *)
(*        day only, so blocks of the previous day lying after `last` stay  *)
(* Dev = {} is the design that satisfies the property; Dev = {"A","B","C"} *)
(* is the code as read.  Verdicts never come from this model alone: the    *)
(* real ReadMetadata is compared with Summary case by case (ListRangeGen). *)
(***************************************************************************)
EXTENDS Integers, Sequences, FiniteSets, TLC

CONSTANTS NDays,          \* days 0 .. NDays-1, day d starts at d * DayLen
          Slots,          \* sequence of offsets inside a day at which a block may be written (increasing)
          Grid,           \* set of time points used as first / last
          BlockAt(_, _),  \* (day, slot index) -> statistics of the block written there
          Dev             \* subset of {"A", "B", "C"}: deviations of the modelled algorithm

DayLen        == 86400    \* gpfile.EpochDay
WriteInterval == 300      \* goDB.DBWriteInterval

VARIABLES db,    \* [0..NDays-1 -> [blocks : Seq([ts, st]), tot : stats]]
          cur,   \* writer cursor over the NDays * Len(Slots) possible write-outs, in time order
          mask,  \* identity of the DB: sum of 2^k over the write-outs k that happened
          pc,    \* "write" | "walk" | "first" | "done"
          q,     \* the listed range [f, l]
          acc,   \* aggMetadata.Stats of ReadMetadata
          todo,  \* day directories the walk still has to visit
          nd,    \* numDirs of walkDB
          cd,    \* curDir: the day visited last
          act
vars == <<db, cur, mask, pc, q, acc, todo, nd, cd, act>>

---------------------------------------------------------------------------
(* statistics *)
Zero == <<0, 0, 0, 0, 0, 0, 0>>
Add(a, b) == <<a[1] + b[1], a[2] + b[2], a[3] + b[3], a[4] + b[4], a[5] + b[5], a[6] + b[6], a[7] + b[7]>>
Sub(a, b) == <<a[1] - b[1], a[2] - b[2], a[3] - b[3], a[4] - b[4], a[5] - b[5], a[6] - b[6], a[7] - b[7]>>
NoDrops(a) == <<a[1], a[2], 0, a[4], a[5], a[6], a[7]>>

RECURSIVE SumFrom(_, _)
SumFrom(bs, i) == IF i > Len(bs) THEN Zero ELSE Add(bs[i].st, SumFrom(bs, i + 1))
SumSt(bs) == SumFrom(bs, 1)

NSlots   == Len(Slots)
NWrites  == NDays * NSlots
Days     == 0 .. (NDays - 1)
DaySeq   == [i \in 1..NDays |-> i - 1]
DayStart(d) == d * DayLen
DayOf(k)  == k \div NSlots            \* write-out k = 0 .. NWrites-1
SlotOf(k) == (k % NSlots) + 1
TsOf(k)   == DayStart(DayOf(k)) + Slots[SlotOf(k)]

RECURSIVE Pow2(_)
Pow2(n) == IF n = 0 THEN 1 ELSE 2 * Pow2(n - 1)

EmptyDB == [d \in Days |-> [blocks |-> <<>>, tot |-> Zero]]

\* gpfile.GPDir.WriteBlocks + Close: append the block, update the day totals (directory suffix)
Written(D, k) ==
  LET d == DayOf(k)
      b == [ts |-> TsOf(k), st |-> BlockAt(d, SlotOf(k))]
  IN [D EXCEPT ![d] = [blocks |-> Append(@.blocks, b), tot |-> Add(@.tot, b.st)]]

---------------------------------------------------------------------------
(* THE DEFINITION: sum over the stored blocks whose time lies in the range *)
InRange(b, f, l) == f <= b.ts /\ b.ts <= l
DaySummary(D, d, f, l) == SumSt(SelectSeq(D[d].blocks, LAMBDA b : InRange(b, f, l)))
RECURSIVE SumDays(_, _, _, _)
SumDays(D, ds, f, l) == IF ds = <<>> THEN Zero
                        ELSE Add(DaySummary(D, ds[1], f, l), SumDays(D, Tail(ds), f, l))
Summary(D, f, l) == SumDays(D, DaySeq, f, l)

---------------------------------------------------------------------------
(* THE ALGORITHM of DBWorkManager.ReadMetadata, as operators shared by the *)
(* actions below and by the case generator                                 *)
Exists(D, d) == Len(D[d].blocks) > 0        \* a day directory exists once a block was written

\* walkDB: tfirst < dayTimestamp+EpochDay && dayTimestamp < tlast+DBWriteInterval, directory order
WalkSeq(D, f, l) ==
  SelectSeq(DaySeq, LAMBDA d : Exists(D, d) /\ f < DayStart(d) + DayLen /\ DayStart(d) < l + WriteInterval)

\* index of the first block with Timestamp >= t (0 if there is none): the loop of BlocksBefore / BlocksAfter
RECURSIVE FirstGE(_, _, _)
FirstGE(bs, t, i) == IF i > Len(bs) THEN 0 ELSE IF bs[i].ts >= t THEN i ELSE FirstGE(bs, t, i + 1)

\* storage.BlockHeader.BlocksBefore(ts): everything in front of the first block with Timestamp >= ts
BlocksBefore(bs, t) ==
  LET i == FirstGE(bs, t, 1) IN IF i = 0 THEN bs ELSE SubSeq(bs, 1, i - 1)

\* storage.BlockHeader.BlocksAfter(ts) as written: everything behind the first block with Timestamp >= ts
BlocksAfterAsBuilt(bs, t) ==
  LET i == FirstGE(bs, t, 1) IN IF i = 0 THEN <<>> ELSE SubSeq(bs, i + 1, Len(bs))
\* what the summary needs: the blocks that lie after the bound
BlocksAfterBound(bs, t) == SelectSeq(bs, LAMBDA b : b.ts > t)
BlocksAfter(bs, t, dev) == IF "A" \in dev THEN BlocksAfterAsBuilt(bs, t) ELSE BlocksAfterBound(bs, t)

\* readMetadataAndEvaluate: per-block statistics re-read from the block data (v4/v6 from the block
\* traffic metadata, counters from the counter columns; NumDrops is not filled in as written)
RS(st, dev) == IF "B" \in dev THEN NoDrops(st) ELSE st
ReadStats(bs, dev) == RS(SumSt(bs), dev)

SubBefore(a, D, d, f, dev) ==
  IF f >= D[d].blocks[1].ts                       \* tfirst >= dirFirst
  THEN Sub(a, ReadStats(BlocksBefore(D[d].blocks, f), dev))
  ELSE a

SubAfter(a, D, d, l, dev) ==
  IF l <= D[d].blocks[Len(D[d].blocks)].ts        \* tlast <= dirLast
  THEN Sub(a, ReadStats(BlocksAfter(D[d].blocks, l, dev), dev))
  ELSE a

\* blocks after `last` on walked days other than the last one (only the day before the last walked
\* day can have any: the walk includes a day that starts less than WriteInterval after `last`)
RECURSIVE SubAfterOther(_, _, _, _, _)
SubAfterOther(a, D, ds, l, dev) ==
  IF "C" \in dev \/ Len(ds) <= 1 THEN a
  ELSE SubAfterOther(Sub(a, ReadStats(BlocksAfterBound(D[ds[1]].blocks, l), dev)), D, Tail(ds), l, dev)

RECURSIVE SumTot(_, _)
SumTot(D, ds) == IF ds = <<>> THEN Zero ELSE Add(D[ds[1]].tot, SumTot(D, Tail(ds)))

\* The whole algorithm as one function of (DB, first, last, deviations), for the case generator.
\* Parts are the sums the algorithm works with (independent of the deviations), Combine applies them;
\* invariant ActionsAgreeWithAlgo ties this form to the action system below.
OtherDays(w) == IF Len(w) <= 1 THEN <<>> ELSE SubSeq(w, 1, Len(w) - 1)
RECURSIVE SumAfterBound(_, _, _)
SumAfterBound(D, ds, l) ==
  IF ds = <<>> THEN Zero ELSE Add(SumSt(BlocksAfterBound(D[ds[1]].blocks, l)), SumAfterBound(D, Tail(ds), l))

PartsOf(D, f, l, w) ==
  IF w = <<>> THEN [walked |-> 0, tot |-> Zero, before |-> Zero, afterAsBuilt |-> Zero, afterBound |-> Zero, other |-> Zero]
  ELSE LET fb == D[w[1]].blocks          \* first walked day
           lb == D[w[Len(w)]].blocks     \* last walked day
       IN [walked       |-> Len(w),
           tot          |-> SumTot(D, w),
           before       |-> IF f >= fb[1].ts THEN SumSt(BlocksBefore(fb, f)) ELSE Zero,
           afterAsBuilt |-> IF l <= lb[Len(lb)].ts THEN SumSt(BlocksAfterAsBuilt(lb, l)) ELSE Zero,
           afterBound   |-> IF l <= lb[Len(lb)].ts THEN SumSt(BlocksAfterBound(lb, l)) ELSE Zero,
           other        |-> SumAfterBound(D, OtherDays(w), l)]
\* (the walk is bound by a set comprehension so that TLC evaluates it once)
Parts(D, f, l) == CHOOSE p \in {PartsOf(D, f, l, w) : w \in {WalkSeq(D, f, l)}} : TRUE

Combine(p, dev) ==
  Sub(Sub(Sub(p.tot, RS(p.before, dev)),
          RS(IF "A" \in dev THEN p.afterAsBuilt ELSE p.afterBound, dev)),
      IF "C" \in dev THEN Zero ELSE RS(p.other, dev))

Algo(D, f, l, dev) == Combine(Parts(D, f, l), dev)

---------------------------------------------------------------------------
Init == /\ db = EmptyDB /\ cur = 0 /\ mask = 0 /\ pc = "write"
        /\ q = [f |-> 0, l |-> 0] /\ acc = Zero /\ todo = <<>> /\ nd = 0 /\ cd = -1
        /\ act = [name |-> "Init"]

\* DBWriter.Write at the next write-out time
WriteBlock == /\ pc = "write" /\ cur < NWrites
              /\ db' = Written(db, cur)
              /\ mask' = mask + Pow2(cur)
              /\ cur' = cur + 1
              /\ act' = [name |-> "Write", day |-> DayOf(cur), slot |-> SlotOf(cur), ts |-> TsOf(cur),
                         blk |-> BlockAt(DayOf(cur), SlotOf(cur))]
              /\ UNCHANGED <<pc, q, acc, todo, nd, cd>>

\* nothing is written at this write-out time (capture not running)
SkipSlot == /\ pc = "write" /\ cur < NWrites
            /\ cur' = cur + 1
            /\ act' = [name |-> "Skip"]
            /\ UNCHANGED <<db, mask, pc, q, acc, todo, nd, cd>>

\* goQuery list -f f -l l  ->  DBWorkManager.ReadMetadata(f, l) starts
List(f, l) == /\ pc = "write" /\ cur = NWrites /\ f <= l
              /\ q' = [f |-> f, l |-> l]
              /\ acc' = Zero /\ todo' = WalkSeq(db, f, l) /\ nd' = 0 /\ cd' = -1
              /\ pc' = "walk"
              /\ act' = [name |-> "List", f |-> f, l |-> l]
              /\ UNCHANGED <<db, cur, mask>>

\* walkFunc: aggMetadata.Stats.Add(curDir.Stats) with the totals from the directory suffix
AddDay == /\ pc = "walk" /\ todo # <<>>
          /\ acc' = Add(acc, db[Head(todo)].tot)
          /\ cd' = Head(todo) /\ todo' = Tail(todo) /\ nd' = nd + 1
          /\ pc' = IF nd = 0 THEN "first" ELSE "walk"
          /\ act' = [name |-> "AddDay", day |-> Head(todo)]
          /\ UNCHANGED <<db, cur, mask, q>>

\* walkFunc, numDirs == 0: subtract the blocks before tfirst
SubtractBefore == /\ pc = "first"
                  /\ acc' = SubBefore(acc, db, cd, q.f, Dev)
                  /\ pc' = "walk"
                  /\ act' = [name |-> "SubtractBefore", day |-> cd]
                  /\ UNCHANGED <<db, cur, mask, q, todo, nd, cd>>

\* after the walk: subtract the blocks after tlast
SubtractAfter == /\ pc = "walk" /\ todo = <<>>
                 /\ acc' = IF nd = 0 THEN acc
                           ELSE SubAfterOther(SubAfter(acc, db, cd, q.l, Dev), db, WalkSeq(db, q.f, q.l), q.l, Dev)
                 /\ pc' = "done"
                 /\ act' = [name |-> "SubtractAfter", day |-> cd]
                 /\ UNCHANGED <<db, cur, mask, q, todo, nd, cd>>

Next == WriteBlock \/ SkipSlot \/ (\E f, l \in Grid : List(f, l)) \/ AddDay \/ SubtractBefore \/ SubtractAfter
Spec == Init /\ [][Next]_vars

Obs == [acc |-> acc, pc |-> pc]

---------------------------------------------------------------------------
(* properties *)
StatsOK(s) == DOMAIN s = 1..7 /\ \A i \in 1..7 : s[i] \in Nat    \* Go uses uint64: a negative value would wrap
TypeOK == /\ cur \in 0..NWrites /\ pc \in {"write", "walk", "first", "done"}
          /\ \A d \in Days : StatsOK(db[d].tot)
          /\ StatsOK(acc)

\* the directory suffix always carries the day totals (the DB only changes in the write phase)
SuffixIsDayTotal == pc = "write" => \A d \in Days : db[d].tot = SumSt(db[d].blocks)

\* blocks are stored in increasing time order and in the directory of their day
BlocksOrdered == pc = "write" => \A d \in Days : \A i \in 1..Len(db[d].blocks) :
                    /\ DayStart(d) <= db[d].blocks[i].ts /\ db[d].blocks[i].ts < DayStart(d) + DayLen
                    /\ (i > 1 => db[d].blocks[i - 1].ts < db[d].blocks[i].ts)

\* C12 on the model: the algorithm's result is the definition
AlgoEqualsDefinition == pc = "done" => acc = Summary(db, q.f, q.l)

\* the functional form used by the case generator is the action system
ActionsAgreeWithAlgo == pc = "done" => acc = Algo(db, q.f, q.l, Dev)
=============================================================================
