SPECIFICATION GenSpec
CONSTANTS
  NDays = 3
  Slots <- MCSlots
  Grid <- MCGrid
  BlockAt <- MCBlockAt
  Dev = {}
  Pick = {0, 1, 33, 4095, 1911}
CHECK_DEADLOCK FALSE
