SPECIFICATION Spec
CONSTANTS
  NDays = 2
  Slots <- MCSlots
  Grid <- MCGrid
  BlockAt <- MCBlockAt
  Dev = {}
INVARIANTS TypeOK SuffixIsDayTotal BlocksOrdered ActionsAgreeWithAlgo AlgoEqualsDefinitionP
CHECK_DEADLOCK FALSE
