SPECIFICATION GenSpec
CONSTANTS
  Universe <- MCUniverse
  MaxRows = 3
  BinSizes <- MCBinSizes
  Durations <- MCDurations
CHECK_DEADLOCK FALSE
