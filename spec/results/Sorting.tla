------------------------------- MODULE Sorting -------------------------------
(***************************************************************************)
(* C14 - ordering of result rows and the row limit.                        *)
(*                                                                         *)
(* What the property demands is stated *observationally* (SortOK,          *)
(* SameOutput, Limit): it does not pin a particular tie-break, only that   *)
(* there is one.  The module also contains the mechanism: rows arrive in   *)
(* an arbitrary order (from a Go map, from the network), are sorted with a *)
(* comparator "primary measure, then a fixed order over labels and         *)
(* attributes" and are cut to the row limit.  Two comparators are given:   *)
(*   AsBuilt = FALSE  the documented design: the tie-break is a strict     *)
(*                    total order over attributes and ALL labels, the time *)
(*                    label compared as an instant;                        *)
(*   AsBuilt = TRUE   what pkg/results (Row.Less / Labels.Less) does at    *)
(*                    the pinned commit: time labels that differ as Go     *)
(*                    structs (same instant, other zone) fall through to   *)
(*                    Before() and end the comparison, the host id is not  *)
(*                    compared.  Used only for the negative model run.     *)
(* The sort itself is modelled as the insertion sort sort.Sort performs on *)
(* slices of at most 12 elements (stable; a comparator that leaves two     *)
(* different rows unordered makes the result depend on the arrival order). *)
(***************************************************************************)
EXTENDS Rows

CONSTANTS Universe,   \* sequence of rows the bounded model draws from
          MaxRows,    \* rows per result in the bounded model
          AsBuilt     \* BOOLEAN, see above

VARIABLES inp,    \* rows in the order they arrived
          out,    \* Result.Rows
          cfg,    \* sort key, direction, ascending flag of the statement
          stage,  \* "idle" | "loaded" | "sorted" | "limited"
          act
vars == <<inp, out, cfg, stage, act>>

SortKeys == {"packets", "bytes", "time"}
Dirs == {"sum", "in", "out", "both"}
Cfgs == [key : SortKeys, dir : Dirs, asc : BOOLEAN]
NoCfg == [key |-> "none", dir |-> "none", asc |-> TRUE]
SortCfgs == Cfgs     \* the configurations the bounded model explores (overridden in cfg files)

(***************************************************************************)
(* The primary measure selected by sort key and direction (results.By).    *)
(* Time labels are compared as instants; a row without time label (ts = 0) *)
(* precedes every labelled row.                                            *)
(***************************************************************************)
Prim(r, c) ==
  CASE c.key = "time"    -> r.ts
    [] c.key = "packets" -> (CASE c.dir = "in" -> r.pr [] c.dir = "out" -> r.ps [] OTHER -> r.pr + r.ps)
    [] c.key = "bytes"   -> (CASE c.dir = "in" -> r.br [] c.dir = "out" -> r.bs [] OTHER -> r.br + r.bs)

InOrder(a, b, c) == IF c.asc THEN Prim(a, c) <= Prim(b, c) ELSE Prim(a, c) >= Prim(b, c)
Sorted(s, c) == \A i \in 1..(Len(s) - 1) : InOrder(s[i], s[i + 1], c)

(***************************************************************************)
(* THE PROPERTY, as predicates over what can be observed.                  *)
(*  (1) the output is a permutation of the input,                          *)
(*  (2) consecutive rows are ordered by the primary measure,               *)
(*  (3) every arrival order of the same multiset gives the same sequence,  *)
(*  (4) a limit n keeps exactly the first n rows of that sequence.         *)
(* Rows are compared with the time label as an instant (Proj).             *)
(***************************************************************************)
SortOK(in, c, o) == BagEq(ProjSeq(o), ProjSeq(in)) /\ Sorted(o, c)
SameOutput(o1, o2) == ProjSeq(o1) = ProjSeq(o2)
Limit(o, n) == SubSeq(o, 1, Min2(n, Len(o)))

\* The statement orders ties "by labels and attributes": two rows that agree on all of them but
\* not on their counters are outside what it talks about (a result has one row per key).
WellFormed(s) == \A i, j \in 1..Len(s) : Key(s[i]) = Key(s[j]) => Cnt(s[i]) = Cnt(s[j])

\* every output the property admits for input `in` (used as the oracle of the forward replay)
Admissible(in, c) == {o \in {Permute(in, p) : p \in Perms(Len(in))} : Sorted(o, c)}

(***************************************************************************)
(* The mechanism.                                                          *)
(***************************************************************************)
AtomOrder == <<"none", "v4a", "v4b", "v4c", "v6m", "v6a", "v6b", "v6c", "eth0", "eth1", "eth2",
               "hA", "hB", "hC", "id1", "id2", "id3", "-", "utc", "cest", "est", "ist">>
RankMap == [x \in Range(AtomOrder) |-> CHOOSE i \in 1..Len(AtomOrder) : AtomOrder[i] = x]
Rank(x) == RankMap[x]

\* netip.Addr order on the atoms: the invalid address, then IPv4, then IPv6 (v6m is the IPv4-mapped
\* IPv6 form ::ffff:10.0.0.1 of v4a: a different address that sorts as IPv6)
AttrsLess(a, b) ==
  IF a.sip # b.sip THEN Rank(a.sip) < Rank(b.sip)
  ELSE IF a.dip # b.dip THEN Rank(a.dip) < Rank(b.dip)
  ELSE IF a.proto # b.proto THEN a.proto < b.proto
  ELSE a.dport < b.dport

\* the documented tie-break: a fixed order over all labels, time label as an instant
DesignLabelsLess(a, b) ==
  IF a.ts # b.ts THEN a.ts < b.ts
  ELSE IF a.host # b.host THEN Rank(a.host) < Rank(b.host)
  ELSE IF a.hostid # b.hostid THEN Rank(a.hostid) < Rank(b.hostid)
  ELSE Rank(a.iface) < Rank(b.iface)

\* pkg/results.Labels.Less at the pinned commit: `l.Timestamp != l2.Timestamp` is struct
\* inequality (instant OR zone differ) and then decides by Before(); HostID is not looked at.
AsBuiltLabelsLess(a, b) ==
  IF a.ts # b.ts \/ a.zone # b.zone THEN a.ts < b.ts
  ELSE IF a.host # b.host THEN Rank(a.host) < Rank(b.host)
  ELSE Rank(a.iface) < Rank(b.iface)

LabelsLess(a, b) == IF AsBuilt THEN AsBuiltLabelsLess(a, b) ELSE DesignLabelsLess(a, b)
TieLess(a, b) == IF Attrs(a) = Attrs(b) THEN LabelsLess(a, b) ELSE AttrsLess(a, b)

\* the closure results.By(key, dir, asc) returns
Less(a, b, c) ==
  IF Prim(a, c) = Prim(b, c)
  THEN (IF c.asc THEN TieLess(a, b) ELSE TieLess(b, a))
  ELSE (IF c.asc THEN Prim(a, c) < Prim(b, c) ELSE Prim(a, c) > Prim(b, c))

\* insertion sort as in sort.Sort for n <= 12: the new element moves left while it is Less
RECURSIVE ISort(_, _)
ISort(s, c) ==
  IF s = <<>> THEN <<>>
  ELSE LET t == ISort(SubSeq(s, 1, Len(s) - 1), c)
           x == s[Len(s)]
           K == {j \in 1..Len(t) : ~Less(x, t[j], c)}
           k == IF K = {} THEN 0 ELSE MaxOf(K)
       IN SubSeq(t, 1, k) \o <<x>> \o SubSeq(t, k + 1, Len(t))

Init == inp = <<>> /\ out = <<>> /\ cfg = NoCfg /\ stage = "idle" /\ act = [name |-> "Init"]

\* rows of one result arrive in some order (RowsMap iteration, order of hosts, caller's slice)
Arrive(s) == /\ stage = "idle" /\ WellFormed(s)
             /\ inp' = s /\ out' = s /\ stage' = "loaded" /\ UNCHANGED cfg
             /\ act' = [name |-> "Arrive", n |-> Len(s)]

\* results.By(key, dir, asc).Sort(rows)
Sort(c) == /\ stage = "loaded"
           /\ out' = ISort(inp, c) /\ cfg' = c /\ stage' = "sorted" /\ UNCHANGED inp
           /\ act' = [name |-> "Sort", cfg |-> c]

\* What the property says about that step without naming the tie-break: ANY arrangement of the
\* arrived rows that is ordered by the primary measure.  Sort(c) refines SortAny(c, o) for
\* o = ISort(inp, c) (invariant AdmissibleOK); trace validation uses SortAny with the observed o.
SortAny(c, o) == /\ stage = "loaded" /\ SortOK(inp, c, o)
                 /\ out' = o /\ cfg' = c /\ stage' = "sorted" /\ UNCHANGED inp
                 /\ act' = [name |-> "Sort", cfg |-> c]

\* Statement.PostProcess with NumResults = n (n > 0), finalizeResult's truncation
LimitTo(n) == /\ stage = "sorted"
              /\ out' = Limit(out, n) /\ stage' = "limited" /\ UNCHANGED <<inp, cfg>>
              /\ act' = [name |-> "Limit", n |-> n]

Deliver == /\ stage \in {"sorted", "limited"}
           /\ inp' = <<>> /\ out' = <<>> /\ cfg' = NoCfg /\ stage' = "idle"
           /\ act' = [name |-> "Deliver"]

Next == \/ \E s \in SeqsUpTo(Universe, MaxRows) : Arrive(s)
        \/ \E c \in SortCfgs : Sort(c)
        \/ \E n \in 1..(MaxRows + 1) : LimitTo(n)
        \/ Deliver

Spec == Init /\ [][Next]_vars

Obs == [rows |-> out, stage |-> stage]

(***************************************************************************)
(* Properties of the mechanism checked by TLC (M).                         *)
(***************************************************************************)
TypeOK == /\ stage \in {"idle", "loaded", "sorted", "limited"}
          /\ Len(inp) <= MaxRows /\ Len(out) <= Len(inp)

\* (1) + (2)
SortedOK == stage = "sorted" => SortOK(inp, cfg, out)

\* (3): whatever order the same rows had arrived in, the result would have been this one
DeterminismOK ==
  stage = "sorted" => \A p \in Perms(Len(inp)) : SameOutput(ISort(Permute(inp, p), cfg), out)

\* (4): the limited result is a prefix of the sorted one ... (action property)
LimitStepOK ==
  [][act'.name = "Limit" => /\ Len(out') = Min2(act'.n, Len(out))
                           /\ \A i \in 1..Len(out') : out'[i] = out[i]]_vars
\* ... and the same rows are kept for every arrival order
LimitOK ==
  stage = "limited" =>
     \A p \in Perms(Len(inp)) : SameOutput(Limit(ISort(Permute(inp, p), cfg), Len(out)), out)

\* every sorted result is one of the admissible outputs the forward replay compares with
AdmissibleOK == stage = "sorted" => out \in Admissible(inp, cfg)

\* the tie-break is a strict total order on rows that differ in a label or an attribute
TieTotal ==
  \A i, j \in 1..Len(Universe) :
     LET a == Universe[i]  b == Universe[j] IN
     /\ ~TieLess(a, a)
     /\ (Key(a) # Key(b) => (TieLess(a, b) /\ ~TieLess(b, a)) \/ (TieLess(b, a) /\ ~TieLess(a, b)))
     /\ \A k \in 1..Len(Universe) :
          (TieLess(a, b) /\ TieLess(b, Universe[k])) => TieLess(a, Universe[k])
=============================================================================
