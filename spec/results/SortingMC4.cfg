SPECIFICATION Spec
CONSTANTS
  Universe <- MCUniverse
  MaxRows = 4
  AsBuilt = FALSE
  SortCfgs <- MCFewCfgs
INVARIANTS TypeOK SortedOK DeterminismOK LimitOK AdmissibleOK
PROPERTIES LimitStepOK
