----------------------------- MODULE BinningTrace -----------------------------
(***************************************************************************)
(* Trace validation (code -> spec) for C13.  The Go driver                 *)
(* (harness/internal/results, bin-drive) prepares statements through       *)
(* query.Args.Prepare, runs Statement.PostProcess on seeded results far    *)
(* larger than the TLC bounds and logs one NDJSON event per Binning        *)
(* action with what the implementation showed afterwards:                  *)
(*   ChooseBin   d (query duration, s), b (chosen bin size, s; -1 if it    *)
(*               is not representable), rem (sub-second remainder, ns)     *)
(*   Load        rows                                                      *)
(*   PostProcess b, out (Result.Rows afterwards, time labels as instants)  *)
(*   Deliver                                                               *)
(* The trace is a behaviour of Binning iff every event is the action with  *)
(* the logged arguments and the logged rows equal the model's rows as a    *)
(* multiset.  A mismatch is printed and the model continues with its own   *)
(* prediction (the check takes the first mismatch of each case `tr`).      *)
(***************************************************************************)
EXTENDS Binning, Json

TraceLog == ndJsonDeserialize("trace.ndjson")

VARIABLE l
tvars == <<vars, l>>

AutoEvOK(e) == e.rem = 0 /\ AutoBinOK(e.d, e.b)
Skip(e) == UNCHANGED <<res, orig, binned, chain, auto>> /\ act' = [name |-> "Skip"]

Step(e) ==
  CASE e.ev = "Load"        -> Load(e.rows)
    [] e.ev = "PostProcess" -> PostProcess(e.b)
    [] e.ev = "ChooseBin"   -> IF AutoEvOK(e) THEN ChooseBin(e.d, e.b) ELSE Skip(e)
    [] e.ev = "Deliver"     -> Deliver

\* the implementation's observable agrees with the model state mm (= res')
ObsOK(e, mm) ==
  CASE e.ev = "PostProcess" -> IsSet(e.out, Range(mm))     \* mm enumerates a set
    [] e.ev = "ChooseBin"   -> AutoEvOK(e)
    [] OTHER                -> TRUE

Rule(e) ==
  IF e.ev = "ChooseBin" THEN "auto-bin"
  ELSE IF ~Conserved(res, e.out) THEN "conservation"
  ELSE IF ~OnePerKey(e.out) THEN "one-per-key"
  ELSE IF ~Labelled(res, e.out, e.b) THEN "label"
  ELSE IF binned = e.b THEN "idempotence"
  ELSE "group-sum"

Explain(e, mm) ==
  IF e.ev = "ChooseBin"
  THEN [line |-> l, tr |-> e.tr, ev |-> e.ev, rule |-> Rule(e), d |-> e.d, b |-> e.b, rem |-> e.rem,
        positive |-> e.b > 0, multiple_of_5min |-> (e.b > 0 /\ e.b % Native = 0 /\ e.rem = 0),
        model_finest |-> AutoBin(e.d)]
  ELSE [line |-> l, tr |-> e.tr, ev |-> e.ev, rule |-> Rule(e), b |-> e.b, rebin_same_size |-> binned = e.b,
        rows_in |-> Len(res), rows_out |-> Len(e.out), model_rows_out |-> Len(mm),
        totals_in |-> Totals(res), totals_out |-> Totals(e.out)]

TraceInit == Init /\ l = 1

TraceNext ==
  /\ l <= Len(TraceLog)
  /\ LET e == TraceLog[l] IN
       /\ Step(e)
       /\ l' = l + 1
       /\ IF ObsOK(e, res') THEN TRUE ELSE PrintT(<<"MISMATCH", ToJson(Explain(e, res'))>>)

TraceSpec == TraceInit /\ [][TraceNext]_tvars

TraceAccepted ==
  \/ TLCGet("stats").diameter - 1 = Len(TraceLog)
  \/ PrintT(<<"INFO", ToJson([consumed |-> TLCGet("stats").diameter - 1, total |-> Len(TraceLog)])>>) /\ FALSE
=============================================================================
