SPECIFICATION Spec
CONSTANTS
  Universe <- MCUniverse
  MaxRows = 2
  AsBuilt = TRUE
  SortCfgs <- MCFewCfgs
INVARIANTS TypeOK SortedOK DeterminismOK
