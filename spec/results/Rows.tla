-------------------------------- MODULE Rows --------------------------------
(***************************************************************************)
(* Shared vocabulary of the results family: the result row of goProbe      *)
(* (pkg/results.Row) as the user sees it.                                  *)
(*                                                                         *)
(*   ts      the instant of the time label in Unix seconds; 0 = the row    *)
(*           carries no time label (results.Labels.Timestamp.IsZero())     *)
(*   zone    the time zone the instant is *presented* in.  It is carried   *)
(*           separately so that "equal instants in different time zones"   *)
(*           are distinct model values with the same ts.  "-" for ts = 0.  *)
(*   iface, host, hostid             the remaining labels                  *)
(*   sip, dip, proto, dport          the attributes                        *)
(*   br, bs, pr, ps                  bytes / packets received / sent       *)
(*                                                                         *)
(* Label and address values are opaque atoms (strings); the harness owns   *)
(* the concretisation (harness/internal/results/rows.go).                  *)
(***************************************************************************)
EXTENDS Naturals, Sequences, FiniteSets, TLC

Row(ts, zone, iface, host, hostid, sip, dip, proto, dport, br, bs, pr, ps) ==
  [ts |-> ts, zone |-> zone, iface |-> iface, host |-> host, hostid |-> hostid,
   sip |-> sip, dip |-> dip, proto |-> proto, dport |-> dport,
   br |-> br, bs |-> bs, pr |-> pr, ps |-> ps]

CounterFields == {"br", "bs", "pr", "ps"}

\* A time label is an instant: the zone it is presented in is not part of the row's identity.
Proj(r) == [r EXCEPT !.zone = "-"]

\* what a row is aggregated / identified by: labels (time label as an instant) and attributes
Key(r) == [ts |-> r.ts, iface |-> r.iface, host |-> r.host, hostid |-> r.hostid,
           sip |-> r.sip, dip |-> r.dip, proto |-> r.proto, dport |-> r.dport]
Attrs(r) == <<r.sip, r.dip, r.proto, r.dport>>
Cnt(r) == <<r.br, r.bs, r.pr, r.ps>>
WithKeyTs(r, t) == [r EXCEPT !.ts = t]

(***************************************************************************)
(* Row collections are sequences (Result.Rows is a slice); a multiset of   *)
(* rows is a sequence up to permutation.                                   *)
(***************************************************************************)
Range(s) == {s[i] : i \in 1..Len(s)}
ProjSeq(s) == [i \in 1..Len(s) |-> Proj(s[i])]
Count(s, x) == Cardinality({i \in 1..Len(s) : s[i] = x})
\* multiset equality of two sequences
BagEq(a, b) == /\ Len(a) = Len(b)
               /\ \A x \in Range(a) \cup Range(b) : Count(a, x) = Count(b, x)

Min2(a, b) == IF a <= b THEN a ELSE b
MaxOf(S) == CHOOSE x \in S : \A y \in S : y <= x

RECURSIVE SumOver(_, _)
SumOver(s, f) == IF s = <<>> THEN 0 ELSE s[1][f] + SumOver(Tail(s), f)
Totals(s) == [f \in CounterFields |-> SumOver(s, f)]

PermsRaw(n) == {p \in [1..n -> 1..n] : \A i, j \in 1..n : p[i] = p[j] => i = j}
\* zero-arity definitions are evaluated once by TLC
Perms0 == PermsRaw(0)
Perms1 == PermsRaw(1)
Perms2 == PermsRaw(2)
Perms3 == PermsRaw(3)
Perms4 == PermsRaw(4)
Perms(n) == CASE n = 0 -> Perms0 [] n = 1 -> Perms1 [] n = 2 -> Perms2 [] n = 3 -> Perms3
              [] n = 4 -> Perms4 [] OTHER -> PermsRaw(n)
Permute(s, p) == [i \in 1..Len(s) |-> s[p[i]]]

(***************************************************************************)
(* Multisets over an indexed universe U (a sequence of rows): represented  *)
(* canonically as the non-decreasing index sequences.                      *)
(***************************************************************************)
IdxMultisets(n, k) == {s \in [1..k -> 1..n] : \A i \in 1..(k - 1) : s[i] <= s[i + 1]}
MultisetsUpTo(U, kmax) == {[i \in 1..Len(s) |-> U[s[i]]] : s \in UNION {IdxMultisets(Len(U), k) : k \in 0..kmax}}
SeqsUpTo(U, kmax) == {[i \in 1..Len(s) |-> U[s[i]]] : s \in UNION {[1..k -> 1..Len(U)] : k \in 0..kmax}}

\* some sequence enumerating the finite set S (TLC's CHOOSE is deterministic)
RECURSIVE SetToSeq(_)
SetToSeq(S) == IF S = {} THEN <<>> ELSE LET x == CHOOSE x \in S : TRUE IN <<x>> \o SetToSeq(S \ {x})
=============================================================================
