SPECIFICATION Spec
CONSTANTS
  Universe <- MCUniverse
  MaxRows = 3
  BinSizes <- MCBinSizes
  Durations <- MCDurations
INVARIANTS TypeOK ConservedFromLoad OnePerKeyOK AlignedOK IdempotentOK DirectOK AutoOK AutoMinimal
PROPERTIES ConservationOK LabelOK
