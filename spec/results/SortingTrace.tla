----------------------------- MODULE SortingTrace -----------------------------
(***************************************************************************)
(* Trace validation (code -> spec) for C14 on results larger than the TLC  *)
(* bounds (sort.Sort leaves insertion sort above 12 rows).  The Go driver  *)
(* (sort-drive) draws seeded multisets with many ties, sorts every         *)
(* multiset in many arrival orders with results.By(...).Sort, truncates    *)
(* with Statement.PostProcess and logs per multiset:                       *)
(*   Arrive   rows (first arrival order)                                   *)
(*   Sort     key, dir, asc, outs: the DISTINCT outputs seen over all      *)
(*            arrival orders, each a sequence of positions into `rows`     *)
(*            (rows equal as instants share the smallest position;         *)
(*            0 = a row that is not among the input rows)                  *)
(*   Limit    n, out (positions) for the first arrival order               *)
(*   Deliver                                                               *)
(* Accepted iff every output is an arrangement of the arrived rows ordered *)
(* by the primary measure (SortAny - no tie-break is pinned), all arrival  *)
(* orders gave the same output, and the limited rows are the model's       *)
(* prefix.  A mismatch is printed and the model continues with its own     *)
(* design (the check takes the first mismatch of each case `tr`).          *)
(***************************************************************************)
EXTENDS Sorting, Json

TraceLog == ndJsonDeserialize("trace.ndjson")

NoUniverse == <<>>      \* the trace brings its own rows

VARIABLE l
tvars == <<vars, l>>

CfgOf(e) == [key |-> e.key, dir |-> e.dir, asc |-> e.asc]
IdxOK(ix) == \A i \in 1..Len(ix) : ix[i] \in 1..Len(inp)
RowsAt(ix) == [i \in 1..Len(ix) |-> inp[ix[i]]]

PermOK(e) == \A k \in 1..Len(e.outs) : IdxOK(e.outs[k]) /\ BagEq(ProjSeq(RowsAt(e.outs[k])), ProjSeq(inp))
OrderOK(e) == \A k \in 1..Len(e.outs) : Sorted(RowsAt(e.outs[k]), CfgOf(e))
DetOK(e) == \A k \in 1..Len(e.outs) : SameOutput(RowsAt(e.outs[k]), RowsAt(e.outs[1]))
SortEvOK(e) == Len(e.outs) > 0 /\ PermOK(e) /\ OrderOK(e) /\ DetOK(e)

\* the labels / attributes in which the first two rows that come out in different places differ
DiffFields(a, b) == {f \in DOMAIN a : a[f] # b[f]}
FirstDiff(e) ==
  LET k == CHOOSE k \in 2..Len(e.outs) : ~SameOutput(RowsAt(e.outs[k]), RowsAt(e.outs[1]))
      i == CHOOSE i \in 1..Len(e.outs[1]) : /\ Proj(inp[e.outs[k][i]]) # Proj(inp[e.outs[1][i]])
                                            /\ \A j \in 1..(i - 1) : Proj(inp[e.outs[k][j]]) = Proj(inp[e.outs[1][j]])
  IN [pos |-> i, differ |-> SetToSeq(DiffFields(inp[e.outs[k][i]], inp[e.outs[1][i]]))]

Step(e) ==
  CASE e.ev = "Arrive"  -> Arrive(e.rows)
    [] e.ev = "Sort"    -> IF SortEvOK(e) THEN SortAny(CfgOf(e), RowsAt(e.outs[1])) ELSE Sort(CfgOf(e))
    [] e.ev = "Limit"   -> LimitTo(e.n)
    [] e.ev = "Deliver" -> Deliver

ObsOK(e, oo) ==
  CASE e.ev = "Sort"  -> SortEvOK(e)
    [] e.ev = "Limit" -> IdxOK(e.out) /\ SameOutput(RowsAt(e.out), oo)
    [] OTHER          -> TRUE

Explain(e) ==
  IF e.ev = "Limit"
  THEN [line |-> l, tr |-> e.tr, ev |-> e.ev, rule |-> "limit", n |-> e.n, got_len |-> Len(e.out)]
  ELSE IF ~(Len(e.outs) > 0 /\ PermOK(e))
  THEN [line |-> l, tr |-> e.tr, ev |-> e.ev, rule |-> "permutation", cfg |-> CfgOf(e)]
  ELSE IF ~OrderOK(e)
  THEN [line |-> l, tr |-> e.tr, ev |-> e.ev, rule |-> "order", cfg |-> CfgOf(e)]
  ELSE [line |-> l, tr |-> e.tr, ev |-> e.ev, rule |-> "determinism", cfg |-> CfgOf(e),
        distinct_outputs |-> Len(e.outs), first |-> FirstDiff(e)]

TraceInit == Init /\ l = 1

TraceNext ==
  /\ l <= Len(TraceLog)
  /\ LET e == TraceLog[l] IN
       /\ Step(e)
       /\ l' = l + 1
       /\ IF ObsOK(e, out') THEN TRUE ELSE PrintT(<<"MISMATCH", ToJson(Explain(e))>>)

TraceSpec == TraceInit /\ [][TraceNext]_tvars

TraceAccepted ==
  \/ TLCGet("stats").diameter - 1 = Len(TraceLog)
  \/ PrintT(<<"INFO", ToJson([consumed |-> TLCGet("stats").diameter - 1, total |-> Len(TraceLog)])>>) /\ FALSE
=============================================================================
