------------------------------- MODULE Binning -------------------------------
(***************************************************************************)
(* C13 - re-binning time-labelled results to a coarser time resolution     *)
(* (pkg/results/time_bin.go, Statement.PostProcess) and the automatic      *)
(* choice of the bin size (results.CalcTimeBinSize via Args.Prepare).      *)
(*                                                                         *)
(* A time label t stands for the interval (t - 300, t]; a bin of size b    *)
(* ends at a multiple of b; the bin containing t ends at BinEnd(t, b) =    *)
(* ceil(t / b) * b.  Re-binning groups the rows by (bin end, remaining     *)
(* labels, attributes) and adds up the four counters of each group.        *)
(* State: the rows of one result (`res`), the rows it was loaded with      *)
(* (`orig`), the resolution it is currently binned to and the last         *)
(* automatic choice.  All times are Unix seconds.                          *)
(***************************************************************************)
EXTENDS Rows, Integers

CONSTANTS Universe,    \* sequence of rows the bounded model draws from
          MaxRows,
          BinSizes,    \* explicit time resolutions (seconds, multiples of Native)
          Durations    \* query durations (seconds) for the automatic choice

VARIABLES res,      \* Result.Rows
          orig,     \* rows as loaded
          binned,   \* 0 = as loaded, else the bin size res is binned to
          chain,    \* every bin size applied so far was a multiple of the previous one
          auto,     \* last automatic choice [d, b] (b = 0: none yet)
          act
vars == <<res, orig, binned, chain, auto, act>>

Native == 300          \* types.DefaultTimeResolution
BinsPerDay == 288      \* a day's worth of native bins

(***************************************************************************)
(* Definitions the property is stated with.                                *)
(***************************************************************************)
BinEnd(t, b) == ((t + b - 1) \div b) * b
BinKey(r, b) == [Key(r) EXCEPT !.ts = BinEnd(r.ts, b)]
\* a SET of rows: one per (bin, labels, attributes) by construction, carrying the sums of its group
RECURSIVE SumIdx(_, _, _)
SumIdx(s, I, f) == IF I = {} THEN 0 ELSE LET i == CHOOSE i \in I : TRUE IN s[i][f] + SumIdx(s, I \ {i}, f)
Bin(s, b) ==
  LET ks == [i \in 1..Len(s) |-> BinKey(s[i], b)]
      Grp(k) == {i \in 1..Len(s) : ks[i] = k}
      BinRow(k) == LET I == Grp(k) IN
                   Row(k.ts, "-", k.iface, k.host, k.hostid, k.sip, k.dip, k.proto, k.dport,
                       SumIdx(s, I, "br"), SumIdx(s, I, "bs"), SumIdx(s, I, "pr"), SumIdx(s, I, "ps"))
  IN {BinRow(k) : k \in Range(ks)}

\* a result as the database delivers it: aligned to the native resolution, one row per key
NativeResult(s) == /\ \A i \in 1..Len(s) : s[i].ts % Native = 0
                   /\ \A i, j \in 1..Len(s) : Key(s[i]) = Key(s[j]) => i = j

\* THE PROPERTY for one re-binning step, as predicates over input and observed output
Conserved(in, o) == Totals(in) = Totals(o)
OnePerKey(o) == \A i, j \in 1..Len(o) : Key(o[i]) = Key(o[j]) => i = j
Labelled(in, o, b) ==     \* every row is labelled with the end of the bin containing its time label
  /\ \A i \in 1..Len(in) : /\ BinEnd(in[i].ts, b) % b = 0
                           /\ BinEnd(in[i].ts, b) - b < in[i].ts /\ in[i].ts <= BinEnd(in[i].ts, b)
                           /\ \E j \in 1..Len(o) : Key(o[j]) = BinKey(in[i], b)
  /\ \A j \in 1..Len(o) : \E i \in 1..Len(in) : Key(o[j]) = BinKey(in[i], b)
\* o, as a multiset, is exactly Bin(in, b)  (a set: equal length + equal range = no duplicates)
IsSet(o, S) == Len(o) = Cardinality(S) /\ Range(ProjSeq(o)) = S
BinOK(in, b, o) == IsSet(o, Bin(in, b))
SameRows(o1, o2) == BagEq(ProjSeq(o1), ProjSeq(o2))

\* the automatic bin size for a query duration of d seconds
AutoBinOK(d, b) == /\ b > 0 /\ b % Native = 0
                   /\ (d <= 0 \/ (d + b - 1) \div b <= BinsPerDay)
\* the finest such resolution
AutoBin(d) == IF d <= 0 THEN Native
              ELSE Native * ((d + Native * BinsPerDay - 1) \div (Native * BinsPerDay))

(***************************************************************************)
(* Actions.                                                                *)
(***************************************************************************)
NoAuto == [d |-> 0, b |-> 0]
Init == /\ res = <<>> /\ orig = <<>> /\ binned = 0 /\ chain = TRUE /\ auto = NoAuto
        /\ act = [name |-> "Init"]

\* a result with time labels arrives (query engine / aggregation of the hosts' results)
Load(s) == /\ res = <<>> /\ Len(s) > 0
           /\ res' = s /\ orig' = s /\ binned' = 0 /\ chain' = TRUE /\ UNCHANGED auto
           /\ act' = [name |-> "Load", n |-> Len(s)]

\* Statement.PostProcess with LabelSelector.Timestamp and TimeBinSize = b.
\* b = Native is not "coarser": the statement then only speaks about results that already are
\* native results (and demands they are left alone).
PostProcess(b) ==
  /\ b > 0 /\ b % Native = 0
  /\ res # <<>>
  /\ b > Native \/ NativeResult(res)
  /\ res' = SetToSeq(Bin(res, b))
  /\ binned' = b
  /\ chain' = (chain /\ (binned = 0 \/ b % binned = 0))
  /\ UNCHANGED <<orig, auto>>
  /\ act' = [name |-> "PostProcess", b |-> b]

\* prepTimeQueryArg with time resolution "auto": any answer b the property admits
ChooseBin(d, b) == /\ AutoBinOK(d, b)
                   /\ res = <<>>               \* the statement is prepared before the query runs
                   /\ auto' = [d |-> d, b |-> b]
                   /\ UNCHANGED <<res, orig, binned, chain>>
                   /\ act' = [name |-> "ChooseBin", d |-> d, b |-> b]

\* ... and the result is binned with the automatic choice
PostProcessAuto == auto.b > 0 /\ PostProcess(auto.b)

\* the result is handed to the caller; the next query starts from scratch
Deliver == /\ res # <<>>
           /\ res' = <<>> /\ orig' = <<>> /\ binned' = 0 /\ chain' = TRUE /\ auto' = NoAuto
           /\ act' = [name |-> "Deliver"]

Next == \/ \E s \in MultisetsUpTo(Universe, MaxRows) : Load(s)
        \/ \E b \in BinSizes : PostProcess(b)
        \/ \E d \in Durations : ChooseBin(d, AutoBin(d))
        \/ PostProcessAuto
        \/ Deliver

Spec == Init /\ [][Next]_vars

Obs == [rows |-> res, binned |-> binned, auto |-> auto]

(***************************************************************************)
(* Properties checked by TLC (M).                                          *)
(***************************************************************************)
TypeOK == /\ binned >= 0 /\ chain \in BOOLEAN
          /\ \A i \in 1..Len(res) : res[i].ts > 0

\* every counter sum is preserved by every re-binning step
ConservationOK == [][act'.name = "PostProcess" => Conserved(res, res')]_vars
\* ... and over any number of steps
ConservedFromLoad == Conserved(orig, res)
OnePerKeyOK == binned # 0 => OnePerKey(res)
LabelOK == [][act'.name = "PostProcess" => Labelled(res, res', act'.b)]_vars
AlignedOK == binned # 0 => \A i \in 1..Len(res) : res[i].ts % binned = 0
\* binning an already binned result again changes nothing
IdempotentOK == binned # 0 => SameRows(SetToSeq(Bin(res, binned)), res)
\* coarsening step by step equals binning the loaded rows directly
DirectOK == (binned # 0 /\ chain) => SameRows(SetToSeq(Bin(orig, binned)), res)
\* the automatic bin size is a positive multiple of five minutes with at most a day's worth of bins
AutoOK == auto.b > 0 => AutoBinOK(auto.d, auto.b)
\* ... and AutoBin is the finest one
AutoMinimal == auto.b > Native => ~AutoBinOK(auto.d, auto.b - Native)
=============================================================================
