SPECIFICATION TraceSpec
CONSTANTS
  Universe = {}
  MaxRows = 0
  BinSizes = {}
  Durations = {}
POSTCONDITION TraceAccepted
CHECK_DEADLOCK FALSE
