SPECIFICATION Spec
CONSTANTS
  Universe <- MCUniverse
  MaxRows = 1
  BinSizes <- MCBinSizes
  Durations <- MCDurations
  BinEnd <- FloorEnd
INVARIANTS TypeOK
PROPERTIES LabelOK
