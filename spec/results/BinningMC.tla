------------------------------ MODULE BinningMC ------------------------------
(***************************************************************************)
(* Bounded model of Binning: time labels on and off the edges of the bin   *)
(* sizes 300/600/900/3600, equal instants presented in two zones, rows     *)
(* that differ in one label or in the address family only (must not be     *)
(* merged), and the duration grid of the automatic choice.                 *)
(***************************************************************************)
EXTENDS Binning

B0 == 1700006400    \* a multiple of 86400

MCUniverse == <<
  Row(B0 + 300,  "utc",  "eth0", "hA", "id1", "v4a", "v4b", 6, 80,   10, 20, 1, 2),   \* 1  on a 300 edge only
  Row(B0 + 301,  "utc",  "eth0", "hA", "id1", "v4a", "v4b", 6, 80,   5, 5, 1, 1),     \* 2  just after an edge
  Row(B0 + 599,  "utc",  "eth0", "hA", "id1", "v4a", "v4b", 6, 80,   7, 0, 1, 0),     \* 3  just before an edge
  Row(B0 + 600,  "utc",  "eth0", "hA", "id1", "v4a", "v4b", 6, 80,   1, 1, 1, 1),     \* 4  on a 600 edge
  Row(B0 + 600,  "cest", "eth0", "hA", "id1", "v4a", "v4b", 6, 80,   100, 0, 3, 0),   \* 5  instant of 4 in another zone
  Row(B0 + 601,  "utc",  "eth0", "hA", "id1", "v4a", "v4b", 6, 80,   2, 2, 2, 2),     \* 6
  Row(B0 + 900,  "utc",  "eth0", "hA", "id1", "v4a", "v4b", 6, 80,   3, 0, 0, 1),     \* 7  on a 900 edge, not on a 600 edge
  Row(B0 + 3600, "est",  "eth0", "hA", "id1", "v4a", "v4b", 6, 80,   4, 4, 4, 4),     \* 8  on every edge
  Row(B0 + 3601, "utc",  "eth0", "hA", "id1", "v4a", "v4b", 6, 80,   8, 1, 1, 1),     \* 9  first second of the next hour
  Row(B0 + 300,  "utc",  "eth1", "hA", "id1", "v4a", "v4b", 6, 80,   10, 20, 1, 2),   \* 10 = 1 but interface
  Row(B0 + 300,  "utc",  "eth0", "hA", "id2", "v4a", "v4b", 6, 80,   10, 20, 1, 2),   \* 11 = 1 but host id
  Row(B0 + 450,  "utc",  "eth0", "hA", "id1", "v6a", "v6b", 6, 80,   9, 9, 9, 9)      \* 12 IPv6 attributes
>>

MCBinSizes == {300, 600, 900, 3600}
Day == 86400
MCDurations == {-3600, 0, 1, 299, 300, 301, Day - 1, Day, Day + 1, 2 * Day, 2 * Day + 1, 7 * Day, 400 * Day}

\* negative control of the model (BinningMCNeg.cfg): labelling with the START of the bin
\* must violate LabelOK
FloorEnd(t, b) == (t \div b) * b
=============================================================================
