SPECIFICATION TraceSpec
CONSTANTS
  Universe <- NoUniverse
  MaxRows = 0
  AsBuilt = FALSE
POSTCONDITION TraceAccepted
CHECK_DEADLOCK FALSE
