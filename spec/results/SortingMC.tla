------------------------------ MODULE SortingMC ------------------------------
(***************************************************************************)
(* Bounded model of Sorting.  The universe holds the row pairs the         *)
(* property names: equal counters, equal instants presented in different   *)
(* zones, rows that differ in exactly one label (host id, interface),      *)
(* IPv4 / IPv6, rows without time label.                                   *)
(***************************************************************************)
EXTENDS Sorting

T1 == 1700006700
T2 == 1700007000

MCUniverse == <<
  Row(T1, "utc",  "eth0", "hA", "id1", "v4a", "v4b", 6, 80,   10, 20, 1, 2),   \* 1  base row
  Row(T1, "utc",  "eth0", "hA", "id2", "v4a", "v4b", 6, 80,   10, 20, 2, 1),   \* 2  = 1 but host id (bytes tie)
  Row(T1, "utc",  "eth1", "hA", "id1", "v4a", "v4b", 6, 80,   10, 20, 1, 2),   \* 3  = 1 but interface
  Row(T1, "cest", "eth1", "hA", "id1", "v4a", "v4b", 6, 80,   10, 20, 1, 2),   \* 4  = 3 in another zone (same instant)
  Row(T1, "utc",  "eth0", "hA", "id1", "v6a", "v6b", 6, 80,   10, 20, 1, 2),   \* 5  IPv6 twin of 1
  Row(T2, "utc",  "eth0", "hA", "id1", "v4a", "v4b", 6, 80,   30, 5, 4, 4),    \* 6  later, larger
  Row(T1, "utc",  "eth0", "hA", "id1", "v4b", "v4a", 17, 53,  20, 10, 2, 1),   \* 7  same byte sum as 1, in/out swapped
  Row(T2, "cest", "eth0", "hB", "id1", "v4a", "v4b", 6, 80,   30, 5, 4, 4),    \* 8  instant of 6, other zone, other host
  Row(0,  "-",    "eth0", "hA", "id1", "v4a", "v4b", 6, 80,   10, 20, 1, 2),   \* 9  no time label
  Row(0,  "-",    "eth0", "hA", "id2", "v4a", "v4b", 6, 80,   10, 20, 1, 2),   \* 10 = 9 but host id
  Row(T1, "utc",  "eth1", "hA", "id1", "v6m", "v4b", 6, 80,   10, 20, 1, 2)    \* 11 = 3 but sip is the IPv4-mapped IPv6 form of v4a
>>

\* quick tier: every key, every direction and both orders occur, not every combination
MCQuickCfgs == {c \in Cfgs : \/ c.key = "time" /\ c.dir = "sum"
                             \/ c.key = "bytes" /\ c.dir \in {"sum", "in"}
                             \/ c.key = "packets" /\ c.dir \in {"out", "both"}}
MCFewCfgs == {c \in Cfgs : \/ c.key = "time" /\ c.dir = "sum" /\ c.asc
                           \/ c.key = "bytes" /\ c.dir = "both" /\ ~c.asc
                           \/ c.key = "packets" /\ c.dir = "in" /\ c.asc}

ASSUME WellFormed(MCUniverse)
\* the documented tie-break must be a strict total order on the universe
ASSUME AsBuilt \/ TieTotal
=============================================================================
