------------------------------ MODULE SortingGen ------------------------------
(***************************************************************************)
(* Case generator for the forward replay of C14 (spec -> code).  Sorting   *)
(* is a function of (multiset, statement), so a "behaviour" is one case:   *)
(* TLC enumerates every well-formed multiset of at most MaxRows rows of    *)
(* the universe and prints, for every sort configuration, the set of       *)
(* outputs the property admits (all arrangements ordered by the primary    *)
(* measure).  Rows are referred to by their position in `rows`; positions  *)
(* of rows that are equal as instants (Proj) are identified (smallest      *)
(* position), which is the projection the harness applies to real rows.    *)
(***************************************************************************)
EXTENDS SortingMC, Json
VARIABLE done

\* the time key ignores the direction
GenCfgs == {c \in Cfgs : c.key = "time" => c.dir = "sum"}

CanonIdx(in, i) == CHOOSE j \in 1..Len(in) :
                     /\ Proj(in[j]) = Proj(in[i])
                     /\ \A k \in 1..(j - 1) : Proj(in[k]) # Proj(in[i])
AdmIdx(in, c) ==
  {[i \in 1..Len(in) |-> CanonIdx(in, p[i])] : p \in {q \in Perms(Len(in)) : Sorted(Permute(in, q), c)}}

Case(in) ==
  [rows  |-> in,
   canon |-> [i \in 1..Len(in) |-> CanonIdx(in, i)],
   cases |-> SetToSeq({[key |-> c.key, dir |-> c.dir, asc |-> c.asc, adm |-> SetToSeq(AdmIdx(in, c))] : c \in GenCfgs})]

GenInit == /\ inp \in {s \in MultisetsUpTo(Universe, MaxRows) : Len(s) > 0 /\ WellFormed(s)}
           /\ out = <<>> /\ cfg = NoCfg /\ stage = "idle" /\ act = [name |-> "Case"]
           /\ done = FALSE
GenNext == /\ ~done
           /\ PrintT(<<"TRACE", ToJson(Case(inp))>>)
           /\ done' = TRUE /\ UNCHANGED vars
GenSpec == GenInit /\ [][GenNext]_<<vars, done>>
=============================================================================
