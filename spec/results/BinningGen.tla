------------------------------ MODULE BinningGen ------------------------------
(***************************************************************************)
(* Case generator for the forward replay of C13 (spec -> code).            *)
(* Re-binning is a function of (rows, bin size): TLC enumerates every      *)
(* multiset of at most MaxRows rows of the universe and every bin size     *)
(* and prints the behaviour  Load(rows); PostProcess(b); PostProcess(b)    *)
(* with the rows the specification predicts after each PostProcess.        *)
(* For b = Native only native results are generated (see PostProcess).     *)
(***************************************************************************)
EXTENDS BinningMC, Json
VARIABLES done, gb

Case(in, b) ==
  LET o1 == SetToSeq(Bin(in, b))
      o2 == SetToSeq(Bin(o1, b))
  IN [rows |-> in, b |-> b,
      steps |-> << [act |-> "PostProcess", b |-> b, exp |-> o1, totals |-> Totals(o1)],
                   [act |-> "PostProcess", b |-> b, exp |-> o2, totals |-> Totals(o2)] >>]

GenInit == /\ res \in {s \in MultisetsUpTo(Universe, MaxRows) : Len(s) > 0}
           /\ gb \in BinSizes
           /\ (gb > Native \/ NativeResult(res))
           /\ orig = res /\ binned = 0 /\ chain = TRUE /\ auto = NoAuto /\ act = [name |-> "Case"]
           /\ done = FALSE
GenNext == /\ ~done
           /\ PrintT(<<"TRACE", ToJson(Case(res, gb))>>)
           /\ done' = TRUE /\ UNCHANGED <<vars, gb>>
GenSpec == GenInit /\ [][GenNext]_<<vars, done, gb>>
=============================================================================
