SPECIFICATION GenSpec
CONSTANTS
  Universe <- MCUniverse
  MaxRows = 4
  AsBuilt = FALSE
CHECK_DEADLOCK FALSE
