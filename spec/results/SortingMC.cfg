SPECIFICATION Spec
CONSTANTS
  Universe <- MCUniverse
  MaxRows = 3
  AsBuilt = FALSE
  SortCfgs <- MCQuickCfgs
INVARIANTS TypeOK SortedOK DeterminismOK LimitOK AdmissibleOK
PROPERTIES LimitStepOK
