SPECIFICATION GenSpec
CONSTANTS
  NeqForeignFamily = TRUE
  GenSet = "cond-tiny"
  Seed = 1
  NSeeded = 2
CHECK_DEADLOCK FALSE
