------------------------------ MODULE QueryGen ------------------------------
(***************************************************************************)
(* Case generator for the forward replay (spec -> code) of C08.  A query   *)
(* is a pure function of (database, query), so a "behaviour" is one case   *)
(*    [db (name), q, exp = Result(db, q), ptag, prows, class]              *)
(* printed as one TRACE line (a list of cases).  The databases themselves  *)
(* are printed once (INFO line) so that the harness writes exactly the     *)
(* specification's records with the real DBWriter.                         *)
(*                                                                         *)
(* GenSet selects the family:                                              *)
(*   "cond-quick"     all condition trees of height <= 2 over four core    *)
(*                    atoms x (database A, all attributes) and (database   *)
(*                    B, two interfaces, dport only)                       *)
(*   "cond-thorough"  ... over six core atoms x four (database, attribute   *)
(*                    selection) combinations over three databases         *)
(*   "pair"           NSeeded seeded databases x a pairwise covering       *)
(*                    design over (attributes x labels x range class x     *)
(*                    direction filter); PairwiseOK is checked by TLC;     *)
(*                    plus the cases of "z"                                *)
(*   "full"           the full product for NSeeded seeded databases        *)
(*   "z"              IPv6 addresses whose bytes 5..16 are zero            *)
(*                                                                         *)
(* ptag / prows: what the as-built IP family pruning (Query, part 3) would *)
(* return if it differs from the definition ("neq": fixed by not pruning   *)
(* on != atoms, "or": needs a sound treatment of disjunctions); hinge: the  *)
(* pruned result is what the definition gives under the other reading of   *)
(* != across IP families.  Used only to name the class of a mismatch,      *)
(* never as the expected value.                                            *)
(***************************************************************************)
EXTENDS Query, CondDomain, Json
CONSTANTS GenSet, Seed, NSeeded
VARIABLES c, done

T0 == 1700006400          \* a day boundary
RealBulk == 32            \* goDB.WorkBulkSize

F24(n) == FlowSeq[n]     \* [id, fam, sip, dip, dport, proto]
\* counters: inbound only / outbound only / bidirectional by flow number
Cn(n, v) == IF n % 3 = 0 THEN <<10 * n + v, 0, 1 + (n % 4), 0>>
            ELSE IF n % 3 = 1 THEN <<0, 7 * n + v, 0, 2 + (n % 3)>>
            ELSE <<100 + n, 50 + v, 2, 1>>
Blk(i, ts, recs) == [iface |-> i, ts |-> ts, recs |-> recs]
RecsOf(ns, shift, v) == [j \in 1..Len(ns) |-> [f |-> F24(ns[j]), c |-> Cn(ns[j] + shift, v)]]
Upto(a, b) == [j \in 1..(b - a + 1) |-> a + j - 1]

\* ---- fixed mixed-family databases
DBA == << Blk("e0", T0 + 300, RecsOf(Upto(1, 24), 0, 1)),
          Blk("e0", T0 + 600, RecsOf(<<1, 2, 3, 5, 13, 14, 15, 17>>, 1, 2)) >>
DBB == << Blk("e0", T0 + 300, RecsOf(Upto(1, 12), 0, 1)),
          Blk("e0", T0 + DayLen, RecsOf(Upto(1, 6), 1, 3)),
          Blk("e1", T0 + 300, RecsOf(Upto(13, 24), 0, 1)),
          Blk("e1", T0 + DayLen + 600, RecsOf(Upto(7, 18), 2, 5)) >>
DBC == << Blk("e0", T0 + DayLen - 300, RecsOf(<<4, 8, 9, 16, 20, 21>>, 0, 1)),
          Blk("e0", T0 + DayLen, RecsOf(<<4, 9, 13, 16, 24>>, 1, 2)),
          Blk("e0", T0 + 2 * DayLen + 300, RecsOf(<<6, 7, 10, 11, 12, 18, 19, 22, 23>>, 0, 4)),
          Blk("lan_1", T0 + 300, RecsOf(<<1, 13, 2, 14>>, 2, 6)) >>

\* ---- database "z": IPv6 addresses whose last twelve bytes are zero, next to the IPv4 address that
\* has the same first four bytes
Z6a == N6(32, 1)                              \* 2001::        (32.1.0.0 = V4C)
Z6b == <<10, 200, 0, 1>> \o Z12               \* 0ac8:0001::   (10.200.0.1 = V4A)
ZF(s, d, p) == [id |-> 0, fam |-> Fam(s), sip |-> s, dip |-> d, dport |-> p, proto |-> 6]
DBZ == << Blk("e0", T0 + 300, << [f |-> ZF(Z6a, V6Q, 80), c |-> <<10, 20, 1, 2>>],
                                 [f |-> ZF(V6P, Z6b, 80), c |-> <<30, 0, 3, 0>>],
                                 [f |-> ZF(V4C, V4A, 80), c |-> <<5, 6, 1, 1>>],
                                 [f |-> ZF(V6P, V6Q, 80), c |-> <<7, 7, 1, 1>>] >>) >>

\* ---- seeded databases (pure functions of Seed)
H(x) == ((x % 32749) * 1103 + 12345) % 32749
Rn(s, i) == H(H(H(s + 1) + i) + 7 * i + 3)
SlotOff == <<0, 300, 43200, DayLen - 300>>
SIfaces == <<"e0", "e1", "wan_2">>
\* (interface k, day d, slot j) as one index 0..35
Present(s, x) == x = 1 \/ Rn(s, 500 + x) % 3 = 0
SRecs(s, x) ==
  LET ns == SelectSeq(Upto(1, 24), LAMBDA n : Rn(s, 1000 + 24 * x + n) % 4 = 0)
  IN [j \in 1..Len(ns) |-> [f |-> F24(ns[j]),
                            c |-> Cn(ns[j] + (Rn(s, 3000 + 24 * x + ns[j]) % 3), Rn(s, 2000 + 24 * x + ns[j]) % 900)]]
SBlock(s, x) == Blk(SIfaces[(x \div 12) + 1], T0 + ((x % 12) \div 4) * DayLen + SlotOff[(x % 4) + 1], SRecs(s, x))
SeededDB(s) == LET xs == SelectSeq(Upto(0, 35), LAMBDA x : Present(s, x))
               IN [j \in 1..Len(xs) |-> SBlock(s, xs[j])]
SName(i) == "s" \o ToString(i)
SeededIdx == 1..NSeeded
SDB(i) == SeededDB(Seed * 37 + i)

\* ---- the databases by name
FixedDBs == [A |-> DBA, B |-> DBB, C |-> DBC, Z |-> DBZ]
DBByName(n) == IF n \in DOMAIN FixedDBs THEN FixedDBs[n]
               ELSE SDB(CHOOSE i \in SeededIdx : SName(i) = n)
UsesSeeded == GenSet \in {"pair", "full"}
DBNames == CASE GenSet = "cond-quick" -> {"A", "B"}
             [] GenSet = "cond-thorough" -> {"A", "B", "C"}
             [] GenSet = "z" -> {"Z"}
             [] GenSet = "pair" -> {SName(i) : i \in SeededIdx} \cup {"Z"}
             [] OTHER -> {SName(i) : i \in SeededIdx}

\* ---- queries
Q(ifs, at, tm, il, cd, fl, d) ==
  [ifaces |-> ifs, attrs |-> at, time |-> tm, iface |-> il, cond |-> cd, first |-> fl[1], last |-> fl[2], dir |-> d]
Whole == <<T0 - 1000, T0 + 10 * DayLen>>

Sel1(cd, ifs) == Q(ifs, {"sip", "dip", "dport", "proto"}, FALSE, FALSE, cd, Whole, "none")
Sel2(cd, ifs) == Q(ifs, {"dport"}, FALSE, FALSE, cd, Whole, "none")
Sel3(cd, ifs) == Q(ifs, {"sip"}, FALSE, TRUE, cd, Whole, "bi")
Sel4(cd, ifs) == Q(ifs, {"dip", "proto"}, TRUE, FALSE, cd, Whole, "none")

\* ---- one case
ExpOut(e) == [rows |-> FlatRows(e.rows), totals |-> e.totals, hits |-> e.hits, ifaces |-> e.ifaces]
QOut(q) == [x \in DOMAIN q \ {"sel"} |-> q[x]]
CaseOf4(n, q, class, e, p, pn, alt) ==
  [db |-> n, q |-> QOut(q), class |-> class, exp |-> ExpOut(e),
   ptag |-> IF p = e.rows THEN "same" ELSE IF pn = e.rows THEN "neq" ELSE "or",
   prows |-> IF p = e.rows THEN {} ELSE FlatRows(p),
   \* does the pruned result equal the definition under the other reading of != ?
   hinge |-> IF p = e.rows THEN FALSE ELSE alt = p]
CaseOfD(n, d, q, class) ==
  CaseOf4(n, q, class, Result(d, q), PipelineRows(d, q, RealBulk, "asbuilt"), PipelineRows(d, q, RealBulk, "neqfixed"),
          Rows(d, OtherReading(q)))
CaseOf(n, q, class) == CaseOfD(n, DBByName(n), q, class)

WithSel(q, v) == [x \in DOMAIN q \cup {"sel"} |-> IF x = "sel" THEN v ELSE q[x]]
CondCasesV(t, v) ==
  IF GenSet = "cond-quick"
  THEN << CaseOf("A", WithSel(Sel1(t, {"e0"}), v), "cond"), CaseOf("B", WithSel(Sel2(t, {"e0", "e1"}), v), "cond") >>
  ELSE << CaseOf("A", WithSel(Sel1(t, {"e0"}), v), "cond"), CaseOf("B", WithSel(Sel2(t, {"e0", "e1"}), v), "cond"),
          CaseOf("C", WithSel(Sel3(t, {"lan_1", "e0"}), v), "cond"), CaseOf("B", WithSel(Sel4(t, {"e1"}), v), "cond") >>
CondCases(t) == CondCasesV(t, SelOf(t))

\* ---- pairwise design over (a: attribute subset 0..15, l: labels 0..3, r: range class 0..6,
\* d: direction filter 0..4); cases are indexed by (a, r), l and d are derived
AttrSet(a) == {x \in Attrs : CASE x = "sip" -> a % 2 = 1 [] x = "dip" -> (a \div 2) % 2 = 1
                               [] x = "dport" -> (a \div 4) % 2 = 1 [] x = "proto" -> (a \div 8) % 2 = 1}
DirSeq == <<"none", "in", "out", "uni", "bi">>
Lof(a, r) == (a + r) % 4
Dof(a, r) == (a + 2 * r) % 5
PairwiseOK ==
  /\ \A l \in 0..3, d \in 0..4 : \E a \in 0..15, r \in 0..6 : Lof(a, r) = l /\ Dof(a, r) = d
  /\ \A a \in 0..15, l \in 0..3 : \E r \in 0..6 : Lof(a, r) = l
  /\ \A a \in 0..15, d \in 0..4 : \E r \in 0..6 : Dof(a, r) = d
  /\ \A r \in 0..6, l \in 0..3 : \E a \in 0..15 : Lof(a, r) = l
  /\ \A r \in 0..6, d \in 0..4 : \E a \in 0..15 : Dof(a, r) = d
ASSUME PairwiseOK

SortedTS(d) == SortedSeq({d[i].ts : i \in 1..Len(d)})
Ord(a, b) == IF a <= b THEN <<a, b>> ELSE <<a, a>>
RangeOf(ts, r) ==
  LET n  == Len(ts)
      lo == 1 + n \div 4
      hi == n - n \div 4
      mi == (n + 1) \div 2
  IN CASE r = 0 -> <<ts[1] - 1000, ts[n] + 1000>>                       \* everything
       [] r = 1 -> <<ts[lo], ts[hi]>>                                   \* exact block bounds (inclusive)
       [] r = 2 -> Ord(ts[lo] + 1, ts[hi] - 1)                          \* one second inside
       [] r = 3 -> <<ts[mi], ts[mi]>>                                   \* a single instant
       [] r = 4 -> <<ts[mi] + 1, ts[mi] + 2>>                           \* between blocks
       [] r = 5 -> <<DayOf(ts[mi]), DayOf(ts[mi]) + DayLen - 1>>        \* one calendar day
       [] r = 6 -> <<ts[1], DayOf(ts[mi]) + DayLen - 100>>              \* ends in the 300 s before midnight
PairConds == << TrueCond,
                Num("dport", "=", 80),
                Or(Ip("sip", "=", V4A), Num("dport", "=", 80)),
                Net("snet", "!=", N4(10, 128, 0, 0), 9),
                Ip("host", "!=", V6Q),
                And(Num("proto", ">=", 17), Net("dnet", "=", N6(10, 0), 9)),
                Not(Or(Ip("sip", "=", V6P), Num("dport", "<", 256))),
                Net("net", "=", N4(10, 0, 0, 0), 8) >>
IfSel(d, k) == LET all == IfacesOf(d) IN
               CASE k = 0 -> all
                 [] k = 1 -> {"e0"}
                 [] k = 2 -> IF all \ {"e0"} = {} THEN {"e0"} ELSE all \ {"e0"}
PairQ(d, i, a, l, r, dd) ==
  LET at == AttrSet(a)
      tm == (l % 2 = 1) \/ (at = {} /\ l = 0)       \* an empty selection is no query: ask for time then
      il == l \div 2 = 1
  IN Q(IfSel(d, (a + r) % 3), at, tm, il, PairConds[((a + 3 * r + i) % Len(PairConds)) + 1],
       RangeOf(SortedTS(d), r), DirSeq[dd + 1])
PairCase(i, a, r) == CaseOfD(SName(i), SDB(i), PairQ(SDB(i), i, a, Lof(a, r), r, Dof(a, r)), "pair")
FullCase(i, a, l, r, dd) == CaseOfD(SName(i), SDB(i), PairQ(SDB(i), i, a, l, r, dd), "full")

\* ---- class z
ZConds == << TrueCond, Ip("sip", "=", Z6a), Ip("dip", "!=", Z6b), Net("snet", "=", Z6a, 32) >>
ZCases(k) ==
  << CaseOf("Z", Q({"e0"}, {"sip"}, FALSE, FALSE, ZConds[k], Whole, "none"), "z"),
     CaseOf("Z", Q({"e0"}, {"dip", "dport"}, FALSE, FALSE, ZConds[k], Whole, "none"), "z"),
     CaseOf("Z", Q({"e0"}, {"sip", "dip", "dport", "proto"}, TRUE, TRUE, ZConds[k], Whole, "none"), "z"),
     CaseOf("Z", Q({"e0"}, {"dport"}, FALSE, FALSE, ZConds[k], Whole, "none"), "z") >>

\* ---- the generator
GenIndex ==
  CASE GenSet = "cond-quick"    -> {<<"cond", t>> : t \in H2(Core4) \cup {TrueCond}}
    [] GenSet = "cond-thorough" -> {<<"cond", t>> : t \in H2(Core6) \cup {TrueCond}}
    [] GenSet = "cond-tiny"     -> {<<"cond", t>> : t \in Grow(Core4)}
    [] GenSet = "pair"          -> {<<"pair", i, a, r>> : i \in SeededIdx, a \in 0..15, r \in 0..6}
                                     \cup {<<"z", k>> : k \in 1..Len(ZConds)}
    [] GenSet = "full"          -> {<<"full", i, a, l, r, d>> : i \in SeededIdx, a \in 0..15, l \in 0..3, r \in 0..6, d \in 0..4}
    [] GenSet = "z"             -> {<<"z", k>> : k \in 1..Len(ZConds)}
CasesOf(x) ==
  CASE x[1] = "cond" -> CondCases(x[2])
    [] x[1] = "pair" -> <<PairCase(x[2], x[3], x[4])>>
    [] x[1] = "full" -> <<FullCase(x[2], x[3], x[4], x[5], x[6])>>
    [] x[1] = "z"    -> ZCases(x[2])

GenInit == c \in GenIndex /\ done = FALSE
GenNext == /\ ~done
           /\ PrintT(<<"TRACE", ToJson(CasesOf(c))>>)
           /\ done' = TRUE
           /\ UNCHANGED c
GenSpec == GenInit /\ [][GenNext]_<<c, done>>

ASSUME \A n \in DBNames : WellFormedDB(DBByName(n))
ASSUME PrintT(<<"INFO", ToJson([dbs |-> [n \in DBNames |-> DBByName(n)]])>>)
=============================================================================
