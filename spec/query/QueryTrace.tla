----------------------------- MODULE QueryTrace -----------------------------
(***************************************************************************)
(* Trace validation (code -> spec) for C08 (and the equality part of C11). *)
(* The Go side (harness/internal/query Drive; harness/internal/workqueue)  *)
(* writes seeded databases with the real DBWriter, runs seeded queries on  *)
(* the real engine and logs                                                *)
(*    {"ev":"DB", "db": blocks}                 the current database       *)
(*    {"ev":"Q", "q": query, "rows", "totals", "hits", "ifaces", "err"}    *)
(* A query is a pure function of (db, q): the trace is accepted iff every  *)
(* logged result equals Result(db, q) of module Query.  Every event is     *)
(* judged (a mismatch does not stop the run); for a mismatching event the  *)
(* specification's result - and what the as-built family pruning would     *)
(* return - are printed so that the check can name the class.              *)
(***************************************************************************)
EXTENDS Query, Json

TraceLog == ndJsonDeserialize("trace.ndjson")

VARIABLES l, db, bad
tvars == <<l, db, bad>>

SetOf(s) == {s[i] : i \in 1..Len(s)}
QOf(x) == [ifaces |-> SetOf(x.ifaces), attrs |-> SetOf(x.attrs), time |-> x.time, iface |-> x.iface,
           cond |-> x.cond, first |-> x.first, last |-> x.last, dir |-> x.dir]
Tup4(t) == <<t[1], t[2], t[3], t[4]>>

\* the logged result equals the specification's (rows as a multiset: no row twice)
ResOK(e, r) ==
  /\ e.err = ""
  /\ Len(e.rows) = Cardinality(r.rows)
  /\ SetOf(e.rows) = FlatRows(r.rows)
  /\ Tup4(e.totals) = r.totals
  /\ e.hits = r.hits
  /\ SetOf(e.ifaces) = r.ifaces /\ Len(e.ifaces) = Cardinality(r.ifaces)

Explain(e, q, r, d) ==
  [line |-> l, err |-> e.err,
   exp |-> [rows |-> FlatRows(r.rows), totals |-> r.totals, hits |-> r.hits, ifaces |-> r.ifaces],
   pruned |-> FlatRows(PipelineRows(d, q, 32, "asbuilt")),
   neqfixed |-> FlatRows(PipelineRows(d, q, 32, "neqfixed")) = FlatRows(r.rows),
   hinge |-> Rows(d, OtherReading(q)) = PipelineRows(d, q, 32, "asbuilt")]

Judge(e, q, r, d) == IF ResOK(e, r) THEN bad' = bad
                     ELSE PrintT(<<"MISMATCH", ToJson(Explain(e, q, r, d))>>) /\ bad' = bad + 1

TraceInit == l = 1 /\ db = <<>> /\ bad = 0
TraceNext ==
  /\ l <= Len(TraceLog)
  /\ l' = l + 1
  /\ IF TraceLog[l].ev = "DB"
     THEN db' = TraceLog[l].db /\ bad' = bad
     ELSE /\ db' = db
          /\ Judge(TraceLog[l], QOf(TraceLog[l].q), Result(db, QOf(TraceLog[l].q)), db)
TraceSpec == TraceInit /\ [][TraceNext]_tvars

\* every event consumed and none mismatching
NoMismatch == bad = 0
TraceAccepted ==
  \/ TLCGet("stats").diameter - 1 = Len(TraceLog)
  \/ PrintT(<<"INFO", ToJson([consumed |-> TLCGet("stats").diameter - 1, total |-> Len(TraceLog)])>>) /\ FALSE
=============================================================================
