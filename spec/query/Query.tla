------------------------------- MODULE Query -------------------------------
(***************************************************************************)
(* Property C08: the result of a goDB query equals a direct aggregation of *)
(* the stored flows.                                                       *)
(*                                                                         *)
(* Part 1 (vocabulary) - databases and queries.                            *)
(* Part 2 (definition) - Result(db, q), written the way the property       *)
(*   statement words it: select the stored flows whose block time lies in  *)
(*   the requested range and that satisfy the condition (Cond!Eval), group *)
(*   them by the requested attributes and labels, sum the four counters    *)
(*   per group, keep the groups whose summed counters match the direction  *)
(*   filter; totals = sum of the returned rows, hits = number of rows.     *)
(*   RowsDef is the declarative form, Rows an equivalent fold that TLC can *)
(*   evaluate on databases with thousands of records (RowsDef = Rows is    *)
(*   checked exhaustively over the bounded domain of QueryMC).             *)
(* Part 3 (mechanism, pure stage functions) - what the engine does, stage  *)
(*   by stage (pkg/goDB/DBWorkManager.go, pkg/goDB/Query.go,               *)
(*   pkg/goDB/engine/query.go, aggregate.go): day directories selected by  *)
(*   directory timestamp, first/last covered adjustment, workloads of Bulk *)
(*   days, per block scan with IP family pruning decided from the          *)
(*   condition, one flow map per workload, merge per interface, rows.      *)
(*   The state machine over these stages (any worker / merge order) is     *)
(*   module QueryPipeline; invariant PipelineEqualsDefinition.             *)
(*                                                                         *)
(* Meaning of the direction filter (cmd/goQuery/cmd/help.go, "Traffic      *)
(* Direction", evaluated "against aggregated results"):                    *)
(*   in  = incoming but no outgoing packets     out = the converse         *)
(*   uni = either of the two                    bi  = both directions      *)
(*                                                                         *)
(* Interface label: rows of different interfaces are never merged when     *)
(* more than one interface is queried (query.Args.Prepare turns the iface  *)
(* label on for such queries); with a single interface and no iface label  *)
(* the specification does not say what the label of a row shows ("-").     *)
(***************************************************************************)
EXTENDS Cond

(***************************************************************************)
(* Part 1: vocabulary                                                      *)
(*   stored record  [f |-> flow record (fam, sip, dip, dport, proto),      *)
(*                   c |-> <<bytes rcvd, bytes sent, pkts rcvd, pkts sent>>]*)
(*   block          [iface, ts, recs]   recs: sequence of stored records   *)
(*                                      with pairwise different 5-tuples   *)
(*   db             sequence of blocks with pairwise different (iface, ts) *)
(*   query          [ifaces (set), attrs (subset of Attrs), time, iface    *)
(*                   (BOOLEAN labels), cond (Cond tree or TrueCond),       *)
(*                   first, last (unix seconds), dir]                      *)
(***************************************************************************)
Attrs == {"sip", "dip", "dport", "proto"}
Dirs  == {"none", "in", "out", "uni", "bi"}
DayLen == 86400           \* gpfile.EpochDay
WriteInterval == 300      \* goDB.DBWriteInterval
DayOf(ts) == (ts \div DayLen) * DayLen     \* gpfile.DirTimestamp

TrueCond == [k |-> "true"]                 \* "no condition"
Holds(c, f) == IF c.k = "true" THEN TRUE ELSE Eval(c, f)
\* Does the stored flow f satisfy the condition of query q?  By definition Holds(q.cond, f).
\* A generator that evaluates many queries with the same condition over flows of the universe
\* FlowSeq may attach the vector sel = SelOf(q.cond) to the query (field "sel") so that the
\* condition is evaluated once per universe flow instead of once per stored record.
SelOf(c) == [i \in FlowIds |-> Holds(c, FlowSeq[i])]
\* (Field "nff", used only to tag cases: evaluate the condition under the given reading of != across
\* IP families instead of the adopted one, see Cond!NeqForeignFamily.)
HoldsQ(q, f) == IF "sel" \in DOMAIN q THEN q.sel[f.id]
                ELSE IF "nff" \in DOMAIN q THEN (IF q.cond.k = "true" THEN TRUE ELSE EvalR(q.cond, f, q.nff))
                ELSE Holds(q.cond, f)
\* the query evaluated under the other reading of != (no memoised selection)
OtherReading(q) == [x \in (DOMAIN q \ {"sel"}) \cup {"nff"} |-> IF x = "nff" THEN ~NeqForeignFamily ELSE q[x]]

Tuple5(f) == <<f.fam, f.sip, f.dip, f.dport, f.proto>>
WellFormedBlock(b) ==
  \A i, j \in 1..Len(b.recs) : i # j => Tuple5(b.recs[i].f) # Tuple5(b.recs[j].f)
WellFormedDB(db) ==
  /\ \A i, j \in 1..Len(db) : i # j => <<db[i].iface, db[i].ts>> # <<db[j].iface, db[j].ts>>
  /\ \A i \in 1..Len(db) : WellFormedBlock(db[i])
IfacesOf(db) == {db[i].iface : i \in 1..Len(db)}

Zero4 == <<0, 0, 0, 0>>
Add4(a, b) == <<a[1] + b[1], a[2] + b[2], a[3] + b[3], a[4] + b[4]>>

(***************************************************************************)
(* Part 2: the definition                                                  *)
(***************************************************************************)
InRange(ts, q) == q.first <= ts /\ ts <= q.last

IfaceLabel(i, q) == IF q.iface \/ Cardinality(q.ifaces) > 1 THEN i ELSE "-"

\* the group a stored flow of block (i, ts) belongs to
GroupKey(i, ts, f, q) ==
  [iface |-> IfaceLabel(i, q),
   ts    |-> IF q.time THEN ts ELSE 0,
   sip   |-> IF "sip" \in q.attrs THEN f.sip ELSE <<>>,
   dip   |-> IF "dip" \in q.attrs THEN f.dip ELSE <<>>,
   dport |-> IF "dport" \in q.attrs THEN f.dport ELSE -1,
   proto |-> IF "proto" \in q.attrs THEN f.proto ELSE -1]

DirOK(d, c) ==
  CASE d = "none" -> TRUE
    [] d = "in"   -> c[3] > 0 /\ c[4] = 0
    [] d = "out"  -> c[4] > 0 /\ c[3] = 0
    [] d = "uni"  -> (c[3] > 0 /\ c[4] = 0) \/ (c[4] > 0 /\ c[3] = 0)
    [] d = "bi"   -> c[3] > 0 /\ c[4] > 0

\* ---- declarative form
Selected(db, q) ==
  UNION { { [iface |-> db[i].iface, ts |-> db[i].ts, f |-> db[i].recs[j].f, c |-> db[i].recs[j].c] :
              j \in {j \in 1..Len(db[i].recs) : HoldsQ(q, db[i].recs[j].f)} } :
          i \in {i \in 1..Len(db) : db[i].iface \in q.ifaces /\ InRange(db[i].ts, q)} }
KeyOf(s, q) == GroupKey(s.iface, s.ts, s.f, q)
RECURSIVE SumC(_)
SumC(S) == IF S = {} THEN Zero4 ELSE LET x == CHOOSE x \in S : TRUE IN Add4(x.c, SumC(S \ {x}))
GroupsOf(S, q) == { [key |-> k, c |-> SumC({s \in S : KeyOf(s, q) = k})] : k \in {KeyOf(s, q) : s \in S} }
RowsOfSel(S, q) == {r \in GroupsOf(S, q) : DirOK(q.dir, r.c)}
RowsDef(db, q) == RowsOfSel(Selected(db, q), q)

\* ---- the same as a fold (a map group -> counters built record by record)
PutK(m, k, v) == (k :> v) @@ m        \* k is not in DOMAIN m
Upd(m, k, c) == IF k \in DOMAIN m THEN [m EXCEPT ![k] = Add4(@, c)] ELSE PutK(m, k, c)
EmptyMap == <<>>
RECURSIVE FoldRecs(_, _, _, _)
FoldRecs(b, j, q, acc) ==
  IF j > Len(b.recs) THEN acc
  ELSE FoldRecs(b, j + 1, q,
                IF HoldsQ(q, b.recs[j].f)
                THEN Upd(acc, GroupKey(b.iface, b.ts, b.recs[j].f, q), b.recs[j].c)
                ELSE acc)
RECURSIVE FoldBlocks(_, _, _, _)
FoldBlocks(db, i, q, acc) ==
  IF i > Len(db) THEN acc
  ELSE FoldBlocks(db, i + 1, q,
                  IF db[i].iface \in q.ifaces /\ InRange(db[i].ts, q) THEN FoldRecs(db[i], 1, q, acc) ELSE acc)
RowsOfMap(m, q) == { [key |-> k, c |-> m[k]] : k \in {k \in DOMAIN m : DirOK(q.dir, m[k])} }
Rows(db, q) == RowsOfMap(FoldBlocks(db, 1, q, EmptyMap), q)

RECURSIVE SumRows(_)
SumRows(R) == IF R = {} THEN Zero4 ELSE LET x == CHOOSE x \in R : TRUE IN Add4(x.c, SumRows(R \ {x}))

\* the observable result of a query (results.Result: Rows, Summary.Totals, Summary.Hits.Total,
\* Summary.Interfaces)
MkResult(rows, q) == [rows |-> rows, totals |-> SumRows(rows), hits |-> Cardinality(rows), ifaces |-> q.ifaces]
Result(db, q) == MkResult(Rows(db, q), q)
ResultDef(db, q) == MkResult(RowsDef(db, q), q)

\* rows as flat records (interchange form)
FlatRow(r) == [iface |-> r.key.iface, ts |-> r.key.ts, sip |-> r.key.sip, dip |-> r.key.dip,
               dport |-> r.key.dport, proto |-> r.key.proto,
               br |-> r.c[1], bs |-> r.c[2], pr |-> r.c[3], ps |-> r.c[4]]
FlatRows(R) == {FlatRow(r) : r \in R}

(***************************************************************************)
(* Part 3: the mechanism, stage by stage (pure functions)                  *)
(*                                                                         *)
(* IP family pruning.  goDB.NewQuery folds the IP versions of all atoms of *)
(* the prepared condition with types.IPVersion.Merge, a join in the        *)
(* lattice None < V4, V6 < Both (here: sets of families, Merge = union,    *)
(* None = {}); readBlocksAndEvaluate scans only the IPv4 (IPv6) entries of *)
(* a block when the result is V4 (V6).  Pruning modes:                     *)
(*   "asbuilt"   as described                                              *)
(*   "neqfixed"  as built, but an address/network atom with "!=" counts as *)
(*               Both (it does not restrict the family)                    *)
(*   "sound"     the set of families that can satisfy the condition:       *)
(*               "&" intersects, "|" unites, only "=" atoms restrict       *)
(*   "off"       no pruning                                                *)
(* Pruning is invisible (PipelineEqualsDefinition) for "sound" and "off".  *)
(***************************************************************************)
Prepared(c) == NNF(Desugar(c))      \* node.ParseAndInstrument: desugar, negation normal form

AtomVer(a, mode) ==
  IF ~FamilyBound(a) THEN {}
  ELSE IF mode = "neqfixed" /\ a.cmp = "!=" THEN {4, 6} ELSE {Fam(a.b)}
MergedVer(c, mode) == UNION {AtomVer(a, mode) : a \in AtomsOf(Prepared(c))}

RECURSIVE SoundFams(_)
SoundFams(t) ==
  CASE t.k = "atom" -> IF FamilyBound(t) /\ (t.cmp = "=" \/ ~NeqForeignFamily) THEN {Fam(t.b)} ELSE {4, 6}
    [] t.k = "and"  -> SoundFams(t.l) \cap SoundFams(t.r)
    [] t.k = "or"   -> SoundFams(t.l) \cup SoundFams(t.r)

\* the families whose entries are scanned
ScanFams(c, mode) ==
  IF c.k = "true" \/ mode = "off" THEN {4, 6}
  ELSE IF mode = "sound" THEN SoundFams(Prepared(c))
  ELSE IF MergedVer(c, mode) = {4} THEN {4}
  ELSE IF MergedVer(c, mode) = {6} THEN {6}
  ELSE {4, 6}

\* ---- day selection (walkDB) and covered interval (CreateWorkerJobs)
IfaceBlocks(db, i) == {n \in 1..Len(db) : db[n].iface = i}
IfaceDays(db, i) == {DayOf(db[n].ts) : n \in IfaceBlocks(db, i)}
SelectedDays(db, i, q) == {d \in IfaceDays(db, i) : q.first < d + DayLen /\ d < q.last + WriteInterval}
DayBlocks(db, i, d) == {n \in IfaceBlocks(db, i) : DayOf(db[n].ts) = d}
MinOf(S) == CHOOSE x \in S : \A y \in S : x <= y
MaxOf(S) == CHOOSE x \in S : \A y \in S : x >= y
DirFirst(db, i, d) == MinOf({db[n].ts : n \in DayBlocks(db, i, d)})
DirLast(db, i, d)  == MaxOf({db[n].ts : n \in DayBlocks(db, i, d)})
\* days: the non-empty set of selected days of interface i
Covered(db, i, q, days) ==
  [first |-> IF q.first < DirFirst(db, i, MinOf(days)) THEN DirFirst(db, i, MinOf(days)) ELSE q.first,
   last  |-> IF q.last > DirLast(db, i, MaxOf(days)) THEN DirLast(db, i, MaxOf(days)) ELSE q.last]

\* ---- workloads: the selected days in directory order, Bulk at a time
RECURSIVE SortedSeq(_)
SortedSeq(S) == IF S = {} THEN <<>> ELSE <<MinOf(S)>> \o SortedSeq(S \ {MinOf(S)})
RECURSIVE Chunks(_, _)
Chunks(s, n) == IF Len(s) = 0 THEN <<>>
                ELSE IF Len(s) <= n THEN <<s>>
                ELSE <<SubSeq(s, 1, n)>> \o Chunks(SubSeq(s, n + 1, Len(s)), n)
Workloads(days, bulk) == Chunks(SortedSeq(days), bulk)

\* ---- block scan (readBlocksAndEvaluate).  The key of the per-workload map: the family is part
\* of the key only if an address is among the attributes (otherwise all entries use the IPv4 key)
PKey(ts, f, q) ==
  [v4    |-> ("sip" \notin q.attrs /\ "dip" \notin q.attrs) \/ f.fam = 4,
   ts    |-> IF q.time THEN ts ELSE 0,
   sip   |-> IF "sip" \in q.attrs THEN f.sip ELSE <<>>,
   dip   |-> IF "dip" \in q.attrs THEN f.dip ELSE <<>>,
   dport |-> IF "dport" \in q.attrs THEN f.dport ELSE -1,
   proto |-> IF "proto" \in q.attrs THEN f.proto ELSE -1]

RECURSIVE ScanRecs(_, _, _, _, _)
ScanRecs(b, j, q, fams, acc) ==
  IF j > Len(b.recs) THEN acc
  ELSE ScanRecs(b, j + 1, q, fams,
                IF b.recs[j].f.fam \in fams /\ HoldsQ(q, b.recs[j].f)
                THEN Upd(acc, PKey(b.ts, b.recs[j].f, q), b.recs[j].c)
                ELSE acc)
RECURSIVE ScanBlocks(_, _, _, _, _, _)
\* ns: block indices of one day in time order
ScanBlocks(db, ns, q, cov, fams, acc) ==
  IF Len(ns) = 0 THEN acc
  ELSE ScanBlocks(db, Tail(ns), q, cov, fams,
                  IF db[Head(ns)].ts < cov.first \/ db[Head(ns)].ts > cov.last THEN acc
                  ELSE ScanRecs(db[Head(ns)], 1, q, fams, acc))
BlockOrder(db, S) == LET RECURSIVE O(_)
                         O(T) == IF T = {} THEN <<>>
                                 ELSE LET n == CHOOSE n \in T : \A m \in T : db[n].ts <= db[m].ts
                                      IN <<n>> \o O(T \ {n})
                     IN O(S)
RECURSIVE ScanDays(_, _, _, _, _, _, _)
ScanDays(db, i, ds, q, cov, fams, acc) ==
  IF Len(ds) = 0 THEN acc
  ELSE ScanDays(db, i, Tail(ds), q, cov, fams,
                ScanBlocks(db, BlockOrder(db, DayBlocks(db, i, Head(ds))), q, cov, fams, acc))
\* the flow map a worker sends for one workload (a sequence of days) of interface i
ScanWorkload(db, i, ds, q, cov, mode) == ScanDays(db, i, ds, q, cov, ScanFams(q.cond, mode), EmptyMap)

\* ---- aggregation (engine.aggregate: hashmap Merge per interface)
MergeMaps(f, g) ==
  [x \in DOMAIN f \cup DOMAIN g |->
     IF x \in DOMAIN f THEN (IF x \in DOMAIN g THEN Add4(f[x], g[x]) ELSE f[x]) ELSE g[x]]

\* ---- rows (engine.RunStatement, results preparation) from the per-interface maps
RowKey(i, k, q) == [iface |-> IfaceLabel(i, q), ts |-> k.ts, sip |-> k.sip, dip |-> k.dip,
                    dport |-> k.dport, proto |-> k.proto]
RowsOfAgg(agg, q) ==
  UNION { { [key |-> RowKey(i, k, q), c |-> agg[i][k]] :
              k \in {k \in DOMAIN agg[i] : DirOK(q.dir, agg[i][k])} } : i \in DOMAIN agg }

\* ---- the whole pipeline in one fixed order (one worker, interfaces and workloads in order);
\* QueryPipeline shows that every other order gives the same
RECURSIVE MergeWorkloads(_, _, _, _, _, _, _)
MergeWorkloads(db, i, wls, q, cov, mode, acc) ==
  IF Len(wls) = 0 THEN acc
  ELSE MergeWorkloads(db, i, Tail(wls), q, cov, mode, MergeMaps(acc, ScanWorkload(db, i, Head(wls), q, cov, mode)))
IfaceMapD(db, i, q, bulk, mode, days) ==
  IF days = {} THEN EmptyMap
  ELSE MergeWorkloads(db, i, Workloads(days, bulk), q, Covered(db, i, q, days), mode, EmptyMap)
IfaceMap(db, i, q, bulk, mode) == IfaceMapD(db, i, q, bulk, mode, SelectedDays(db, i, q))
PipelineRows(db, q, bulk, mode) ==
  RowsOfAgg([i \in q.ifaces \cap IfacesOf(db) |-> IfaceMap(db, i, q, bulk, mode)], q)
PipelineResult(db, q, bulk, mode) == MkResult(PipelineRows(db, q, bulk, mode), q)
=============================================================================
