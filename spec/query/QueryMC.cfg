SPECIFICATION Spec
CONSTANTS
  NeqForeignFamily = TRUE
  DBs <- MCDBs
  Queries <- MCQueries
  NWorkers = 1
  Bulk = 1
  Pruning = "sound"
  MCSize = "quick"
INVARIANTS PipelineEqualsDefinition PipelineDeterministic DefinitionFormsAgree TotalsOK
CHECK_DEADLOCK FALSE
