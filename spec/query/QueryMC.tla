------------------------------ MODULE QueryMC ------------------------------
(***************************************************************************)
(* Bounded exhaustive exploration of the query pipeline (C08, binding M).  *)
(* Databases: interface e0 has three block slots - the first and the last  *)
(* slot of day D0 and the first slot of the next day (exactly midnight) -  *)
(* each absent or filled with one of the record sets R1..R3 (both IP       *)
(* families, inbound-only / outbound-only / bidirectional counters, the    *)
(* same 5-tuple in several blocks so that sums and direction filters on    *)
(* sums matter); interface e1 is absent or has one fixed block per day.    *)
(* Queries: attribute selections x labels x conditions (family-neutral,    *)
(* family-bound, disjunctions, negations) x time range classes (all, exact *)
(* block bounds, one second inside, day boundary, before the data, inside  *)
(* the 300 s window before midnight) x direction filters x interface sets. *)
(* MCSize selects how much of it is explored.                              *)
(***************************************************************************)
EXTENDS QueryPipeline
CONSTANT MCSize      \* "quick" | "thorough" | "deep"

D0 == 1700006400
D1 == D0 + DayLen
SlotA == D0 + 300
SlotB == D0 + DayLen - 300
SlotC == D1

F(n) == [fam |-> FlowSeq[n].fam, sip |-> FlowSeq[n].sip, dip |-> FlowSeq[n].dip,
         dport |-> FlowSeq[n].dport, proto |-> FlowSeq[n].proto]
CBi  == <<100, 50, 2, 1>>
CIn  == <<40, 0, 1, 0>>
COut == <<0, 70, 0, 3>>
Rec(n, c) == [f |-> F(n), c |-> c]
\* pool: flows 1 2 3 (IPv4) 13 14 15 (IPv6)
R1 == <<Rec(1, CBi), Rec(13, CIn)>>
R2 == <<Rec(1, COut), Rec(2, CIn), Rec(14, CBi)>>
R3 == <<Rec(13, COut), Rec(15, CBi), Rec(3, CIn)>>
Blk(i, ts, recs) == [iface |-> i, ts |-> ts, recs |-> recs]
NonEmpty(s) == SelectSeq(s, LAMBDA b : Len(b.recs) > 0)
E1Blocks == <<Blk("e1", SlotA, R2), Blk("e1", D1 + 300, R1)>>
Day(a, b, c, e) == NonEmpty(<<Blk("e0", SlotA, a), Blk("e0", SlotB, b), Blk("e0", SlotC, c)>>) \o e
MCDBs ==
  CASE MCSize = "quick"    -> { Day(a, R2, c, e) : a \in {<<>>, R1}, c \in {<<>>, R2}, e \in {<<>>, E1Blocks} }
    [] MCSize = "thorough" -> { Day(a, b, c, e) : a \in {<<>>, R1, R3}, b \in {R1, R2}, c \in {<<>>, R3},
                                                  e \in {<<>>, E1Blocks} }
    [] MCSize = "deep"     -> { Day(R1, b, c, E1Blocks) : b \in {<<>>, R2}, c \in {R2, R3} }

N4(a, b, c, d) == <<a, b, c, d>>
CondsQ == { TrueCond,
            Or(Ip("sip", "=", V4A), Num("dport", "=", 80)),       \* family-bound | family-neutral
            Ip("sip", "!=", V4A),                                 \* negated address
            And(Net("snet", "=", N4(10, 0, 0, 0), 9), Num("proto", "=", 6)),
            Not(Ip("dip", "=", V6Q)) }
CondsT == CondsQ \cup { Ip("host", "=", V6P),
                        Or(Ip("sip", "=", V4A), Ip("sip", "=", V6P)),
                        Or(Net("dnet", "!=", N4(10, 0, 0, 0), 8), Num("proto", "=", 17)) }
AttrSelsQ == { {"sip"}, {"dport", "proto"} }
AttrSelsT == AttrSelsQ \cup { {"sip", "dip", "dport", "proto"} }
Ranges == { <<D0 - 1000, D1 + DayLen>>,     \* everything
            <<SlotA, SlotB>>,               \* exact block bounds, inclusive
            <<SlotA + 1, SlotC - 1>>,       \* one second inside: first block out, midnight block out
            <<SlotB, SlotC>>,               \* across the day boundary
            <<SlotC, SlotC>>,               \* a single instant
            <<D0 - 1000, D0>>,              \* before the data
            <<SlotA, D1 - 100>> }           \* last in the 300 s before midnight: next day selected, no block
RangesQ == { <<D0 - 1000, D1 + DayLen>>, <<SlotA + 1, SlotC - 1>>, <<SlotB, SlotC>>, <<SlotA, D1 - 100>> }

Q(ifs, at, tm, il, c, r, d) ==
  [ifaces |-> ifs, attrs |-> at, time |-> tm, iface |-> il, cond |-> c, first |-> r[1], last |-> r[2], dir |-> d]
MCQueries ==
  CASE MCSize = "quick" ->
         { Q(ifs, at, tm, tm, c, r, d) : ifs \in {{"e0"}, {"e0", "e1"}}, at \in AttrSelsQ, tm \in BOOLEAN,
                                         c \in CondsQ, r \in RangesQ, d \in {"none", "bi"} }
    [] MCSize = "thorough" ->
         { x \in { Q(ifs, at, tm, tm, c, r, d) : ifs \in {{"e0"}, {"e0", "e1"}}, at \in AttrSelsT,
                                          tm \in BOOLEAN, c \in CondsT, r \in Ranges,
                                          d \in {"none", "in", "bi"} } :
             x.attrs # {} \/ x.time }
    [] MCSize = "deep" ->
         { Q(ifs, at, TRUE, FALSE, c, r, d) : ifs \in {{"e0", "e1"}}, at \in {{"sip"}, {"dport"}},
                                         c \in CondsQ, r \in {<<D0 - 1000, D1 + DayLen>>, <<SlotA + 1, SlotC>>},
                                         d \in Dirs }

ASSUME \A d \in MCDBs : WellFormedDB(d)
=============================================================================
