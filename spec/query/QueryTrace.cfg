SPECIFICATION TraceSpec
CONSTANTS
  NeqForeignFamily = TRUE
POSTCONDITION TraceAccepted
CHECK_DEADLOCK FALSE
