\* the as-built IP family pruning: TLC is expected to find a query whose pipeline result differs from
\* the definition (a candidate only - the verdict comes from the forward replay on the real engine)
SPECIFICATION Spec
CONSTANTS
  NeqForeignFamily = TRUE
  DBs <- MCDBs
  Queries <- MCQueries
  NWorkers = 1
  Bulk = 1
  Pruning = "asbuilt"
  MCSize = "quick"
INVARIANTS PipelineEqualsDefinition
CHECK_DEADLOCK FALSE
