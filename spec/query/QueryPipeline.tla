--------------------------- MODULE QueryPipeline ---------------------------
(***************************************************************************)
(* The query engine as a state machine over the stage functions of module  *)
(* Query (property C08, binding M).  One behaviour = one query on one      *)
(* database:                                                               *)
(*   CreateWorkManager(i)  engine.createWorkManager / CreateWorkerJobs:    *)
(*                         day directories selected, covered interval,     *)
(*                         workloads of Bulk days (for every interface     *)
(*                         before any worker runs)                         *)
(*   StartIface(i)         ExecuteWorkerReadJobs of one interface; the     *)
(*                         interfaces are processed one after the other in *)
(*                         no particular order (Go map iteration)          *)
(*   Take(w)               a worker receives the next workload             *)
(*   Scan(w)               ... scans its days block by block (time filter, *)
(*                         IP family pruning, condition) and sends the     *)
(*                         flow map of the workload                        *)
(*   FinishIface           all workers of the interface returned           *)
(*   MergeOne              the aggregator merges one received map into the *)
(*                         map of its interface (any arrival order)        *)
(*   Finish                rows, direction filter, totals, hits            *)
(* The work queue itself (capacity, close, termination) is property C11,   *)
(* module WorkQueue.                                                       *)
(***************************************************************************)
EXTENDS Query

CONSTANTS DBs,        \* the databases explored
          Queries,    \* the queries explored
          NWorkers,   \* worker goroutines (runtime.NumCPU)
          Bulk,       \* days per workload (goDB.WorkBulkSize = 32, scaled)
          Pruning     \* pruning mode of the mechanism, see Query

VARIABLES db, q,
          phase,      \* "prepare" | "run" | "done"
          todo,       \* interfaces without a work manager yet
          wms,        \* iface -> [cov, wls, next]  (only interfaces with data in range)
          finished,   \* interfaces whose workers have returned
          cur,        \* interface being processed ("-" = none)
          busy,       \* worker -> index of the workload it holds (0 = none)
          mapchan,    \* maps sent and not yet merged: set of [iface, id, m]
          agg,        \* iface -> aggregated map
          out,        \* the result handed to the caller
          act
pvars == <<db, q, phase, todo, wms, finished, cur, busy, mapchan, agg, out, act>>

Workers == 1..NWorkers
NoResult == [rows |-> {}, totals |-> Zero4, hits |-> -1, ifaces |-> {}]

Init == /\ db \in DBs /\ q \in Queries
        /\ todo = q.ifaces \cap IfacesOf(db)
        /\ phase = IF todo = {} THEN "run" ELSE "prepare"
        /\ wms = <<>> /\ finished = {} /\ cur = "-"
        /\ busy = [w \in Workers |-> 0]
        /\ mapchan = {}
        /\ agg = [i \in q.ifaces \cap IfacesOf(db) |-> EmptyMap]
        /\ out = NoResult
        /\ act = [name |-> "Init"]

CreateWorkManager(i) ==
  /\ phase = "prepare" /\ i \in todo
  /\ todo' = todo \ {i}
  /\ LET days == SelectedDays(db, i, q) IN
       wms' = IF days = {} THEN wms
              ELSE PutK(wms, i, [cov |-> Covered(db, i, q, days), wls |-> Workloads(days, Bulk), next |-> 1])
  /\ phase' = IF todo' = {} THEN "run" ELSE phase
  /\ UNCHANGED <<db, q, finished, cur, busy, mapchan, agg, out>>
  /\ act' = [name |-> "CreateWorkManager", iface |-> i]

StartIface(i) ==
  /\ phase = "run" /\ cur = "-" /\ i \in DOMAIN wms /\ i \notin finished
  /\ cur' = i
  /\ UNCHANGED <<db, q, phase, todo, wms, finished, busy, mapchan, agg, out>>
  /\ act' = [name |-> "StartIface", iface |-> i]

Take(w) ==
  /\ phase = "run" /\ cur # "-" /\ busy[w] = 0
  /\ wms[cur].next <= Len(wms[cur].wls)
  /\ busy' = [busy EXCEPT ![w] = wms[cur].next]
  /\ wms' = [wms EXCEPT ![cur].next = @ + 1]
  /\ UNCHANGED <<db, q, phase, todo, finished, cur, mapchan, agg, out>>
  /\ act' = [name |-> "Take", w |-> w]

Scan(w) ==
  /\ phase = "run" /\ cur # "-" /\ busy[w] # 0
  /\ mapchan' = mapchan \cup {[iface |-> cur, id |-> busy[w],
                               m |-> ScanWorkload(db, cur, wms[cur].wls[busy[w]], q, wms[cur].cov, Pruning)]}
  /\ busy' = [busy EXCEPT ![w] = 0]
  /\ UNCHANGED <<db, q, phase, todo, wms, finished, cur, agg, out>>
  /\ act' = [name |-> "Scan", w |-> w]

FinishIface ==
  /\ phase = "run" /\ cur # "-"
  /\ wms[cur].next > Len(wms[cur].wls)
  /\ \A w \in Workers : busy[w] = 0
  /\ finished' = finished \cup {cur}
  /\ cur' = "-"
  /\ UNCHANGED <<db, q, phase, todo, wms, busy, mapchan, agg, out>>
  /\ act' = [name |-> "FinishIface"]

MergeOne ==
  /\ \E item \in mapchan :
       /\ agg' = [agg EXCEPT ![item.iface] = MergeMaps(@, item.m)]
       /\ mapchan' = mapchan \ {item}
  /\ UNCHANGED <<db, q, phase, todo, wms, finished, cur, busy, out>>
  /\ act' = [name |-> "MergeOne"]

Finish ==
  /\ phase = "run" /\ cur = "-" /\ finished = DOMAIN wms /\ mapchan = {}
  /\ out' = MkResult(RowsOfAgg(agg, q), q)
  /\ phase' = "done"
  /\ UNCHANGED <<db, q, todo, wms, finished, cur, busy, mapchan, agg>>
  /\ act' = [name |-> "Finish"]

\* a query over interfaces none of which is in the database is refused before this point
\* ("no interfaces provided"); todo = {} initially cannot happen for the queries explored
CreateWM == \E i \in todo : CreateWorkManager(i)
Start    == \E i \in DOMAIN wms : StartIface(i)
TakeAny  == \E w \in Workers : Take(w)
ScanAny  == \E w \in Workers : Scan(w)
Next == CreateWM \/ Start \/ TakeAny \/ ScanAny \/ FinishIface \/ MergeOne \/ Finish

Spec == Init /\ [][Next]_pvars

(***************************************************************************)
(* Properties                                                              *)
(***************************************************************************)
\* C08: whatever the worker and merge order, the result is the direct aggregation
PipelineEqualsDefinition == phase = "done" => out = Result(db, q)
\* the order is irrelevant also for the as-built pruning (used to predict what a pruned result
\* looks like)
PipelineDeterministic == phase = "done" => out = PipelineResult(db, q, Bulk, Pruning)
\* the fold and the declarative form of the definition agree
DefinitionFormsAgree == act.name = "Init" => ResultDef(db, q) = Result(db, q)
\* totals and hits are those of the rows
TotalsOK == phase = "done" => out.totals = SumRows(out.rows) /\ out.hits = Cardinality(out.rows)
=============================================================================
