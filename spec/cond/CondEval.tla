------------------------------ MODULE CondEval ------------------------------
(***************************************************************************)
(* The condition mechanism structured like the code (node.go), property    *)
(* C09: ParseAndInstrument = Desugar ; Normalize (negation normal form) ;  *)
(* Instrument, followed by any number of Evaluate(key) calls in any order. *)
(* What the property demands of it: no stage changes the selection, and    *)
(* Evaluate returns Cond!Eval and leaves the key as it was.                *)
(*                                                                         *)
(*   MaskInPlace  FALSE = what the property demands.  TRUE = as-built      *)
(*                deviation candidate (DESIGN 8 item 7): a network atom    *)
(*                with a non byte-aligned prefix writes the masked byte    *)
(*                into the key.  Used only by a negative run that must     *)
(*                fail (vacuity guard for KeysUnchanged and ResultsRight). *)
(***************************************************************************)
EXTENDS Cond

CONSTANTS MaskInPlace,
          Trees,       \* the set of condition trees the mechanism is explored for
          EvalFlows    \* the flow ids the mechanism evaluates (subset of FlowIds)

VARIABLES t0,      \* the tree as parsed from the text
          t,       \* the tree after the stages applied so far
          stage,   \* "parsed" -> "desugared" -> "nnf" -> "ready"
          keys,    \* flow id -> the key (flow record) Evaluate is given; Evaluate must not change it
          res,     \* flow id -> answer of the latest Evaluate on that key
          act
vars == <<t0, t, stage, keys, res, act>>

(***************************************************************************)
(* The mechanism                                                           *)
(***************************************************************************)
\* the key with the host bits of the byte holding bit p cleared (what an in-place mask leaves behind)
MaskField(f, field, p) ==
  LET i == p \div 8 + 1
      m == Pow2(8 - (p % 8))
  IN [f EXCEPT ![field] = [f[field] EXCEPT ![i] = (f[field][i] \div m) * m]]

\* One Evaluate call as a left-to-right, short-circuit walk over the tree that threads the key
\* through (returns the answer and the key afterwards).  With MaskInPlace = FALSE the key is
\* never touched and the answer is Eval (invariant ResultsRight).
RunNot(r) == [v |-> ~r.v, f |-> r.f]
RECURSIVE Run(_, _), RunThen(_, _, _)
Run(x, f) ==
  CASE x.k = "atom" ->
         IF /\ MaskInPlace /\ x.attr \in {"snet", "dnet"} /\ x.n % 8 # 0 /\ f.fam = Fam(x.b)
         THEN LET fm == MaskField(f, IF x.attr = "snet" THEN "sip" ELSE "dip", x.n)
              IN [v |-> Eval(x, fm), f |-> fm]
         ELSE [v |-> Eval(x, f), f |-> f]
    [] x.k = "not" -> RunNot(Run(x.x, f))
    [] x.k = "and" -> RunThen(Run(x.l, f), x.r, FALSE)
    [] x.k = "or"  -> RunThen(Run(x.l, f), x.r, TRUE)
\* short circuit: the right operand is only evaluated (on the key the left one left behind) when the
\* left answer does not decide
RunThen(a, right, decides) == IF a.v = decides THEN a ELSE Run(right, a.f)

Keys0 == [i \in EvalFlows |-> FlowSeq[i]]
NoRes == [i \in {} |-> TRUE]

Init == /\ t0 \in Trees /\ t = t0 /\ stage = "parsed"
        /\ keys = Keys0 /\ res = NoRes
        /\ act = [name |-> "Parse"]

\* node.desugar
DesugarStep == /\ stage = "parsed"
               /\ t' = Desugar(t) /\ stage' = "desugared"
               /\ UNCHANGED <<t0, keys, res>>
               /\ act' = [name |-> "Desugar"]

\* node.negationNormalForm
Normalize == /\ stage = "desugared"
             /\ t' = NNF(t) /\ stage' = "nnf"
             /\ UNCHANGED <<t0, keys, res>>
             /\ act' = [name |-> "Normalize"]

\* node.instrument: attaches the comparison closures; the tree is what it was
Instrument == /\ stage = "nnf"
              /\ stage' = "ready"
              /\ UNCHANGED <<t0, t, keys, res>>
              /\ act' = [name |-> "Instrument"]

Evaluated(i, r) == /\ res' = [j \in DOMAIN res \cup {i} |-> IF j = i THEN r.v ELSE res[j]]
                   /\ keys' = [keys EXCEPT ![i] = r.f]
\* Node.Evaluate(key) - any key, any order, as often as the caller likes
Evaluate(i) == /\ stage = "ready"
               /\ Evaluated(i, Run(t, keys[i]))
               /\ UNCHANGED <<t0, t, stage>>
               /\ act' = [name |-> "Evaluate", i |-> i]

Next == DesugarStep \/ Normalize \/ Instrument \/ \E i \in EvalFlows : Evaluate(i)
Spec == Init /\ [][Next]_vars

Obs == [stage |-> stage, res |-> res, keys |-> keys]

(***************************************************************************)
(* What the property demands of the mechanism                              *)
(***************************************************************************)
TypeOK == /\ stage \in {"parsed", "desugared", "nnf", "ready"}
          /\ DOMAIN res \subseteq EvalFlows
          /\ DOMAIN keys = EvalFlows
          /\ \A a \in AtomsOf(t0) : LegalAtom(a)

\* no stage of ParseAndInstrument changes which flows are selected
\* (checked once per stage: the tree does not change while keys are evaluated)
SelectionPreserved == DOMAIN res = {} => SameSelection(t, t0)

ShapeOK == /\ (stage # "parsed" => ~HasSugar(t))
           /\ (stage \in {"nnf", "ready"} => ~HasNot(t))

\* evaluating a condition never changes the flow it looks at
KeysUnchanged == keys = Keys0

\* every answer is the Boolean value of the original condition on that flow - whatever was
\* evaluated before, in whatever order (evaluation-order independence is a consequence)
ResultsRight == \A i \in DOMAIN res : res[i] = Eval(t0, FlowSeq[i])
=============================================================================
