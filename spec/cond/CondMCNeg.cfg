SPECIFICATION Spec
CONSTANTS
  NeqForeignFamily = TRUE
  MaskInPlace = FALSE
  Thorough = FALSE
  Trees <- NegTrees
  EvalFlows <- MCEvalFlows
INVARIANTS ResultsRight
