SPECIFICATION SSpec
CONSTANTS
  NeqForeignFamily = TRUE
  SharedWhitespace = FALSE
  Texts <- MCTexts
INVARIANTS AcceptIffWellFormed CanonKeepsMeaning
PROPERTIES CanonFixed
CHECK_DEADLOCK FALSE
