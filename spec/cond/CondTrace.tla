----------------------------- MODULE CondTrace -----------------------------
(***************************************************************************)
(* Trace validation (code -> spec) for conditions.  The Go driver          *)
(* (harness/internal/cond, Drive) builds seeded random condition trees -   *)
(* every attribute, comparator, prefix length 0..32 / 0..128, addresses of *)
(* the universe and their one-bit neighbours - evaluates the real Node on  *)
(* random flows and logs per tree: the tree, the flows, the answers of two *)
(* passes in different orders, whether a key was modified or Evaluate      *)
(* panicked, and the same facts for every atom of the tree on its own.     *)
(* A condition is a pure function of the flow, so the trace is a behaviour *)
(* of Cond iff every logged answer is Eval(tree, flow), no key changed and *)
(* nothing panicked.  Every event is judged (a mismatch does not stop the  *)
(* run); mismatching events are printed with the specification's answers   *)
(* for the tree and for each atom so that the check can name the cause.    *)
(***************************************************************************)
EXTENDS CondEval, Json

TraceLog == ndJsonDeserialize("trace.ndjson")

VARIABLE l
TraceTrees == {Num("dport", "=", 0)}   \* Init needs some tree; replaced by the first event
TraceFlows == {}
tvars == <<vars, l>>

Ix(e) == 1..Len(e.flows)
Exp(e) == [j \in Ix(e) |-> Eval(e.tree, e.flows[j])]

EvOKx(e, x) ==
  /\ ~e.rej
  /\ \A j \in Ix(e) : /\ ~e.panic[j] /\ ~e.mut[j]
                      /\ e.got[j] = x[j] /\ e.got2[j] = x[j]
EvOK(e) == EvOKx(e, Exp(e))

Explain(e) ==
  [line  |-> l,
   legal |-> \A a \in 1..Len(e.atoms) : LegalAtom(e.atoms[a].a) /\ \A j \in Ix(e) : IsFlow(e.flows[j]),
   exp   |-> Exp(e),
   hinge |-> [j \in Ix(e) |-> EvalR(e.tree, e.flows[j], TRUE) # EvalR(e.tree, e.flows[j], FALSE)],
   aexp  |-> [a \in 1..Len(e.atoms) |-> [j \in Ix(e) |-> Eval(e.atoms[a].a, e.flows[j])]]]

TraceInit == Init /\ l = 1

\* the mechanism's variables follow the event: the tree is parsed and prepared, every flow evaluated
Event(e) ==
  /\ t0' = e.tree /\ t' = NNF(Desugar(e.tree)) /\ stage' = "ready"
  /\ keys' = e.flows
  /\ res' = Exp(e)
  /\ act' = [name |-> "Event", line |-> l]
  /\ l' = l + 1
  /\ IF EvOK(e) THEN TRUE ELSE PrintT(<<"MISMATCH", ToJson(Explain(e))>>)
TraceNext ==
  /\ l <= Len(TraceLog)
  /\ Event(TraceLog[l])

TraceSpec == TraceInit /\ [][TraceNext]_tvars

TraceAccepted ==
  \/ TLCGet("stats").diameter - 1 = Len(TraceLog)
  \/ PrintT(<<"INFO", ToJson([consumed |-> TLCGet("stats").diameter - 1, total |-> Len(TraceLog)])>>) /\ FALSE
=============================================================================
