------------------------------- MODULE CondMC -------------------------------
(***************************************************************************)
(* Bounded exhaustive exploration of the condition mechanism (C09, M).     *)
(* Trees (thorough): all trees of height <= 1 over FullAtoms plus all trees *)
(* of height <= 2 over Core4; (quick): height <= 1 over Core7, the sugared  *)
(* and the address atoms, plus every atom and its negation.  Keys: four     *)
(* flows (three in the quick tier).  The theorems of module Cond are evaluated over  *)
(* the whole domain as assumptions.                                         *)
(***************************************************************************)
EXTENDS CondDomain, CondEval
CONSTANT Thorough

MCTrees == IF Thorough
           THEN Grow(FullAtoms) \cup H2(Core4)
           ELSE Grow(Core7) \cup Grow(SugarAtoms) \cup Grow(AddrAtoms) \cup FullAtoms \cup {Not(a) : a \in FullAtoms}
NegTrees == Grow(Core6)     \* negative runs (CondMCNeg.cfg)
MCEvalFlows == IF Thorough THEN {1, 2, 4, 14} ELSE {1, 4, 14}

\* ---- theorems over the bounded domain
ASSUME AtomsLegal   == \A a \in FullAtoms \cup Core7 : LegalAtom(a)
ASSUME FamilyThm    == \A a \in FullAtoms : FamilyOK(a)
ASSUME NeqThm       == \A a \in FullAtoms : NeqOK(a)
ASSUME AlgebraThm   == \A x \in FullAtoms : \A y \in (IF Thorough THEN FullAtoms ELSE Core7) : SetAlgebraOK(x, y) /\ DeMorganOK(x, y)
ASSUME DesugarThm   == \A x \in Trees : DesugarOK(x)
ASSUME SelectionThm == \A x \in Trees : Selection(x) = [i \in FlowIds |-> Eval(x, FlowSeq[i])]
ASSUME NNFThm       == \A x \in Trees : NNFOK(x)
\* the threaded short-circuit walk is the Boolean semantics when keys are not written
ASSUME RunThm       == MaskInPlace \/ \A x \in Trees : \A i \in FlowIds :
                         Run(x, FlowSeq[i]) = [v |-> Eval(x, FlowSeq[i]), f |-> FlowSeq[i]]
\* the domain is not degenerate: each reading-dependent / family-dependent situation occurs
ASSUME NonVacuous   == /\ \E x \in Trees : Hinge(x) # {}
                       /\ \E x \in Trees : HasSugar(x) /\ HasNot(x)
                       /\ \A i \in FlowIds : \E a, b \in FullAtoms : Eval(a, FlowSeq[i]) /\ ~Eval(b, FlowSeq[i])
=============================================================================
