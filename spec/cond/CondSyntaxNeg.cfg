SPECIFICATION SSpec
CONSTANTS
  NeqForeignFamily = TRUE
  SharedWhitespace = TRUE
  Texts <- NegTexts
INVARIANTS AcceptIffWellFormed CanonKeepsMeaning
PROPERTIES CanonFixed
CHECK_DEADLOCK FALSE
