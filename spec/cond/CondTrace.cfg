SPECIFICATION TraceSpec
CONSTANTS
  NeqForeignFamily = TRUE
  MaskInPlace = FALSE
  Trees <- TraceTrees
  EvalFlows <- TraceFlows
POSTCONDITION TraceAccepted
CHECK_DEADLOCK FALSE
