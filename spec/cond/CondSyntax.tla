----------------------------- MODULE CondSyntax -----------------------------
(***************************************************************************)
(* Condition text (property C10): tokens, the documented grammar, the      *)
(* documented operator spellings, and the preparation of a condition       *)
(* (pkg/query/args.go prepConditionArg) as a small mechanism.              *)
(*                                                                         *)
(* Part 1  base tokens, the grammar of the help text / parse.go as a       *)
(*         recursive-descent recogniser WellFormed and Parse into syntax   *)
(*         trees whose meaning is Cond!Eval (ToCond).                      *)
(*         Three verdicts per token sequence:                              *)
(*           well-formed  - must be accepted                               *)
(*           ill-formed   - no reading of the documentation accepts it     *)
(*           unjudged     - the documentation is silent or the answer      *)
(*                          depends on the outside world: an address       *)
(*                          attribute compared with a host-name-like word  *)
(*                          (DNS), and a doubled negation "! ! x"          *)
(* Part 2  surface syntax: every spelling of every operator listed in the  *)
(*         help text, the three brace kinds, minimal and full bracing;     *)
(*         Surface(tree, style) is the token list a user would type,       *)
(*         Normalise maps it back to base tokens.  Word forms "require     *)
(*         enclosing whitespace" (flag ws); how much whitespace is put     *)
(*         between tokens is the harness' concretisation.                  *)
(* Part 3  the mechanism: Sanitize ; Check ; Store ; Reprepare.  Demanded: *)
(*         accepted iff well-formed, the stored canonical form means what  *)
(*         the text meant, and preparing it again changes nothing.         *)
(*         SharedWhitespace = TRUE is the as-built deviation candidate of  *)
(*         DESIGN 8 item 8 (a word operator directly after another word    *)
(*         operator is not recognised because both need the whitespace     *)
(*         between them) - only used by a negative run.                    *)
(***************************************************************************)
EXTENDS Cond

CONSTANTS SharedWhitespace,
          Texts        \* the surface token lists the mechanism is explored for

VARIABLES txt0,     \* the text as typed: sequence of [s |-> spelling, ws |-> needs whitespace]
          cur,      \* the token list the current round started from
          toks,     \* base tokens after Sanitize
          verdict,  \* "none" | "accepted" | "rejected"
          canon,    \* stored canonical token list (Statement.Condition split at blanks)
          round,    \* 1 = the user's text, 2 = the canonical form prepared again
          pc,
          sact
svars == <<txt0, cur, toks, verdict, canon, round, pc, sact>>

(***************************************************************************)
(* Part 1: base tokens and grammar                                         *)
(***************************************************************************)
Cmps == {"=", "!=", "<", "<=", ">", ">="}
Punct == {"(", ")", "!", "&", "|"} \cup Cmps
AttrWords == AddrAttrs \cup NetAttrs \cup PortAttrs \cup ProtoAttrs

Val(kind, b, n, sym) == [kind |-> kind, b |-> b, n |-> n, sym |-> sym]
ValTable ==
     "10.0.0.1"   :> Val("ip", V4B, 0, "")
  @@ "10.200.0.1" :> Val("ip", V4A, 0, "")
  @@ "2001::1"    :> Val("ip", V6P, 0, "")
  @@ "192.168.0.0/16" :> Val("net", <<192, 168, 0, 0>>, 16, "")
  @@ "ff02::/16"  :> Val("net", <<255, 2>> \o Z12 \o <<0, 0>>, 16, "")
  @@ "80"         :> Val("num", <<>>, 80, "")
  @@ "443"        :> Val("num", <<>>, 443, "")
  @@ "256"        :> Val("num", <<>>, 256, "")
  @@ "6"          :> Val("num", <<>>, 6, "")
  @@ "17"         :> Val("num", <<>>, 17, "")
  @@ "tcp"        :> Val("sym", <<>>, 6, "tcp")
  @@ "TCP"        :> Val("sym", <<>>, 6, "tcp")
  @@ "udp"        :> Val("sym", <<>>, 17, "udp")

\* what a token is when it stands where a value is expected
ValKind(tok) == IF tok \in DOMAIN ValTable THEN ValTable[tok].kind
                ELSE IF tok \in Punct THEN "punct" ELSE "word"

\* syntax trees: atoms keep the value token
SAt(attr, cmp, v) == [k |-> "atom", attr |-> attr, cmp |-> cmp, v |-> v]

\* "ok": the documentation gives the atom a meaning; "dns": an address attribute compared with
\* something that can only be a host name (outcome depends on name resolution); "bad": neither
AtomClassK(attr, cmp, v, kind) ==
  CASE attr \in AddrAttrs ->
         IF cmp \notin EqCmps THEN "bad"
         ELSE IF kind = "ip" THEN "ok"
         ELSE IF kind \in {"word", "num", "sym"} THEN "dns"
         ELSE "bad"
    [] attr \in NetAttrs   -> IF cmp \in EqCmps /\ kind = "net" THEN "ok" ELSE "bad"
    [] attr \in PortAttrs  -> IF kind = "num" THEN "ok" ELSE "bad"
    [] attr \in ProtoAttrs -> IF kind = "sym" \/ (kind = "num" /\ ValTable[v].n <= 255) THEN "ok" ELSE "bad"
    [] OTHER -> "bad"
AtomClass(attr, cmp, v) == AtomClassK(attr, cmp, v, ValKind(v))

(* grammar (help text "Condition" + parse.go):
     disjunction -> conjunction ('|' conjunction)*
     conjunction -> negation ('&' negation)*
     negation    -> '!' primitive | primitive            (loose: '!' negation)
     primitive   -> '(' disjunction ')' | condition
     condition   -> attribute comparator value
   Results are [ok, t, p]: success, tree, position of the next unread token.
   loose = TRUE additionally admits the two unjudged constructions. *)
PFail == [ok |-> FALSE, t |-> <<>>, p |-> 0]
POk(t, p) == [ok |-> TRUE, t |-> t, p |-> p]

\* (operators with parameters instead of LET definitions throughout: TLC evaluates an operator
\* argument once, a LET definition at every use - a LET-based parser is exponential)
PAtomC(s, p, loose, c) ==
  IF c = "ok" \/ (loose /\ c = "dns") THEN POk(SAt(s[p], s[p + 1], s[p + 2]), p + 3) ELSE PFail
PAtom(s, p, loose) ==
  IF p + 2 <= Len(s) /\ s[p] \in AttrWords /\ s[p + 1] \in Cmps
  THEN PAtomC(s, p, loose, AtomClass(s[p], s[p + 1], s[p + 2]))
  ELSE PFail

PClose(s, d)   == IF d.ok /\ d.p <= Len(s) /\ s[d.p] = ")" THEN POk(d.t, d.p + 1) ELSE PFail
PNegate(r)     == IF r.ok THEN POk([k |-> "not", x |-> r.t], r.p) ELSE PFail
PJoin(k, a, b) == IF b.ok THEN POk([k |-> k, l |-> a.t, r |-> b.t], b.p) ELSE PFail

RECURSIVE PDisj(_, _, _), PConj(_, _, _), PNeg(_, _, _), PPrim(_, _, _), PConjRest(_, _, _), PDisjRest(_, _, _)
PPrim(s, p, loose) ==
  IF p <= Len(s) /\ s[p] = "(" THEN PClose(s, PDisj(s, p + 1, loose)) ELSE PAtom(s, p, loose)
PNeg(s, p, loose) ==
  IF p <= Len(s) /\ s[p] = "!"
  THEN PNegate(IF loose THEN PNeg(s, p + 1, loose) ELSE PPrim(s, p + 1, loose))
  ELSE PPrim(s, p, loose)
PConjRest(s, a, loose) ==
  IF ~a.ok THEN PFail
  ELSE IF a.p <= Len(s) /\ s[a.p] = "&" THEN PJoin("and", a, PConj(s, a.p + 1, loose)) ELSE a
PConj(s, p, loose) == PConjRest(s, PNeg(s, p, loose), loose)
PDisjRest(s, a, loose) ==
  IF ~a.ok THEN PFail
  ELSE IF a.p <= Len(s) /\ s[a.p] = "|" THEN PJoin("or", a, PDisj(s, a.p + 1, loose)) ELSE a
PDisj(s, p, loose) == PDisjRest(s, PConj(s, p, loose), loose)

PWhole(s, r) == IF Len(s) > 0 /\ r.ok /\ r.p = Len(s) + 1 THEN r ELSE PFail
ParseR(s, loose) == PWhole(s, PDisj(s, 1, loose))
WellFormed(s) == ParseR(s, FALSE).ok
Unjudged(s)   == ~ParseR(s, FALSE).ok /\ ParseR(s, TRUE).ok
Parse(s)      == ParseR(s, FALSE).t
\* 1 well-formed, 0 ill-formed, 2 unjudged
Class(s) == IF WellFormed(s) THEN 1 ELSE IF Unjudged(s) THEN 2 ELSE 0

\* the meaning of a syntax tree is the meaning of the condition it denotes
RECURSIVE ToCond(_)
ToCond(st) ==
  CASE st.k = "atom" -> At(st.attr, st.cmp, ValTable[st.v].b, ValTable[st.v].n, ValTable[st.v].sym)
    [] st.k = "not"  -> Not(ToCond(st.x))
    [] st.k = "and"  -> And(ToCond(st.l), ToCond(st.r))
    [] st.k = "or"   -> Or(ToCond(st.l), ToCond(st.r))
Meaning(s) == Selection(ToCond(Parse(s)))

(***************************************************************************)
(* Part 2: surface syntax - the spellings listed in the help text          *)
(***************************************************************************)
Sp(s, ws) == [s |-> s, ws |-> ws]      \* ws: "must be enclosed by whitespace"
Spellings ==
     "!"  :> <<Sp("!", FALSE), Sp("not", TRUE)>>
  @@ "&"  :> <<Sp("&", FALSE), Sp("and", TRUE), Sp("&&", FALSE), Sp("*", FALSE)>>
  @@ "|"  :> <<Sp("|", FALSE), Sp("or", TRUE), Sp("||", FALSE), Sp("+", FALSE)>>
  @@ "="  :> <<Sp("=", FALSE), Sp("eq", TRUE), Sp("-eq", TRUE), Sp("equals", TRUE), Sp("==", FALSE), Sp("===", FALSE)>>
  @@ "!=" :> <<Sp("!=", FALSE), Sp("neq", TRUE), Sp("-neq", TRUE), Sp("ne", TRUE), Sp("-ne", TRUE)>>
  @@ "<=" :> <<Sp("<=", FALSE), Sp("le", TRUE), Sp("-le", TRUE), Sp("leq", TRUE), Sp("-leq", TRUE)>>
  @@ ">=" :> <<Sp(">=", FALSE), Sp("ge", TRUE), Sp("-ge", TRUE), Sp("geq", TRUE), Sp("-geq", TRUE)>>
  @@ "<"  :> <<Sp("<", FALSE), Sp("less", TRUE), Sp("l", TRUE), Sp("-l", TRUE), Sp("lt", TRUE), Sp("-lt", TRUE)>>
  @@ ">"  :> <<Sp(">", FALSE), Sp("greater", TRUE), Sp("g", TRUE), Sp("-g", TRUE), Sp("gt", TRUE), Sp("-gt", TRUE)>>
  @@ "("  :> <<Sp("(", FALSE), Sp("[", FALSE), Sp("{", FALSE)>>
  @@ ")"  :> <<Sp(")", FALSE), Sp("]", FALSE), Sp("}", FALSE)>>

NSpell(b) == Len(Spellings[b])
\* spelling i of base token b (indices beyond the list wrap around)
Spell(b, i) == Spellings[b][((i - 1) % NSpell(b)) + 1]
Plain(s) == Sp(s, FALSE)

\* a style chooses one spelling per operator kind, a brace kind and how much is braced
Style(and, or, not, cmp, brace, full) == [and |-> and, or |-> or, not |-> not, cmp |-> cmp, brace |-> brace, full |-> full]
BaseStyle == Style(1, 1, 1, 1, 1, TRUE)

Braced(x, st) == <<Spell("(", st.brace)>> \o x \o <<Spell(")", st.brace)>>

\* ctx: what the subtree is an operand of ("top", "or", "and", "not").  Minimal bracing relies on
\* the documented precedence NOT > AND > OR; full bracing braces every operand that is not an atom
\* and every operand of a negation.
BraceIf(cond, x, st) == IF cond THEN Braced(x, st) ELSE x
RECURSIVE Surf(_, _, _)
Surf(t, st, ctx) ==
  CASE t.k = "atom" ->
         BraceIf(st.full /\ ctx = "not", <<Plain(t.attr), Spell(t.cmp, st.cmp), Plain(t.v)>>, st)
    [] t.k = "not"  ->
         BraceIf(ctx = "not" \/ (st.full /\ ctx # "top"), <<Spell("!", st.not)>> \o Surf(t.x, st, "not"), st)
    [] t.k = "and"  ->
         BraceIf(ctx = "not" \/ (st.full /\ ctx # "top"),
                 Surf(t.l, st, "and") \o <<Spell("&", st.and)>> \o Surf(t.r, st, "and"), st)
    [] t.k = "or"   ->
         BraceIf(ctx \in {"not", "and"} \/ (st.full /\ ctx # "top"),
                 Surf(t.l, st, "or") \o <<Spell("|", st.or)>> \o Surf(t.r, st, "or"), st)
Surface(t, st) == Surf(t, st, "top")

\* the base token a spelling stands for
BaseOf(s) == IF \E b \in DOMAIN Spellings : \E i \in 1..NSpell(b) : Spellings[b][i].s = s
             THEN CHOOSE b \in DOMAIN Spellings : \E i \in 1..NSpell(b) : Spellings[b][i].s = s
             ELSE s
\* as-built candidate: a word operator directly after another word operator stays a plain word
Normalise(x) ==
  [i \in 1..Len(x) |->
     IF SharedWhitespace /\ x[i].ws /\ i > 1 /\ x[i - 1].ws THEN x[i].s ELSE BaseOf(x[i].s)]
AsText(s) == [i \in 1..Len(s) |-> Plain(s[i])]

\* every spelling names exactly one base token
SpellingsUnambiguous ==
  \A b1, b2 \in DOMAIN Spellings : \A i \in 1..NSpell(b1) : \A j \in 1..NSpell(b2) :
     Spellings[b1][i].s = Spellings[b2][j].s => b1 = b2
\* typing a tree in any style and reading it back gives a condition with the same meaning
ReadsAs(s, t) == WellFormed(s) /\ Meaning(s) = Selection(ToCond(t))
RoundTripOK(t, st) == ReadsAs(Normalise(Surface(t, st)), t)

(***************************************************************************)
(* Part 3: the mechanism of prepConditionArg                               *)
(***************************************************************************)
SInit == /\ txt0 \in Texts /\ cur = txt0 /\ toks = <<>> /\ verdict = "none"
         /\ canon = <<>> /\ round = 1 /\ pc = "sanitize"
         /\ sact = [name |-> "Text"]

\* conditions.SanitizeUserInput: spellings -> base grammar
Sanitize == /\ pc = "sanitize"
            /\ toks' = Normalise(cur) /\ pc' = "check"
            /\ UNCHANGED <<txt0, cur, verdict, canon, round>>
            /\ sact' = [name |-> "Sanitize"]

\* node.ParseAndInstrument: syntax and value check (unjudged texts may go either way)
Check == /\ pc = "check"
         /\ \/ WellFormed(toks) /\ verdict' = "accepted"
            \/ ~WellFormed(toks) /\ ~Unjudged(toks) /\ verdict' = "rejected"
            \/ Unjudged(toks) /\ verdict' \in {"accepted", "rejected"}
         /\ pc' = "store"
         /\ UNCHANGED <<txt0, cur, toks, canon, round>>
         /\ sact' = [name |-> "Check"]

\* Tokenize + strings.Join(tokens, " "): the canonical form is the base token list
Store == /\ pc = "store"
         /\ canon' = toks
         /\ pc' = IF verdict = "accepted" /\ round = 1 THEN "again" ELSE "done"
         /\ UNCHANGED <<txt0, cur, toks, verdict, round>>
         /\ sact' = [name |-> "Store"]

\* the stored condition is what the query engine (and any later Prepare) parses
Reprepare == /\ pc = "again"
             /\ cur' = AsText(canon) /\ round' = 2 /\ pc' = "sanitize"
             /\ toks' = <<>> /\ verdict' = "none"
             /\ UNCHANGED <<txt0, canon>>
             /\ sact' = [name |-> "Reprepare"]

SNext == Sanitize \/ Check \/ Store \/ Reprepare
SSpec == SInit /\ [][SNext]_svars

SObs == [verdict |-> verdict, canon |-> canon, round |-> round]

\* ---- what the property demands
First == Normalise(txt0)     \* reading of the user's text (with SharedWhitespace = FALSE: the documented one)
Documented(x) == [i \in 1..Len(x) |-> BaseOf(x[i].s)]

AcceptIffWellFormed ==
  (pc = "store" /\ round = 1) =>
     /\ (WellFormed(Documented(txt0)) => verdict = "accepted")
     /\ (Class(Documented(txt0)) = 0 => verdict = "rejected")
\* the canonical form, prepared again, is accepted, means what the text meant, and does not change
CanonKeepsMeaning ==
  (pc = "done" /\ round = 2 /\ WellFormed(Documented(txt0))) =>
     /\ verdict = "accepted"
     /\ Meaning(canon) = Meaning(Documented(txt0))
CanonFixed == [][round = 2 /\ pc = "store" => canon' = canon]_svars
=============================================================================
