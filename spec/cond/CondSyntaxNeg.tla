---------------------------- MODULE CondSyntaxNeg ----------------------------
(***************************************************************************)
(* Negative run of the preparation mechanism: with the as-built            *)
(* SharedWhitespace sanitiser a documented text ("x and not y") is         *)
(* rejected, so AcceptIffWellFormed must be violated.                      *)
(***************************************************************************)
EXTENDS CondSyntax
X == SAt("dport", "=", "80")
Y == SAt("sip", "!=", "10.0.0.1")
SNot(x) == [k |-> "not", x |-> x]
SAnd(l, r) == [k |-> "and", l |-> l, r |-> r]
SOr(l, r) == [k |-> "or", l |-> l, r |-> r]
NegTexts == {Surface(t, st) : t \in {SAnd(X, SNot(Y)), SOr(SNot(X), Y), SAnd(X, Y)},
                              st \in {Style(2, 2, 2, 1, 1, FALSE), BaseStyle}}
=============================================================================
