SPECIFICATION GenSpec
CONSTANTS
  NeqForeignFamily = TRUE
  GenSet = "tiny"
CHECK_DEADLOCK FALSE
