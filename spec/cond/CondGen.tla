------------------------------ MODULE CondGen ------------------------------
(***************************************************************************)
(* Case generator for forward replay (spec -> code) of C09.  A condition   *)
(* is a pure function of the flow, so a "behaviour" is one condition tree  *)
(* together with the vector of answers the specification predicts for      *)
(* every flow of the universe: one TRACE line per tree                     *)
(*    [tree, exp (flow id -> BOOLEAN), hinge (flow ids on which the two    *)
(*     readings of != disagree), nnf/desugared shape facts]                *)
(* GenTrees selects the enumerated set:                                    *)
(*    "quick"    all trees of height <= 1 over FullAtoms and all trees of  *)
(*               height <= 2 over six core atoms                           *)
(*    "thorough" the same with seven core atoms                            *)
(*    "names"    all trees of height <= 1 over atoms whose value is a host *)
(*               name with one / two IPv4 / an IPv4 and an IPv6 address,   *)
(*               and four core atoms (run with the resolver table Names)   *)
(***************************************************************************)
EXTENDS CondDomain, Json
CONSTANT GenSet
VARIABLES c, done

GenTrees == CASE GenSet = "quick"    -> Grow(FullAtoms) \cup H2(Core6)
              [] GenSet = "thorough" -> Grow(FullAtoms) \cup H2(Core7)
              [] GenSet = "h1"       -> Grow(FullAtoms)
              [] GenSet = "tiny"     -> Grow(Core4)
              [] GenSet = "names"    -> Grow(NameAtoms \cup Core4)

CaseH(x, hs) == [tree |-> x,
                 exp |-> Selection(x),
                 hinge |-> [i \in FlowIds |-> i \in hs],
                 h |-> Height(x)]
Case(x) == CaseH(x, Hinge(x))

GenInit == c \in GenTrees /\ done = FALSE
GenNext == /\ ~done
           /\ PrintT(<<"TRACE", ToJson(Case(c))>>)
           /\ done' = TRUE
           /\ UNCHANGED c
GenSpec == GenInit /\ [][GenNext]_<<c, done>>

\* the flow universe itself, printed once so that the harness builds its keys from the
\* specification's flows (no second copy of the universe in Go)
ASSUME PrintT(<<"INFO", ToJson([flows |-> FlowSeq, names |-> [n \in DOMAIN Names |-> Names[n]]])>>)
=============================================================================
