------------------------------- MODULE Flows -------------------------------
(***************************************************************************)
(* Shared vocabulary of the query family (DESIGN 6.3): flow records and a  *)
(* small, adversarial address universe.                                    *)
(*                                                                         *)
(* Addresses are byte tuples (4 or 16 entries, 0..255) so that prefix and  *)
(* mask arithmetic is done with \div and % on single bytes (TLC integers   *)
(* are 32 bit).  The harness maps the tuples to real key bytes 1:1 - there *)
(* is no abstraction gap for addresses.                                    *)
(*                                                                         *)
(* Conditions only look at the 5-tuple part of a flow (family, sip, dip,   *)
(* dport, proto); interface, timestamp and counters are not part of the    *)
(* record used here.                                                       *)
(***************************************************************************)
EXTENDS Integers, Sequences, FiniteSets

Z12 == <<0, 0, 0, 0, 0, 0, 0, 0, 0, 0, 0, 0>>

\* ---- IPv4 addresses
V4A == <<10, 200, 0, 1>>          \* 10.200.0.1   inside 10.128.0.0/9, outside 10.0.0.0/9
V4B == <<10, 0, 0, 1>>            \* 10.0.0.1     inside 10.0.0.0/9
V4C == <<32, 1, 0, 0>>            \* 32.1.0.0     first bytes = those of 2001::
V4Z == <<0, 0, 0, 0>>             \* 0.0.0.0
V4F == <<255, 255, 255, 255>>     \* 255.255.255.255

\* ---- IPv6 addresses
V6P == <<32, 1>> \o Z12 \o <<0, 1>>     \* 2001::1   first bytes 0x20 0x01 = 32.1...
V6Q == <<10, 0>> \o Z12 \o <<0, 1>>     \* a00::1    first bytes = 10.0...
V6L == <<0, 0>> \o Z12 \o <<0, 1>>      \* ::1
V6M == <<255, 2>> \o Z12 \o <<0, 1>>    \* ff02::1
V6X == <<0, 0, 0, 0, 0, 0, 0, 0, 0, 0, 255, 255, 10, 0, 0, 1>>   \* ::ffff:10.0.0.1, the IPv4-mapped form of V4B: an IPv6 address

Addrs4 == {V4A, V4B, V4C, V4Z, V4F}
Addrs6 == {V6P, V6Q, V6L, V6M, V6X}

IsByte(x) == x \in 0..255
IsAddr(a) == Len(a) \in {4, 16} /\ \A i \in 1..Len(a) : IsByte(a[i])
Fam(a) == IF Len(a) = 4 THEN 4 ELSE 6
MaxPrefix(a) == IF Len(a) = 4 THEN 32 ELSE 128

Pow2(n) == 2 ^ n

(***************************************************************************)
(* PrefixEq(a, b, p): the first p bits of the addresses a and b agree.     *)
(* Only meaningful for addresses of one family and 0 <= p <= 8 * Len.      *)
(***************************************************************************)
PrefixEq(a, b, p) ==
  LET full == p \div 8
      rem  == p % 8
  IN /\ \A i \in 1..full : a[i] = b[i]
     /\ (rem # 0 => a[full + 1] \div Pow2(8 - rem) = b[full + 1] \div Pow2(8 - rem))

\* the network address of a/p (host bits cleared)
NetOf(a, p) ==
  [i \in 1..Len(a) |->
     IF i <= p \div 8 THEN a[i]
     ELSE IF i = p \div 8 + 1 /\ p % 8 # 0
          THEN (a[i] \div Pow2(8 - (p % 8))) * Pow2(8 - (p % 8))
          ELSE 0]

(***************************************************************************)
(* Flow records.                                                           *)
(***************************************************************************)
Flow(id, s, d, dport, proto) ==
  [id |-> id, fam |-> Fam(s), sip |-> s, dip |-> d, dport |-> dport, proto |-> proto]

IsFlow(f) == /\ IsAddr(f.sip) /\ IsAddr(f.dip) /\ Len(f.sip) = Len(f.dip)
             /\ f.fam = Fam(f.sip)
             /\ f.dport \in 0..65535 /\ f.proto \in 0..255

\* The flow universe: 12 IPv4 and 12 IPv6 flows.  Ports include 0, 255/256 neighbours
\* (byte order), 65535; protocols include 0, 1, 6, 17, 58, 255.
FlowSeq == <<
  Flow(1,  V4A, V4B, 80,    6),
  Flow(2,  V4B, V4A, 443,   6),
  Flow(3,  V4A, V4A, 80,    17),
  Flow(4,  V4C, V4Z, 53,    17),
  Flow(5,  V4Z, V4F, 0,     1),
  Flow(6,  V4F, V4C, 65535, 6),
  Flow(7,  V4B, V4C, 8080,  6),
  Flow(8,  V4C, V4B, 22,    6),
  Flow(9,  V4A, V4C, 256,   17),
  Flow(10, V4B, V4B, 255,   6),
  Flow(11, V4F, V4F, 443,   255),
  Flow(12, V4Z, V4Z, 0,     0),
  Flow(13, V6P, V6Q, 80,    6),
  Flow(14, V6Q, V6P, 443,   6),
  Flow(15, V6P, V6P, 80,    17),
  Flow(16, V6L, V6M, 53,    17),
  Flow(17, V6M, V6L, 0,     58),
  Flow(18, V6Q, V6L, 65535, 6),
  Flow(19, V6L, V6Q, 8080,  6),
  Flow(20, V6M, V6M, 22,    6),
  Flow(21, V6P, V6L, 256,   17),
  Flow(22, V6Q, V6Q, 255,   6),
  Flow(23, V6X, V6L, 443,   255),
  Flow(24, V6M, V6P, 0,     0) >>

NFlows == Len(FlowSeq)
FlowIds == 1..NFlows
=============================================================================
