SPECIFICATION GenSpec
CONSTANTS
  NeqForeignFamily = TRUE
  SharedWhitespace = FALSE
  Texts = {}
  MaxLen = 3
  GenThorough = FALSE
CHECK_DEADLOCK FALSE
