SPECIFICATION Spec
CONSTANTS
  NeqForeignFamily = TRUE
  MaskInPlace = FALSE
  Thorough = FALSE
  Trees <- MCTrees
  EvalFlows <- MCEvalFlows
INVARIANTS TypeOK SelectionPreserved ShapeOK KeysUnchanged ResultsRight
