---------------------------- MODULE CondSyntaxMC ----------------------------
(***************************************************************************)
(* Bounded exhaustive exploration of the preparation mechanism (C10, M).   *)
(* Texts: every tree of height <= 2 over two atoms (quick: height <= 1 and *)
(* nine trees of height 2) typed in a spread of                            *)
(* styles (all operator spellings, brace kinds, minimal / full bracing),   *)
(* every comparator spelling, and every base token sequence of length <= 3 *)
(* over a small alphabet (well- and ill-formed and unjudged ones).         *)
(***************************************************************************)
EXTENDS CondSyntax
CONSTANT Thorough

X == SAt("dport", "=", "80")
Y == SAt("sip", "!=", "10.0.0.1")
SNot(x) == [k |-> "not", x |-> x]
SAnd(l, r) == [k |-> "and", l |-> l, r |-> r]
SOr(l, r) == [k |-> "or", l |-> l, r |-> r]
SGrow(S) == S \cup {SNot(x) : x \in S} \cup {SAnd(x, y) : x, y \in S} \cup {SOr(x, y) : x, y \in S}

MCStyles == {Style(a, a, n, 1, b, f) : a \in 1..4, n \in 1..2, b \in 1..3, f \in BOOLEAN}
            \cup {Style(2, 1, 2, 2, 1, FALSE), Style(1, 2, 2, 1, 2, TRUE)}
CmpTexts == {Surface(t, Style(2, 2, n, i, 1, f)) :
               t \in UNION {{SAt("dport", c, "80"), SNot(SAt("dport", c, "80")), SAnd(SAt("dport", c, "80"), Y)} : c \in Cmps},
               n \in 1..2, i \in 1..6, f \in BOOLEAN}
MCAlpha == <<"(", ")", "!", "&", "=", "<", "sip", "dport", "10.0.0.1", "80">>
Seqs(n) == UNION {[1..k -> 1..Len(MCAlpha)] : k \in 1..n}
SeqTexts == {[i \in 1..Len(q) |-> Plain(MCAlpha[q[i]])] : q \in Seqs(3)}

MCTrees == IF Thorough THEN SGrow(SGrow({X, Y}))
           ELSE SGrow({X, Y}) \cup {SAnd(X, SNot(Y)), SOr(X, SNot(Y)), SNot(SAnd(X, Y)), SNot(SOr(X, Y)), SAnd(SOr(X, Y), X),
                                   SOr(SAnd(X, Y), Y), SAnd(SNot(X), SNot(Y)), SNot(SNot(X)), SOr(SNot(X), SAnd(Y, X))}
MCTexts == {Surface(t, st) : t \in MCTrees, st \in MCStyles} \cup CmpTexts \cup SeqTexts

ASSUME SpellThm    == SpellingsUnambiguous
ASSUME RoundTrip   == SharedWhitespace \/ \A t \in MCTrees : \A st \in MCStyles : RoundTripOK(t, st)
ASSUME NonVacuousS == /\ \E x \in SeqTexts : Class(Documented(x)) = 1
                      /\ \E x \in SeqTexts : Class(Documented(x)) = 0
                      /\ \E x \in SeqTexts : Class(Documented(x)) = 2
                      /\ \E x \in MCTexts : \E i \in 2..Len(x) : x[i].ws /\ x[i - 1].ws
=============================================================================
