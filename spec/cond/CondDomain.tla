----------------------------- MODULE CondDomain -----------------------------
(***************************************************************************)
(* The bounded domain of C09: atom sets and the tree sets built from them. *)
(*                                                                         *)
(* FullAtoms: every attribute (base and sugared) x every legal comparator  *)
(* x 2-3 values, chosen so that                                            *)
(*   - several atoms inspect the same field (sip / snet / host / src ...), *)
(*   - networks cover prefix length classes 0, byte aligned, non aligned   *)
(*     (/9 /25 /31), full length, with and without host bits in the text,  *)
(*     IPv6 /0 /16 /63 /64 /65 /127 /128,                                  *)
(*   - values of one family meet flows of the other whose leading bytes    *)
(*     coincide (10.0.0.0/8 vs a00::1, 2001::/16 vs 32.1.0.0).             *)
(* CoreAtoms: the six (seven) most adversarial ones, for the exhaustive    *)
(* enumeration of all trees of height <= 2.                                *)
(***************************************************************************)
EXTENDS Cond

N4(a, b, c, d) == <<a, b, c, d>>
N6(a, b) == <<a, b>> \o Z12 \o <<0, 0>>     \* a:b:: with a, b the first two bytes

AddrAtoms == {
  Ip("sip", "=", V4A), Ip("sip", "!=", V4A), Ip("sip", "=", V6P), Ip("sip", "!=", V6P),
  Ip("dip", "=", V4B), Ip("dip", "!=", V4B), Ip("dip", "=", V6Q), Ip("dip", "!=", V6Q),
  \* the IPv4-mapped IPv6 address ::ffff:10.0.0.1 (written with a dotted quad): an IPv6 address, not 10.0.0.1
  Ip("sip", "=", V6X), Ip("sip", "!=", V6X) }

SnetAtoms == {
  Net("snet", "=", N4(10, 0, 0, 0), 8),    Net("snet", "!=", N4(10, 0, 0, 0), 8),
  Net("snet", "=", N4(10, 128, 0, 0), 9),  Net("snet", "!=", N4(10, 128, 0, 0), 9),
  Net("snet", "=", N4(10, 0, 0, 0), 9),
  Net("snet", "=", V4Z, 0),
  Net("snet", "=", V4A, 32),
  Net("snet", "=", N4(10, 200, 0, 0), 31),
  Net("snet", "=", N4(10, 200, 0, 0), 25),
  Net("snet", "=", N4(32, 1, 0, 0), 16),
  Net("snet", "=", V4A, 9),                \* 10.200.0.1/9: host bits present in the text
  Net("snet", "=", N6(32, 1), 16),         Net("snet", "!=", N6(32, 1), 16),
  Net("snet", "=", N6(32, 1), 63),
  Net("snet", "=", N6(32, 1), 64),
  Net("snet", "=", N6(32, 1), 65),
  Net("snet", "=", V6P, 128),
  Net("snet", "=", N6(0, 0), 127),
  Net("snet", "=", N6(0, 0), 0),
  Net("snet", "=", V6X, 128), Net("snet", "=", V6X, 100), Net("snet", "!=", V6X, 96) }

DnetAtoms == {
  Net("dnet", "=", N4(10, 0, 0, 0), 8),
  Net("dnet", "!=", N4(10, 0, 0, 0), 9),
  Net("dnet", "=", N4(10, 200, 0, 0), 25),
  Net("dnet", "!=", N4(10, 200, 0, 0), 31),
  Net("dnet", "=", V4Z, 0),
  Net("dnet", "=", N6(10, 0), 16),
  Net("dnet", "=", N6(10, 0), 9),          Net("dnet", "!=", N6(10, 0), 9),
  Net("dnet", "=", N6(32, 1), 64),
  Net("dnet", "=", V6M, 128) }

NumAtoms == {
  Num("dport", "=", 80), Num("dport", "!=", 80), Num("dport", "<", 256), Num("dport", "<=", 80),
  Num("dport", ">", 80), Num("dport", ">=", 443),
  Num("proto", "=", 6), Num("proto", "!=", 6), Num("proto", "<", 17), Num("proto", "<=", 6),
  Num("proto", ">", 6), Num("proto", ">=", 17),
  Sym("proto", "=", "tcp"), Sym("proto", "!=", "udp") }

SugarAtoms == {
  Ip("host", "=", V4A), Ip("host", "!=", V4A), Ip("host", "=", V6P), Ip("host", "!=", V6Q),
  Net("net", "=", N4(10, 0, 0, 0), 9), Net("net", "!=", N4(10, 0, 0, 0), 9),
  Net("net", "=", N6(32, 1), 16), Net("net", "!=", N4(10, 0, 0, 0), 8),
  Ip("src", "=", V4A), Ip("dst", "!=", V4B), Ip("src", "!=", V6P),
  Num("port", "=", 80), Num("port", ">", 255),
  Num("protocol", "=", 6), Num("ipproto", "!=", 17), Sym("protocol", "=", "udp") }

\* host names as values (not part of FullAtoms: they need the resolver table of the check)
Nm(attr, cmp, name) == At(attr, cmp, <<>>, 0, name)
NameAtoms == { Nm("sip", "=", "two4.test"), Nm("sip", "!=", "two4.test"), Nm("dip", "=", "mixed.test"),
               Nm("dip", "!=", "mixed.test"), Nm("sip", "!=", "one.test") }

FullAtoms == AddrAtoms \cup SnetAtoms \cup DnetAtoms \cup NumAtoms \cup SugarAtoms

Core6 == {
  Net("snet", "=", N4(10, 0, 0, 0), 9),
  Ip("sip", "=", V4A),
  Net("snet", "!=", N4(10, 128, 0, 0), 9),
  Ip("host", "!=", V6Q),
  Num("dport", "<", 256),
  Net("dnet", "=", N6(10, 0), 9) }
Core7 == Core6 \cup { Net("net", "!=", N4(10, 0, 0, 0), 8) }
Core4 == { Net("snet", "=", N4(10, 0, 0, 0), 9), Ip("sip", "=", V4A), Ip("host", "!=", V6Q), Num("port", ">", 255) }

\* one more level of operators on top of the trees in S
Grow(S) == S \cup {Not(x) : x \in S} \cup {And(x, y) : x, y \in S} \cup {Or(x, y) : x, y \in S}

\* all trees of height <= 2 over S.  (An operator with a parameter on purpose: TLC evaluates every
\* constant definition without parameters eagerly at start-up, needed or not.)
H2(S) == Grow(Grow(S))
=============================================================================
