--------------------------- MODULE CondSyntaxGen ---------------------------
(***************************************************************************)
(* Case generator for forward replay of C10.                               *)
(*                                                                         *)
(* (a) "seq" items: every token sequence of length <= MaxLen over the      *)
(*     14-token alphabet Alpha is classified by the specification          *)
(*     (1 well-formed, 0 ill-formed, 2 unjudged).  One TRACE line per      *)
(*     prefix of length 1 or 2 carries the class codes of all its          *)
(*     completions in a fixed order (by length, then lexicographically by  *)
(*     alphabet index, first token most significant) - the harness         *)
(*     enumerates the same domain in the same order - plus, for the        *)
(*     well-formed ones, the predicted selection over the flow universe.   *)
(* (b) "tree" items: every syntax tree of height <= 2 over two atoms, and  *)
(*     per comparator a few trees, typed in every style of GenStyles: the  *)
(*     set of surface token lists (duplicates collapse) with the tree's    *)
(*     selection.  How much whitespace separates the tokens is chosen by   *)
(*     the harness; INFO lists the spellings that need enclosing blanks.   *)
(***************************************************************************)
EXTENDS CondSyntax, Json
CONSTANTS MaxLen, GenThorough
VARIABLES item, done

Alpha == <<"(", ")", "!", "&", "|", "=", "!=", "<", "sip", "dport", "host", "10.0.0.1", "2001::1", "80">>
NA == Len(Alpha)
Toks(q) == [i \in 1..Len(q) |-> Alpha[q[i]]]

\* all index sequences of length L in lexicographic order (first position most significant)
CompNext(prev) == [q \in 1..(NA * Len(prev)) |-> <<((q - 1) \div Len(prev)) + 1>> \o prev[((q - 1) % Len(prev)) + 1]]
RECURSIVE Comp(_), AllComp(_)
Comp(L) == IF L = 0 THEN << <<>> >> ELSE CompNext(Comp(L - 1))
AllComp(K) == IF K = 0 THEN Comp(0) ELSE AllComp(K - 1) \o Comp(K)

WfCase(s) == [toks |-> s, exp |-> Meaning(s)]
SeqLineQ(pre, comps, codes) ==
  [kind  |-> "seq", pre |-> pre, codes |-> codes,
   wf    |-> {WfCase(Toks(pre \o comps[q])) : q \in {q \in 1..Len(comps) : codes[q] = 1}}]
SeqLineC(pre, comps) == SeqLineQ(pre, comps, [q \in 1..Len(comps) |-> Class(Toks(pre \o comps[q]))])
SeqLine(pre) == SeqLineC(pre, IF Len(pre) = 1 THEN Comp(0) ELSE AllComp(MaxLen - 2))

X == SAt("dport", "=", "80")
Y == SAt("sip", "!=", "10.0.0.1")
SNot(x) == [k |-> "not", x |-> x]
SAnd(l, r) == [k |-> "and", l |-> l, r |-> r]
SOr(l, r) == [k |-> "or", l |-> l, r |-> r]
SGrow(S) == S \cup {SNot(x) : x \in S} \cup {SAnd(x, y) : x, y \in S} \cup {SOr(x, y) : x, y \in S}

\* quick: and/or spelled alike or one of them as a word; thorough: every combination
GenStyles == IF GenThorough
             THEN {Style(a, o, n, 1, b, f) : a \in 1..4, o \in 1..4, n \in 1..2, b \in 1..3, f \in BOOLEAN}
             ELSE {Style(p[1], p[2], n, 1, b, f) :
                     p \in {<<1, 1>>, <<2, 2>>, <<3, 3>>, <<4, 4>>, <<2, 1>>, <<1, 2>>}, n \in 1..2, b \in 1..3, f \in BOOLEAN}
CmpStyles == {Style(a, a, n, i, 1, f) : a \in 1..2, n \in 1..2, i \in 1..6, f \in BOOLEAN}
CmpTrees(c) == {SAt("dport", c, "80"), SNot(SAt("dport", c, "80")), SAnd(SAt("dport", c, "80"), Y),
                SOr(SNot(SAt("dport", c, "80")), Y)}
DocTrees == {SAnd(SAnd(SAt("proto", "=", "TCP"), SAt("snet", "!=", "192.168.0.0/16")),
                  SOr(SAt("dport", "<=", "443"), SAt("dport", ">=", "80"))),
             SOr(SNot(SAt("dport", "=", "80")), SAnd(SAt("dport", "=", "443"), SAt("proto", "=", "tcp"))),
             SAnd(SAt("host", "=", "2001::1"), SAt("net", "!=", "ff02::/16"))}

Strings(x) == [i \in 1..Len(x) |-> x[i].s]
TreeLine(t, styles) == [kind |-> "tree", tree |-> t, exp |-> Selection(ToCond(t)),
                        texts |-> {Strings(Surface(t, st)) : st \in styles}]

Items == {[kind |-> "seq", pre |-> <<i>>] : i \in 1..NA}
         \cup (IF MaxLen >= 2 THEN {[kind |-> "seq", pre |-> <<i, j>>] : i, j \in 1..NA} ELSE {})
         \cup {[kind |-> "tree", t |-> t, cmp |-> FALSE] : t \in SGrow(SGrow({X, Y})) \cup DocTrees}
         \cup {[kind |-> "tree", t |-> t, cmp |-> TRUE] : t \in UNION {CmpTrees(c) : c \in Cmps}}

Line(it) == IF it.kind = "seq" THEN SeqLine(it.pre)
            ELSE TreeLine(it.t, IF it.cmp THEN CmpStyles ELSE GenStyles)

Pinned == /\ txt0 = <<>> /\ cur = <<>> /\ toks = <<>> /\ verdict = "none" /\ canon = <<>>
          /\ round = 0 /\ pc = "gen" /\ sact = [name |-> "Gen"]
GenInit == Pinned /\ item \in Items /\ done = FALSE
GenNext == /\ ~done
           /\ PrintT(<<"TRACE", ToJson(Line(item))>>)
           /\ done' = TRUE
           /\ UNCHANGED <<svars, item>>
GenSpec == GenInit /\ [][GenNext]_<<svars, item, done>>

ASSUME PrintT(<<"INFO", ToJson([flows |-> FlowSeq, alpha |-> Alpha, maxlen |-> MaxLen,
                                wswords |-> UNION {{Spellings[b][i].s : i \in {j \in 1..NSpell(b) : Spellings[b][j].ws}} : b \in DOMAIN Spellings}])>>)
=============================================================================
