-------------------------------- MODULE Cond --------------------------------
(***************************************************************************)
(* Conditions of goProbe queries (property C09).                           *)
(*                                                                         *)
(* The meaning of a condition:         an abstract syntax tree           *)
(*     Atom(attr, cmp, value) | Not(x) | And(l, r) | Or(l, r)              *)
(* and the textbook Boolean semantics Eval(t, f) over a flow record f      *)
(* (module Flows), with the atom meanings taken from the property          *)
(* statement and the help text of goQuery (cmd/goQuery/cmd/help.go,        *)
(* section "Condition"):                                                   *)
(*   - sip/dip = v   the source/destination address is v; can only hold    *)
(*                   for flows of v's IP family                            *)
(*   - snet/dnet = n/p  the first p bits of the address equal those of n;  *)
(*                   can only hold for flows of n's IP family              *)
(*   - dport/proto   integer comparisons (=, !=, <, <=, >, >=)             *)
(*   - a != v        selects exactly the flows a = v does not              *)
(*   - host = v      "Source IP or Destination IP": v is an endpoint       *)
(*   - net = n/p     "Source network or destination network"               *)
(*   - src, dst, port, protocol/ipproto   other names of sip, dip, dport,  *)
(*                   proto                                                 *)
(*   - proto = TCP   protocol names stand for their number                 *)
(* The documented rewritings ("host != v is equivalent to sip != v & dip   *)
(* != v", De Morgan for NOT) are NOT built into Eval; they are theorems    *)
(* (DesugarOK, NNFOK) that TLC checks over the whole bounded domain.       *)
(*                                                                         *)
(* The mechanism structured like the code (ParseAndInstrument = Desugar ;  *)
(* Normalize ; Instrument, then Evaluate(key) calls) is module CondEval.   *)
(*                                                                         *)
(* Switch:                                                                 *)
(*   NeqForeignFamily  TRUE  = the reading the statement dictates ("a != v *)
(*                     selects exactly the flows a = v does not": a flow   *)
(*                     of the other family satisfies sip != <v4 address>)  *)
(*                     FALSE = the alternative reading (!= also needs the  *)
(*                     same family); kept to tag cases that hinge on it    *)
(*                     and as a negative run (NNF is then not sound).      *)
(***************************************************************************)
EXTENDS Flows, TLC

CONSTANT NeqForeignFamily

(***************************************************************************)
(* Part 1a: abstract syntax                                                *)
(***************************************************************************)
\* an atom: b = address bytes (<<>> for numeric attributes), n = prefix length (networks),
\* the number (dport, proto) or 0 (addresses); sym = protocol name or ""
At(attr, cmp, b, n, sym) == [k |-> "atom", attr |-> attr, cmp |-> cmp, b |-> b, n |-> n, sym |-> sym]
Not(x)    == [k |-> "not", x |-> x]
And(l, r) == [k |-> "and", l |-> l, r |-> r]
Or(l, r)  == [k |-> "or", l |-> l, r |-> r]

Ip(attr, cmp, a)     == At(attr, cmp, a, 0, "")
Net(attr, cmp, a, p) == At(attr, cmp, a, p, "")
Num(attr, cmp, n)    == At(attr, cmp, <<>>, n, "")

ProtoNames == [tcp |-> 6, udp |-> 17, icmp |-> 1]
Sym(attr, cmp, name) == At(attr, cmp, <<>>, ProtoNames[name], name)

\* Host names as values of sip / dip (node.resolve: the name is looked up when the condition is prepared
\* and stands for ALL its addresses): "a = name" holds when a equals one of them, "a != name" is - as for
\* every value - the complement.  Names is the resolver's table (the check provides it as /etc/hosts).
Names == ("two4.test" :> {V4A, V4B}) @@ ("mixed.test" :> {V4B, V6P}) @@ ("one.test" :> {V4A})
IsName(a) == a.attr \in {"sip", "dip"} /\ a.sym \in DOMAIN Names

AddrAttrs  == {"sip", "dip", "src", "dst", "host"}
NetAttrs   == {"snet", "dnet", "net"}
PortAttrs  == {"dport", "port"}
ProtoAttrs == {"proto", "protocol", "ipproto"}
SugarAttrs == {"src", "dst", "host", "net", "port", "protocol", "ipproto"}
EqCmps  == {"=", "!="}
OrdCmps == {"<", "<=", ">", ">="}

\* the attribute a name stands for ("dip (or dst)", "sip (or src)", "dport (or port)")
BaseAttr(a) == CASE a = "src" -> "sip" [] a = "dst" -> "dip" [] a = "port" -> "dport"
                 [] a \in {"protocol", "ipproto"} -> "proto" [] OTHER -> a

\* atoms the documentation gives a meaning to
LegalAtom(a) ==
  CASE a.attr \in AddrAttrs  -> a.cmp \in EqCmps /\ (IsAddr(a.b) \/ IsName(a))
    [] a.attr \in NetAttrs   -> a.cmp \in EqCmps /\ IsAddr(a.b) /\ a.n \in 0..MaxPrefix(a.b)
    [] a.attr \in PortAttrs  -> a.cmp \in EqCmps \cup OrdCmps /\ a.n \in 0..65535
    [] a.attr \in ProtoAttrs -> /\ a.cmp \in EqCmps \cup OrdCmps /\ a.n \in 0..255
                                /\ (a.sym # "" => a.sym \in DOMAIN ProtoNames /\ ProtoNames[a.sym] = a.n)
    [] OTHER -> FALSE

FamilyBound(a) == a.attr \in AddrAttrs \cup NetAttrs /\ ~IsName(a)

(***************************************************************************)
(* Part 1b: meaning                                                        *)
(***************************************************************************)
\* meaning of "attr = value"
HoldsEqB(at, a, f) ==
  CASE at = "sip"   -> f.fam = Fam(a.b) /\ f.sip = a.b
    [] at = "dip"   -> f.fam = Fam(a.b) /\ f.dip = a.b
    [] at = "host"  -> f.fam = Fam(a.b) /\ (f.sip = a.b \/ f.dip = a.b)
    [] at = "snet"  -> f.fam = Fam(a.b) /\ PrefixEq(f.sip, a.b, a.n)
    [] at = "dnet"  -> f.fam = Fam(a.b) /\ PrefixEq(f.dip, a.b, a.n)
    [] at = "net"   -> f.fam = Fam(a.b) /\ (PrefixEq(f.sip, a.b, a.n) \/ PrefixEq(f.dip, a.b, a.n))
    [] at = "dport" -> f.dport = a.n
    [] at = "proto" -> f.proto = a.n
HoldsEq(a, f) == IF IsName(a) THEN \E addr \in Names[a.sym] : HoldsEqB(a.attr, [a EXCEPT !.b = addr], f)
                 ELSE HoldsEqB(BaseAttr(a.attr), a, f)

NumOf(a, f) == IF BaseAttr(a.attr) = "dport" THEN f.dport ELSE f.proto

\* nff: the reading of != across IP families (see NeqForeignFamily)
AtomHoldsR(a, f, nff) ==
  CASE a.cmp = "="  -> HoldsEq(a, f)
    [] a.cmp = "!=" -> IF nff \/ ~FamilyBound(a) THEN ~HoldsEq(a, f)
                       ELSE f.fam = Fam(a.b) /\ ~HoldsEq(a, f)
    [] a.cmp = "<"  -> NumOf(a, f) < a.n
    [] a.cmp = "<=" -> NumOf(a, f) <= a.n
    [] a.cmp = ">"  -> NumOf(a, f) > a.n
    [] a.cmp = ">=" -> NumOf(a, f) >= a.n

RECURSIVE EvalR(_, _, _)
EvalR(x, f, nff) ==
  CASE x.k = "atom" -> AtomHoldsR(x, f, nff)
    [] x.k = "not"  -> ~EvalR(x.x, f, nff)
    [] x.k = "and"  -> EvalR(x.l, f, nff) /\ EvalR(x.r, f, nff)
    [] x.k = "or"   -> EvalR(x.l, f, nff) \/ EvalR(x.r, f, nff)

Eval(x, f) == EvalR(x, f, NeqForeignFamily)

\* The selection of a condition over the flow universe, as a vector indexed by flow id, computed
\* the way the statement words it: "|" is union, "&" is intersection, "!" is complement.
\* (SelectionThm in CondMC: this is [i |-> Eval(x, FlowSeq[i])].)
\* (helpers with parameters on purpose: TLC evaluates an operator argument once, a LET definition
\* at every use)
NotV(v)    == [i \in FlowIds |-> ~v[i]]
AndV(a, b) == [i \in FlowIds |-> a[i] /\ b[i]]
OrV(a, b)  == [i \in FlowIds |-> a[i] \/ b[i]]
RECURSIVE SelR(_, _)
SelR(x, nff) ==
  CASE x.k = "atom" -> [i \in FlowIds |-> AtomHoldsR(x, FlowSeq[i], nff)]
    [] x.k = "not"  -> NotV(SelR(x.x, nff))
    [] x.k = "and"  -> AndV(SelR(x.l, nff), SelR(x.r, nff))
    [] x.k = "or"   -> OrV(SelR(x.l, nff), SelR(x.r, nff))
Selection(x) == SelR(x, NeqForeignFamily)

(***************************************************************************)
(* Part 1c: the documented rewritings                                      *)
(***************************************************************************)
\* desugar.go / help text: aliases are renamed; "host = v" is "(sip = v | dip = v)",
\* "host != v" is "(sip != v & dip != v)"; the same for net with snet/dnet
DesugarAtom(a) ==
  CASE a.attr \in {"src", "dst", "port", "protocol", "ipproto"} -> [a EXCEPT !.attr = BaseAttr(a.attr)]
    [] a.attr \in {"host", "net"} ->
         LET s == [a EXCEPT !.attr = IF a.attr = "host" THEN "sip" ELSE "snet"]
             d == [a EXCEPT !.attr = IF a.attr = "host" THEN "dip" ELSE "dnet"]
         IN IF a.cmp = "=" THEN Or(s, d) ELSE And(s, d)
    [] OTHER -> a

RECURSIVE Desugar(_)
Desugar(x) ==
  CASE x.k = "atom" -> DesugarAtom(x)
    [] x.k = "not"  -> Not(Desugar(x.x))
    [] x.k = "and"  -> And(Desugar(x.l), Desugar(x.r))
    [] x.k = "or"   -> Or(Desugar(x.l), Desugar(x.r))

Flip(c) == CASE c = "=" -> "!=" [] c = "!=" -> "=" [] c = "<" -> ">=" [] c = ">=" -> "<"
             [] c = ">" -> "<=" [] c = "<=" -> ">"

\* negation normal form: negations are pushed into the comparators
RECURSIVE NNFh(_, _)
NNFh(x, neg) ==
  CASE x.k = "atom" -> IF neg THEN [x EXCEPT !.cmp = Flip(x.cmp)] ELSE x
    [] x.k = "not"  -> NNFh(x.x, ~neg)
    [] x.k = "and"  -> IF neg THEN Or(NNFh(x.l, TRUE), NNFh(x.r, TRUE)) ELSE And(NNFh(x.l, FALSE), NNFh(x.r, FALSE))
    [] x.k = "or"   -> IF neg THEN And(NNFh(x.l, TRUE), NNFh(x.r, TRUE)) ELSE Or(NNFh(x.l, FALSE), NNFh(x.r, FALSE))
NNF(x) == NNFh(x, FALSE)

RECURSIVE AtomsOf(_)
AtomsOf(x) == CASE x.k = "atom" -> {x} [] x.k = "not" -> AtomsOf(x.x)
                [] OTHER -> AtomsOf(x.l) \cup AtomsOf(x.r)
DiffV(a, b) == {i \in FlowIds : a[i] # b[i]}
\* flow ids on which the two readings of != disagree for this tree (only a family-bound != can matter)
Hinge(x) == IF \E a \in AtomsOf(x) : a.cmp = "!=" /\ FamilyBound(a)
            THEN DiffV(SelR(x, TRUE), SelR(x, FALSE))
            ELSE {}
RECURSIVE HasNot(_)
HasNot(x) == CASE x.k = "atom" -> FALSE [] x.k = "not" -> TRUE [] OTHER -> HasNot(x.l) \/ HasNot(x.r)
HasSugar(x) == \E a \in AtomsOf(x) : a.attr \in SugarAttrs
RECURSIVE Height(_)
Height(x) == CASE x.k = "atom" -> 0 [] x.k = "not" -> 1 + Height(x.x)
               [] OTHER -> 1 + (IF Height(x.l) > Height(x.r) THEN Height(x.l) ELSE Height(x.r))

\* theorems, stated per tree so that a model can quantify over its whole tree set
SameSelection(x, y) == Selection(x) = Selection(y)
DesugaredOK(d, x) == SameSelection(d, x) /\ ~HasSugar(d)
DesugarOK(x) == DesugaredOK(Desugar(x), x)
NormalOK(n, x) == SameSelection(n, x) /\ ~HasNot(n)
NNFOK(x)     == NormalOK(NNF(x), x)
DeMorganOK(x, y) == /\ SameSelection(Not(And(x, y)), Or(Not(x), Not(y)))
                    /\ SameSelection(Not(Or(x, y)), And(Not(x), Not(y)))
                    /\ SameSelection(Not(Not(x)), x)
\* "|" is union, "&" intersection, "!" complement of the selections (in terms of Eval)
SelSet(z) == {i \in FlowIds : Eval(z, FlowSeq[i])}
SetAlgebraOK(x, y) ==
  /\ SelSet(Or(x, y)) = SelSet(x) \cup SelSet(y)
  /\ SelSet(And(x, y)) = SelSet(x) \cap SelSet(y)
  /\ SelSet(Not(x)) = FlowIds \ SelSet(x)
\* an address or network comparison can only be true for flows of the same family
FamilyOK(a) == (FamilyBound(a) /\ a.cmp = "=") =>
                 \A i \in FlowIds : Eval(a, FlowSeq[i]) => FlowSeq[i].fam = Fam(a.b)
\* a != v selects exactly the flows a = v does not (holds iff NeqForeignFamily)
NeqOK(a) == a.cmp = "=" => \A i \in FlowIds : Eval([a EXCEPT !.cmp = "!="], FlowSeq[i]) = ~Eval(a, FlowSeq[i])
=============================================================================
