--------------------------- MODULE QueryCancelGen ---------------------------
(***************************************************************************)
(* Scenario runs for the forward replay (spec -> code) of QueryCancel.     *)
(* A scenario is what harness command `qc-run` sets up on the real engine: *)
(* one workload of NDirs directories, the first worker to read a directory *)
(* is PARKED inside it; with WithBreach the memory watcher reports a       *)
(* breach while the worker is parked and the worker is released only after *)
(* the watcher goroutine has come to rest (the harness parks for 1.8 s,    *)
(* heap.Watch ticks after 1 s).  All other interleavings stay free.        *)
(* Every terminal state prints its Outcome; the set of printed outcomes is *)
(* what the design (as built / repaired) allows for the scenario.          *)
(***************************************************************************)
EXTENDS QueryCancelMC, Json
CONSTANTS NDirs, WithBreach
VARIABLES parked,    \* the worker parked by the gate ("" before any worker reads, "-" once released)
          printed
gvars == <<vars, parked, printed>>

GenWorkloads == <<NDirs>>

WatcherAtRest == wpc = "exit" \/ (wpc = "recv" /\ resc.n = 0 /\ ~resc.closed /\ apc = "range" /\ mapc.n > 0)

GenInit == Init /\ parked = "" /\ printed = FALSE

\* the gate: the first KPoll that turns into "read" parks its worker
Park(w) == /\ parked = "" /\ KPoll(w) /\ kpc'[w] = "read" /\ parked' = w /\ UNCHANGED printed
Release(w) == /\ parked = w /\ (~WithBreach \/ (breach = "taken" /\ WatcherAtRest))
              /\ KRead(w) /\ parked' = "-" /\ UNCHANGED printed
GenBreach == /\ WithBreach /\ parked \in Workers /\ Breach /\ UNCHANGED <<parked, printed>>

Free == \/ MStart \/ MWait \/ MClose \/ MRecv
        \/ WSelectBreach \/ WSelectDone \/ WCancel \/ WClose \/ WRecv
        \/ ARange \/ ASend
        \/ \E w \in Workers : KTake(w) \/ KSend(w)
        \/ \E w \in Workers : parked # "" /\ KPoll(w)
        \/ \E w \in Workers : parked # w /\ KRead(w)

Terminal == panic # "none" \/ (mpc = "done" /\ wpc = "exit" /\ apc = "exit")

GenNext == \/ /\ ~Terminal /\ \/ (Free /\ UNCHANGED <<parked, printed>>)
                              \/ \E w \in Workers : Park(w) \/ Release(w)
                              \/ GenBreach
           \/ /\ Terminal /\ ~printed
              /\ PrintT(<<"INFO", ToJson([outcome |-> Outcome, ndirs |-> NDirs, breach |-> WithBreach, design |-> Design])>>)
              /\ printed' = TRUE /\ UNCHANGED <<vars, parked>>
GenSpec == GenInit /\ [][GenNext]_gvars
=============================================================================
