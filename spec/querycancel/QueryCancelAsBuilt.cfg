SPECIFICATION Spec
CONSTANTS
  Workers <- MCWorkers
  Workloads <- MCWorkloads
  Cap = 2
  Design = "asbuilt"
INVARIANTS TypeOK NoPanic
CHECK_DEADLOCK FALSE
