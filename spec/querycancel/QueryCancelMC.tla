--------------------------- MODULE QueryCancelMC ---------------------------
EXTENDS QueryCancel
MCWorkers == {"k1", "k2"}
MCWorkloads == <<1, 2, 1>>
\* scenario instances of the forward replay: the directories per workload of the generated database
WL1 == <<1>>
WL2 == <<2>>
\* the outcome predicate the scenario runs print
Outcome == IF panic # "none" THEN panic ELSE ret
=============================================================================
