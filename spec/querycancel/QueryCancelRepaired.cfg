SPECIFICATION Spec
CONSTANTS
  Workers <- MCWorkers
  Workloads <- MCWorkloads
  Cap = 2
  Design = "repaired"
INVARIANTS TypeOK NoPanic NoNilAggregate ResultIsReal
PROPERTIES Returns
CHECK_DEADLOCK FALSE
