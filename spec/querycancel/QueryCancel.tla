---------------------------- MODULE QueryCancel ----------------------------
(***************************************************************************)
(* EXTENSION (beyond the 31 listed properties, DESIGN 11 item 2): the      *)
(* goroutine / channel protocol of one query in engine.QueryRunner.run     *)
(* (pkg/goDB/engine/query.go, aggregate.go, pkg/goDB/DBWorkManager.go,     *)
(* pkg/query/heap/heap.go) with the memory-limit cancellation path.        *)
(*                                                                         *)
(* Processes                                                               *)
(*   main      run(): starts the memory watcher and the aggregator, starts *)
(*             the workers of the work manager and waits for them          *)
(*             (ExecuteWorkerReadJobs), closes mapChan, receives the       *)
(*             aggregate from aggregateChan, returns (deferred cancel).    *)
(*   watcher   the anonymous goroutine of run(): select on memErrors       *)
(*             (heap.Watch reports a breach of max_mem_pct) or on          *)
(*             queryCtx.Done().  As built, on a breach it sets err,        *)
(*             cancels the query, CLOSES mapChan, receives from            *)
(*             aggregateChan and clears the aggregate.                     *)
(*   worker w  grabAndProcessWorkload: takes workloads from the (closed,   *)
(*             pre-filled) workload channel; per directory of a workload   *)
(*             it first polls ctx.Done() (exit without sending) and then   *)
(*             reads the directory; after the last directory it SENDS the  *)
(*             result map on mapChan - without looking at the context.     *)
(*   agg       aggregate(): ranges over mapChan; when it is closed and     *)
(*             drained it sends the result on resultChan (capacity 1) and  *)
(*             closes it.                                                  *)
(*                                                                         *)
(* Channels are modelled by what Go defines for them: a send on a closed   *)
(* channel and a second close PANIC (the process dies: the goroutines are  *)
(* not protected by recover), a receive from a closed empty channel yields *)
(* the zero value.                                                         *)
(*                                                                         *)
(* Design = "asbuilt"  the code as read at the pinned commit.              *)
(* Design = "repaired" the watcher only records the breach and cancels;    *)
(*                     main is the only closer and the only receiver.      *)
(*                                                                         *)
(* Checked: NoPanic, NoNilAggregate (the watcher / main never use the zero *)
(* value of a closed aggregateChan as an aggregate), ResultIsReal, Returns  *)
(* (liveness: run() returns unless the process panicked).                  *)
(***************************************************************************)
EXTENDS Integers, Sequences, FiniteSets, TLC

CONSTANTS Workers,        \* worker ids
          Workloads,      \* sequence: number of directories of each workload, e.g. <<1, 2>>
          Cap,            \* capacity of mapChan (1024 in the code)
          Design          \* "asbuilt" | "repaired"

VARIABLES mpc,            \* main: "start" | "wait" | "close" | "recv" | "done"
          wpc,            \* watcher: "select" | "cancel" | "close" | "recv" | "clear" | "exit"
          kpc,            \* worker -> "idle" | "poll" | "read" | "send" | "exit"
          kwl,            \* worker -> [left |-> directories left in its workload]
          queue,          \* index of the next workload to hand out
          mapc,           \* mapChan: [n |-> buffered items, closed |-> BOOLEAN]
          resc,           \* aggregateChan: [n |-> 0/1, closed |-> BOOLEAN]
          apc,            \* aggregator: "range" | "send" | "exit"
          ctx,            \* queryCtx cancelled?
          breach,         \* "none" | "pending" (memErrors has a value) | "taken"
          memerr,         \* err set by the watcher
          got,            \* who received the real aggregate: "none" | "main" | "watcher"
          ret,            \* what run() returned: "none" | "ok" | "memerr" | "nilagg"
          panic           \* "none" | "send-closed" | "close-closed" | "nil-aggregate"
vars == <<mpc, wpc, kpc, kwl, queue, mapc, resc, apc, ctx, breach, memerr, got, ret, panic>>

Alive == panic = "none"

Init == /\ mpc = "start" /\ wpc = "select"
        /\ kpc = [w \in Workers |-> "idle"] /\ kwl = [w \in Workers |-> 0]
        /\ queue = 1
        /\ mapc = [n |-> 0, closed |-> FALSE] /\ resc = [n |-> 0, closed |-> FALSE]
        /\ apc = "range" /\ ctx = FALSE /\ breach = "none" /\ memerr = FALSE
        /\ got = "none" /\ ret = "none" /\ panic = "none"

(* ---- environment: heap.Watch reports a breach (once) while the query runs ---- *)
Breach == /\ Alive /\ breach = "none" /\ mpc # "done"
          /\ breach' = "pending"
          /\ UNCHANGED <<mpc, wpc, kpc, kwl, queue, mapc, resc, apc, ctx, memerr, got, ret, panic>>

(* ---- channel operations ---- *)
CloseMap == IF mapc.closed THEN /\ panic' = "close-closed" /\ UNCHANGED mapc
            ELSE /\ mapc' = [mapc EXCEPT !.closed = TRUE] /\ UNCHANGED panic

(* ---- main ---- *)
MStart == /\ Alive /\ mpc = "start" /\ mpc' = "wait"
          /\ UNCHANGED <<wpc, kpc, kwl, queue, mapc, resc, apc, ctx, breach, memerr, got, ret, panic>>
\* wg.Wait() of ExecuteWorkerReadJobs
MWait == /\ Alive /\ mpc = "wait" /\ \A w \in Workers : kpc[w] = "exit"
         /\ mpc' = "close"
         /\ UNCHANGED <<wpc, kpc, kwl, queue, mapc, resc, apc, ctx, breach, memerr, got, ret, panic>>
MClose == /\ Alive /\ mpc = "close" /\ CloseMap /\ mpc' = "recv"
          /\ UNCHANGED <<wpc, kpc, kwl, queue, resc, apc, ctx, breach, memerr, got, ret>>
\* agg := <-aggregateChan ; return (deferred cancelQuery)
MRecv == /\ Alive /\ mpc = "recv"
         /\ \/ /\ resc.n = 1
               /\ resc' = [resc EXCEPT !.n = 0] /\ got' = "main"
               /\ ret' = IF memerr THEN "memerr" ELSE "ok"
            \/ /\ resc.n = 0 /\ resc.closed          \* zero value: agg.err = nil, agg.aggregatedMaps = nil
               /\ UNCHANGED <<resc, got>>
               /\ ret' = IF memerr THEN "memerr" ELSE "nilagg"
         /\ mpc' = "done" /\ ctx' = TRUE
         /\ UNCHANGED <<wpc, kpc, kwl, queue, mapc, apc, breach, memerr, panic>>

(* ---- watcher ---- *)
WSelectBreach == /\ Alive /\ wpc = "select" /\ breach = "pending"
                 /\ breach' = "taken" /\ memerr' = TRUE /\ wpc' = "cancel"
                 /\ UNCHANGED <<mpc, kpc, kwl, queue, mapc, resc, apc, ctx, got, ret, panic>>
WSelectDone == /\ Alive /\ wpc = "select" /\ ctx
               /\ wpc' = "exit"
               /\ UNCHANGED <<mpc, kpc, kwl, queue, mapc, resc, apc, ctx, breach, memerr, got, ret, panic>>
WCancel == /\ Alive /\ wpc = "cancel" /\ ctx' = TRUE
           /\ wpc' = IF Design = "asbuilt" THEN "close" ELSE "exit"
           /\ UNCHANGED <<mpc, kpc, kwl, queue, mapc, resc, apc, breach, memerr, got, ret, panic>>
WClose == /\ Alive /\ wpc = "close" /\ CloseMap /\ wpc' = "recv"
          /\ UNCHANGED <<mpc, kpc, kwl, queue, resc, apc, ctx, breach, memerr, got, ret>>
WRecv == /\ Alive /\ wpc = "recv"
         /\ \/ /\ resc.n = 1 /\ resc' = [resc EXCEPT !.n = 0] /\ got' = "watcher" /\ wpc' = "exit"
               /\ UNCHANGED panic
            \/ /\ resc.n = 0 /\ resc.closed      \* agg.aggregatedMaps is nil: ClearFast on a nil map
               /\ panic' = "nil-aggregate" /\ UNCHANGED <<resc, got, wpc>>
         /\ UNCHANGED <<mpc, kpc, kwl, queue, mapc, apc, ctx, breach, memerr, ret>>

(* ---- workers ---- *)
KTake(w) == /\ Alive /\ mpc # "start" /\ kpc[w] = "idle"
            /\ IF queue <= Len(Workloads)
               THEN /\ kwl' = [kwl EXCEPT ![w] = Workloads[queue]] /\ queue' = queue + 1
                    /\ kpc' = [kpc EXCEPT ![w] = "poll"]
               ELSE /\ kpc' = [kpc EXCEPT ![w] = "exit"] /\ UNCHANGED <<kwl, queue>>
            /\ UNCHANGED <<mpc, wpc, mapc, resc, apc, ctx, breach, memerr, got, ret, panic>>
\* select { case <-ctx.Done(): return; default: read the directory }
KPoll(w) == /\ Alive /\ kpc[w] = "poll"
            /\ kpc' = [kpc EXCEPT ![w] = IF ctx THEN "exit" ELSE "read"]
            /\ UNCHANGED <<mpc, wpc, kwl, queue, mapc, resc, apc, ctx, breach, memerr, got, ret, panic>>
KRead(w) == /\ Alive /\ kpc[w] = "read"
            /\ kwl' = [kwl EXCEPT ![w] = @ - 1]
            /\ kpc' = [kpc EXCEPT ![w] = IF kwl[w] = 1 THEN "send" ELSE "poll"]
            /\ UNCHANGED <<mpc, wpc, queue, mapc, resc, apc, ctx, breach, memerr, got, ret, panic>>
\* mapChan <- resultMap
KSend(w) == /\ Alive /\ kpc[w] = "send"
            /\ IF mapc.closed THEN /\ panic' = "send-closed" /\ UNCHANGED <<mapc, kpc>>
               ELSE /\ mapc.n < Cap
                    /\ mapc' = [mapc EXCEPT !.n = @ + 1] /\ kpc' = [kpc EXCEPT ![w] = "idle"]
                    /\ UNCHANGED panic
            /\ UNCHANGED <<mpc, wpc, kwl, queue, resc, apc, ctx, breach, memerr, got, ret>>

(* ---- aggregator ---- *)
ARange == /\ Alive /\ apc = "range"
          /\ \/ /\ mapc.n > 0 /\ mapc' = [mapc EXCEPT !.n = @ - 1] /\ UNCHANGED apc
             \/ /\ mapc.n = 0 /\ mapc.closed /\ apc' = "send" /\ UNCHANGED mapc
          /\ UNCHANGED <<mpc, wpc, kpc, kwl, queue, resc, ctx, breach, memerr, got, ret, panic>>
\* resultChan <- result ; close(resultChan)   (capacity 1: never blocks)
ASend == /\ Alive /\ apc = "send" /\ resc' = [n |-> 1, closed |-> TRUE] /\ apc' = "exit"
         /\ UNCHANGED <<mpc, wpc, kpc, kwl, queue, mapc, ctx, breach, memerr, got, ret, panic>>

Next == \/ Breach \/ MStart \/ MWait \/ MClose \/ MRecv
        \/ WSelectBreach \/ WSelectDone \/ WCancel \/ WClose \/ WRecv
        \/ \E w \in Workers : KTake(w) \/ KPoll(w) \/ KRead(w) \/ KSend(w)
        \/ ARange \/ ASend

Fairness == /\ WF_vars(MStart) /\ WF_vars(MWait) /\ WF_vars(MClose) /\ WF_vars(MRecv)
            /\ WF_vars(WSelectBreach) /\ WF_vars(WCancel) /\ WF_vars(WClose) /\ WF_vars(WRecv)
            /\ \A w \in Workers : WF_vars(KTake(w)) /\ WF_vars(KPoll(w)) /\ WF_vars(KRead(w)) /\ WF_vars(KSend(w))
            /\ WF_vars(ARange) /\ WF_vars(ASend)
Spec == Init /\ [][Next]_vars /\ Fairness

TypeOK == /\ mapc.n \in 0..Cap /\ resc.n \in 0..1
          /\ panic \in {"none", "send-closed", "close-closed", "nil-aggregate"}

NoPanic == panic = "none"
\* the aggregate is consumed by the one who reports the result
NoNilAggregate == ret # "nilagg"
\* liveness: run() returns (under the stated fairness, when nothing panicked)
Returns == <>(mpc = "done" \/ panic # "none")
\* a result reported as good was built from the real aggregate, received by main itself
ResultIsReal == ret = "ok" => got = "main"
\* the outcome of a breach in the design as built: whenever the watcher takes a breach the process panics
\* or run() has already finished
AsBuiltBreachPanics == [](breach = "taken" => <>(panic # "none" \/ mpc = "done"))
=============================================================================
