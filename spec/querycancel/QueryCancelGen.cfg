SPECIFICATION GenSpec
CONSTANTS
  Workers <- MCWorkers
  Workloads <- GenWorkloads
  Cap = 2
  Design = "asbuilt"
  NDirs = 1
  WithBreach = TRUE
CHECK_DEADLOCK FALSE
