SPECIFICATION GenSpec
CONSTANTS
  NeqForeignFamily = TRUE
  LiveResets = FALSE
  LiveDropsIdle = FALSE
  Ifaces <- GIfaces
  PktSet <- FreePkts
  QuerySet <- FreeQueries
  GenSet = "pos2"
  Depth = 12
  ChunkSize = 40
  Seed = 1
  NRand = 10
CHECK_DEADLOCK FALSE
