----------------------------- MODULE LiveQuery -----------------------------
(***************************************************************************)
(* Live queries of goProbe (property C29).                                 *)
(*                                                                         *)
(* A capture keeps, per interface, the flows seen since the last write-out *)
(* in memory (`log`, keyed by conversation: the flow 5-tuple including the *)
(* source port where the capture keeps it); a write-out moves them, with   *)
(* the source port aggregated away, into a new block of the database       *)
(* (`db`).  A query with Live = TRUE returns                               *)
(*                                                                         *)
(*     Live(q) = Stored(q)  (+)  Group(Filter(Aggregate(log), q.cond))     *)
(*                                                                         *)
(* where Stored(q) is the ordinary query result over the database blocks   *)
(* and Filter / Group are *the same* operators Stored(q) is made of - this *)
(* is the first clause of the property ("filtered and grouped exactly as    *)
(* stored flows would be").  The second clause ("running live queries at   *)
(* any time does not change what is later written") is the action property *)
(* LiveChangesNothing and, in the twin-run form, the invariant TwinOK:     *)
(* `tlog`/`tdb` are the memory and database of the same schedule with all  *)
(* live queries removed.                                                   *)
(*                                                                         *)
(* Code anchors: capture.Manager.GetFlowMaps -> Capture.flowMap ->         *)
(* FlowLog.Aggregate (Aggregate), goDB.QueryFilter (Filter),               *)
(* engine.QueryRunner.RunStatement / aggregate (Group, (+)),               *)
(* Manager.performWriteout -> FlowLog.Rotate -> DBWriter.Write (Writeout). *)
(*                                                                         *)
(* The memory of a capture is more than its counters: a rotation keeps the *)
(* entry of every conversation that had traffic, with zero counters, for   *)
(* one more interval (an entry still idle at the next rotation is dropped).*)
(* Such an idle entry is invisible to queries but it remembers which side  *)
(* of the conversation is the client: a packet that carries no orientation *)
(* of its own (kind "cont": a TCP segment without SYN between two          *)
(* ephemeral ports) is added to the entry of its conversation if there is  *)
(* one - in either orientation - and only otherwise classified by its      *)
(* ports (Guess: the smaller port is taken for the server's).  A live      *)
(* query therefore must leave the idle entries alone as well, or the NEXT  *)
(* write-out stores the conversation under another key.                    *)
(*                                                                         *)
(* Not modelled (not observable through what the statement talks about):   *)
(* the three-point lock and the local packet buffer (C20, C21, C23).       *)
(*                                                                         *)
(* Switches (FALSE = what the property demands; TRUE = a deviation used    *)
(* only by the negative runs, which must violate LiveChangesNothing/TwinOK)*)
(*   LiveResets     the live snapshot taken with the rotating variant of   *)
(*                  aggregation, which resets the counters                 *)
(*   LiveDropsIdle  the live snapshot frees the idle entries it skips      *)
(***************************************************************************)
EXTENDS Cond

CONSTANTS Ifaces,      \* interface names with a running capture
          PktSet,      \* packets the environment may deliver: [i, c, v, d, sz, k]
          QuerySet,    \* live queries that may be asked: [ifs, attrs, cond]
          LiveResets, LiveDropsIdle

VARIABLES log,    \* iface -> (<<flow id, source port variant>> -> counters)   in memory
          db,     \* iface -> sequence of blocks (flow id -> counters)          on disk
          tlog, tdb,   \* the twin run: same packets and write-outs, no live queries
          seen,   \* iface -> sum of the counters of all packets delivered (ghost)
          res,    \* answer of the latest live query (NoRes after any other action)
          act
vars == <<log, db, tlog, tdb, seen, res, act>>

(***************************************************************************)
(* Counters: <<bytes received, bytes sent, packets received, packets sent>> *)
(***************************************************************************)
Zero4 == <<0, 0, 0, 0>>
Add4(a, b) == <<a[1] + b[1], a[2] + b[2], a[3] + b[3], a[4] + b[4]>>
\* a packet of sz bytes seen on the interface in direction d
PktCounters(d, sz) == IF d = "out" THEN <<0, sz, 0, 1>> ELSE <<sz, 0, 1, 0>>

NoMap == <<>>       \* the empty finite map
NoRes == [has |-> FALSE]
Bump(f, k, d) == [x \in DOMAIN f \cup {k} |->
                    IF x = k THEN (IF k \in DOMAIN f THEN Add4(f[k], d) ELSE d) ELSE f[x]]

RECURSIVE SumF(_, _)
SumF(S, g) == IF S = {} THEN Zero4
              ELSE LET x == CHOOSE y \in S : TRUE IN Add4(g[x], SumF(S \ {x}, g))

(***************************************************************************)
(* Entries of a flow log: active (traffic since the last rotation) or idle *)
(* (zero counters).  Aggregate: the in-memory conversations of one         *)
(* interface with the source port aggregated away (FlowLog.Aggregate /     *)
(* Rotate); only entries with traffic take part.                           *)
(***************************************************************************)
Active(lg) == {k \in DOMAIN lg : lg[k] # Zero4}
Aggregate(lg) == [c \in {k[1] : k \in Active(lg)} |-> SumF({k \in Active(lg) : k[1] = c}, lg)]
\* FlowLog.Rotate: active entries are reset and kept, idle ones are dropped
Rotated(lg) == [k \in Active(lg) |-> Zero4]
\* flows that are remembered without having traffic
IdleFlows(lg) == {k[1] : k \in DOMAIN lg} \ {k[1] : k \in Active(lg)}

(***************************************************************************)
(* Orientation.  Guess[k] is the entry a packet of conversation k without  *)
(* orientation information creates when the capture remembers nothing of   *)
(* the conversation: the same conversation seen with the roles swapped     *)
(* (capturetypes.ClassifyPacketDirection: both ports ephemeral, the        *)
(* smaller one is taken for the server's).  Conversations outside DOMAIN   *)
(* Guess are classified as sent.  Capture.process looks for the entry of   *)
(* the packet's own orientation and of the swapped one before classifying. *)
(***************************************************************************)
Guess == (<<25, 1>> :> <<26, 1>>) @@ (<<27, 1>> :> <<28, 1>>)
GuessOf(k) == IF k \in DOMAIN Guess THEN Guess[k] ELSE k
Entry(lg, k, kind) == IF k \in DOMAIN lg THEN k
                      ELSE IF GuessOf(k) \in DOMAIN lg THEN GuessOf(k)
                      ELSE IF kind = "cont" THEN GuessOf(k) ELSE k

(***************************************************************************)
(* Queries.  q = [ifs, attrs, cond]: interfaces, the attributes to group   *)
(* by (subset of sip, dip, dport, proto) and a condition tree of module    *)
(* Cond or NoCond.  A result is a finite map from row keys to counters.    *)
(***************************************************************************)
NoCond == [k |-> "none"]
AllAttrs == {"sip", "dip", "dport", "proto"}

Selects(q, c) == IF q.cond.k = "none" THEN TRUE ELSE Eval(q.cond, FlowSeq[c])

\* the row a flow of interface i contributes to: the attributes asked for, nothing else
RowKey(q, i, c) ==
  [iface |-> i,
   sip   |-> IF "sip" \in q.attrs THEN FlowSeq[c].sip ELSE <<>>,
   dip   |-> IF "dip" \in q.attrs THEN FlowSeq[c].dip ELSE <<>>,
   dport |-> IF "dport" \in q.attrs THEN FlowSeq[c].dport ELSE -1,
   proto |-> IF "proto" \in q.attrs THEN FlowSeq[c].proto ELSE -1]

\* Contributions are triples <<iface, source, flow id>>; source 0 = memory, k > 0 = block k.
\* Filter: only flows the condition selects contribute.
MemContrib(q, lg) ==
  UNION {{<<i, 0, c>> : c \in {c \in DOMAIN Aggregate(lg[i]) : Selects(q, c)}} : i \in q.ifs}
DbContrib(q, d) ==
  UNION {UNION {{<<i, k, c>> : c \in {c \in DOMAIN d[i][k] : Selects(q, c)}} : k \in 1..Len(d[i])} : i \in q.ifs}

ContribVal(x, lg, d) == IF x[2] = 0 THEN Aggregate(lg[x[1]])[x[3]] ELSE d[x[1]][x[2]][x[3]]

RECURSIVE SumC(_, _, _)
SumC(X, lg, d) == IF X = {} THEN Zero4
                  ELSE LET x == CHOOSE y \in X : TRUE IN Add4(ContribVal(x, lg, d), SumC(X \ {x}, lg, d))

\* Group: one row per distinct key, counters added
Group(q, X, lg, d) ==
  [k \in {RowKey(q, x[1], x[3]) : x \in X} |-> SumC({x \in X : RowKey(q, x[1], x[3]) = k}, lg, d)]

StoredOf(q, d)     == Group(q, DbContrib(q, d), NoMap, d)
MemoryOf(q, lg)    == Group(q, MemContrib(q, lg), lg, NoMap)
LiveOf(q, lg, d)   == Group(q, DbContrib(q, d) \cup MemContrib(q, lg), lg, d)

Stored(q) == StoredOf(q, db)              \* the ordinary (non-live) query
Memory(q) == MemoryOf(q, log)             \* what the live flag adds
Live(q)   == LiveOf(q, log, db)           \* the live query

\* rows as a set of records (what the generator prints)
RowsOf(R) == {[k |-> k, c |-> R[k]] : k \in DOMAIN R}

(***************************************************************************)
(* Actions                                                                 *)
(***************************************************************************)
Init == /\ log = [i \in Ifaces |-> NoMap] /\ tlog = [i \in Ifaces |-> NoMap]
        \* every interface has been written out once (an empty first block): the interface
        \* exists in the database, which is what the query front end lists interfaces from
        /\ db = [i \in Ifaces |-> <<NoMap>>] /\ tdb = [i \in Ifaces |-> <<NoMap>>]
        /\ seen = [i \in Ifaces |-> Zero4]
        /\ res = NoRes
        /\ act = [name |-> "Init"]

\* Capture.process: one packet of conversation <<c, v>> on interface i, sent by the client; kind
\* "open" carries its orientation (TCP SYN, ...), kind "cont" does not (TCP segment without SYN)
Packet(i, c, v, d, sz, kind) ==
  /\ log'  = [log  EXCEPT ![i] = Bump(@, Entry(@, <<c, v>>, kind), PktCounters(d, sz))]
  /\ tlog' = [tlog EXCEPT ![i] = Bump(@, Entry(@, <<c, v>>, kind), PktCounters(d, sz))]
  /\ seen' = [seen EXCEPT ![i] = Add4(@, PktCounters(d, sz))]
  /\ res' = NoRes
  /\ UNCHANGED <<db, tdb>>
  /\ act' = [name |-> "Packet", i |-> i, c |-> c, v |-> v, d |-> d, sz |-> sz, k |-> kind]

\* Manager.performWriteout: every interface is rotated into a new block
Writeout ==
  /\ db'  = [i \in Ifaces |-> Append(db[i], Aggregate(log[i]))]
  /\ tdb' = [i \in Ifaces |-> Append(tdb[i], Aggregate(tlog[i]))]
  /\ log' = [i \in Ifaces |-> Rotated(log[i])] /\ tlog' = [i \in Ifaces |-> Rotated(tlog[i])]
  /\ res' = NoRes
  /\ UNCHANGED seen
  /\ act' = [name |-> "Writeout"]

\* QueryRunner.Run with Args.Live: reads, answers, changes nothing
LiveQuery(q) ==
  /\ res' = [has |-> TRUE, stored |-> Stored(q), memory |-> Memory(q), total |-> Live(q)]
  /\ IF LiveResets
     THEN log' = [i \in Ifaces |-> IF i \in q.ifs THEN NoMap ELSE log[i]]
     ELSE IF LiveDropsIdle
     THEN log' = [i \in Ifaces |-> IF i \in q.ifs THEN [k \in Active(log[i]) |-> log[i][k]] ELSE log[i]]
     ELSE UNCHANGED log
  /\ UNCHANGED <<db, tlog, tdb, seen>>
  /\ act' = [name |-> "LiveQuery", q |-> q]

Next == \/ \E p \in PktSet : Packet(p.i, p.c, p.v, p.d, p.sz, p.k)
        \/ Writeout
        \/ \E q \in QuerySet : LiveQuery(q)
Spec == Init /\ [][Next]_vars

(***************************************************************************)
(* Observables (what the harness compares after every step)                *)
(***************************************************************************)
MapRows(f) == {[f |-> c, c |-> f[c]] : c \in DOMAIN f}
Obs == [mem |-> [i \in Ifaces |-> MapRows(Aggregate(log[i]))],
        idle |-> [i \in Ifaces |-> IdleFlows(log[i])],
        db  |-> [i \in Ifaces |-> [k \in 1..Len(db[i]) |-> MapRows(db[i][k])]],
        res |-> IF res.has
                THEN [has |-> TRUE, stored |-> RowsOf(res.stored), memory |-> RowsOf(res.memory),
                      total |-> RowsOf(res.total)]
                ELSE NoRes]

(***************************************************************************)
(* Properties                                                              *)
(***************************************************************************)
TypeOK == /\ \A i \in Ifaces : \A k \in DOMAIN log[i] : k[1] \in FlowIds
          /\ \A i \in Ifaces : \A b \in 1..Len(db[i]) : DOMAIN db[i][b] \subseteq FlowIds

\* clause 2, action form: a live query leaves memory and database as they were
LiveChangesNothing == [][act'.name = "LiveQuery" => UNCHANGED <<log, db>>]_vars

\* clause 2, twin-run form: whatever live queries were asked, memory and database equal those of
\* the same schedule without them (in particular the database after the next write-out)
TwinOK == log = tlog /\ db = tdb

\* clause 1, consistency laws of the definition (checked over the query set of the model):
Sum4(R) == SumF(DOMAIN R, R)
AllQuery(I) == [ifs |-> I, attrs |-> AllAttrs, cond |-> NoCond]
\* an unconditional live query over all interfaces accounts for every packet delivered so far
LiveAccountsForAll ==
  Sum4(Live(AllQuery(Ifaces))) = SumF(Ifaces, seen)
\* the live answer is the stored answer plus the in-memory answer, row by row
Plus(A, B) == [k \in DOMAIN A \cup DOMAIN B |->
                 IF k \in DOMAIN A THEN (IF k \in DOMAIN B THEN Add4(A[k], B[k]) ELSE A[k]) ELSE B[k]]
LiveIsStoredPlusMemory == \A q \in QuerySet : Live(q) = Plus(Stored(q), Memory(q))
\* grouping by fewer attributes is regrouping the full-attribute answer (same filter)
Regroup(q, R) ==
  LET proj(k) == [iface |-> k.iface,
                  sip   |-> IF "sip" \in q.attrs THEN k.sip ELSE <<>>,
                  dip   |-> IF "dip" \in q.attrs THEN k.dip ELSE <<>>,
                  dport |-> IF "dport" \in q.attrs THEN k.dport ELSE -1,
                  proto |-> IF "proto" \in q.attrs THEN k.proto ELSE -1]
  IN [g \in {proj(k) : k \in DOMAIN R} |-> SumF({k \in DOMAIN R : proj(k) = g}, R)]
GroupingLaw == \A q \in QuerySet : Live(q) = Regroup(q, Live([q EXCEPT !.attrs = AllAttrs]))
\* a write-out moves flows from memory to disk: no live answer changes
WriteoutKeepsLiveAnswers ==
  [][act'.name = "Writeout" => \A q \in QuerySet : LiveOf(q, log', db') = LiveOf(q, log, db)]_vars
=============================================================================
