---------------------------- MODULE LiveQueryMC ----------------------------
(***************************************************************************)
(* Bounded exhaustive exploration of LiveQuery (C29, M): two interfaces,   *)
(* four conversations (an IPv4 one whose source port the capture drops,    *)
(* an IPv4 one in two source-port variants, an IPv6 one, one between two   *)
(* ephemeral ports with a segment that carries no orientation), packets in *)
(* both directions, write-outs and live queries at every position.         *)
(***************************************************************************)
EXTENDS LiveQuery, CondDomain
CONSTANTS MaxPackets, MaxWriteouts

MCIfaces == {"lq0", "lq1"}
MCPkts == {[i |-> "lq0", c |-> 1,  v |-> 1, d |-> "in",  sz |-> 3,  k |-> "open"],
           [i |-> "lq0", c |-> 9,  v |-> 1, d |-> "in",  sz |-> 5,  k |-> "open"],
           [i |-> "lq0", c |-> 9,  v |-> 2, d |-> "out", sz |-> 7,  k |-> "open"],
           [i |-> "lq1", c |-> 13, v |-> 1, d |-> "out", sz |-> 11, k |-> "open"],
           [i |-> "lq1", c |-> 1,  v |-> 1, d |-> "in",  sz |-> 13, k |-> "open"],
           \* a conversation between two ephemeral ports: its handshake and a later segment
           [i |-> "lq0", c |-> 25, v |-> 1, d |-> "in",  sz |-> 17, k |-> "open"],
           [i |-> "lq0", c |-> 25, v |-> 1, d |-> "out", sz |-> 19, k |-> "cont"]}
MCQueries == {
  [ifs |-> MCIfaces, attrs |-> AllAttrs, cond |-> NoCond],
  [ifs |-> {"lq0"},  attrs |-> {"sip"},  cond |-> NoCond],
  [ifs |-> MCIfaces, attrs |-> {"dport", "proto"}, cond |-> Net("snet", "=", N4(10, 128, 0, 0), 9)],
  [ifs |-> MCIfaces, attrs |-> {"sip", "dip"},
   cond |-> Or(Net("snet", "=", N4(10, 0, 0, 0), 9), Ip("sip", "=", V4A))],
  [ifs |-> {"lq1"},  attrs |-> AllAttrs, cond |-> Not(Ip("sip", "=", V6P))] }

Bound == /\ \A i \in Ifaces : Len(db[i]) <= 1 + MaxWriteouts
         /\ SumF(Ifaces, seen)[3] + SumF(Ifaces, seen)[4] <= MaxPackets
View == <<log, db, tlog, tdb, seen>>
=============================================================================
