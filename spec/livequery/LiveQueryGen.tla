---------------------------- MODULE LiveQueryGen ----------------------------
(***************************************************************************)
(* Behaviour generator for forward replay (spec -> code) of C29.           *)
(*                                                                         *)
(* A behaviour is a schedule (sequence of Packet / Writeout / LiveQuery    *)
(* steps) executed through the actions of module LiveQuery; after every    *)
(* step the observables the specification predicts are recorded:           *)
(*   mem   per interface, the aggregated in-memory flows                   *)
(*   db    per interface, the blocks written so far                        *)
(*   res   after a LiveQuery: stored rows, in-memory rows and their union  *)
(* The harness executes each schedule twice on a real capture manager and  *)
(* a real database - as printed and with the LiveQuery steps left out (the *)
(* twin run) - and compares every step of both runs with these values.     *)
(*                                                                         *)
(* GenSet selects the schedule family:                                     *)
(*   "pos3" / "pos4" / "pos5"   every sequence of that length over the     *)
(*              alphabet PosAlpha (three packets, a write-out, two live    *)
(*              queries) that contains a live query, followed by a closing *)
(*              write-out and a closing full live query: live queries at   *)
(*              every position between packets and write-outs              *)
(*   "orient4" / "orient5" / "orient6x4"   every sequence of that length   *)
(*              over the handshake and later segments of a conversation    *)
(*              between two ephemeral ports, a write-out and a live query  *)
(*              (6x4: also an IPv6 conversation on the second interface)   *)
(*   "cond-quick" / "cond-thorough"   one long schedule per chunk of       *)
(*              condition trees: all 24 flows in memory and on disk on two *)
(*              interfaces, then one live query per tree (all attributes), *)
(*              plus attribute subsets for a core set of trees             *)
(*   "rand"     NRand pseudo-random schedules of length Depth drawn from   *)
(*              the constant Seed by a small linear congruential generator *)
(*              (60% packets of eight flows on both interfaces, 10%        *)
(*              write-outs, 30% live queries)                              *)
(*   "free"     no schedule: any enabled action (for -simulate)            *)
(***************************************************************************)
EXTENDS LiveQuery, CondDomain, Json
CONSTANTS GenSet, Depth, ChunkSize, Seed, NRand
VARIABLES sched, pc, hist, done
LOCAL INSTANCE SequencesExt

GIfaces == {"lq0", "lq1"}
P(i, c, v, d, sz) == [a |-> "P", i |-> i, c |-> c, v |-> v, d |-> d, sz |-> sz, k |-> "open"]
\* a later packet of the conversation that carries no orientation of its own
PC(i, c, v, d, sz) == [a |-> "P", i |-> i, c |-> c, v |-> v, d |-> d, sz |-> sz, k |-> "cont"]
W == [a |-> "W"]
L(q) == [a |-> "L", q |-> q]
Q(ifs, attrs, cond) == [ifs |-> ifs, attrs |-> attrs, cond |-> cond]

QFull == Q(GIfaces, AllAttrs, NoCond)
\* the clause pair of DESIGN 8 item 7: a non byte-aligned network followed by a clause on the same field
CondNine == Or(Net("snet", "=", N4(10, 0, 0, 0), 9), Ip("sip", "=", V4A))
QNine == Q({"lq0"}, AllAttrs, CondNine)

\* ---- positions family
PosAlpha == { P("lq0", 1, 1, "in", 100),      \* 10.200.0.1 -> 10.0.0.1 tcp/80 (source port dropped)
              P("lq0", 9, 1, "out", 60),      \* 10.200.0.1 -> 32.1.0.0 udp/256, first source port
              P("lq0", 9, 2, "in", 61),       \* the same conversation from a second source port
              P("lq1", 13, 1, "in", 1280),    \* 2001::1 -> a00::1 tcp/80
              W, L(QFull), L(QNine) }
PosScheds(n) == {s \o <<W, L(QFull)>> : s \in {f \in [1..n -> PosAlpha] : \E j \in 1..n : f[j].a = "L"}}

\* ---- orientation family: a conversation between two ephemeral ports (handshake, later segments in
\* both interface directions), write-outs and live queries in every order - what the database holds
\* after a segment depends on whether the capture still remembers the conversation
OrAlpha4 == { P("lq0", 25, 1, "in", 74), PC("lq0", 25, 1, "out", 1500), PC("lq0", 25, 1, "in", 52), W, L(QFull) }
OrAlpha6 == OrAlpha4 \cup { P("lq1", 27, 1, "out", 94), PC("lq1", 27, 1, "in", 1280), L(Q({"lq0"}, {"sip", "dport"}, NoCond)) }
OrScheds(A, n) == {s \o <<W, L(QFull)>> : s \in {f \in [1..n -> A] : /\ \E j \in 1..n : f[j].a = "L"
                                                                   /\ \E j \in 1..n : f[j].a = "P"}}

\* ---- conditions family
Fill1 == [c \in 1..24 |-> P("lq0", c, 1, "in", 100 + c)]
Fill2 == SelectSeq([c \in 1..24 |-> P("lq0", c, 2, "out", 60 + c)], LAMBDA p : p.c % 2 = 1)
Fill3 == SelectSeq([c \in 1..24 |-> P("lq1", c, 1, "in", 700 + c)], LAMBDA p : p.c % 3 = 0)
Fill4 == SelectSeq([c \in 1..24 |-> P("lq0", c, 1, "out", 50 + c)], LAMBDA p : p.c % 2 = 0)
Fill5 == SelectSeq([c \in 1..24 |-> P("lq1", c, 2, "in", 900 + c)], LAMBDA p : p.c % 4 = 1)
Fill6 == SelectSeq([c \in 1..24 |-> P("lq0", c, 2, "in", 40 + c)], LAMBDA p : p.c % 5 = 0)
\* on disk: lq0 all flows (odd ones from two source ports), lq1 every third; in memory: lq0 the even
\* flows and every fifth from a second source port, lq1 flows 1, 5, 9, ...
CondPrefix == Fill1 \o Fill2 \o Fill3 \o <<W>> \o Fill4 \o Fill5 \o Fill6

CoreTrees == Core6 \cup {CondNine, Not(Net("dnet", "=", N4(10, 200, 0, 0), 25)),
                          And(Net("snet", "=", N6(32, 1), 65), Num("dport", "<", 256))}
AttrSubsets == {{"sip"}, {"dip"}, {"sip", "dip"}, {"dport", "proto"}, {"proto"}, {"sip", "dip", "dport"}}

QuickTrees == FullAtoms \cup {Not(a) : a \in Core7 \cup AddrAtoms}
              \cup {And(x, y) : x, y \in Core6} \cup {Or(x, y) : x, y \in Core6}
\* two thirds of all pairs of base atoms (which third is left out depends on the seed)
PairTrees == {And(x, y) : x, y \in FullAtoms \ SugarAtoms} \cup {Or(x, y) : x, y \in FullAtoms \ SugarAtoms}
Sampled(S) == LET q == SetToSeq(S) IN {q[j] : j \in {j \in 1..Len(q) : (j + Seed) % 3 # 0}}
ThoroughTrees == FullAtoms \cup {Not(a) : a \in FullAtoms} \cup Sampled(PairTrees) \cup Grow(Core7 \cup SugarAtoms)

CondQueries(T) == {Q(GIfaces, AllAttrs, t) : t \in T}
                  \cup {Q(GIfaces, a, t) : a \in AttrSubsets, t \in CoreTrees \cup {NoCond}}
                  \cup {Q({"lq1"}, AllAttrs, t) : t \in CoreTrees}
\* the queries as one sequence, cut into chunks of ChunkSize live queries per schedule
Chunks(qs) == LET n == Len(qs)
                  m == (n + ChunkSize - 1) \div ChunkSize
              IN {SubSeq(qs, (j - 1) * ChunkSize + 1, IF j * ChunkSize < n THEN j * ChunkSize ELSE n) : j \in 1..m}
Lify(qs) == [j \in 1..Len(qs) |-> L(qs[j])]
CondScheds(T) == {CondPrefix \o Lify(ch) \o <<W, L(QFull)>> : ch \in Chunks(SetToSeq(CondQueries(T)))}

\* ---- free mode (simulation): packets of every flow, both directions, both interfaces
FreePkts == {[i |-> i, c |-> c, v |-> v, d |-> d, sz |-> 40 + 7 * c + v, k |-> "open"] :
               i \in GIfaces, c \in {1, 3, 8, 9, 13, 17, 20, 21}, v \in {1, 2}, d \in {"in", "out"}}
            \cup {[i |-> i, c |-> c, v |-> 1, d |-> d, sz |-> 40 + 7 * c, k |-> k] :
               i \in GIfaces, c \in {25, 27}, d \in {"in", "out"}, k \in {"open", "cont"}}
            \* segments without SYN towards a service port: classified as sent with or without memory
            \cup {[i |-> i, c |-> c, v |-> 1, d |-> "in", sz |-> 41 + 7 * c, k |-> "cont"] :
               i \in GIfaces, c \in {1, 8, 13, 20}}
FreeQueries == CondQueries(Core6) \cup {QFull, QNine}

\* ---- pseudo-random schedules (products stay far below 2^31)
Rnd(x) == (x * 221 + 2113) % 10007
RECURSIVE RndSeq(_, _)
RndSeq(x, n) == IF n = 0 THEN <<>> ELSE <<Rnd(x)>> \o RndSeq(Rnd(x), n - 1)
PktSeq == SetToSeq(FreePkts)
QrySeq == SetToSeq(FreeQueries)
Pick(r) == LET kind == r % 10
               j == r \div 10
           IN IF kind < 6 THEN LET p == PktSeq[1 + (j % Len(PktSeq))] IN [a |-> "P"] @@ p
              ELSE IF kind = 6 THEN W
              ELSE L(QrySeq[1 + (j % Len(QrySeq))])
RandSched(x) == LET rs == RndSeq(x, Depth) IN [j \in 1..Depth |-> Pick(rs[j])] \o <<W, L(QFull)>>
RandScheds == {RandSched((Seed * 131 + n * 17) % 10007) : n \in 1..NRand}

Scheds == CASE GenSet = "pos2" -> PosScheds(2)
            [] GenSet = "pos3" -> PosScheds(3)
            [] GenSet = "pos4" -> PosScheds(4)
            [] GenSet = "pos5" -> PosScheds(5)
            [] GenSet = "orient4" -> OrScheds(OrAlpha4, 4)
            [] GenSet = "orient5" -> OrScheds(OrAlpha4, 5)
            [] GenSet = "orient6x4" -> OrScheds(OrAlpha6, 4)
            [] GenSet = "cond-tiny"     -> CondScheds(Core4)
            [] GenSet = "cond-quick"    -> CondScheds(QuickTrees)
            [] GenSet = "cond-thorough" -> CondScheds(ThoroughTrees)
            [] GenSet = "rand" -> RandScheds
            [] GenSet = "free" -> {<<>>}

Do(x) == CASE x.a = "P" -> Packet(x.i, x.c, x.v, x.d, x.sz, x.k)
           [] x.a = "W" -> Writeout
           [] x.a = "L" -> LiveQuery(x.q)

GenInit == Init /\ sched \in Scheds /\ pc = 1 /\ hist = <<>> /\ done = FALSE

Finish == /\ PrintT(<<"TRACE", ToJson(hist)>>)
          /\ done' = TRUE /\ hist' = <<>> /\ sched' = <<>> /\ pc' = 0
          /\ log' = [i \in Ifaces |-> NoMap] /\ tlog' = log' /\ db' = [i \in Ifaces |-> <<>>] /\ tdb' = db'
          /\ seen' = [i \in Ifaces |-> Zero4] /\ res' = NoRes /\ act' = [name |-> "Done"]

GenNext == IF GenSet = "free"
           THEN \/ /\ ~done /\ Len(hist) < Depth
                   /\ Next
                   /\ hist' = Append(hist, [act |-> act', exp |-> Obs'])
                   /\ UNCHANGED <<sched, pc, done>>
                \/ ~done /\ Len(hist) = Depth /\ Finish
           ELSE \/ /\ ~done /\ pc <= Len(sched)
                   /\ Do(sched[pc])
                   /\ pc' = pc + 1
                   /\ hist' = Append(hist, [act |-> act', exp |-> Obs'])
                   /\ UNCHANGED <<sched, done>>
                \/ ~done /\ pc > Len(sched) /\ Finish
GenSpec == GenInit /\ [][GenNext]_<<vars, sched, pc, hist, done>>

\* the flow universe, printed once: the harness builds packets and keys from the specification's flows
ASSUME PrintT(<<"INFO", ToJson([flows |-> FlowSeq])>>)
=============================================================================
