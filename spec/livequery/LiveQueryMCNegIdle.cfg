SPECIFICATION Spec
CONSTANTS
  NeqForeignFamily = TRUE
  LiveResets = FALSE
  LiveDropsIdle = TRUE
  Ifaces <- MCIfaces
  PktSet <- MCPkts
  QuerySet <- MCQueries
  MaxPackets = 4
  MaxWriteouts = 2
INVARIANTS TypeOK TwinOK LiveAccountsForAll LiveIsStoredPlusMemory GroupingLaw
PROPERTIES LiveChangesNothing WriteoutKeepsLiveAnswers
CONSTRAINT Bound
VIEW View
CHECK_DEADLOCK FALSE
