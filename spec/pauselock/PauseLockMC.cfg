SPECIFICATION Spec
CONSTANTS
  NL = 2
  Kinds <- MCKinds
  Scripts <- MCScripts
  BufCap = 2
  Elem4 = 1
  Elem6 = 1
  Rounds = 1
  FamilyFlagBug = FALSE
INVARIANTS Mutex OneHolder Accounted LossReported Unaltered Ordered StatsConserved NoStuck NoLoss BusyIsEnabled
VIEW View
CHECK_DEADLOCK FALSE
