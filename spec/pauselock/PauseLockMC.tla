---------------------------- MODULE PauseLockMC ----------------------------
(***************************************************************************)
(* Bounded exhaustive exploration of the pause lock: all interleavings of  *)
(* 2 lockers (every combination of write-out / status / live query), 3     *)
(* packets (IPv4 / IPv6 mixed, both directions of a conversation, one that *)
(* does not parse) and a local buffer of 1 or 2 elements (scaled sizes:    *)
(* every element has size 1).                                              *)
(***************************************************************************)
EXTENDS PauseLock

A4 == MkPkt(4, TCP, "A", "u", 40000, "B", "u", 443, 16, "in", 100)
A6 == MkPkt(6, UDP, "A", "u", 40001, "B", "u", 53, 0, "in", 120)
I6 == MkPkt(6, ICMP6, "A", "u", 0, "B", "u", 0, 128, "out", 64)

MCScripts == { Numbered(<<A4, A6, Back(A4, 16, 300)>>),
               Numbered(<<A6, Back(A6, 0, 90), AsFragment(A4)>>),
               Numbered(<<I6, AsTruncated(MkPkt(6, TCP, "B", "u", 443, "A", "u", 40000, 18, "in", 70)), A4>>) }
\* quick tier: mixed families in both directions + a packet that does not parse
MCScriptsQuick == { Numbered(<<A4, A6, Back(A4, 16, 300)>>),
                    Numbered(<<A6, AsFragment(A4), Back(A6, 0, 90)>>) }
MCScriptsCov == { Numbered(<<A4, A6, Back(A4, 16, 300)>>) }
MCKinds == {"wo", "st", "lq"}

View == <<srcv, tok, mainv, lockv, lkv, datav, ghost>>
=============================================================================
