SPECIFICATION TraceSpec
CONSTANTS
  NL = 3
  Kinds <- TKinds
  Scripts <- TScripts
  BufCap = 67108864
  Elem4 = 21
  Elem6 = 45
  Rounds = 100000
  FamilyFlagBug = FALSE
POSTCONDITION TraceAccepted
VIEW TView
CHECK_DEADLOCK FALSE
