SPECIFICATION GenSpec
CONSTANTS
  NL = 2
  Kinds <- GenKinds
  Scripts <- GenScriptsMixed
  BufCap = 4096
  Elem4 = 21
  Elem6 = 45
  Rounds = 1
  FamilyFlagBug = FALSE
VIEW GenView
CHECK_DEADLOCK FALSE
