---------------------------- MODULE PauseLockGen ----------------------------
(***************************************************************************)
(* Behaviour generator for forward replay (spec -> code) of PauseLock.     *)
(*                                                                         *)
(* A behaviour is a schedule of environment events (Deliver / Begin /      *)
(* Release).  The environment acts only in quiescent states (no internal   *)
(* step possible), which is what the harness does: it performs an event    *)
(* on the real capture manager, waits until the real system has come to    *)
(* rest, and compares what it can observe with `pre` of the next event -   *)
(* the model's quiescent state.  Internal steps are explored in every      *)
(* order; they lead to the same quiescent state (TLC would otherwise print *)
(* two behaviours with the same events and different observations, which   *)
(* the check rejects as a machinery error).  Every maximal schedule is     *)
(* printed once: all packets of the script delivered, every locker through *)
(* its rounds.  Lockers start in the order 1, 2, ... (they are symmetric). *)
(*                                                                         *)
(* Real sizes: buffer 4096 bytes (one page, growth limit = initial size),  *)
(* elements of 21 (IPv4) and 45 (IPv6) bytes; bursts reach the capacity.   *)
(***************************************************************************)
EXTENDS PauseLock, Json

VARIABLES hist, fin
gvars == <<vars, hist, fin>>
\* the label of the last internal step is irrelevant for the generator
GenView == <<srcv, tok, mainv, lockv, lkv, datav, ghost, hist, fin>>

\* ---- scripts
T4  == MkPkt(4, TCP, "A", "u", 40000, "B", "u", 443, 16, "in", 100)
T6  == MkPkt(6, TCP, "C", "u", 50000, "D", "u", 8080, 24, "out", 1400)
U6  == MkPkt(6, UDP, "A", "u", 40001, "B", "u", 53, 0, "in", 120)
U4  == MkPkt(4, UDP, "C", "u", 5353, "M", "m", 5353, 0, "out", 80)
I6  == MkPkt(6, ICMP6, "A", "u", 0, "B", "u", 0, 128, "out", 64)
I4  == MkPkt(4, ICMP4, "B", "u", 0, "A", "u", 0, 0, "in", 84)
S6  == MkPkt(6, TCP, "B", "u", 443, "A", "u", 40000, 18, "in", 74)     \* SYN-ACK seen first: stored mirrored
E6  == MkPkt(6, ESP, "A", "u", 0, "B", "u", 0, 0, "in", 200)

GenScriptsMixed == {
  Numbered(<<T4, U6, Back(T4, 16, 300)>>),
  Numbered(<<T6, Back(T6, 16, 60), T4>>),
  Numbered(<<U6, I4, Back(U6, 0, 90)>>),
  Numbered(<<I6, AsFragment(T4), Back(I6, 129, 64)>>),
  Numbered(<<S6, AsTruncated(T6), Back(S6, 16, 52)>>),
  Numbered(<<Back(I6, 129, 64), U4, I6>>),                 \* the reply is seen first (stored mirrored)
  Numbered(<<U4, E6, T6>>) }

\* bursts that reach the capacity of the local buffer (4096 bytes: 195 IPv4 or 91 IPv6 elements)
GenScriptsOverflow == {
  Numbered(<<Burst(T4, 195), U6, Back(T4, 16, 300)>>),
  Numbered(<<Burst(U6, 91), T4, Back(U6, 0, 90)>>),
  Numbered(<<Burst(T4, 100), Burst(T6, 50), T4>>),
  Numbered(<<Burst(I6, 90), Burst(I4, 3), Burst(T4, 2)>>) }

GenScriptsAll == GenScriptsMixed \cup GenScriptsOverflow

\* quick tier: mixed families in both directions, a reply seen first, packets that do not parse,
\* and two scripts that fill the buffer
GenScriptsQuick == {
  Numbered(<<T4, U6, Back(T4, 16, 300)>>),
  Numbered(<<Back(I6, 129, 64), AsFragment(T4), I6>>),
  Numbered(<<S6, AsTruncated(T6), Back(S6, 16, 52)>>),
  Numbered(<<Burst(T4, 195), U6, Back(T4, 16, 300)>>),
  Numbered(<<Burst(T4, 100), Burst(T6, 50), T4>>) }

\* one lock holder going through several lock cycles
GenScriptsRounds == {
  Numbered(<<T4, U6, Back(T4, 16, 300), Back(U6, 0, 90)>>),
  Numbered(<<Burst(T6, 91), I4, T6, Burst(T4, 190)>>) }

GenKinds == {"wo", "st", "lq"}

\* ---- generator
\* symmetric lockers begin in order
InOrder(l) == \A l2 \in Lockers : l2 < l => lround[l2] > 0
CtlGen == \/ (mpc \in {"CapNext", "BufNext"} /\ Deliver)
          \/ (\E l \in Lockers, k \in Kinds : InOrder(l) /\ Begin(l, k))
          \/ (\E l \in Lockers : Release(l))
NoCtl == /\ (nextp > Len(script) \/ mpc \notin {"CapNext", "BufNext"})
         /\ \A l \in Lockers : lpc[l] # "Gate" /\ ~(lpc[l] \in {"Idle", "Done"} /\ lround[l] < Rounds)

Header == [bufcap |-> BufCap, elem4 |-> Elem4, elem6 |-> Elem6, nl |-> NL, script |-> script]

GenInit == Init /\ hist = <<>> /\ fin = FALSE
GenNext ==
  \/ /\ ~fin /\ Busy /\ IntNext /\ UNCHANGED <<hist, fin>>
  \/ /\ ~fin /\ ~Busy /\ CtlGen
     /\ hist' = Append(hist, [ev |-> act', pre |-> Obs]) /\ UNCHANGED fin
  \/ /\ ~fin /\ ~Busy /\ NoCtl
     /\ PrintT(<<"TRACE", ToJson([cfg |-> Header, steps |-> Append(hist, [ev |-> [name |-> "End"], pre |-> Obs])])>>)
     /\ fin' = TRUE /\ UNCHANGED <<vars, hist>>
GenSpec == GenInit /\ [][GenNext]_gvars
=============================================================================
