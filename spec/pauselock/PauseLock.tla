------------------------------ MODULE PauseLock ------------------------------
(***************************************************************************)
(* C21 - packets seen while the capture is paused are counted once and     *)
(* unaltered.                                                              *)
(*                                                                         *)
(* The three-point pause lock of a goProbe capture (pkg/capture/capture.go *)
(* process / bufferPackets, gotools/concurrency ThreePointLock, the lock   *)
(* holders of pkg/capture/capture_manager.go) as communicating processes:  *)
(*                                                                         *)
(*  Source   the capture source: hands packets of a finite script to the   *)
(*           capture loop; Unblock() leaves a persistent wake-up token     *)
(*  Main     the capture loop.  Capturing: CapTop (HasLockRequest?) ->     *)
(*           CapNext (blocked in the source) -> Proc (flow log update).    *)
(*           A lock request is confirmed (Confirm), the shared buffer is   *)
(*           taken (Take) and packets are buffered: BufTop                 *)
(*           (HasUnlockRequest?) -> BufNext (blocked in the source) -> add *)
(*           to the local buffer, or Ovf (buffer full: reported, wait for  *)
(*           the unlock).  After the unlock: Drain (buffered packets are   *)
(*           added to the flow log) -> Rel (buffer back to the pool).      *)
(*  Lockers  write-out "wo" (Manager.performWriteout -> rotate), status    *)
(*           "st" (Manager.Status), live query "lq" (Manager.GetFlowMaps): *)
(*           MgrLock (manager mutex; not for lq) -> GetSem (buffer pool,   *)
(*           1 buffer) -> SendReq (request channel, capacity 1) ->         *)
(*           Unblock1 -> AwaitConf (confirm channel, capacity 0:           *)
(*           rendezvous with Main) -> Crit (rotate / aggregate) -> Gate    *)
(*           (wo, st: inside source.Stats(), which the environment may     *)
(*           hold) -> Stat (read and reset the capture counters) ->        *)
(*           SendDone (done channel, capacity 1) -> Unblock2 -> MgrUnlock  *)
(*           -> Done.                                                      *)
(*                                                                         *)
(* Environment (externally controllable) events: Deliver (next packet of   *)
(* the script, a burst of n identical packets), Begin(l, kind),            *)
(* Release(l) (let source.Stats() return).  Everything else is internal.   *)
(*                                                                         *)
(* What the property demands is stated with ghost variables: every packet  *)
(* the loop took is in exactly one place (Accounted), the flow log equals  *)
(* the log in which every packet was added as itself (Unaltered), the loop *)
(* never touches the flow log while a locker is in its critical section    *)
(* (Mutex), the only loss is the packet a full buffer rejected, and it is  *)
(* reported (LossReported); no reachable state is stuck (NoStuck).         *)
(*                                                                         *)
(* Sizes: BufCap / Elem4 / Elem6 are the capacity of the local buffer and  *)
(* the element sizes.  Model checking uses scaled values (capacity 1-2     *)
(* elements); the generator for forward replay uses the real ones (4096,   *)
(* 21, 45 bytes) with bursts.  A burst is taken in one step (the           *)
(* environment delivers its packets back to back, and stops a burst when   *)
(* an overflow is reported).                                               *)
(***************************************************************************)
EXTENDS FlowRule

CONSTANTS NL,            \* number of lockers (1..NL)
          Kinds,         \* kinds of lock holders that occur: subset of {"wo", "st", "lq"}
          Scripts,       \* set of packet sequences (ids = positions)
          BufCap, Elem4, Elem6,
          Rounds,        \* lock cycles per locker
          FamilyFlagBug  \* TRUE: the as-built variant in which an IPv6 packet is buffered with the
                         \* IPv4 flag (negative control: Unaltered must fail)

Lockers == 1..NL

VARIABLES
  script, nextp, src, tok,        \* source
  mpc, cur, buf, used,            \* capture loop and its local buffer
  req, done, pool, mgr,           \* three-point lock channels, buffer pool, manager mutex
  lpc, lkind, lround, ltmp, lres, \* lockers
  flog, stats, ovf,               \* flow log, capture counters, overflows reported
  taken, applied, lost, ideal,    \* ghosts
  act

srcv  == <<script, nextp, src>>
mainv == <<mpc, cur, buf, used>>
lockv == <<req, done, pool, mgr>>
lkv   == <<lpc, lkind, lround, ltmp, lres>>
datav == <<flog, stats, ovf>>
ghost == <<taken, applied, lost, ideal>>
vars  == <<srcv, tok, mainv, lockv, lkv, datav, ghost, act>>

ElemSize(ver) == IF ver = 4 THEN Elem4 ELSE Elem6
ZeroStats == [processed |-> 0, frag |-> 0, trunc |-> 0]

\* what the local buffer keeps of a packet: family flag, parse class, element; orig is a ghost
BufEntry(p) ==
  LET e == Elem(p)
      alt == FamilyFlagBug /\ p.ver = 6
  IN [ver  |-> IF alt THEN 4 ELSE p.ver,
      cls  |-> Classify(p).cls,
      e    |-> IF alt THEN [e EXCEPT !.ver = 4, !.k = [e.k EXCEPT !.ver = 4]] ELSE e,
      orig |-> p]

\* adding n packets of parse class cls to the capture counters
Count(st, cls, n) ==
  IF cls = "Key" THEN [st EXCEPT !.processed = @ + n]
  ELSE IF cls = "Truncated" THEN [st EXCEPT !.processed = @ + n, !.trunc = @ + n]
  ELSE [st EXCEPT !.frag = @ + n]

RECURSIVE DrainLog(_, _), DrainIdeal(_, _), DrainStats(_, _), DrainIds(_)
DrainLog(log, b) ==
  IF b = <<>> THEN log
  ELSE DrainLog(IF Head(b).b.cls = "Key" THEN Apply(log, Head(b).b.e, Head(b).n) ELSE log, Tail(b))
DrainIdeal(log, b) ==
  IF b = <<>> THEN log
  ELSE DrainIdeal(IF Parsed(Head(b).b.orig) THEN Apply(log, Elem(Head(b).b.orig), Head(b).n) ELSE log, Tail(b))
DrainStats(st, b) == IF b = <<>> THEN st ELSE DrainStats(Count(st, Head(b).b.cls, Head(b).n), Tail(b))
DrainIds(b) == IF b = <<>> THEN <<>> ELSE <<[id |-> Head(b).b.orig.id, n |-> Head(b).n]>> \o DrainIds(Tail(b))

Init ==
  /\ script \in Scripts /\ nextp = 1 /\ src = <<>> /\ tok = 0
  /\ mpc = "CapNext" /\ cur = <<>> /\ buf = <<>> /\ used = 0
  /\ req = <<>> /\ done = 0 /\ pool = 1 /\ mgr = 0
  /\ lpc = [l \in Lockers |-> "Idle"] /\ lkind = [l \in Lockers |-> "none"]
  /\ lround = [l \in Lockers |-> 0] /\ ltmp = [l \in Lockers |-> {}] /\ lres = [l \in Lockers |-> <<>>]
  /\ flog = EmptyLog /\ stats = ZeroStats /\ ovf = 0
  /\ taken = <<>> /\ applied = <<>> /\ lost = <<>> /\ ideal = EmptyLog
  /\ act = [name |-> "Init"]

(***************************************************************************)
(* Environment                                                             *)
(***************************************************************************)
Deliver ==
  /\ nextp <= Len(script) /\ src = <<>>
  /\ src' = <<script[nextp]>> /\ nextp' = nextp + 1 /\ UNCHANGED script
  /\ act' = [name |-> "Deliver", p |-> script[nextp]]
  /\ UNCHANGED <<tok, mainv, lockv, lkv, datav, ghost>>

Begin(l, k) ==
  /\ lpc[l] \in {"Idle", "Done"} /\ lround[l] < Rounds /\ k \in Kinds
  /\ lpc' = [lpc EXCEPT ![l] = "MgrLock"] /\ lkind' = [lkind EXCEPT ![l] = k]
  /\ lround' = [lround EXCEPT ![l] = @ + 1] /\ UNCHANGED <<ltmp, lres>>
  /\ act' = [name |-> "Begin", l |-> l, k |-> k]
  /\ UNCHANGED <<srcv, tok, mainv, lockv, datav, ghost>>

Release(l) ==
  /\ lpc[l] = "Gate"
  /\ lpc' = [lpc EXCEPT ![l] = "Stat"] /\ UNCHANGED <<lkind, lround, ltmp, lres>>
  /\ act' = [name |-> "Release", l |-> l]
  /\ UNCHANGED <<srcv, tok, mainv, lockv, datav, ghost>>

Ctl == Deliver \/ (\E l \in Lockers, k \in Kinds : Begin(l, k)) \/ (\E l \in Lockers : Release(l))

(***************************************************************************)
(* Main: the capture loop                                                  *)
(***************************************************************************)
MLabel(n) == act' = [name |-> n]

\* top of the capture loop: HasLockRequest()
M_CapTop ==
  /\ mpc = "CapTop"
  /\ mpc' = IF req # <<>> THEN "Confirm" ELSE "CapNext"
  /\ MLabel("M_CapTop") /\ UNCHANGED <<srcv, tok, cur, buf, used, lockv, lkv, datav, ghost>>

\* blocked in the source: woken by an unblock token
M_CapTok ==
  /\ mpc = "CapNext" /\ tok = 1
  /\ tok' = 0 /\ mpc' = "CapTop"
  /\ MLabel("M_CapTok") /\ UNCHANGED <<srcv, cur, buf, used, lockv, lkv, datav, ghost>>

\* blocked in the source: a packet (burst) arrives
M_CapPkt ==
  /\ mpc = "CapNext" /\ src # <<>>
  /\ cur' = src /\ src' = <<>> /\ mpc' = "Proc"
  /\ taken' = Append(taken, [id |-> src[1].id, n |-> src[1].n])
  /\ MLabel("M_CapPkt") /\ UNCHANGED <<script, nextp, tok, buf, used, lockv, lkv, datav, applied, lost, ideal>>

\* parse and add to the flow log (or count the parsing issue)
M_Proc ==
  /\ mpc = "Proc"
  /\ LET p == cur[1] IN
       /\ flog' = IF Parsed(p) THEN Apply(flog, Elem(p), p.n) ELSE flog
       /\ ideal' = IF Parsed(p) THEN Apply(ideal, Elem(p), p.n) ELSE ideal
       /\ stats' = Count(stats, Classify(p).cls, p.n)
       /\ applied' = Append(applied, [id |-> p.id, n |-> p.n])
  /\ cur' = <<>> /\ mpc' = "CapTop"
  /\ MLabel("M_Proc") /\ UNCHANGED <<srcv, tok, buf, used, lockv, lkv, ovf, taken, lost>>

\* ConfirmLockRequest: rendezvous with the locker whose request is pending
M_Confirm ==
  /\ mpc = "Confirm" /\ req # <<>> /\ lpc[req[1]] = "AwaitConf"
  /\ lpc' = [lpc EXCEPT ![req[1]] = "Crit"] /\ mpc' = "Take"
  /\ MLabel("M_Confirm") /\ UNCHANGED <<srcv, tok, cur, buf, used, lockv, lkind, lround, ltmp, lres, datav, ghost>>

\* ConsumeLockRequest + Assign: the shared buffer now belongs to the loop
M_Take ==
  /\ mpc = "Take"
  /\ req' = <<>> /\ buf' = <<>> /\ used' = 0 /\ mpc' = "BufTop"
  /\ MLabel("M_Take") /\ UNCHANGED <<srcv, tok, cur, done, pool, mgr, lkv, datav, ghost>>

\* top of the buffer loop: HasUnlockRequest()
M_BufTop ==
  /\ mpc = "BufTop"
  /\ IF done = 1 THEN done' = 0 /\ mpc' = "Drain" ELSE done' = done /\ mpc' = "BufNext"
  /\ MLabel("M_BufTop") /\ UNCHANGED <<srcv, tok, cur, buf, used, req, pool, mgr, lkv, datav, ghost>>

M_BufTok ==
  /\ mpc = "BufNext" /\ tok = 1
  /\ tok' = 0 /\ mpc' = "BufTop"
  /\ MLabel("M_BufTok") /\ UNCHANGED <<srcv, cur, buf, used, lockv, lkv, datav, ghost>>

\* a packet (burst) arrives during the pause: LocalBuffer.Add until the buffer is full
M_BufPkt ==
  /\ mpc = "BufNext" /\ src # <<>>
  /\ LET p == src[1]
         room == (BufCap - used) \div ElemSize(p.ver)
         fit == IF p.n <= room THEN p.n ELSE room
     IN /\ src' = <<>>
        /\ buf' = IF fit > 0 THEN Append(buf, [b |-> BufEntry(p), n |-> fit]) ELSE buf
        /\ used' = used + fit * ElemSize(p.ver)
        /\ IF fit = p.n
           THEN /\ mpc' = "BufTop" /\ taken' = Append(taken, [id |-> p.id, n |-> p.n])
                /\ UNCHANGED <<ovf, lost>>
           ELSE \* the packet after the last fitting one is rejected: reported, then the loop waits
                /\ mpc' = "Ovf" /\ ovf' = ovf + 1 /\ lost' = Append(lost, p.id)
                /\ taken' = Append(taken, [id |-> p.id, n |-> fit + 1])
  /\ MLabel("M_BufPkt") /\ UNCHANGED <<script, nextp, tok, cur, lockv, lkv, flog, stats, applied, ideal>>

\* buffer full: blocked in ConsumeUnlockRequest
M_Ovf ==
  /\ mpc = "Ovf" /\ done = 1
  /\ done' = 0 /\ mpc' = "Drain"
  /\ MLabel("M_Ovf") /\ UNCHANGED <<srcv, tok, cur, buf, used, req, pool, mgr, lkv, datav, ghost>>

\* the buffered packets are added to the flow log, in order
M_Drain ==
  /\ mpc = "Drain"
  /\ flog' = DrainLog(flog, buf) /\ ideal' = DrainIdeal(ideal, buf)
  /\ stats' = DrainStats(stats, buf) /\ applied' = applied \o DrainIds(buf)
  /\ buf' = <<>> /\ used' = 0 /\ mpc' = "Rel"
  /\ MLabel("M_Drain") /\ UNCHANGED <<srcv, tok, cur, lockv, lkv, ovf, taken, lost>>

\* Release: the buffer goes back to the pool
M_Rel ==
  /\ mpc = "Rel"
  /\ pool' = pool + 1 /\ mpc' = "CapTop"
  /\ MLabel("M_Rel") /\ UNCHANGED <<srcv, tok, cur, buf, used, req, done, mgr, lkv, datav, ghost>>

MainInt == M_CapTop \/ M_CapTok \/ M_CapPkt \/ M_Proc \/ M_Confirm \/ M_Take \/ M_BufTop \/ M_BufTok
           \/ M_BufPkt \/ M_Ovf \/ M_Drain \/ M_Rel

(***************************************************************************)
(* Lockers                                                                 *)
(***************************************************************************)
LLabel(n, l) == act' = [name |-> n, l |-> l]
Go(l, pc) == lpc' = [lpc EXCEPT ![l] = pc]

\* status and write-out hold the manager mutex for the whole call; a status call also holds the
\* captures lock, which a live query needs for a moment before it asks for the pause
MgrKind == IF mgr = 0 THEN "none" ELSE lkind[mgr]
L_MgrLock(l) ==
  /\ lpc[l] = "MgrLock"
  /\ IF lkind[l] = "lq"
     THEN MgrKind # "st" /\ UNCHANGED mgr
     ELSE mgr = 0 /\ mgr' = l
  /\ Go(l, "GetSem")
  /\ LLabel("L_MgrLock", l) /\ UNCHANGED <<srcv, tok, mainv, req, done, pool, lkind, lround, ltmp, lres, datav, ghost>>

L_GetSem(l) ==
  /\ lpc[l] = "GetSem" /\ pool > 0
  /\ pool' = pool - 1 /\ Go(l, "SendReq")
  /\ LLabel("L_GetSem", l) /\ UNCHANGED <<srcv, tok, mainv, req, done, mgr, lkind, lround, ltmp, lres, datav, ghost>>

L_SendReq(l) ==
  /\ lpc[l] = "SendReq" /\ req = <<>>
  /\ req' = <<l>> /\ Go(l, "Unblock1")
  /\ LLabel("L_SendReq", l) /\ UNCHANGED <<srcv, tok, mainv, done, pool, mgr, lkind, lround, ltmp, lres, datav, ghost>>

L_Unblock1(l) ==
  /\ lpc[l] = "Unblock1"
  /\ tok' = 1 /\ Go(l, "AwaitConf")
  /\ LLabel("L_Unblock1", l) /\ UNCHANGED <<srcv, mainv, lockv, lkind, lround, ltmp, lres, datav, ghost>>

\* the critical section proper: rotation (write-out) / aggregation (live query)
L_Crit(l) ==
  /\ lpc[l] = "Crit"
  /\ IF lkind[l] = "wo"
     THEN /\ ltmp' = [ltmp EXCEPT ![l] = RowSet(AggRows(flog))]
          /\ flog' = RotLog(flog) /\ ideal' = RotLog(ideal) /\ Go(l, "Gate")
     ELSE IF lkind[l] = "lq"
     THEN /\ ltmp' = [ltmp EXCEPT ![l] = RowSet(AggRows(flog))]
          /\ UNCHANGED <<flog, ideal>> /\ Go(l, "SendDone")
     ELSE /\ ltmp' = [ltmp EXCEPT ![l] = {}] /\ UNCHANGED <<flog, ideal>> /\ Go(l, "Gate")
  /\ LLabel("L_Crit", l) /\ UNCHANGED <<srcv, tok, mainv, lockv, lkind, lround, lres, stats, ovf, taken, applied, lost>>

\* after source.Stats() returned: the counters are read and reset
L_Stat(l) ==
  /\ lpc[l] = "Stat"
  /\ ltmp' = [ltmp EXCEPT ![l] = [rows |-> @, stats |-> stats]]
  /\ stats' = ZeroStats /\ Go(l, "SendDone")
  /\ LLabel("L_Stat", l) /\ UNCHANGED <<srcv, tok, mainv, lockv, lkind, lround, lres, flog, ovf, ghost>>

L_SendDone(l) ==
  /\ lpc[l] = "SendDone" /\ done = 0
  /\ done' = 1 /\ Go(l, "Unblock2")
  /\ LLabel("L_SendDone", l) /\ UNCHANGED <<srcv, tok, mainv, req, pool, mgr, lkind, lround, ltmp, lres, datav, ghost>>

L_Unblock2(l) ==
  /\ lpc[l] = "Unblock2"
  /\ tok' = 1 /\ Go(l, "MgrUnlock")
  /\ LLabel("L_Unblock2", l) /\ UNCHANGED <<srcv, mainv, lockv, lkind, lround, ltmp, lres, datav, ghost>>

\* the call returns: its result becomes visible
L_Return(l) ==
  /\ lpc[l] = "MgrUnlock"
  /\ mgr' = IF mgr = l THEN 0 ELSE mgr
  /\ lres' = [lres EXCEPT ![l] = Append(@,
        IF lkind[l] = "lq" THEN [kind |-> "lq", rows |-> ltmp[l], stats |-> ZeroStats]
        ELSE [kind |-> lkind[l], rows |-> ltmp[l].rows, stats |-> ltmp[l].stats])]
  /\ ltmp' = [ltmp EXCEPT ![l] = {}] /\ Go(l, "Done")
  /\ LLabel("L_Return", l) /\ UNCHANGED <<srcv, tok, mainv, req, done, pool, lkind, lround, datav, ghost>>

LockerInt(l) == L_MgrLock(l) \/ L_GetSem(l) \/ L_SendReq(l) \/ L_Unblock1(l) \/ L_Crit(l) \/ L_Stat(l)
                \/ L_SendDone(l) \/ L_Unblock2(l) \/ L_Return(l)

IntNext == MainInt \/ \E l \in Lockers : LockerInt(l)
Next == IntNext \/ Ctl
Spec == Init /\ [][Next]_vars

(***************************************************************************)
(* Quiescence: no internal step is possible (only the environment can move)*)
(***************************************************************************)
MainBusy ==
  \/ mpc \in {"CapTop", "Proc", "Take", "BufTop", "Drain", "Rel"}
  \/ mpc \in {"CapNext", "BufNext"} /\ (tok = 1 \/ src # <<>>)
  \/ mpc = "Confirm" /\ req # <<>> /\ lpc[req[1]] = "AwaitConf"
  \/ mpc = "Ovf" /\ done = 1
LockerBusy(l) ==
  \/ lpc[l] \in {"Unblock1", "Crit", "Stat", "Unblock2", "MgrUnlock"}
  \/ lpc[l] = "MgrLock" /\ (IF lkind[l] = "lq" THEN MgrKind # "st" ELSE mgr = 0)
  \/ lpc[l] = "GetSem" /\ pool > 0
  \/ lpc[l] = "SendReq" /\ req = <<>>
  \/ lpc[l] = "SendDone" /\ done = 0
Busy == MainBusy \/ \E l \in Lockers : LockerBusy(l)

\* what the environment can observe of a locker
LState(l) == IF lpc[l] = "Idle" THEN "idle" ELSE IF lpc[l] = "Done" THEN "done"
             ELSE IF lpc[l] = "Gate" THEN "gate" ELSE "wait"

\* observable state (meaningful in quiescent states)
Obs == [main  |-> IF mpc = "Ovf" THEN "ovf" ELSE "parked",
        mode  |-> mpc,
        lk    |-> [l \in Lockers |-> LState(l)],
        safe  |-> \A l \in Lockers : ~(lpc[l] \in {"Crit", "Gate"} /\ lkind[l] = "wo"),
        flog  |-> FlowSet(flog),
        agg   |-> RowSet(AggRows(flog)),
        res   |-> lres,
        ovf   |-> ovf,
        stats |-> stats,
        buffered |-> Len(buf)]

(***************************************************************************)
(* Properties                                                              *)
(***************************************************************************)
InCritical(l) == lpc[l] \in {"Crit", "Gate", "Stat"}

\* the capture loop never touches the flow log or the counters while a locker is in its critical section
Mutex == mpc \in {"Proc", "Drain"} => \A l \in Lockers : ~InCritical(l)
\* at most one locker is in the critical section
OneHolder == \A l1, l2 \in Lockers : (InCritical(l1) /\ InCritical(l2)) => l1 = l2

RECURSIVE SumN(_, _)
SumN(s, id) == IF s = <<>> THEN 0 ELSE (IF Head(s).id = id THEN Head(s).n ELSE 0) + SumN(Tail(s), id)
BufIds == DrainIds(buf)
CurIds == IF cur = <<>> THEN <<>> ELSE <<[id |-> cur[1].id, n |-> cur[1].n]>>
LostN(id) == Cardinality({i \in 1..Len(lost) : lost[i] = id})

\* every packet the loop took is in exactly one place: added, buffered, being added, or rejected
Accounted == \A id \in 1..Len(script) :
               SumN(taken, id) = SumN(applied, id) + SumN(BufIds, id) + SumN(CurIds, id) + LostN(id)
\* the only loss is a rejected packet, and each rejection is reported
LossReported == ovf = Len(lost)
\* each packet is added as itself: family, key, heuristic direction, capture direction, size
Unaltered == flog = ideal
\* packets are added in the order of their arrival
Ordered == \A i, j \in 1..Len(applied) : i < j => applied[i].id <= applied[j].id

\* the capture counters are conserved across status calls / write-outs
RECURSIVE SumProcessed(_)
SumProcessed(s) == IF s = <<>> THEN 0 ELSE Head(s).stats.processed + SumProcessed(Tail(s))
RECURSIVE SumAll(_, _)
SumAll(f, S) == IF S = {} THEN 0 ELSE LET x == CHOOSE x \in S : TRUE IN f[x] + SumAll(f, S \ {x})
TmpProcessed(l) == IF lpc[l] \in {"SendDone", "Unblock2", "MgrUnlock"} /\ lkind[l] # "lq" THEN ltmp[l].stats.processed ELSE 0
CountedOf(id) == IF Classify(script[id]).cls \in {"Key", "Truncated"} THEN SumN(applied, id) ELSE 0
StatsConserved ==
  stats.processed + SumAll([l \in Lockers |-> SumProcessed(lres[l]) + TmpProcessed(l)], Lockers)
    = SumAll([id \in 1..Len(script) |-> CountedOf(id)], 1..Len(script))

\* deadlock freedom: in a state without internal steps everything that is not finished waits for the
\* environment (a locker parked in source.Stats(), or the next packet)
NoStuck ==
  ~Busy =>
    /\ mpc \in {"CapNext", "BufNext", "Ovf"}
    /\ (mpc = "CapNext" => buf = <<>> /\ \A l \in Lockers : lpc[l] \in {"Idle", "Done"})
    /\ (mpc \in {"BufNext", "Ovf"} => \E l \in Lockers : lpc[l] = "Gate")
    /\ \A l \in Lockers : lpc[l] \notin {"Idle", "Done", "Gate"} => \E l2 \in Lockers : l2 # l /\ lpc[l2] = "Gate"

\* at rest nothing is left behind: every packet taken was added or reported lost
NoLoss ==
  (~Busy /\ mpc = "CapNext") =>
    \A id \in 1..Len(script) : SumN(applied, id) = SumN(taken, id) - LostN(id)

\* self-check of the hand-written quiescence predicate
BusyIsEnabled == Busy <=> ENABLED IntNext
=============================================================================
