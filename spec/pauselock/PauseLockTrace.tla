--------------------------- MODULE PauseLockTrace ---------------------------
(***************************************************************************)
(* Trace validation (code -> spec) for the pause lock.  The Go driver      *)
(* (harness/internal/pauselock drive.go) lets goroutines race on a real    *)
(* capture.Manager: a feeder offering packets to the scripted source and   *)
(* lock holders calling write-outs, status requests and live queries with  *)
(* seeded random pauses.  One NDJSON event is logged, in a single global   *)
(* order, for                                                              *)
(*   Offer    the feeder hands a packet to the source          (Deliver)   *)
(*   Take     the capture loop receives it             (M_CapPkt/M_BufPkt) *)
(*   Woken    the loop leaves the source on an unblock token   (M_*Tok)    *)
(*   Unblock  a lock holder calls source.Unblock()    (L_Unblock1/2)       *)
(*   StatsExit  source.Stats() returns inside the locked section (Release) *)
(* - these are logged atomically with the real state change - and for the  *)
(* observations                                                            *)
(*   NextEnter  the loop is (about to be) blocked in the source            *)
(*   StatsEnter a status / write-out holder is inside its critical section *)
(*   Begin / End  a call starts / has returned, with the result it gave    *)
(*   Final    everything at rest: the flow log                             *)
(* All other steps of PauseLock (lock channel operations, confirmation,    *)
(* drain, release, rotation ...) are not logged: TLC searches for internal *)
(* steps between the logged events.  The log is accepted iff some          *)
(* behaviour of PauseLock explains all of it, including every result and   *)
(* the final flow log (post-condition TraceAccepted: the best explanation  *)
(* found covers the whole log; the search stops as soon as one does).      *)
(***************************************************************************)
EXTENDS PauseLock, Json, TLCExt

TraceLog == ndJsonDeserialize("trace.ndjson")

VARIABLE l
tvars == <<vars, l>>

TKinds == {"wo", "st", "lq"}
TScripts == {<<>>}

ToSet(s) == {s[i] : i \in 1..Len(s)}
Stutter == UNCHANGED vars

\* result of the latest completed call of locker x
LastRes(x) == lres[x][Len(lres[x])]
ResOK(e, r) == /\ r.kind = e.k
               /\ r.rows = ToSet(e.rows)
               /\ (e.k = "lq" \/ (r.stats.processed = e.stats.processed /\ r.stats.frag = e.stats.frag /\ r.stats.trunc = e.stats.trunc))

TReset ==
  /\ script' = <<>> /\ nextp' = 1 /\ src' = <<>> /\ tok' = 0
  /\ mpc' = "CapNext" /\ cur' = <<>> /\ buf' = <<>> /\ used' = 0
  /\ req' = <<>> /\ done' = 0 /\ pool' = 1 /\ mgr' = 0
  /\ lpc' = [x \in Lockers |-> "Idle"] /\ lkind' = [x \in Lockers |-> "none"]
  /\ lround' = [x \in Lockers |-> 0] /\ ltmp' = [x \in Lockers |-> {}] /\ lres' = [x \in Lockers |-> <<>>]
  /\ flog' = EmptyLog /\ stats' = ZeroStats /\ ovf' = 0
  /\ taken' = <<>> /\ applied' = <<>> /\ lost' = <<>> /\ ideal' = EmptyLog
  /\ act' = [name |-> "Reset"]

TOffer(p) ==
  /\ src = <<>> /\ src' = <<p>> /\ UNCHANGED <<script, nextp>>
  /\ act' = [name |-> "Offer"]
  /\ UNCHANGED <<tok, mainv, lockv, lkv, datav, ghost>>

\* the logged event e is explained by one step of the model (or is an observation of its state)
Step(e) ==
  CASE e.ev = "Reset"      -> TReset
    [] e.ev = "Offer"      -> TOffer(e.p)
    [] e.ev = "Take"       -> M_CapPkt \/ M_BufPkt
    [] e.ev = "Woken"      -> M_CapTok \/ M_BufTok
    [] e.ev = "Unblock"    -> \E x \in Lockers : L_Unblock1(x) \/ L_Unblock2(x)
    [] e.ev = "StatsExit"  -> \E x \in Lockers : Release(x)
    [] e.ev = "NextEnter"  -> mpc \in {"CapNext", "BufNext"} /\ Stutter
    [] e.ev = "StatsEnter" -> (\E x \in Lockers : lpc[x] = "Gate") /\ Stutter
    [] e.ev = "Begin"      -> Begin(e.l, e.k)
    [] e.ev = "End"        -> lpc[e.l] = "Done" /\ Len(lres[e.l]) > 0 /\ ResOK(e, LastRes(e.l)) /\ Stutter
    [] e.ev = "Final"      -> ~Busy /\ mpc = "CapNext" /\ FlowSet(flog) = ToSet(e.flog) /\ Stutter

\* steps the log does not show
Hidden == \/ M_CapTop \/ M_Proc \/ M_Confirm \/ M_Take \/ M_BufTop \/ M_Ovf \/ M_Drain \/ M_Rel
          \/ \E x \in Lockers : L_MgrLock(x) \/ L_GetSem(x) \/ L_SendReq(x) \/ L_Crit(x) \/ L_Stat(x) \/ L_SendDone(x) \/ L_Return(x)

TraceInit == Init /\ l = 1

TraceNext ==
  \/ /\ l <= Len(TraceLog) /\ Hidden /\ UNCHANGED l
  \/ /\ l <= Len(TraceLog) /\ Step(TraceLog[l]) /\ l' = l + 1
     /\ TLCSet(1, IF l > TLCGet(1) THEN l ELSE TLCGet(1))
     /\ (l = Len(TraceLog) => TLCSet("exit", TRUE))     \* the whole log is explained: stop searching

TraceSpec == TraceInit /\ [][TraceNext]_tvars

\* register 1 = number of events of the best explanation found; the log is accepted iff it is all of it
ASSUME TLCSet(1, 0)
TraceAccepted ==
  \/ TLCGet(1) = Len(TraceLog)
  \/ PrintT(<<"INFO", ToJson([line |-> TLCGet(1), total |-> Len(TraceLog)])>>) /\ FALSE
TView == <<srcv, tok, mainv, lockv, lkv, datav, l>>
=============================================================================
