----------------------------- MODULE FlowLogGen -----------------------------
(***************************************************************************)
(* Behaviour generator for forward replay (spec -> code) of FlowLog: every *)
(* behaviour of length Depth (exhaustive BFS or -simulate) is printed once *)
(* as a list of steps [act, exp]; exp is the observable state after the    *)
(* step: flows with traffic in memory, their stored view, and after a      *)
(* Rotate the block that was written.                                      *)
(***************************************************************************)
EXTENDS FlowLog, Json
CONSTANT Depth
VARIABLES hist, fin
gvars == <<vars, hist, fin>>

\* ---- packets: both IP versions, TCP / UDP / ICMP / other, both directions, several client ports
\* towards one service (source port aggregation), handshakes, a response seen first, multicast,
\* two common ports, packets without a key
T4a == MkPkt(4, TCP, "A", "u", 40000, "B", "u", 443, 16, "in", 100)
T4b == MkPkt(4, TCP, "A", "u", 40001, "B", "u", 443, 24, "in", 1500)
T4s == MkPkt(4, TCP, "C", "u", 51000, "B", "u", 8080, 2, "out", 60)      \* SYN
T6  == MkPkt(6, TCP, "A", "u", 50000, "B", "u", 22, 16, "out", 1400)
T6b == MkPkt(6, TCP, "A", "u", 50001, "B", "u", 22, 16, "out", 90)
U6  == MkPkt(6, UDP, "B", "u", 53, "A", "u", 50000, 0, "in", 120)        \* response seen first
U4m == MkPkt(4, UDP, "C", "u", 5353, "M", "m", 5353, 0, "out", 80)
U4c == MkPkt(4, UDP, "A", "u", 53, "B", "u", 443, 0, "in", 70)           \* both ports common
I4  == MkPkt(4, ICMP4, "A", "u", 0, "B", "u", 0, 8, "out", 84)
I6  == MkPkt(6, ICMP6, "B", "u", 0, "A", "u", 0, 129, "in", 64)          \* echo reply seen first
E4  == MkPkt(4, ESP, "A", "u", 0, "C", "u", 0, 0, "in", 200)
G6  == MkPkt(6, 47, "C", "u", 0, "A", "u", 0, 0, "out", 300)             \* GRE
\* a client port BELOW the server port, both outside the common and the ephemeral ports (790 -> 2049): the
\* handshake says who the client is, the ports alone say the opposite ("probably reverse")
T6n == MkPkt(6, TCP, "C", "u", 790, "B", "u", 2049, 2, "in", 74)          \* SYN
T6m == MkPkt(6, TCP, "C", "u", 790, "B", "u", 2049, 16, "in", 60)         \* a later segment of the client
T4n == MkPkt(4, TCP, "A", "u", 790, "C", "u", 2049, 2, "out", 74)
T4m == MkPkt(4, TCP, "A", "u", 790, "C", "u", 2049, 24, "out", 900)

GenPktsSmall == {T4a, Back(T4a, 16, 300), T4b, U6, Back(U6, 0, 90), I4, Back(I4, 0, 84), AsFragment(T4a)}
GenPktsAll == {T4a, Back(T4a, 16, 300), T4b, Back(T4b, 16, 52), T4s, Back(T4s, 18, 60), T6, Back(T6, 24, 200), T6b,
               U6, Back(U6, 0, 90), U4m, U4c, Back(U4c, 0, 71), I4, Back(I4, 0, 84), I6, Back(I6, 128, 64),
               E4, Back(E4, 0, 210), G6, AsFragment(T4b), AsTruncated(T6), AsTruncated(U6),
               T6n, T6m, Back(T6n, 18, 74), T4n, T4m}

\* The history keeps only the actions; the expected observations are computed when the behaviour is
\* printed, by running the same functions the actions use (PktLog, RotLog, AggRows) over the history.
\* (TLC computes every successor in simulation mode: observations inside hist' would be computed
\* for all of them.)  The final log of that run must be the model's log.
RECURSIVE ExplainFrom(_, _, _, _)
Ex2(h, i, a, lg2, nb2, blk) ==
  <<[act |-> a, exp |-> [flows |-> FlowSet(lg2), agg |-> RowSet(AggRows(lg2)), nblocks |-> nb2, block |-> blk]]>>
    \o ExplainFrom(h, i + 1, lg2, nb2)
ExplainFrom(h, i, lg, nb) ==
  IF i > Len(h) THEN <<>>
  ELSE IF h[i].name = "Rotate" THEN Ex2(h, i, h[i], RotLog(lg), nb + 1, RowSet(AggRows(lg)))
  ELSE Ex2(h, i, h[i], PktLog(lg, h[i].p), nb, {})
RECURSIVE FinalLog(_, _, _)
FinalLog(h, i, lg) == IF i > Len(h) THEN lg
                      ELSE FinalLog(h, i + 1, IF h[i].name = "Rotate" THEN RotLog(lg) ELSE PktLog(lg, h[i].p))

GenInit == Init /\ hist = <<>> /\ fin = FALSE
GenNext ==
  \/ /\ ~fin /\ Len(hist) < Depth
     /\ Next
     /\ hist' = Append(hist, act')
     /\ UNCHANGED fin
  \/ /\ ~fin /\ Len(hist) = Depth
     /\ Assert(FinalLog(hist, 1, EmptyLog) = log, "generator replay disagrees with the model state")
     /\ PrintT(<<"TRACE", ToJson(ExplainFrom(hist, 1, EmptyLog, 0))>>)
     /\ fin' = TRUE /\ hist' = <<>>
     /\ log' = EmptyLog /\ db' = <<>> /\ seen' = Zero /\ touch' = {} /\ ivl' = EmptyLog /\ ignored' = 0 /\ npk' = 0
     /\ act' = [name |-> "Done"]
GenSpec == GenInit /\ [][GenNext]_gvars
=============================================================================
