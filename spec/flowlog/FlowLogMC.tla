----------------------------- MODULE FlowLogMC -----------------------------
(***************************************************************************)
(* Bounded exhaustive exploration: 3 conversations (IPv4 TCP to a common   *)
(* port with two client ports, IPv6 UDP, ICMP echo) in both directions,    *)
(* one unparseable packet, up to MaxPkts packets and MaxRot rotations at   *)
(* every position.                                                         *)
(***************************************************************************)
EXTENDS FlowLog
CONSTANTS MaxPkts, MaxRot

T4a == MkPkt(4, TCP, "A", "u", 40000, "B", "u", 443, 16, "in", 3)
T4b == MkPkt(4, TCP, "A", "u", 40001, "B", "u", 443, 16, "in", 5)     \* same stored row as T4a
U6  == MkPkt(6, UDP, "B", "u", 53, "A", "u", 50000, 0, "out", 7)       \* response seen first
I4  == MkPkt(4, ICMP4, "A", "u", 0, "B", "u", 0, 8, "out", 2)

MCPkts == {T4a, Back(T4a, 16, 11), T4b, U6, Back(U6, 0, 1), I4, Back(I4, 0, 2), AsFragment(T4a)}
Bound == npk <= MaxPkts /\ Len(db) <= MaxRot
View == <<log, db, seen, touch, ivl, ignored>>
=============================================================================
