SPECIFICATION GenSpec
CONSTANTS
  Pkts <- GenPktsAll
  Depth = 40
CHECK_DEADLOCK FALSE
