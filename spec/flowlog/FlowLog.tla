------------------------------ MODULE FlowLog ------------------------------
(***************************************************************************)
(* C20 - captured traffic is fully accounted for across write-outs.        *)
(*                                                                         *)
(* The flow log of a capture and the database it is written to, at the     *)
(* granularity of pkg/capture (addToFlowLog, FlowLog.Rotate) and           *)
(* pkg/goprobe/writeout + pkg/goDB (one block per write-out):              *)
(*   log    flow key (with source port where the parsing rule keeps it)    *)
(*          -> counters [br, bs, pr, ps] (bytes / packets received, sent)  *)
(*   db     sequence of written blocks [ts, rows], rows: stored key (no    *)
(*          source port) -> counters                                       *)
(* Actions: Packet(p) - a packet delivered by the capture source is parsed *)
(* (PacketRule) and, if it has a key, added to the flow of its             *)
(* conversation (forward / reverse lookup, orientation of a new flow by    *)
(* the direction heuristic - FlowRule).  Rotate - the write-out: flows     *)
(* with traffic are emitted with the source port aggregated away and form  *)
(* the next block, their counters are reset, flows without traffic in the  *)
(* interval are written nowhere and dropped.                               *)
(*                                                                         *)
(* Ghosts: seen (sum of the parsed packets per counter), touch (which      *)
(* record each conversation was counted in during the current interval),   *)
(* ivl (what the current interval's block must contain).                   *)
(***************************************************************************)
EXTENDS FlowRule

CONSTANTS Pkts       \* the packets that may arrive (each any number of times)

VARIABLES log, db, seen, touch, ivl, ignored, npk, act
vars == <<log, db, seen, touch, ivl, ignored, npk, act>>

\* the conversation of a packet as seen on the wire: unordered pair of endpoints
Conv(p) == [ver |-> p.ver, proto |-> p.proto, ends |-> {<<p.sip, p.sport>>, <<p.dip, p.dport>>}]

\* per-packet tables (constant level: evaluated once)
ParsedOf == [p \in Pkts |-> Parsed(p)]
ElemOf   == [p \in Pkts |-> IF Parsed(p) THEN Elem(p) ELSE <<>>]
ConvOf   == [p \in Pkts |-> Conv(p)]
CntOf    == [p \in Pkts |-> Cnt(p.ptype, p.size, 1)]

Init == /\ log = EmptyLog /\ db = <<>> /\ seen = Zero /\ touch = {} /\ ivl = EmptyLog /\ ignored = 0 /\ npk = 0
        /\ act = [name |-> "Init"]

\* a packet without a key (non-first fragment, truncated) only bumps an error counter
Ignore(p) == /\ ~ParsedOf[p]
             /\ ignored' = ignored + 1 /\ npk' = npk + 1
             /\ act' = [name |-> "Packet", p |-> p, how |-> "ignored"]
             /\ UNCHANGED <<log, db, seen, touch, ivl>>

\* the flow log after packet p (pure function, also used by the generator to print expectations)
PktLog(lg, p) == IF ParsedOf[p] THEN Apply(lg, ElemOf[p], 1) ELSE lg

AccountAs(p, e, s, c) ==
  /\ log' = PktLog(log, p)
  /\ seen' = AddC(seen, c)
  /\ touch' = touch \cup {<<ConvOf[p], s>>}
  /\ ivl' = IF AggK(s) \in DOMAIN ivl THEN [ivl EXCEPT ![AggK(s)] = AddC(@, c)] ELSE Put(ivl, AggK(s), c)
  /\ act' = [name |-> "Packet", p |-> p,
             how |-> IF e.k \in DOMAIN log THEN "forward" ELSE IF RevK(e.k) \in DOMAIN log THEN "reverse"
                     ELSE IF e.dirn = "reverts" THEN "new-mirrored" ELSE "new"]
  /\ npk' = npk + 1 /\ UNCHANGED <<db, ignored>>

\* (operator arguments instead of LET: TLC evaluates them once)
Account(p) == ParsedOf[p] /\ AccountAs(p, ElemOf[p], Slot(log, ElemOf[p]), CntOf[p])

Packet(p) == Ignore(p) \/ Account(p)

Rotate ==
  /\ db' = Append(db, [ts |-> Len(db) + 1, rows |-> AggRows(log)])
  /\ log' = RotLog(log)
  /\ touch' = {} /\ ivl' = EmptyLog
  /\ act' = [name |-> "Rotate", ts |-> Len(db) + 1]
  /\ UNCHANGED <<seen, ignored, npk>>

Next == (\E p \in Pkts : Packet(p)) \/ Rotate
Spec == Init /\ [][Next]_vars

\* observables: flows with traffic in memory, their stored view, the written blocks
Blocks == [i \in 1..Len(db) |-> [ts |-> db[i].ts, rows |-> RowSet(db[i].rows)]]
Obs == [flows |-> FlowSet(log), agg |-> RowSet(AggRows(log)), nblocks |-> Len(db)]

(***************************************************************************)
(* Properties                                                              *)
(***************************************************************************)
RECURSIVE SumDb(_)
SumDb(d) == IF d = <<>> THEN Zero ELSE AddC(Total(d[1].rows), SumDb(Tail(d)))

\* bytes and packets in each direction: written blocks + flows in memory = parsed packets
Conservation == AddC(SumDb(db), Total(log)) = seen

\* both directions of a conversation are counted in one record per interval
OneRecordPerConversationPerInterval ==
  /\ \A t1, t2 \in touch : t1[1] = t2[1] => t1[2] = t2[2]
  /\ \A k \in DOMAIN log : RevK(k) # k => RevK(k) \notin DOMAIN log

\* stored rows carry no source port, and flows that differ only in it are one row
StoredKeyFields == {"ver", "sip", "dip", "dport", "proto"}
NoSportInDb == \A i \in 1..Len(db) : \A r \in DOMAIN db[i].rows : DOMAIN r = StoredKeyFields

\* no row without traffic
NoIdleRows == \A i \in 1..Len(db) : \A r \in DOMAIN db[i].rows : Traffic(db[i].rows[r])

\* a block is exactly the traffic of its interval (action property)
BlockIsInterval == [][act'.name = "Rotate" => db'[Len(db')].rows = ivl]_vars
=============================================================================
