SPECIFICATION Spec
CONSTANTS
  Pkts <- MCPkts
  MaxPkts = 5
  MaxRot = 3
INVARIANTS Conservation OneRecordPerConversationPerInterval NoSportInDb NoIdleRows
PROPERTIES BlockIsInterval
CONSTRAINT Bound
VIEW View
CHECK_DEADLOCK FALSE
