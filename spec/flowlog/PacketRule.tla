----------------------------- MODULE PacketRule -----------------------------
(***************************************************************************)
(* Packet parsing of goProbe (pkg/capture/flow.go ParsePacketV4/V6) as the *)
(* documentation and property C19 describe it: from the IP layer of a      *)
(* packet as delivered by the capture source the parser either classifies  *)
(* the packet (non-first fragment, truncated) or extracts the flow key     *)
(*      source address, destination address, IP protocol, destination port *)
(* where for the documented common service ports (53,80,443,445,8080/tcp,  *)
(* 53,443/udp) the port of the *ephemeral* side of the conversation is     *)
(* dropped (so that every DNS/HTTP(S) request does not open a new flow).   *)
(*                                                                         *)
(* A packet is a record of abstract header fields                          *)
(*   ver      4 | 6                                                        *)
(*   len      number of bytes of the IP layer that were delivered          *)
(*   ihl      header length in 32 bit words (IPv4: 5..15, IPv6: always 10) *)
(*   fragOff  IPv4 fragment offset (13 bit), 0 for IPv6                    *)
(*   proto    IP protocol / IPv6 next header                               *)
(*   sip,dip  address identities (the harness owns the bytes)              *)
(*   sport,dport  TCP/UDP ports on the wire                                *)
(*   tcpFlags byte 13 of the TCP header, icmpType byte 0 of the ICMP hdr   *)
(*                                                                         *)
(* This module is the constant level: Classify(p), the declarative rule    *)
(* (what the property demands), Reverse / MirrorOut and the mirror law     *)
(*        Classify(Reverse(p)) = MirrorOut(Classify(p)).                   *)
(* Packet.tla adds the decision procedure as a state machine and the laws  *)
(* TLC checks; Direction.tla (C22) builds the flow log on top of the rule. *)
(***************************************************************************)
EXTENDS Integers, Sequences, FiniteSets, TLC

TCP   == 6
UDP   == 17
ICMP4 == 1
ESP   == 50
ICMP6 == 58

\* documented common service ports
CommonPorts(proto) == IF proto = TCP THEN {53, 80, 443, 445, 8080}
                      ELSE IF proto = UDP THEN {53, 443} ELSE {}
IsCommon(port, proto) == port \in CommonPorts(proto)

FixedHdr(ver)  == IF ver = 4 THEN 20 ELSE 40
HdrLen(p)      == 4 * p.ihl                      \* IPv6: ihl = 10 by convention
IcmpProto(ver) == IF ver = 4 THEN ICMP4 ELSE ICMP6
HasPorts(p)    == p.proto \in {TCP, UDP}
IsIcmp(p)      == p.proto = IcmpProto(p.ver)

\* transport header bytes the parser needs: TCP up to the flags byte, UDP the two ports,
\* ICMP the type byte, nothing for every other protocol
Need(p) == IF p.proto = TCP THEN 14 ELSE IF p.proto = UDP THEN 4 ELSE IF IsIcmp(p) THEN 1 ELSE 0

\* not even the fixed IP header was delivered (outside the contract of the capture source)
ShortHeader(p) == p.len < FixedHdr(p.ver)

\* A non-first fragment carries no transport header.  Documented exception: ESP has no
\* transport information anyway, ESP fragments are treated like any other ESP packet.
IsFragment(p) == p.ver = 4 /\ p.proto # ESP /\ p.fragOff # 0

Truncated(p) == p.len < HdrLen(p) + Need(p)

\* The common-port rule.  A port is dropped (0) iff it belongs to the ephemeral side, i.e. iff
\* the *other* side's port is a common service port and this one is not.  (If both ports are
\* common service ports neither side is ephemeral: nothing is dropped.)
SportDropped(p) == IsCommon(p.dport, p.proto) /\ ~IsCommon(p.sport, p.proto)
DportDropped(p) == IsCommon(p.sport, p.proto) /\ ~IsCommon(p.dport, p.proto)
KSport(p) == IF HasPorts(p) /\ ~SportDropped(p) THEN p.sport ELSE 0
KDport(p) == IF HasPorts(p) /\ ~DportDropped(p) THEN p.dport ELSE 0
Aux(p)    == IF p.proto = TCP THEN p.tcpFlags ELSE IF IsIcmp(p) THEN p.icmpType ELSE 0

NoKey(cls) == [cls |-> cls, sip |-> "", sport |-> 0, dip |-> "", dport |-> 0, proto |-> 0, aux |-> 0]
KeyOut(p)  == [cls |-> "Key", sip |-> p.sip, sport |-> KSport(p), dip |-> p.dip, dport |-> KDport(p),
               proto |-> p.proto, aux |-> Aux(p)]

Classify(p) == IF ShortHeader(p) THEN NoKey("Truncated")
               ELSE IF IsFragment(p) THEN NoKey("Fragment")
               ELSE IF Truncated(p) THEN NoKey("Truncated")
               ELSE KeyOut(p)

\* the packet of the same conversation travelling the other way
Reverse(p) == [p EXCEPT !.sip = p.dip, !.dip = p.sip, !.sport = p.dport, !.dport = p.sport]
\* the mirror image of a parse result (EPHash.Reverse)
MirrorOut(o) == IF o.cls = "Key"
                THEN [o EXCEPT !.sip = o.dip, !.dip = o.sip, !.sport = o.dport, !.dport = o.sport]
                ELSE o
MirrorLaw(p) == Classify(Reverse(p)) = MirrorOut(Classify(p))

\* abstract classes of a packet, used by the checks for stable violation descriptors and to
\* separate what the property judges from what is only recorded
Tags(p) ==
  (IF ShortHeader(p) THEN {"short-header"} ELSE {}) \cup
  (IF p.ver = 4 /\ p.ihl > 5 THEN {"ip-options"} ELSE {}) \cup
  (IF HasPorts(p) /\ IsCommon(p.sport, p.proto) /\ IsCommon(p.dport, p.proto) THEN {"both-ports-common"} ELSE {}) \cup
  (IF HasPorts(p) /\ (IsCommon(p.sport, p.proto) # IsCommon(p.dport, p.proto)) THEN {"one-port-common"} ELSE {}) \cup
  (IF p.proto = ESP /\ p.ver = 4 /\ p.fragOff # 0 THEN {"esp-fragment"} ELSE {})
=============================================================================
