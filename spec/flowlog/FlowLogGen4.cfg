SPECIFICATION GenSpec
CONSTANTS
  Pkts <- GenPktsSmall
  Depth = 4
CHECK_DEADLOCK FALSE
