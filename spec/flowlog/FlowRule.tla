------------------------------ MODULE FlowRule ------------------------------
(***************************************************************************)
(* Constant level rules of goProbe's flow log (pkg/capture capture.go      *)
(* addToFlowLogV4/V6, flow.go Rotate/Aggregate), shared by the families    *)
(* pauselock (C21) and flowlog (C20) -- the file is identical in both      *)
(* spec directories (each family directory is copied alone for TLC).       *)
(*                                                                         *)
(* PacketRule (C19) gives the key a packet is parsed to; the direction     *)
(* heuristic is the one of spec/packet/Direction.tla (C22), copied here on *)
(* the constant level.  On top of them:                                    *)
(*   element   what the capture loop knows about a parsed packet when it   *)
(*             adds it to the flow log (directly, or after it sat in the   *)
(*             local buffer): IP version, key, heuristic direction,        *)
(*             capture direction (in / out) and wire size                  *)
(*   Apply     a packet updates the flow stored under its key or the       *)
(*             mirrored key; the first packet of a conversation creates    *)
(*             the flow, mirrored if the heuristic says "response"         *)
(*   Rotate    flows with traffic are emitted with the source port         *)
(*             aggregated away and reset; flows without traffic in the     *)
(*             interval are emitted nowhere and dropped                    *)
(* A packet record is the one of PacketRule plus                           *)
(*   scls,dcls classes of the two addresses: "u" unicast, "m" multicast,   *)
(*             "b" broadcast                                               *)
(*   ptype     "in" | "out"  (capture direction: received / sent counters) *)
(*   size      bytes on the wire                                           *)
(*   n         burst: n identical packets back to back                     *)
(*   id        identity of the packet in the script                        *)
(***************************************************************************)
EXTENDS PacketRule

Bit(a, w) == (a \div w) % 2 = 1
Syn(a) == Bit(a, 2)
Ack(a) == Bit(a, 16)

FKey(ver, o) == [ver |-> ver, sip |-> o.sip, sport |-> o.sport, dip |-> o.dip, dport |-> o.dport, proto |-> o.proto]
RevK(k) == [k EXCEPT !.sip = k.dip, !.dip = k.sip, !.sport = k.dport, !.dport = k.sport]

Eph(port) == port >= 32768 \/ port = 0
ByPorts(s, d) == IF Eph(s) /\ ~Eph(d) THEN "remains"
                 ELSE IF ~Eph(s) /\ Eph(d) THEN "reverts"
                 ELSE IF d < s THEN "remains"
                 ELSE IF s < d THEN "reverts"
                 ELSE "remains"

Icmp4Dir(t) == IF t \in {0, 3, 11, 12, 14} THEN "reverts" ELSE IF t \in {8, 13} THEN "remains" ELSE "unknown"
Icmp6Dir(t) == IF t \in {129, 1, 3, 4} THEN "reverts" ELSE IF t = 128 THEN "remains" ELSE "unknown"

\* the direction heuristic on the parsed key o (with its auxiliary byte) of packet p
Dir(p, o) ==
  IF o.proto = TCP THEN (IF Syn(o.aux) THEN (IF Ack(o.aux) THEN "reverts" ELSE "remains") ELSE ByPorts(o.sport, o.dport))
  ELSE IF o.proto = UDP THEN (IF p.dcls \in {"m", "b"} THEN "remains" ELSE ByPorts(o.sport, o.dport))
  ELSE IF p.ver = 4 /\ o.proto = ICMP4 THEN Icmp4Dir(o.aux)
  ELSE IF p.ver = 6 /\ o.proto = ICMP6 THEN (IF p.dcls = "m" THEN "remains" ELSE Icmp6Dir(o.aux))
  ELSE "unknown"

Parsed(p) == Classify(p).cls = "Key"

\* the element of packet p (only meaningful for parsed packets)
Elem(p) == [ver |-> p.ver, k |-> FKey(p.ver, Classify(p)), dirn |-> Dir(p, Classify(p)),
            ptype |-> p.ptype, size |-> p.size]

(***************************************************************************)
(* Counters and the flow log (a function key -> counters)                  *)
(***************************************************************************)
Zero == [br |-> 0, bs |-> 0, pr |-> 0, ps |-> 0]
AddC(a, b) == [br |-> a.br + b.br, bs |-> a.bs + b.bs, pr |-> a.pr + b.pr, ps |-> a.ps + b.ps]
\* n packets of the given size seen in capture direction ptype
Cnt(ptype, size, n) == IF ptype = "out" THEN [br |-> 0, bs |-> size * n, pr |-> 0, ps |-> n]
                                        ELSE [br |-> size * n, bs |-> 0, pr |-> n, ps |-> 0]
Traffic(c) == c.pr > 0 \/ c.ps > 0

EmptyLog == <<>>
Put(f, k, v) == [x \in DOMAIN f \cup {k} |-> IF x = k THEN v ELSE f[x]]

\* the key of the log under which element e is (or will be) accounted
Slot(log, e) == IF e.k \in DOMAIN log THEN e.k
                ELSE IF RevK(e.k) \in DOMAIN log THEN RevK(e.k)
                ELSE IF e.dirn = "reverts" THEN RevK(e.k) ELSE e.k

\* n packets with element e are added to the log
Apply(log, e, n) ==
  LET s == Slot(log, e)
      c == Cnt(e.ptype, e.size, n)
  IN IF s \in DOMAIN log THEN [log EXCEPT ![s] = AddC(@, c)] ELSE Put(log, s, c)

(***************************************************************************)
(* Aggregation and rotation                                                *)
(***************************************************************************)
AggK(k) == [ver |-> k.ver, sip |-> k.sip, dip |-> k.dip, dport |-> k.dport, proto |-> k.proto]

RECURSIVE SumC(_, _)
SumC(log, S) == IF S = {} THEN Zero
                ELSE LET x == CHOOSE x \in S : TRUE IN AddC(log[x], SumC(log, S \ {x}))

Active(log) == {k \in DOMAIN log : Traffic(log[k])}

\* the stored view: flows with traffic, source port aggregated away
AggRows(log) ==
  LET A == Active(log) IN
  [a \in {AggK(k) : k \in A} |-> SumC(log, {k \in A : AggK(k) = a})]

\* the flow log after a rotation: counters reset, flows that were already idle are dropped
RotLog(log) == [k \in Active(log) |-> Zero]

Total(log) == SumC(log, DOMAIN log)

(***************************************************************************)
(* Packet constructors for scripts                                         *)
(***************************************************************************)
\* a complete, unfragmented packet; aux = TCP flags / ICMP type
MkPkt(ver, proto, sip, scls, sport, dip, dcls, dport, aux, ptype, size) ==
  [id |-> 0, n |-> 1, ver |-> ver, len |-> IF ver = 4 THEN 60 ELSE 80, ihl |-> IF ver = 4 THEN 5 ELSE 10,
   fragOff |-> 0, proto |-> proto, sip |-> sip, dip |-> dip, scls |-> scls, dcls |-> dcls,
   sport |-> IF proto \in {TCP, UDP} THEN sport ELSE 0, dport |-> IF proto \in {TCP, UDP} THEN dport ELSE 0,
   tcpFlags |-> IF proto = TCP THEN aux ELSE 0, icmpType |-> IF proto = IcmpProto(ver) THEN aux ELSE 0,
   ptype |-> ptype, size |-> size]
\* the packet of the same conversation travelling the other way (captured in the other direction)
Back(p, aux, size) ==
  [p EXCEPT !.sip = p.dip, !.dip = p.sip, !.sport = p.dport, !.dport = p.sport, !.scls = p.dcls, !.dcls = p.scls,
            !.tcpFlags = IF p.proto = TCP THEN aux ELSE 0, !.icmpType = IF p.proto = IcmpProto(p.ver) THEN aux ELSE 0,
            !.ptype = IF p.ptype = "in" THEN "out" ELSE "in", !.size = size]
Burst(p, n) == [p EXCEPT !.n = n]
\* a non-first IPv4 fragment / a packet cut inside its transport header
AsFragment(p) == [p EXCEPT !.fragOff = 185]
AsTruncated(p) == [p EXCEPT !.len = HdrLen(p) + Need(p) - 1]
\* number the packets of a script by position
Numbered(s) == [i \in 1..Len(s) |-> [s[i] EXCEPT !.id = i]]

\* JSON friendly forms
FlowSet(log) == {[k |-> k, c |-> log[k]] : k \in Active(log)}
RowSet(rows) == {[k |-> a, c |-> rows[a]] : a \in DOMAIN rows}
=============================================================================
