--------------------------- MODULE FlowMapTrace ---------------------------
(***************************************************************************)
(* Trace validation (code -> spec) for the flow hash map.  The Go driver   *)
(* (harness/internal/flowmap, Drive) performs long seeded operation        *)
(* sequences on pkg/types/hashmap and logs one NDJSON event per FlowMap    *)
(* action: the action's arguments and the observables the implementation   *)
(* showed *after* the call returned (Len of both maps, Get of the touched  *)
(* key and, on "full" events, a complete iteration).  The trace is a       *)
(* behaviour of FlowMap iff every event is the spec action with the same   *)
(* arguments AND the logged observables equal the model state.  Keys are   *)
(* key numbers (the harness owns the concretisation to key bytes).         *)
(***************************************************************************)
EXTENDS FlowMap, Json

TraceLog == ndJsonDeserialize("trace.ndjson")

VARIABLE l
tvars == <<vars, l>>

Tup(q) == <<q[1], q[2], q[3], q[4]>>

\* observables of event e agree with model maps mm / ss
IterOK(e, mm) ==
  LET it == e.iter IN
  /\ Len(it) = Size(mm)
  /\ \A i \in 1..Len(it) : /\ it[i][1] \in DOMAIN mm
                           /\ mm[it[i][1]] = <<it[i][2], it[i][3], it[i][4], it[i][5]>>
  /\ \A i \in 1..(Len(it) - 1) : it[i][1] < it[i + 1][1]     \* each entry exactly once

GetOK(e, mm) ==
  e.k = 0 \/ IF e.k \in DOMAIN mm THEN Len(e.get) = 4 /\ Tup(e.get) = mm[e.k]
                                   ELSE Len(e.get) = 0

ObsOK(e, mm, ss) == /\ e.mlen = Size(mm)
                    /\ e.slen = Size(ss)
                    /\ GetOK(e, mm)
                    /\ (e.full => IterOK(e, mm))

Reset == m' = Empty /\ s' = Empty /\ live' = TRUE /\ act' = [name |-> "Reset"]

Step(e) ==
  CASE e.ev = "Reset"          -> Reset
    [] e.ev = "Set"            -> Set(e.k, Tup(e.v))
    [] e.ev = "SetOrUpdate"    -> SetOrUpdate(e.k, Tup(e.v))
    [] e.ev = "SrcSetOrUpdate" -> SrcSetOrUpdate(e.k, Tup(e.v))
    [] e.ev = "Merge"          -> Merge
    [] e.ev = "Clear"          -> Clear
    [] e.ev = "NewMap"         -> NewMap
    [] e.ev = "NewSrc"         -> NewSrc

Explain(e, mm, ss) ==
  [line |-> l, ev |-> e.ev, k |-> e.k,
   model_mlen |-> Size(mm), model_slen |-> Size(ss),
   model_get |-> IF e.k \in DOMAIN mm THEN mm[e.k] ELSE <<>>,
   len_ok |-> e.mlen = Size(mm) /\ e.slen = Size(ss), get_ok |-> GetOK(e, mm),
   iter_ok |-> (e.full => IterOK(e, mm))]

TraceInit == Init /\ l = 1

TraceNext ==
  /\ l <= Len(TraceLog)
  /\ LET e == TraceLog[l] IN
       /\ Step(e)
       /\ l' = l + 1
       /\ \/ ObsOK(e, m', s')
          \/ /\ ~ObsOK(e, m', s')
             /\ PrintT(<<"MISMATCH", ToJson(Explain(e, m', s'))>>)
             /\ FALSE

TraceSpec == TraceInit /\ [][TraceNext]_tvars

TraceAccepted ==
  \/ TLCGet("stats").diameter - 1 = Len(TraceLog)
  \/ PrintT(<<"INFO", ToJson([consumed |-> TLCGet("stats").diameter - 1, total |-> Len(TraceLog)])>>) /\ FALSE
=============================================================================
