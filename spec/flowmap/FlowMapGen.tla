---------------------------- MODULE FlowMapGen ----------------------------
(***************************************************************************)
(* Behaviour generator for forward replay (spec -> code): FlowMap plus a   *)
(* history variable.  Every behaviour of length Depth is printed once as   *)
(* JSON (a list of steps [act, exp]) from inside the next-state relation,  *)
(* so the same module serves exhaustive BFS generation and -simulate.      *)
(***************************************************************************)
EXTENDS FlowMap, Json
CONSTANT Depth
VARIABLES hist, done

GenVals == {<<1,2,3,4>>, <<5,0,1,0>>}
GenKeys8 == {"k" \o ToString(i) : i \in 1..8}
GenVals4 == {<<1,2,3,4>>, <<5,0,1,0>>, <<0,0,0,0>>, <<1000000,7,0,3>>}

GenInit == Init /\ hist = <<>> /\ done = FALSE
GenNext == \/ /\ ~done /\ Len(hist) < Depth
              /\ Next
              /\ hist' = Append(hist, [act |-> act', exp |-> Obs'])
              /\ UNCHANGED done
           \/ /\ ~done /\ Len(hist) = Depth
              /\ PrintT(<<"TRACE", ToJson(hist)>>)
              /\ done' = TRUE /\ hist' = <<>> /\ m' = Empty /\ s' = Empty /\ live' = TRUE
              /\ act' = [name |-> "Done"]
GenSpec == GenInit /\ [][GenNext]_<<vars, hist, done>>
=============================================================================
