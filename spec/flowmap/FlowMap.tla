------------------------------ MODULE FlowMap ------------------------------
(***************************************************************************)
(* The flow hash map of goProbe (pkg/types/hashmap) as the user sees it:   *)
(* a finite map from flow keys to four additive counters.  Incremental     *)
(* growth, overflow buckets, the key arena and evacuation have no          *)
(* counterpart here -- they are stuttering steps; that *is* the refinement *)
(* claim of property C18.  `m` is the map under test, `s` a second map     *)
(* used as the source of Merge.                                            *)
(***************************************************************************)
EXTENDS Naturals, Sequences, FiniteSets, TLC

CONSTANTS Keys,   \* key identities of the bounded model (any values)
          Vals    \* counter 4-tuples used as values / deltas

VARIABLES m, s, act,
          live   \* FALSE once Clear released the map's resources (it is a destructor:
                 \* Clear/ClearFast nil the key arena, the map must not be written again)
vars == <<m, s, act, live>>

Zero == <<0, 0, 0, 0>>
Add(a, b) == <<a[1] + b[1], a[2] + b[2], a[3] + b[3], a[4] + b[4]>>
Empty == <<>>

Put(f, k, v) == [x \in DOMAIN f \cup {k} |-> IF x = k THEN v ELSE f[x]]
Upd(f, k, d) == Put(f, k, IF k \in DOMAIN f THEN Add(f[k], d) ELSE d)
MergeInto(f, g) ==
  [x \in DOMAIN f \cup DOMAIN g |->
     IF x \in DOMAIN f
     THEN (IF x \in DOMAIN g THEN Add(f[x], g[x]) ELSE f[x])
     ELSE g[x]]

Init == m = Empty /\ s = Empty /\ live = TRUE /\ act = [name |-> "Init"]

\* hashmap.Map.Set: insert or overwrite
Set(k, v) == /\ live
             /\ m' = Put(m, k, v)
             /\ UNCHANGED <<s, live>>
             /\ act' = [name |-> "Set", k |-> k, v |-> v]

\* hashmap.Map.SetOrUpdate: insert or add the four counters
SetOrUpdate(k, d) == /\ live
                     /\ m' = Upd(m, k, d)
                     /\ UNCHANGED <<s, live>>
                     /\ act' = [name |-> "SetOrUpdate", k |-> k, v |-> d]

\* the same on the source map (so that Merge meets maps in every growth stage)
SrcSetOrUpdate(k, d) == /\ s' = Upd(s, k, d)
                        /\ UNCHANGED <<m, live>>
                        /\ act' = [name |-> "SrcSetOrUpdate", k |-> k, v |-> d]

\* hashmap.Map.Merge(src): additive union, source untouched
Merge == /\ live
         /\ m' = MergeInto(m, s)
         /\ UNCHANGED <<s, live>>
         /\ act' = [name |-> "Merge"]

\* Clear: releases the map (Len() = 0 afterwards); the only thing allowed on a released
\* map is to drop it.  NewMap models the caller allocating a fresh map in its place
\* (this is what the query workers do between workloads).
Clear == /\ live /\ m' = Empty /\ live' = FALSE /\ UNCHANGED s /\ act' = [name |-> "Clear"]
NewMap == /\ m' = Empty /\ live' = TRUE /\ UNCHANGED s /\ act' = [name |-> "NewMap"]
NewSrc == /\ s' = Empty /\ UNCHANGED <<m, live>> /\ act' = [name |-> "NewSrc"]

Next == \/ \E k \in Keys, v \in Vals : Set(k, v) \/ SetOrUpdate(k, v) \/ SrcSetOrUpdate(k, v)
        \/ Merge \/ Clear \/ NewMap \/ NewSrc

Spec == Init /\ [][Next]_vars

(***************************************************************************)
(* Observables.  Len, Get for every key and a complete iteration are all   *)
(* determined by the graph of the map, which is what the implementation    *)
(* is compared with after every step.                                      *)
(***************************************************************************)
Size(f) == Cardinality(DOMAIN f)
Obs == [m |-> m, s |-> s, mlen |-> Size(m), slen |-> Size(s)]

(***************************************************************************)
(* Properties of the design.                                               *)
(***************************************************************************)
TypeOK == /\ DOMAIN m \subseteq Keys /\ DOMAIN s \subseteq Keys
          /\ \A k \in DOMAIN m : Len(m[k]) = 4

Sum(f, i) == LET RECURSIVE S(_)
                 S(D) == IF D = {} THEN 0 ELSE LET x == CHOOSE x \in D : TRUE IN f[x][i] + S(D \ {x})
             IN S(DOMAIN f)

\* additive operations conserve the counter sums; Merge adds the source's
ConservationOK ==
  [][ /\ (act'.name = "Merge" => \A i \in 1..4 : Sum(m', i) = Sum(m, i) + Sum(s, i))
      /\ (act'.name = "SetOrUpdate" => \A i \in 1..4 : Sum(m', i) = Sum(m, i) + act'.v[i])
      /\ (act'.name \in {"Merge", "SetOrUpdate"} => DOMAIN m \subseteq DOMAIN m') ]_vars

\* merging is commutative on the abstract level (order of arrival of maps is irrelevant)
MergeCommutes == MergeInto(m, s) = MergeInto(s, m)
=============================================================================
