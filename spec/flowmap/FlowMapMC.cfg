SPECIFICATION Spec
CONSTANTS
  Keys = {"k1", "k2", "k3"}
  Vals <- MCVals
  MaxCount = 8
INVARIANTS TypeOK MergeCommutes
PROPERTIES ConservationOK
CONSTRAINT Bound
