SPECIFICATION TraceSpec
CONSTANTS
  Keys = {}
  Vals = {}
POSTCONDITION TraceAccepted
CHECK_DEADLOCK FALSE
