SPECIFICATION GenSpec
CONSTANTS
  Keys <- GenKeys8
  Vals <- GenVals4
  Depth = 60
CHECK_DEADLOCK FALSE
