SPECIFICATION GenSpec
CONSTANTS
  Keys = {"k1", "k2", "k3"}
  Vals <- GenVals
  Depth = 3
CHECK_DEADLOCK FALSE
