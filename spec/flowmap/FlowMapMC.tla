----------------------------- MODULE FlowMapMC -----------------------------
EXTENDS FlowMap
CONSTANT MaxCount
Bound == /\ \A k \in DOMAIN m : \A i \in 1..4 : m[k][i] <= MaxCount
         /\ \A k \in DOMAIN s : \A i \in 1..4 : s[k][i] <= MaxCount
View == <<m, s, live>>
MCVals == {<<1,2,3,4>>, <<5,0,1,0>>}
=============================================================================
