\* both orders of the main goroutine: workers first (any W) and as built (W <= Q*N, where it ends)
SPECIFICATION Spec
CONSTANTS
  NSet = {1, 2, 3}
  WSet = {0, 1, 2, 3, 4, 5, 6, 7}
  WClass = "fits"
  Orders = {TRUE, FALSE}
  NIfaces = 1
  Q = 2
  MapCap = 2
  LowMem = FALSE
INVARIANTS TypeOK FinalEqualsSum Conservation StuckShape
PROPERTIES Termination
