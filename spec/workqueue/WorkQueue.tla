----------------------------- MODULE WorkQueue -----------------------------
(***************************************************************************)
(* Property C11: a query returns the same result whatever the number of    *)
(* worker goroutines, the low-memory setting and the goroutine schedule,   *)
(* and every query ends.                                                   *)
(*                                                                         *)
(* The work distribution of a goDB query (pkg/goDB/engine/query.go         *)
(* RunStatement, pkg/goDB/DBWorkManager.go CreateWorkerJobs /              *)
(* ExecuteWorkerReadJobs / grabAndProcessWorkload, engine/aggregate.go):   *)
(*                                                                         *)
(*   main        for every interface: CreateWorkerJobs puts its W          *)
(*               workloads (Bulk day directories each) into the work       *)
(*               channel of that interface - capacity Q*N - and closes it; *)
(*               then, interface by interface, ExecuteWorkerReadJobs       *)
(*               starts N workers and waits for them; then the map channel *)
(*               is closed and the aggregate is received                   *)
(*   worker      for wl := range workChan { scan; mapChan <- result }      *)
(*   aggregator  for m := range mapChan { merge into the interface's map;  *)
(*               Clear / ClearFast the received map }                      *)
(*                                                                         *)
(* Scaled constants: Q = 2 stands for 64, MapCap = 2 for 1024; a workload  *)
(* stands for Bulk = 32 day directories.                                   *)
(*                                                                         *)
(* sf ("start first", chosen from Orders) is the order of the main         *)
(* goroutine:                                                              *)
(*   FALSE  as built: CreateWorkerJobs runs to completion (all interfaces) *)
(*          before the first worker exists                                 *)
(*   TRUE   the workers of an interface exist while its workloads are      *)
(*          produced (the order the property needs)                        *)
(* The property (FinalEqualsSum, Termination) is stated once; which order  *)
(* the code has is decided by the binding (child processes with D day      *)
(* directories around 64*32*NumCPU and a goroutine dump).                  *)
(***************************************************************************)
EXTENDS Integers, Sequences, FiniteSets, TLC

CONSTANTS NSet,        \* worker counts explored (runtime.NumCPU)
          WSet,        \* workloads per interface explored
          WClass,      \* workloads explored for the as-built order: "all" | "fits" (W <= Q*N) | "over" (W > Q*N)
          NIfaces,     \* interfaces queried
          Q,           \* work channel capacity per worker (64)
          MapCap,      \* map channel capacity (1024)
          Orders,      \* orders explored (subset of BOOLEAN), see above
          LowMem       \* Clear (TRUE) or ClearFast (FALSE) of merged maps: the same on the abstract map

VARIABLES n, w, sf,    \* the configuration of this behaviour (chosen in Init, constant afterwards)
          pc,          \* main goroutine: <<phase, interface>>
          produced,    \* iface -> workloads sent so far
          chan,        \* iface -> work channel content (sequence of workload numbers)
          closed,      \* iface -> work channel closed
          ws,          \* worker -> "none" | "idle" | "busy" | "sending" | "exited"
          wl,          \* worker -> workload held
          mapchan,     \* map channel: sequence of [iface, m]
          mclosed,
          agg,         \* iface -> aggregated map
          aggdone,     \* the aggregator delivered its result
          done,        \* the query returned
          act
vars == <<n, w, sf, pc, produced, chan, closed, ws, wl, mapchan, mclosed, agg, aggdone, done, act>>

Ifaces == 1..NIfaces
MaxN == CHOOSE x \in NSet : \A y \in NSet : y <= x
WorkerIds == 1..MaxN
Workers == 1..n

\* the abstract result of workload k of interface i: a small additive map (key -> counter)
Keys == {"a", "b"}
Res(i, k) == [x \in Keys |-> IF x = "a" THEN k + i ELSE (IF k % 2 = 0 THEN 1 ELSE 0)]
ZeroMap == [x \in Keys |-> 0]
AddMap(f, g) == [x \in Keys |-> f[x] + g[x]]
RECURSIVE SumRes(_, _)
SumRes(i, k) == IF k = 0 THEN ZeroMap ELSE AddMap(SumRes(i, k - 1), Res(i, k))

InClass(x, nn) == CASE WClass = "all" -> TRUE [] WClass = "fits" -> x <= Q * nn [] WClass = "over" -> x > Q * nn

Init ==
  /\ n \in NSet /\ sf \in Orders /\ w \in {x \in WSet : sf \/ InClass(x, n)}
  /\ pc = IF sf THEN <<"start", 1>> ELSE <<"produce", 1>>
  /\ produced = [i \in Ifaces |-> 0]
  /\ chan = [i \in Ifaces |-> <<>>]
  /\ closed = [i \in Ifaces |-> FALSE]
  /\ ws = [x \in WorkerIds |-> "none"]
  /\ wl = [x \in WorkerIds |-> 0]
  /\ mapchan = <<>> /\ mclosed = FALSE
  /\ agg = [i \in Ifaces |-> ZeroMap]
  /\ aggdone = FALSE /\ done = FALSE
  /\ act = [name |-> "Init"]

Cur == pc[2]

\* ---- main goroutine
\* CreateWorkerJobs: w.workloadChan <- workload.New(bulk)   (blocks while the channel is full)
Produce ==
  /\ pc[1] = "produce" /\ produced[Cur] < w /\ Len(chan[Cur]) < Q * n
  /\ chan' = [chan EXCEPT ![Cur] = Append(@, produced[Cur] + 1)]
  /\ produced' = [produced EXCEPT ![Cur] = @ + 1]
  /\ UNCHANGED <<n, w, sf, pc, closed, ws, wl, mapchan, mclosed, agg, aggdone, done>>
  /\ act' = [name |-> "Produce", iface |-> Cur]

\* CreateWorkerJobs returns: defer close(w.workloadChan)
ProducerDone ==
  /\ pc[1] = "produce" /\ produced[Cur] = w
  /\ closed' = [closed EXCEPT ![Cur] = TRUE]
  /\ pc' = IF sf THEN <<"wait", Cur>>
           ELSE IF Cur < NIfaces THEN <<"produce", Cur + 1>> ELSE <<"start", 1>>
  /\ UNCHANGED <<n, w, sf, produced, chan, ws, wl, mapchan, mclosed, agg, aggdone, done>>
  /\ act' = [name |-> "ProducerDone", iface |-> Cur]

\* ExecuteWorkerReadJobs: N goroutines grabAndProcessWorkload
StartWorkers ==
  /\ pc[1] = "start"
  /\ ws' = [x \in WorkerIds |-> IF x \in Workers THEN "idle" ELSE "none"]
  /\ pc' = IF sf THEN <<"produce", Cur>> ELSE <<"wait", Cur>>
  /\ UNCHANGED <<n, w, sf, produced, chan, closed, wl, mapchan, mclosed, agg, aggdone, done>>
  /\ act' = [name |-> "StartWorkers", iface |-> Cur]

\* wg.Wait() returned; next interface or close(mapChan)
WaitDone ==
  /\ pc[1] = "wait" /\ \A x \in Workers : ws[x] = "exited"
  /\ pc' = IF Cur < NIfaces THEN <<"start", Cur + 1>> ELSE <<"close", Cur>>
  /\ UNCHANGED <<n, w, sf, produced, chan, closed, ws, wl, mapchan, mclosed, agg, aggdone, done>>
  /\ act' = [name |-> "WaitDone", iface |-> Cur]

CloseMapChan ==
  /\ pc[1] = "close"
  /\ mclosed' = TRUE
  /\ pc' = <<"recv", Cur>>
  /\ UNCHANGED <<n, w, sf, produced, chan, closed, ws, wl, mapchan, agg, aggdone, done>>
  /\ act' = [name |-> "CloseMapChan"]

\* agg := <-aggregateChan ; rows are built from the aggregated maps
Return ==
  /\ pc[1] = "recv" /\ aggdone /\ ~done
  /\ done' = TRUE
  /\ UNCHANGED <<n, w, sf, pc, produced, chan, closed, ws, wl, mapchan, mclosed, agg, aggdone>>
  /\ act' = [name |-> "Return"]

\* ---- workers (of the interface being executed)
Take(x) ==
  /\ ws[x] = "idle" /\ Len(chan[Cur]) > 0
  /\ wl' = [wl EXCEPT ![x] = Head(chan[Cur])]
  /\ chan' = [chan EXCEPT ![Cur] = Tail(@)]
  /\ ws' = [ws EXCEPT ![x] = "busy"]
  /\ UNCHANGED <<n, w, sf, pc, produced, closed, mapchan, mclosed, agg, aggdone, done>>
  /\ act' = [name |-> "Take"]

Scan(x) ==
  /\ ws[x] = "busy"
  /\ ws' = [ws EXCEPT ![x] = "sending"]
  /\ UNCHANGED <<n, w, sf, pc, produced, chan, closed, wl, mapchan, mclosed, agg, aggdone, done>>
  /\ act' = [name |-> "Scan"]

\* mapChan <- resultMap   (blocks while the map channel is full)
Send(x) ==
  /\ ws[x] = "sending" /\ Len(mapchan) < MapCap
  /\ mapchan' = Append(mapchan, [iface |-> Cur, m |-> Res(Cur, wl[x])])
  /\ ws' = [ws EXCEPT ![x] = "idle"]
  /\ wl' = [wl EXCEPT ![x] = 0]
  /\ UNCHANGED <<n, w, sf, pc, produced, chan, closed, mclosed, agg, aggdone, done>>
  /\ act' = [name |-> "Send"]

\* range over a closed and drained channel ends
Exit(x) ==
  /\ ws[x] = "idle" /\ Len(chan[Cur]) = 0 /\ closed[Cur]
  /\ ws' = [ws EXCEPT ![x] = "exited"]
  /\ UNCHANGED <<n, w, sf, pc, produced, chan, closed, wl, mapchan, mclosed, agg, aggdone, done>>
  /\ act' = [name |-> "Exit"]

\* ---- aggregator
Merge ==
  /\ Len(mapchan) > 0
  /\ agg' = [agg EXCEPT ![Head(mapchan).iface] = AddMap(@, Head(mapchan).m)]
  /\ mapchan' = Tail(mapchan)
  /\ UNCHANGED <<n, w, sf, pc, produced, chan, closed, ws, wl, mclosed, aggdone, done>>
  /\ act' = [name |-> IF LowMem THEN "MergeClear" ELSE "MergeClearFast"]

AggFinish ==
  /\ Len(mapchan) = 0 /\ mclosed /\ ~aggdone
  /\ aggdone' = TRUE
  /\ UNCHANGED <<n, w, sf, pc, produced, chan, closed, ws, wl, mapchan, mclosed, agg, done>>
  /\ act' = [name |-> "AggFinish"]

Terminated == done /\ UNCHANGED vars

Main == Produce \/ ProducerDone \/ StartWorkers \/ WaitDone \/ CloseMapChan \/ Return
Worker(x) == Take(x) \/ Scan(x) \/ Send(x) \/ Exit(x)
Aggregator == Merge \/ AggFinish
Next == Main \/ (\E x \in WorkerIds : Worker(x)) \/ Aggregator \/ Terminated

Fairness == /\ WF_vars(Main) /\ WF_vars(Aggregator)
            /\ \A x \in WorkerIds : WF_vars(Worker(x))
Spec == Init /\ [][Next]_vars /\ Fairness

(***************************************************************************)
(* The property                                                            *)
(***************************************************************************)
\* the aggregated maps are the sums of all workload results, whatever the consumption / merge order,
\* the number of workers and the memory mode
FinalEqualsSum == done => \A i \in Ifaces : agg[i] = SumRes(i, w)
\* every query ends
Termination == <>done

TypeOK == /\ \A i \in Ifaces : Len(chan[i]) <= Q * n /\ produced[i] <= w
          /\ Len(mapchan) <= MapCap
\* nothing is lost or duplicated on the way: the results of the workloads produced so far are the
\* sum of what is queued, held by a worker, in the map channel and already merged
RECURSIVE SumChan(_, _)
SumChan(i, s) == IF Len(s) = 0 THEN ZeroMap ELSE AddMap(Res(i, Head(s)), SumChan(i, Tail(s)))
RECURSIVE SumMapChan(_, _)
SumMapChan(i, s) == IF Len(s) = 0 THEN ZeroMap
                    ELSE AddMap(IF Head(s).iface = i THEN Head(s).m ELSE ZeroMap, SumMapChan(i, Tail(s)))
RECURSIVE SumHeld(_, _)
SumHeld(i, S) == IF S = {} THEN ZeroMap
                 ELSE LET x == CHOOSE x \in S : TRUE IN AddMap(Res(i, wl[x]), SumHeld(i, S \ {x}))
Held(i) == IF pc[2] = i THEN {x \in WorkerIds : ws[x] \in {"busy", "sending"}} ELSE {}
Conservation ==
  \A i \in Ifaces :
    AddMap(agg[i], AddMap(SumMapChan(i, mapchan), AddMap(SumHeld(i, Held(i)), SumChan(i, chan[i]))))
      = SumRes(i, produced[i])
\* ---- mapping to the real constants (channel capacity 64 * NumCPU, 32 day directories per workload):
\* the as-built order ends iff W <= Q * N (runs "fits" / "over" of WorkQueueAsBuilt.cfg)
RealQ == 64
RealBulk == 32
WorkloadsOfDays(d) == (d + RealBulk - 1) \div RealBulk
AsBuiltEnds(d, cpus) == WorkloadsOfDays(d) <= RealQ * cpus

\* the shape of a state in which nothing can move although the query has not returned
Stuck == ~done /\ ~ENABLED (Main \/ (\E x \in WorkerIds : Worker(x)) \/ Aggregator)
StuckShape == Stuck => /\ pc[1] = "produce" /\ Len(chan[Cur]) = Q * n /\ produced[Cur] < w
                       /\ \A x \in WorkerIds : ws[x] = "none"
                       /\ Len(mapchan) = 0
=============================================================================
