\* the as-built order (CreateWorkerJobs completes before the first worker exists) with more workloads than
\* the channel holds: expected to deadlock in the state described by StuckShape
SPECIFICATION Spec
CONSTANTS
  NSet = {1, 2, 3}
  WSet = {0, 1, 2, 3, 4, 5, 6, 7}
  WClass = "over"
  Orders = {FALSE}
  NIfaces = 1
  Q = 2
  MapCap = 2
  LowMem = FALSE
INVARIANTS TypeOK FinalEqualsSum Conservation StuckShape
PROPERTIES Termination
