-------------------------- MODULE WorkQueuePredict --------------------------
(***************************************************************************)
(* WorkQueue plus the prediction of the as-built order for databases with  *)
(* D day directories queried with a given number of CPUs, printed once     *)
(* (INFO line): the binding compares it with what the real engine does to  *)
(* tell which order the code currently has.  The property itself demands   *)
(* termination for every D.                                                *)
(***************************************************************************)
EXTENDS WorkQueue, Json
RealCases == << <<2000, 1>>, <<2047, 1>>, <<2048, 1>>, <<2049, 1>>, <<2100, 1>>,
                <<4095, 2>>, <<4096, 2>>, <<4097, 2>> >>
ASSUME PrintT(<<"INFO", ToJson([j \in 1..Len(RealCases) |->
                                  [days |-> RealCases[j][1], cpus |-> RealCases[j][2],
                                   workloads |-> WorkloadsOfDays(RealCases[j][1]),
                                   asbuilt_ends |-> AsBuiltEnds(RealCases[j][1], RealCases[j][2])]])>>)
=============================================================================
