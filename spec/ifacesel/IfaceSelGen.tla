---------------------------- MODULE IfaceSelGen ----------------------------
(***************************************************************************)
(* Case generator for forward replay (spec -> code).  The engine keeps no  *)
(* state between queries, so a behaviour is one Query step; every step of  *)
(* the bounded model is printed once as a JSON list [[act, exp]] where exp *)
(* is the set of interfaces the specification selects.                     *)
(***************************************************************************)
EXTENDS IfaceSel, Json
VARIABLES hist, done

GenNames     == {"a", "b", "zz"}
GenUniverse  == {"a", "b", "d"}
GenRUniverse == {"a", "b", "ab", "eth0", "eth1", "eth10"}

GenInit == Init /\ hist = <<>> /\ done = FALSE
GenNext == \/ /\ ~done /\ Len(hist) < 1
              /\ Next
              /\ hist' = Append(hist, [act |-> act', exp |-> Obs'])
              /\ UNCHANGED done
           \/ /\ ~done /\ Len(hist) = 1
              /\ PrintT(<<"TRACE", ToJson(hist)>>)
              /\ done' = TRUE /\ hist' = <<>> /\ sel' = {}
              /\ act' = [name |-> "Done"]
GenSpec == GenInit /\ [][GenNext]_<<vars, hist, done>>
=============================================================================
