---------------------------- MODULE IfaceSelMC ----------------------------
(* Bounded exhaustive exploration of the selection rule: every list of up  *)
(* to MaxLen tokens over {a,b,zz,any,!a,!b,!zz} against every set of       *)
(* existing interfaces, every enumerated regexp against every subset of    *)
(* the regexp universe.                                                    *)
EXTENDS IfaceSel
MCNames     == {"a", "b", "zz"}
MCUniverse  == {"a", "b", "d"}
MCRUniverse == {"a", "b", "ab", "eth0", "eth1", "eth10"}

\* Queries are independent of each other (no state survives a step), so exploring one
\* step from Init covers every reachable (act, sel) pair; without the guard TLC would
\* re-enumerate all arguments from each of the ~23 000 states.
MCList   == act.name = "Init" /\ \E l \in Lists, ex \in SUBSET Universe : QueryList(l, ex)
MCRegexp == act.name = "Init" /\ \E k \in DOMAIN Pats, ex \in SUBSET RUniverse : QueryRegexp(k, ex)
MCNext   == MCList \/ MCRegexp
MCSpec   == Init /\ [][MCNext]_vars
=============================================================================
