------------------------------ MODULE IfaceSel ------------------------------
(***************************************************************************)
(* Interface selection of a goDB query (property C16).                     *)
(*                                                                         *)
(* The interface argument of a query is either                             *)
(*   - a comma separated LIST of tokens; a token is an interface name, the  *)
(*     word `any`, or a name with a leading `!` (negation), or             *)
(*   - a REGULAR EXPRESSION wrapped into forward slashes, /re/.            *)
(* What the documentation (query help text, property statement) demands:   *)
(*   list:   the interfaces queried are the listed ones that exist in the  *)
(*           database (all existing ones if `any` is listed) minus every   *)
(*           interface listed with a leading `!`;                          *)
(*   regexp: exactly the existing interfaces whose name matches.           *)
(* Order and repetition of tokens carry no meaning, unknown names are      *)
(* ignored, and no argument makes the query crash.  What a query does when *)
(* the selection is EMPTY (error or empty result) is not specified.        *)
(*                                                                         *)
(* The engine is stateless between queries, so a behaviour is a sequence   *)
(* of independent Query steps; `sel` is the set the step must select.      *)
(***************************************************************************)
EXTENDS Naturals, Sequences, FiniteSets, TLC

CONSTANTS Names,      \* names that may be written in a list argument
          Universe,   \* names that may exist in the database (list form cases)
          RUniverse,  \* names that may exist in the database (regexp form cases)
          MaxLen      \* longest list argument enumerated

VARIABLES act,   \* label and arguments of the last step
          sel    \* the set of interfaces the last step must query
vars == <<act, sel>>

AnyTok == "any"   \* the word selecting every existing interface

(***************************************************************************)
(* List form.  A token is [neg, name]; it is written  name  or  !name .    *)
(***************************************************************************)
Tok(n)  == [neg |-> FALSE, name |-> n]
NTok(n) == [neg |-> TRUE,  name |-> n]
Tokens  == {Tok(n) : n \in Names \cup {AnyTok}} \cup {NTok(n) : n \in Names}
Lists   == UNION {[1..k -> Tokens] : k \in 0..MaxLen}

Listed(l)  == {l[i].name : i \in {j \in DOMAIN l : ~l[j].neg}}
Negated(l) == {l[i].name : i \in {j \in DOMAIN l : l[j].neg}}

SelectList(l, ex) ==
  (IF AnyTok \in Listed(l) THEN ex ELSE Listed(l) \cap ex) \ Negated(l)

(***************************************************************************)
(* Regexp form.  The documented semantics of the handful of operators used *)
(* by the enumerated patterns, as a denotational matcher over the spelling *)
(* of a name: Ends(p, s, i) is the set of positions j such that p matches  *)
(* s[i+1..j].  A name is selected iff the pattern matches SOMEWHERE in it  *)
(* (unanchored search; `^` and `$` anchor explicitly).                     *)
(***************************************************************************)
Lit(c)    == [t |-> "lit", c |-> c]
Dot       == [t |-> "dot"]
Cls(cs)   == [t |-> "cls", cs |-> cs]
Bol       == [t |-> "bol"]
Eol       == [t |-> "eol"]
Cat(l, r) == [t |-> "cat", l |-> l, r |-> r]
Alt(l, r) == [t |-> "alt", l |-> l, r |-> r]
Star(p)   == [t |-> "star", p |-> p]

RECURSIVE Word(_)
Word(cs) == IF Len(cs) = 1 THEN Lit(cs[1]) ELSE Cat(Lit(cs[1]), Word(Tail(cs)))
RECURSIVE Chain(_)
Chain(ps) == IF Len(ps) = 1 THEN ps[1] ELSE Cat(ps[1], Chain(Tail(ps)))

RECURSIVE Ends(_, _, _)
Ends(p, s, i) ==
  CASE p.t = "lit"  -> IF i < Len(s) /\ s[i + 1] = p.c THEN {i + 1} ELSE {}
    [] p.t = "dot"  -> IF i < Len(s) THEN {i + 1} ELSE {}
    [] p.t = "cls"  -> IF i < Len(s) /\ s[i + 1] \in p.cs THEN {i + 1} ELSE {}
    [] p.t = "bol"  -> IF i = 0 THEN {i} ELSE {}
    [] p.t = "eol"  -> IF i = Len(s) THEN {i} ELSE {}
    [] p.t = "cat"  -> UNION {Ends(p.r, s, j) : j \in Ends(p.l, s, i)}
    [] p.t = "alt"  -> Ends(p.l, s, i) \cup Ends(p.r, s, i)
    [] p.t = "star" -> LET RECURSIVE Close(_)
                           Close(S) == LET T == S \cup UNION {Ends(p.p, s, j) : j \in S}
                                       IN IF T = S THEN S ELSE Close(T)
                       IN Close({i})

Matches(p, s) == \E i \in 0..Len(s) : Ends(p, s, i) # {}

\* spelling of the names of the regexp universe
Spell == [n \in {"a", "b", "ab", "eth0", "eth1", "eth10"} |->
            CASE n = "a"     -> <<"a">>
              [] n = "b"     -> <<"b">>
              [] n = "ab"    -> <<"a", "b">>
              [] n = "eth0"  -> <<"e", "t", "h", "0">>
              [] n = "eth1"  -> <<"e", "t", "h", "1">>
              [] n = "eth10" -> <<"e", "t", "h", "1", "0">>]

\* the enumerated patterns: the text the user writes between the slashes and its meaning
Eth == Word(<<"e", "t", "h">>)
Pats == <<
  [text |-> "a",         ast |-> Lit("a")],
  [text |-> "^a$",       ast |-> Chain(<<Bol, Lit("a"), Eol>>)],
  [text |-> "^eth",      ast |-> Cat(Bol, Eth)],
  [text |-> "eth1$",     ast |-> Chain(<<Eth, Lit("1"), Eol>>)],
  [text |-> "eth[01]$",  ast |-> Chain(<<Eth, Cls({"0", "1"}), Eol>>)],
  [text |-> "^eth1*$",   ast |-> Chain(<<Bol, Eth, Star(Lit("1")), Eol>>)],
  [text |-> ".",         ast |-> Dot],
  [text |-> "^(a|b)$",   ast |-> Chain(<<Bol, Alt(Lit("a"), Lit("b")), Eol>>)],
  [text |-> "^.$",       ast |-> Chain(<<Bol, Dot, Eol>>)],
  [text |-> "b|0$",      ast |-> Alt(Lit("b"), Cat(Lit("0"), Eol))],
  [text |-> "zz",        ast |-> Word(<<"z", "z">>)],
  [text |-> "^eth.0$",   ast |-> Chain(<<Bol, Eth, Dot, Lit("0"), Eol>>)],
  [text |-> "^.*0$",     ast |-> Chain(<<Bol, Star(Dot), Lit("0"), Eol>>)],
  [text |-> "^[ab]*$",   ast |-> Chain(<<Bol, Star(Cls({"a", "b"})), Eol>>)]
>>

ASSUME RUniverse \subseteq DOMAIN Spell
SelectRe(k, ex) == {n \in ex : Matches(Pats[k].ast, Spell[n])}

\* unit checks of the matcher against hand-evaluated (pattern, name) pairs
MatchTable(k) == {n \in DOMAIN Spell : Matches(Pats[k].ast, Spell[n])}
ASSUME /\ MatchTable(1)  = {"a", "ab"}
       /\ MatchTable(2)  = {"a"}
       /\ MatchTable(3)  = {"eth0", "eth1", "eth10"}
       /\ MatchTable(4)  = {"eth1"}
       /\ MatchTable(5)  = {"eth0", "eth1"}
       /\ MatchTable(6)  = {"eth1"}
       /\ MatchTable(7)  = DOMAIN Spell
       /\ MatchTable(8)  = {"a", "b"}
       /\ MatchTable(9)  = {"a", "b"}
       /\ MatchTable(10) = {"b", "ab", "eth0", "eth10"}
       /\ MatchTable(11) = {}
       /\ MatchTable(12) = {"eth10"}
       /\ MatchTable(13) = {"eth0", "eth10"}
       /\ MatchTable(14) = {"a", "b", "ab"}

(***************************************************************************)
(* Steps.                                                                  *)
(***************************************************************************)
Init == act = [name |-> "Init"] /\ sel = {}

\* engine.QueryRunner.Run with a list argument against a DB holding `ex`
QueryList(l, ex) ==
  /\ act' = [name |-> "QueryList", list |-> l, existing |-> ex]
  /\ sel' = SelectList(l, ex)

\* engine.QueryRunner.Run with the argument /Pats[k].text/ against a DB holding `ex`
QueryRegexp(k, ex) ==
  /\ act' = [name |-> "QueryRegexp", re |-> Pats[k].text, k |-> k, existing |-> ex]
  /\ sel' = SelectRe(k, ex)

Next == \/ \E l \in Lists, ex \in SUBSET Universe : QueryList(l, ex)
        \/ \E k \in DOMAIN Pats, ex \in SUBSET RUniverse : QueryRegexp(k, ex)

Spec == Init /\ [][Next]_vars

Obs == sel

(***************************************************************************)
(* Properties of the selection rule (checked exhaustively by TLC).         *)
(***************************************************************************)
IsList == act.name = "QueryList"
IsRe   == act.name = "QueryRegexp"

\* only existing interfaces are queried, never a negated one
SoundOK == (IsList \/ IsRe) => sel \subseteq act.existing
NegOK   == IsList => sel \cap Negated(act.list) = {}

\* every listed, existing, non-negated interface is queried; `any` means all
CompleteOK == IsList =>
  /\ (Listed(act.list) \cap act.existing) \ Negated(act.list) \subseteq sel
  /\ (AnyTok \in Listed(act.list) => sel = act.existing \ Negated(act.list))

\* order of tokens is irrelevant (adjacent swaps generate all permutations)
Swap(l, i) == [j \in DOMAIN l |-> IF j = i THEN l[i + 1] ELSE IF j = i + 1 THEN l[i] ELSE l[j]]
OrderFreeOK == IsList =>
  \A i \in 1..(Len(act.list) - 1) : SelectList(Swap(act.list, i), act.existing) = sel

\* repeating a token is irrelevant
RepeatFreeOK == IsList =>
  \A i \in DOMAIN act.list : SelectList(Append(act.list, act.list[i]), act.existing) = sel

\* tokens naming an interface that does not exist are irrelevant
Drop(l, i) == SubSeq(l, 1, i - 1) \o SubSeq(l, i + 1, Len(l))
UnknownFreeOK == IsList =>
  \A i \in DOMAIN act.list :
     (act.list[i].name \notin act.existing \cup {AnyTok}) =>
        SelectList(Drop(act.list, i), act.existing) = sel

\* a regexp selects exactly the matching existing interfaces
RegexpExactOK == IsRe =>
  \A n \in act.existing : (n \in sel) <=> Matches(Pats[act.k].ast, Spell[n])
=============================================================================
