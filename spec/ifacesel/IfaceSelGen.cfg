SPECIFICATION GenSpec
CONSTANTS
  Names <- GenNames
  Universe <- GenUniverse
  RUniverse <- GenRUniverse
  MaxLen = 4
CHECK_DEADLOCK FALSE
