SPECIFICATION MCSpec
CONSTANTS
  Names <- MCNames
  Universe <- MCUniverse
  RUniverse <- MCRUniverse
  MaxLen = 4
INVARIANTS SoundOK NegOK CompleteOK OrderFreeOK RepeatFreeOK UnknownFreeOK RegexpExactOK
CHECK_DEADLOCK FALSE
