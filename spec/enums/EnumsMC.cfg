SPECIFICATION MCSpec
INVARIANTS EnumRoundTripOK OfNameOK RecordRoundTripOK WireOK
CONSTANTS
  Strength3 = {}
CHECK_DEADLOCK FALSE
