SPECIFICATION GenSpec
CONSTANTS
  Strength3 = {}
CHECK_DEADLOCK FALSE
