------------------------------- MODULE Enums -------------------------------
(***************************************************************************)
(* JSON round trips of query arguments, prepared statements and results    *)
(* (property C17).                                                         *)
(*                                                                         *)
(* The module holds                                                        *)
(*  - the enumerations as documented (pkg/types/direction.go,              *)
(*    pkg/results/sort.go, the Status and Format constants): the members,  *)
(*    the NAME of every member and the inverse table FromName, with the    *)
(*    law  FromName[Name[v]] = v  for every member;                        *)
(*  - the record shapes Args, Statement, Result and Row over small field   *)
(*    domains.  A field value is a CLASS (a string such as "max64",        *)
(*    "v4in6", "plus2") that the harness concretises deterministically;    *)
(*    enumeration typed fields range over ALL members;                     *)
(*  - the wire form: an enumeration typed field travels as its name, every *)
(*    other field as itself, and the law  Unwire(Wire(r)) = r .            *)
(* A step encodes a value with one of the two JSON codecs used in the tree *)
(* (encoding/json, jsoniter), passing the value itself or a pointer to it, *)
(* decodes the document into a fresh value and observes it.                *)
(* The codecs themselves are exercised, not modelled.                      *)
(***************************************************************************)
EXTENDS Naturals, Sequences, FiniteSets, TLC

CONSTANT Strength3  \* the shapes enumerated with 3-wise instead of pairwise coverage of the field domains

VARIABLES act,   \* label and arguments of the last step
          obs    \* what the step must observe
vars == <<act, obs>>

Codecs == {"encoding/json", "jsoniter"}
Modes  == {"value", "pointer"}

(***************************************************************************)
(* Enumerations.  Members are identified by their Go constant.             *)
(***************************************************************************)
EnumNames == {"Direction", "SortOrder", "Status", "Format"}

NameTab ==
  [Direction |-> [DirectionUnknown |-> "unknown",
                  DirectionSum     |-> "sum",
                  DirectionIn      |-> "in",
                  DirectionOut     |-> "out",
                  DirectionBoth    |-> "bi-directional"],
   SortOrder |-> [SortUnknown |-> "unknown",
                  SortPackets |-> "packets",
                  SortTraffic |-> "bytes",
                  SortTime    |-> "time"],
   Status    |-> [StatusError           |-> "error",
                  StatusEmpty           |-> "empty",
                  StatusMissingData     |-> "missing data",
                  StatusTooManyRequests |-> "too many requests",
                  StatusOK              |-> "ok"],
   Format    |-> [FormatJSON     |-> "json",
                  FormatCSV      |-> "csv",
                  FormatTXT      |-> "txt",
                  FormatInfluxDB |-> "influxdb"]]

\* the member every unknown name maps to (enumerations with a FromString function)
UnknownOf == [Direction |-> "DirectionUnknown", SortOrder |-> "SortUnknown"]

Members(E)  == DOMAIN NameTab[E]
Name(E, v)  == NameTab[E][v]
NamesOf(E)  == {Name(E, v) : v \in Members(E)}
FromName(E, s) == CHOOSE v \in Members(E) : Name(E, v) = s      \* defined for s \in NamesOf(E)

NamesInjective == \A E \in EnumNames : \A v, w \in Members(E) : Name(E, v) = Name(E, w) => v = w
RoundTripLaw   == \A E \in EnumNames : \A v \in Members(E) : FromName(E, Name(E, v)) = v
ASSUME NamesInjective
ASSUME RoundTripLaw

(***************************************************************************)
(* Record shapes: field -> domain, field -> default, field -> enumeration. *)
(***************************************************************************)
B == BOOLEAN
U64 == {"zero", "one", "k1000", "big53", "max64"}      \* 0, 1, 1000, 2^53+1, 2^64-1
Dur == {"zero", "2s", "5m"}
TimeC == {"none", "utc", "plus2", "nanos", "y1970"}     \* zero time; instants in UTC / +02:00 / with ns
AddrC == {"none", "v4", "v4b", "v6", "v4in6", "v6zero"}  \* invalid; 10.0.0.1; 255.255.255.255; 2001:db8::1; ::ffff:10.0.0.1; ::

ArgsDom ==
  [query |-> {"sip,dip,dport,proto", "time,iface"},
   ifaces |-> {"eth0", "eth0,!eth1", "/eth[0-3]/"},
   query_hosts |-> {"", "hostA,hostB"},
   hostname |-> {"", "hostA"},
   host_id |-> {"zero", "k1000"},
   condition |-> {"", "dport = 80 & proto = TCP", "sip != 10.0.0.1 | dnet < \"x\""},
   in |-> B, out |-> B, sum |-> B,
   first |-> {"", "-24h", "2020-08-12T09:47:00+02:00"},
   last |-> {"", "1456473000"},
   time_resolution |-> {"", "auto", "10m"},
   format |-> NamesOf("Format") \cup {""},
   sort_by |-> {"", "bytes", "packets", "time"},
   num_results |-> U64,
   sort_ascending |-> B, list |-> B, version |-> B,
   dns_enabled |-> B, dns_timeout |-> Dur, dns_max_rows |-> {"zero", "k1000"},
   max_mem_pct |-> {"zero", "k1000"},
   low_mem |-> B, keepalive |-> Dur, caller |-> {"", "goQuery"}, live |-> B]
ArgsDefault ==
  [query |-> "sip,dip,dport,proto", ifaces |-> "eth0", query_hosts |-> "", hostname |-> "", host_id |-> "zero",
   condition |-> "", in |-> FALSE, out |-> FALSE, sum |-> FALSE, first |-> "", last |-> "", time_resolution |-> "",
   format |-> "", sort_by |-> "", num_results |-> "zero", sort_ascending |-> FALSE, list |-> FALSE,
   version |-> FALSE, dns_enabled |-> FALSE, dns_timeout |-> "zero", dns_max_rows |-> "zero",
   max_mem_pct |-> "zero", low_mem |-> FALSE, keepalive |-> "zero", caller |-> "", live |-> FALSE]

StatementDom ==
  [ifaces |-> {<<>>, <<"eth0">>, <<"eth0", "eth1">>},
   sel_timestamp |-> B, sel_iface |-> B, sel_hostname |-> B, sel_host_id |-> B,
   query_type |-> {"sip,dip,dport,proto", "time,iface"},
   condition |-> {"", "dport = 80 & proto = TCP"},
   direction |-> Members("Direction"),
   from |-> {"zero", "t1456358400", "maxtime"}, to |-> {"zero", "t1456358400", "maxtime"},
   time_bin_size |-> Dur,
   format |-> NamesOf("Format") \cup {""},
   limit |-> U64,
   sort_by |-> Members("SortOrder"),
   sort_ascending |-> B,
   caller |-> {"", "goQuery"},
   dns_enabled |-> B, dns_timeout |-> Dur, dns_max_rows |-> {"zero", "k1000"},
   max_mem_pct |-> {"zero", "k1000"}, low_mem |-> B, keepalive |-> Dur, live |-> B]
StatementDefault ==
  [ifaces |-> <<"eth0">>, sel_timestamp |-> FALSE, sel_iface |-> FALSE, sel_hostname |-> FALSE, sel_host_id |-> FALSE,
   query_type |-> "sip,dip,dport,proto", condition |-> "", direction |-> "DirectionSum", from |-> "zero", to |-> "zero",
   time_bin_size |-> "zero", format |-> "", limit |-> "zero", sort_by |-> "SortTraffic", sort_ascending |-> FALSE,
   caller |-> "", dns_enabled |-> FALSE, dns_timeout |-> "zero", dns_max_rows |-> "zero", max_mem_pct |-> "zero",
   low_mem |-> FALSE, keepalive |-> "zero", live |-> FALSE]

RowDom ==
  [timestamp |-> TimeC, iface |-> {"", "eth0"}, host |-> {"", "hostA"}, host_id |-> {"", "id-1"},
   sip |-> AddrC, dip |-> AddrC, proto |-> {"zero", "p6", "p255"}, dport |-> {"zero", "p80", "p65535"},
   br |-> U64, bs |-> U64, pr |-> U64, ps |-> U64]
RowDefault ==
  [timestamp |-> "none", iface |-> "", host |-> "", host_id |-> "", sip |-> "none", dip |-> "none",
   proto |-> "zero", dport |-> "zero", br |-> "zero", bs |-> "zero", pr |-> "zero", ps |-> "zero"]

RowA == [RowDefault EXCEPT !.timestamp = "plus2", !.iface = "eth0", !.host = "hostA", !.host_id = "id-1",
                           !.sip = "v4", !.dip = "v6", !.proto = "p6", !.dport = "p80", !.br = "big53", !.ps = "one"]
RowB == [RowDefault EXCEPT !.sip = "v4in6", !.dip = "v4b", !.proto = "p255", !.dport = "p65535", !.bs = "max64"]

ResultDom ==
  [hostname |-> {"", "hostA"},
   status_code |-> Members("Status"), status_message |-> {"", "no results returned"},
   hosts_statuses |-> {"none", "one_ok", "ok_and_error"},
   interfaces |-> {<<>>, <<"eth0">>, <<"eth0", "eth1">>},
   time_first |-> TimeC, time_last |-> TimeC,
   totals |-> U64,
   query_start |-> TimeC, query_duration |-> Dur, resolution |-> Dur,
   hits_displayed |-> {"zero", "k1000"}, hits_total |-> {"zero", "k1000"},
   data_available |-> B,
   stats |-> {"nil", "zero", "some"},
   attributes |-> {<<>>, <<"sip", "dip">>},
   query_condition |-> {"", "dport = 80 & proto = TCP"},
   rows |-> {<<>>, <<RowA>>, <<RowA, RowB>>}]
ResultDefault ==
  [hostname |-> "", status_code |-> "StatusOK", status_message |-> "", hosts_statuses |-> "none",
   interfaces |-> <<>>, time_first |-> "none", time_last |-> "none", totals |-> "zero", query_start |-> "none",
   query_duration |-> "zero", resolution |-> "zero", hits_displayed |-> "zero", hits_total |-> "zero",
   data_available |-> FALSE, stats |-> "nil", attributes |-> <<>>, query_condition |-> "", rows |-> <<>>]

Shapes  == {"Args", "Statement", "Result", "Row"}
Dom     == [Args |-> ArgsDom, Statement |-> StatementDom, Result |-> ResultDom, Row |-> RowDom]
Default == [Args |-> ArgsDefault, Statement |-> StatementDefault, Result |-> ResultDefault, Row |-> RowDefault]
\* which fields carry an enumeration member (they travel as the member's name)
EnumOf  == [Args |-> <<>>,
            Statement |-> [direction |-> "Direction", sort_by |-> "SortOrder"],
            Result |-> [status_code |-> "Status"],
            Row |-> <<>>]

ASSUME \A s \in Shapes : /\ DOMAIN Dom[s] = DOMAIN Default[s]
                         /\ \A f \in DOMAIN Dom[s] : Default[s][f] \in Dom[s][f]

\* all records of a shape in which at most two (three for the shapes in Strength3) fields differ from the default:
\* every pair (triple) of field values occurs together in some record (pairwise / 3-wise coverage)
Fields(s) == DOMAIN Dom[s]
Rec3(s, f1, v1, f2, v2, f3, v3) ==
  [f \in Fields(s) |-> IF f = f3 THEN v3 ELSE IF f = f2 THEN v2 ELSE IF f = f1 THEN v1 ELSE Default[s][f]]
Records2(s) ==
  UNION {{Rec3(s, g[1], w1, g[2], w2, g[2], w2) : w1 \in Dom[s][g[1]], w2 \in Dom[s][g[2]]} :
           g \in Fields(s) \X Fields(s)}
Records3(s) ==
  UNION {{Rec3(s, g[1], w1, g[2], w2, g[3], w3) : w1 \in Dom[s][g[1]], w2 \in Dom[s][g[2]], w3 \in Dom[s][g[3]]} :
           g \in Fields(s) \X Fields(s) \X Fields(s)}
Records(s) == IF s \in Strength3 THEN Records3(s) ELSE Records2(s)

Wire(s, r)   == [f \in DOMAIN r |-> IF f \in DOMAIN EnumOf[s] THEN Name(EnumOf[s][f], r[f]) ELSE r[f]]
Unwire(s, w) == [f \in DOMAIN w |-> IF f \in DOMAIN EnumOf[s] THEN FromName(EnumOf[s][f], w[f]) ELSE w[f]]
\* the enumeration names a document of shape s must carry
WireNames(s, r) == [f \in DOMAIN EnumOf[s] |-> Name(EnumOf[s][f], r[f])]

(***************************************************************************)
(* Steps.                                                                  *)
(***************************************************************************)
Init == act = [name |-> "Init"] /\ obs = [none |-> TRUE]

\* v.String() (string(v) for the string typed enumerations)
ToName(E, v) ==
  /\ act' = [name |-> "ToName", enum |-> E, v |-> v]
  /\ obs' = [str |-> Name(E, v)]

\* XFromString(Name(v)) for the enumerations that have such a function
OfName(E, v) ==
  /\ E \in DOMAIN UnknownOf
  /\ act' = [name |-> "OfName", enum |-> E, str |-> Name(E, v)]
  /\ obs' = [v |-> FromName(E, Name(E, v))]

\* encode a bare enumeration member, decode it into a fresh variable
EnumJSON(E, v, c, md) ==
  /\ act' = [name |-> "EnumJSON", enum |-> E, v |-> v, codec |-> c, mode |-> md]
  /\ obs' = [v |-> FromName(E, Name(E, v)), wire |-> Name(E, v)]

\* encode a record of shape s, decode it into a fresh value
RecordJSON(s, r, c, md) ==
  /\ act' = [name |-> "RecordJSON", shape |-> s, rec |-> r, codec |-> c, mode |-> md]
  /\ obs' = [back |-> Unwire(s, Wire(s, r)), wire |-> WireNames(s, r)]

Next == \/ \E E \in EnumNames, c \in Codecs, md \in Modes : \E v \in Members(E) :
              ToName(E, v) \/ OfName(E, v) \/ EnumJSON(E, v, c, md)
        \/ \E s \in Shapes, c \in Codecs, md \in Modes : \E r \in Records(s) : RecordJSON(s, r, c, md)

Spec == Init /\ [][Next]_vars

Obs == obs

(***************************************************************************)
(* Properties (checked by TLC on every step of the bounded model).         *)
(***************************************************************************)
EnumRoundTripOK == act.name = "EnumJSON" => obs.v = act.v /\ obs.wire \in NamesOf(act.enum)
OfNameOK        == act.name = "OfName" => Name(act.enum, obs.v) = act.str
RecordRoundTripOK == act.name = "RecordJSON" => obs.back = act.rec
WireOK == act.name = "RecordJSON" =>
            \A f \in DOMAIN obs.wire : obs.wire[f] \in NamesOf(EnumOf[act.shape][f])
=============================================================================
