------------------------------ MODULE EnumsMC ------------------------------
(* One step from Init covers every (act, obs) pair: steps do not depend on  *)
(* history.  Split per action so that coverage shows each one was taken.   *)
EXTENDS Enums
AtInit == act.name = "Init"
MCToName == AtInit /\ \E E \in EnumNames : \E v \in Members(E) : ToName(E, v)
MCOfName == AtInit /\ \E E \in EnumNames : \E v \in Members(E) : OfName(E, v)
MCEnumJSON == AtInit /\ \E E \in EnumNames, c \in Codecs, md \in Modes : \E v \in Members(E) : EnumJSON(E, v, c, md)
MCRecordJSON == AtInit /\ \E s \in Shapes, c \in Codecs, md \in Modes : \E r \in Records(s) : RecordJSON(s, r, c, md)
MCNext == MCToName \/ MCOfName \/ MCEnumJSON \/ MCRecordJSON
MCSpec == Init /\ [][MCNext]_vars
=============================================================================
