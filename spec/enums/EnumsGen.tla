------------------------------ MODULE EnumsGen ------------------------------
(* Case generator (spec -> code): every step of the model printed once as   *)
(* a JSON list [[act, exp]].                                                *)
EXTENDS Enums, Json
VARIABLES hist, done
GenInit == Init /\ hist = <<>> /\ done = FALSE
GenNext == \/ /\ ~done /\ Len(hist) < 1
              /\ Next
              /\ hist' = Append(hist, [act |-> act', exp |-> Obs'])
              /\ UNCHANGED done
           \/ /\ ~done /\ Len(hist) = 1
              /\ PrintT(<<"TRACE", ToJson(hist)>>)
              /\ done' = TRUE /\ hist' = <<>> /\ obs' = [none |-> TRUE]
              /\ act' = [name |-> "Done"]
GenSpec == GenInit /\ [][GenNext]_<<vars, hist, done>>
=============================================================================
