SPECIFICATION MCSpec
CONSTANTS
  MaxPackets = 2
  SportDropped <- AsBuiltSportDropped
  DportDropped <- AsBuiltDportDropped
INVARIANTS OneFlow StoredIsFirst SeenFirstIrrelevant Laws Accounting
CONSTRAINT Bound
VIEW View
