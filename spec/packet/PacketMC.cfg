SPECIFICATION Spec
CONSTANTS
  Packets <- MCPackets
INVARIANTS ProcedureMatchesRule ResultShape DestinationPortKept MirrorHolds
