SPECIFICATION GenSpec
CONSTANTS
  GenPackets <- GenQuick
CHECK_DEADLOCK FALSE
