--------------------------- MODULE DirectionTrace ---------------------------
(***************************************************************************)
(* Trace validation (code -> spec) for the flow log.  The Go driver        *)
(* (harness/internal/packet, c22-drive) runs many interleaved              *)
(* conversations between a handful of hosts through a real capture (so     *)
(* that conversations share flows, mirrored keys meet existing flows and   *)
(* fragments / truncated packets are mixed in) and logs one event per      *)
(* packet: the abstract packet, and what the real FlowLog showed after it: *)
(* the number of flows, the ignored-packet counter and the one flow whose  *)
(* packet count changed (key and new count).  The trace is a behaviour of  *)
(* Direction.tla iff every event is Observe(p) and the logged observables  *)
(* equal the model state.                                                  *)
(***************************************************************************)
EXTENDS Direction, Json

TraceLog == ndJsonDeserialize("trace.ndjson")

VARIABLE l
tvars == <<dvars, l>>

Pk(e) == [ver |-> e.p.ver, len |-> e.p.len, ihl |-> e.p.ihl, fragOff |-> e.p.fragOff, proto |-> e.p.proto,
          sip |-> e.p.sip, dip |-> e.p.dip, sport |-> e.p.sport, dport |-> e.p.dport,
          tcpFlags |-> e.p.tcpFlags, icmpType |-> e.p.icmpType, scls |-> e.p.scls, dcls |-> e.p.dcls]
Ky(k) == [ver |-> k.ver, sip |-> k.sip, sport |-> k.sport, dip |-> k.dip, dport |-> k.dport, proto |-> k.proto]

\* the flow the model touches for packet p in flow log f
ModelHit(f, p) == LET k == KeyOfPkt(p) IN
                  IF k \in DOMAIN f THEN k ELSE IF RevK(k) \in DOMAIN f THEN RevK(k) ELSE StoredFirst(p)

ObsOK(e, f, f2, ig2) ==
  IF e.ev = "Reset" THEN TRUE
  ELSE /\ e.nflows = Cardinality(DOMAIN f2)
       /\ e.ignored = ig2
       /\ IF Parsed(Pk(e))
          THEN /\ e.changed = 1
               /\ Ky(e.hit.k) = ModelHit(f, Pk(e))
               /\ e.hit.n = f2[ModelHit(f, Pk(e))]
          ELSE e.changed = 0

Reset == flows' = Empty /\ ignored' = 0 /\ act' = [name |-> "Reset"]
Step(e) == IF e.ev = "Reset" THEN Reset ELSE Observe(Pk(e))

Explain(e, f, f2, ig2) ==
  IF e.ev = "Reset" THEN [line |-> l, ev |-> "Reset"]
  ELSE [line |-> l, ev |-> e.ev, p |-> Pk(e), action |-> act'.name, tags |-> Tags(Pk(e)),
        judged |-> (act'.name \in {"InsertAsSeen", "InsertMirrored"} /\ Decisive(Pk(e))),
        model_nflows |-> Cardinality(DOMAIN f2), model_ignored |-> ig2,
        model_hit |-> IF Parsed(Pk(e)) THEN [k |-> ModelHit(f, Pk(e)), n |-> f2[ModelHit(f, Pk(e))]] ELSE [none |-> TRUE],
        logged |-> [nflows |-> e.nflows, ignored |-> e.ignored, changed |-> e.changed, hit |-> e.hit]]

TraceInit == DInit /\ l = 1
TraceNext ==
  /\ l <= Len(TraceLog)
  /\ LET e == TraceLog[l] IN
       /\ Step(e)
       /\ l' = l + 1
       /\ \/ ObsOK(e, flows, flows', ignored')
          \/ /\ ~ObsOK(e, flows, flows', ignored')
             /\ PrintT(<<"MISMATCH", ToJson(Explain(e, flows, flows', ignored'))>>)
             /\ FALSE
TraceSpec == TraceInit /\ [][TraceNext]_tvars

TraceAccepted ==
  \/ TLCGet("stats").diameter - 1 = Len(TraceLog)
  \/ PrintT(<<"INFO", ToJson([consumed |-> TLCGet("stats").diameter - 1, total |-> Len(TraceLog)])>>) /\ FALSE
=============================================================================
