SPECIFICATION GenSpec
CONSTANTS
  GenPackets <- GenThorough
CHECK_DEADLOCK FALSE
