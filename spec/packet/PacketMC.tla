------------------------------ MODULE PacketMC ------------------------------
(***************************************************************************)
(* Bounded exhaustive check of the parser design: every packet of an       *)
(* edge-rich domain is delivered and walked through the decision procedure;*)
(* the invariants of Packet.tla are evaluated in every state.              *)
(***************************************************************************)
EXTENDS Packet, PacketDom

MCL4 == {19, 20, 33, 34, 38, 60}
MCL6 == {39, 40, 53, 54, 80}
MCAP == {<<"A", "B">>, <<"A", "A">>}
MCPorts == {0, 53, 443, 1024, 40000}

MCVL == VLens(MCL4, MCL6)

MCPackets ==
  TcpPk(MCVL, {5, 6}, {0, 1, 8191}, MCAP, Sq(MCPorts), {0, 2, 18})
  \cup UdpPk(MCVL, {5, 6}, {0, 1, 8191}, MCAP, Sq(MCPorts))
  \cup IcmpPk(MCVL, {5, 6}, {0, 1}, MCAP, {0, 8, 128})
  \cup OtherPk(MCVL, {5, 6}, {0, 1}, {ESP, 47, 1, 58, 0, 255}, MCAP)
=============================================================================
