--------------------------- MODULE DirectionMCNeg ---------------------------
(***************************************************************************)
(* Negative control of DirectionMC (must FAIL): the port-drop rule as      *)
(* built in pkg/capture/flow.go - a port is dropped whenever the other     *)
(* side's port is a common service port, so both are dropped when both are *)
(* common - substituted for the documented rule.  TLC then finds           *)
(* conversations (e.g. 80 <-> 443/tcp) whose stored orientation depends on *)
(* which side is seen first: the invariants are not vacuous, and the       *)
(* counter-example is a candidate that the forward replay reproduces on    *)
(* the real code.                                                          *)
(***************************************************************************)
EXTENDS DirectionMC
AsBuiltSportDropped(p) == IsCommon(p.dport, p.proto)
AsBuiltDportDropped(p) == IsCommon(p.sport, p.proto)
=============================================================================
