---------------------------- MODULE DirectionGenT ----------------------------
(* thorough-tier domain of DirectionGen: more ports, same-address conversations for every pair *)
EXTENDS DirectionGen
GenStartsThorough == GenStartsQuick \cup Legal(
  StartsOf({Conv(v, TCP, "A", "u", pp[1], "B", "u", pp[2]) : v \in {4, 6}, pp \in FewPairs}, FlagKinds) \cup
  StartsOf(PortConvs(MorePorts, TCP, UB), {K("handshake", 2, 18), K("mid", 16, 16)})
  \cup StartsOf(PortConvs(MorePorts, UDP, UB), UdpKindsG)
  \cup StartsOf(PortConvs(EdgePorts, TCP, {<<"A", "u">>}), {K("handshake", 2, 18), K("mid", 16, 16)})
  \cup StartsOf(PortConvs(EdgePorts, UDP, {<<"A", "u">>}), UdpKindsG))
=============================================================================
