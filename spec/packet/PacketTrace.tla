----------------------------- MODULE PacketTrace -----------------------------
(***************************************************************************)
(* Trace validation (code -> spec) for the stateless parser.  The Go driver*)
(* (harness/internal/packet, c19-drive) draws a large seeded sample of     *)
(* packets over the *full* field ranges (any protocol, any port, any       *)
(* length, options, fragments), runs the real ParsePacketV4/V6 on the      *)
(* packet and on its reverse and logs one event per packet                 *)
(*    p     the abstract header fields                                     *)
(*    got   the real result for p,  rgot  the real result for Reverse(p)   *)
(*    mir   got.key.Reverse() == rgot.key, computed with the real Reverse()*)
(* TLC evaluates the rule on every event; each disagreement is printed as a*)
(* MISMATCH line carrying the packet's abstract tags (the check decides    *)
(* from the tags what is judged and what is only recorded).  The trace is  *)
(* accepted when every event was consumed.                                 *)
(***************************************************************************)
EXTENDS PacketRule, Json

TraceLog == ndJsonDeserialize("trace.ndjson")

VARIABLE l

Pk(e) == [ver |-> e.p.ver, len |-> e.p.len, ihl |-> e.p.ihl, fragOff |-> e.p.fragOff, proto |-> e.p.proto,
          sip |-> e.p.sip, dip |-> e.p.dip, sport |-> e.p.sport, dport |-> e.p.dport,
          tcpFlags |-> e.p.tcpFlags, icmpType |-> e.p.icmpType]
Res(g) == [cls |-> g.cls, sip |-> g.sip, sport |-> g.sport, dip |-> g.dip, dport |-> g.dport,
           proto |-> g.proto, aux |-> g.aux]

FwdOK(e) == Res(e.got) = Classify(Pk(e))
RevOK(e) == Res(e.rgot) = Classify(Reverse(Pk(e)))
\* the mirror relation is only defined between two extracted keys
MirOK(e) == (e.got.cls = "Key" /\ e.rgot.cls = "Key") => e.mir

Explain(e) == [line |-> l, p |-> Pk(e), tags |-> Tags(Pk(e)), exp |-> Classify(Pk(e)), got |-> Res(e.got),
               rexp |-> Classify(Reverse(Pk(e))), rgot |-> Res(e.rgot),
               fwd_ok |-> FwdOK(e), rev_ok |-> RevOK(e), mir_ok |-> MirOK(e)]

TraceInit == l = 1
TraceNext ==
  /\ l <= Len(TraceLog)
  /\ LET e == TraceLog[l] IN
       IF FwdOK(e) /\ RevOK(e) /\ MirOK(e) THEN TRUE
       ELSE PrintT(<<"MISMATCH", ToJson(Explain(e))>>)
  /\ l' = l + 1
TraceSpec == TraceInit /\ [][TraceNext]_l

TraceAccepted ==
  \/ TLCGet("stats").diameter - 1 = Len(TraceLog)
  \/ PrintT(<<"INFO", ToJson([consumed |-> TLCGet("stats").diameter - 1, total |-> Len(TraceLog)])>>) /\ FALSE
=============================================================================
