SPECIFICATION GenSpec
CONSTANTS
  Starts <- GenStartsQuick
CHECK_DEADLOCK FALSE
