----------------------------- MODULE PacketDom -----------------------------
(***************************************************************************)
(* Constructors for edge-rich packet domains (shared by PacketMC and       *)
(* PacketGen).  Only fields that exist for a protocol vary: ports for      *)
(* TCP/UDP, flags for TCP, the type for ICMP; for IPv6 ihl is the constant *)
(* 10 (40 byte header) and there is no fragment offset in the fixed header.*)
(***************************************************************************)
EXTENDS PacketRule

Mk(v, l, i, fo, pr, s, d, sp, dp, fl, it) ==
  [ver |-> v, len |-> l, ihl |-> IF v = 4 THEN i ELSE 10, fragOff |-> IF v = 4 THEN fo ELSE 0,
   proto |-> pr, sip |-> s, dip |-> d, sport |-> sp, dport |-> dp, tcpFlags |-> fl, icmpType |-> it]

\* VL version/length pairs <<ver, len>>, I header lengths (words), FO fragment offsets,
\* AP address pairs <<sip, dip>>, PP port pairs <<sport, dport>>, FL TCP flag bytes, IT ICMP types.
\* (No UNION of big sets here: TLC's UNION is quadratic.)
VLens(L4, L6) == ({4} \X L4) \cup ({6} \X L6)

TcpPk(VL, I, FO, AP, PP, FL) ==
  {Mk(vl[1], vl[2], i, fo, TCP, ap[1], ap[2], pp[1], pp[2], fl, 0) :
     vl \in VL, i \in I, fo \in FO, ap \in AP, pp \in PP, fl \in FL}

UdpPk(VL, I, FO, AP, PP) ==
  {Mk(vl[1], vl[2], i, fo, UDP, ap[1], ap[2], pp[1], pp[2], 0, 0) :
     vl \in VL, i \in I, fo \in FO, ap \in AP, pp \in PP}

\* the ICMP protocol of the packet's own family
IcmpPk(VL, I, FO, AP, IT) ==
  {Mk(vl[1], vl[2], i, fo, IcmpProto(vl[1]), ap[1], ap[2], 0, 0, 0, it) :
     vl \in VL, i \in I, fo \in FO, ap \in AP, it \in IT}

\* every other protocol number (including the other family's ICMP, which is not parsed)
OtherPk(VL, I, FO, PR, AP) ==
  {q \in {Mk(vl[1], vl[2], i, fo, pr, ap[1], ap[2], 0, 0, 0, 0) :
            vl \in VL, i \in I, fo \in FO, ap \in AP, pr \in PR} :
     q.proto \notin {TCP, UDP, IcmpProto(q.ver)}}

Sq(S) == S \X S

\* the ports of DESIGN 6.6: both sides of every boundary the rule and the direction heuristic test
EdgePorts == {0, 53, 80, 443, 445, 1023, 1024, 8080, 32767, 32768, 65535}
EdgeProtos == {1, 6, 17, 50, 58, 47, 0, 255}
\* delivered lengths around every limit for ihl = 5 and ihl = 6 (IPv4) and for IPv6; 54 is the
\* capture length of goProbe's ring (40 + 14), 60/80 are "more than enough"
EdgeLens4 == {20, 21, 23, 24, 25, 27, 28, 33, 34, 37, 38, 54, 60}
EdgeLens6 == {40, 41, 43, 44, 53, 54, 60, 80}
=============================================================================
