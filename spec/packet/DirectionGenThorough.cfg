SPECIFICATION GenSpec
CONSTANTS
  Starts <- GenStartsThorough
CHECK_DEADLOCK FALSE
