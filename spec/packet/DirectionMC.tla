---------------------------- MODULE DirectionMC ----------------------------
(***************************************************************************)
(* Bounded exhaustive check of the flow-orientation design: one            *)
(* conversation at a time, up to MaxPackets packets in any order of        *)
(* direction and exchange kind (plus non-first fragments, which must be    *)
(* ignored).  TLC checks that a conversation never splits into two flows,  *)
(* that the stored key is the one the first packet determined, that this   *)
(* key is the same whichever side was seen first when the heuristic is     *)
(* decisive for both, and that requests are stored requester -> responder. *)
(***************************************************************************)
EXTENDS Direction

CONSTANT MaxPackets
VARIABLES conv,    \* the conversation under observation
          first,   \* history: the first packet that produced a key (or None)
          npk      \* packets observed
mvars == <<dvars, conv, first, npk>>

None == [ver |-> 0]

K(n, x, y) == [name |-> n, c2s |-> x, s2c |-> y]
TcpKinds  == {K("handshake", 2, 18), K("handshake", 194, 82), K("mid", 16, 16), K("mid", 24, 17), K("mid", 0, 4)}
UdpKinds  == {K("udp", 0, 0)}
Icmp4Kinds == {K("echo", 8, 0), K("timestamp", 13, 14), K("other", 15, 16), K("other", 3, 3)}
Icmp6Kinds == {K("echo", 128, 129), K("other", 135, 136), K("other", 1, 1)}
PlainKinds == {K("plain", 0, 0)}

Kinds(c) == IF c.proto = TCP THEN TcpKinds ELSE IF c.proto = UDP THEN UdpKinds
            ELSE IF c.proto = IcmpProto(c.ver) THEN (IF c.ver = 4 THEN Icmp4Kinds ELSE Icmp6Kinds)
            ELSE PlainKinds

Conv(v, pr, a, ac, pa, b, bc, pb) == [ver |-> v, proto |-> pr, a |-> a, acls |-> ac, pa |-> pa, b |-> b, bcls |-> bc, pb |-> pb]

MCPorts == {0, 53, 443, 1024, 40000}                 \* quick tier
MCPortsT == {0, 53, 443, 1024, 8080, 32768, 40000}   \* thorough tier (cfg: MCPorts <- MCPortsT)
Peers4 == {<<"B", "u">>, <<"A", "u">>, <<"M", "m">>, <<"BC", "b">>}
Peers6 == {<<"B", "u">>, <<"A", "u">>, <<"M", "m">>}
Peers(v) == IF v = 4 THEN Peers4 ELSE Peers6

MCConvs ==
  {Conv(v, pr, "A", "u", pp[1], q[1], q[2], pp[2]) :
      v \in {4, 6}, pr \in {TCP, UDP}, pp \in MCPorts \X MCPorts, q \in {<<"B", "u">>, <<"A", "u">>}}
  \cup {Conv(4, UDP, "A", "u", pp[1], q[1], q[2], pp[2]) : pp \in {<<68, 67>>, <<53, 40000>>, <<5353, 5353>>}, q \in {<<"M", "m">>, <<"BC", "b">>}}
  \cup {Conv(6, UDP, "A", "u", pp[1], "M", "m", pp[2]) : pp \in {<<546, 547>>, <<53, 40000>>}}
  \cup {Conv(4, pr, "A", "u", 0, q[1], q[2], 0) : pr \in {ICMP4, ICMP6, ESP, 47}, q \in Peers4}
  \cup {Conv(6, pr, "A", "u", 0, q[1], q[2], 0) : pr \in {ICMP4, ICMP6, ESP, 47}, q \in Peers6}

MCInit == DInit /\ conv \in MCConvs /\ first = None /\ npk = 0

\* a packet of the conversation, or one of its non-first fragments (IPv4; must not touch the log)
ConvPkts == {ConvPkt(conv, d, e) : d \in Dirs(conv), e \in Kinds(conv)}
FragPkts == IF conv.ver = 4 /\ conv.proto # ESP THEN {[p EXCEPT !.fragOff = 185] : p \in ConvPkts} ELSE {}

Book(p) == /\ first' = IF first = None /\ Parsed(p) THEN p ELSE first
           /\ npk' = npk + 1 /\ UNCHANGED conv

\* one MC action per branch of the flow log (vacuity guard by name)
MCIgnore         == \E p \in FragPkts : Ignore(p) /\ Book(p)
MCUpdateForward  == \E p \in ConvPkts : UpdateForward(p) /\ Book(p)
MCUpdateReverse  == \E p \in ConvPkts : UpdateReverse(p) /\ Book(p)
MCInsertAsSeen   == \E p \in ConvPkts : InsertAsSeen(p) /\ Book(p)
MCInsertMirrored == \E p \in ConvPkts : InsertMirrored(p) /\ Book(p)

MCNext == MCIgnore \/ MCUpdateForward \/ MCUpdateReverse \/ MCInsertAsSeen \/ MCInsertMirrored
MCSpec == MCInit /\ [][MCNext]_mvars

Bound == npk <= MaxPackets
View == <<flows, ignored, conv, first, npk>>

\* ---- invariants
OneFlow == Cardinality(DOMAIN flows) <= 1

StoredIsFirst == IF first = None THEN flows = Empty ELSE DOMAIN flows = {StoredFirst(first)}

\* the other side's packet of the same exchange kind
Opposite(p) == [DReverse(p) EXCEPT
                 !.tcpFlags = IF p.proto = TCP /\ Syn(p.tcpFlags) THEN (IF Ack(p.tcpFlags) THEN p.tcpFlags - 16 ELSE p.tcpFlags + 16) ELSE p.tcpFlags,
                 !.icmpType = IF p.proto = ICMP4 /\ p.ver = 4
                              THEN (CASE p.icmpType = 8 -> 0 [] p.icmpType = 0 -> 8 [] p.icmpType = 13 -> 14 [] p.icmpType = 14 -> 13 [] OTHER -> p.icmpType)
                              ELSE IF p.proto = ICMP6 /\ p.ver = 6
                              THEN (CASE p.icmpType = 128 -> 129 [] p.icmpType = 129 -> 128 [] OTHER -> p.icmpType)
                              ELSE p.icmpType]

\* whichever side was seen first, the log holds the same key (when decisive for both)
SeenFirstIrrelevant ==
  (first # None /\ conv.bcls = "u" /\ Decisive(first) /\ Decisive(Opposite(first)))
     => DOMAIN flows = {StoredFirst(Opposite(first))}

\* (depends on conv only: evaluated once per conversation, in its initial state)
Laws == npk = 0 => \A e \in Kinds(conv) : OrientationStable(conv, e) /\ RequesterIsSource(conv, e)

Accounting ==
  LET RECURSIVE S(_)
      S(D) == IF D = {} THEN 0 ELSE LET x == CHOOSE x \in D : TRUE IN flows[x] + S(D \ {x})
  IN S(DOMAIN flows) + ignored = npk
=============================================================================
