----------------------------- MODULE Direction -----------------------------
(***************************************************************************)
(* C22 - flow orientation.  The flow log of a capture (pkg/capture         *)
(* capture.go addToFlowLogV4/V6) on top of the parsing rule of PacketRule: *)
(* a parsed packet updates the flow stored under its key or under the      *)
(* mirrored key; the first packet of a conversation creates the flow, and  *)
(* the direction heuristic (capturetypes.ClassifyPacketDirection) decides  *)
(* whether it is stored as seen or mirrored, so that a conversation is     *)
(* always stored requester -> responder.                                   *)
(*                                                                         *)
(* The documented heuristic:                                               *)
(*   TCP   SYN without ACK = request, SYN+ACK = response; otherwise ports  *)
(*   UDP   broadcast / multicast destination = request; otherwise ports    *)
(*   ports the ephemeral side (port >= 32768, or a dropped port = 0) is    *)
(*         the client; within one class the smaller port is the server;    *)
(*         identical ports: nothing to go by (assume first packet=request) *)
(*   ICMP  echo request 8 / timestamp request 13 = request; echo reply 0,  *)
(*         timestamp reply 14 and the error types 3, 11, 12 = response     *)
(*   ICMPv6 multicast destination = request; 128 = request; 129 and the    *)
(*         error types 1, 3, 4 = response                                  *)
(*   everything else: unknown (stored as seen)                             *)
(*                                                                         *)
(* Packets are the records of PacketRule extended by the classes of the    *)
(* two addresses (scls, dcls in "u" unicast, "m" multicast, "b" broadcast).*)
(***************************************************************************)
EXTENDS PacketRule

VARIABLES flows,    \* the flow log: flow key -> number of packets accounted to it
          ignored,  \* packets that produced no key (fragments, truncated)
          act
dvars == <<flows, ignored, act>>

Bit(a, w) == (a \div w) % 2 = 1
Syn(a) == Bit(a, 2)
Ack(a) == Bit(a, 16)

FKey(ver, o) == [ver |-> ver, sip |-> o.sip, sport |-> o.sport, dip |-> o.dip, dport |-> o.dport, proto |-> o.proto]
RevK(k) == [k EXCEPT !.sip = k.dip, !.dip = k.sip, !.sport = k.dport, !.dport = k.sport]

\* packet of the same conversation travelling the other way (address classes travel with the addresses)
DReverse(p) == [Reverse(p) EXCEPT !.scls = p.dcls, !.dcls = p.scls]

Eph(port) == port >= 32768 \/ port = 0
ByPorts(s, d) == IF Eph(s) /\ ~Eph(d) THEN "remains"
                 ELSE IF ~Eph(s) /\ Eph(d) THEN "reverts"
                 ELSE IF d < s THEN "remains"
                 ELSE IF s < d THEN "reverts"
                 ELSE "remains"

Icmp4Dir(t) == IF t \in {0, 3, 11, 12, 14} THEN "reverts" ELSE IF t \in {8, 13} THEN "remains" ELSE "unknown"
Icmp6Dir(t) == IF t \in {129, 1, 3, 4} THEN "reverts" ELSE IF t = 128 THEN "remains" ELSE "unknown"

\* the heuristic on a parsed key o (with its auxiliary byte) of packet p
Dir(p, o) ==
  IF o.proto = TCP THEN (IF Syn(o.aux) THEN (IF Ack(o.aux) THEN "reverts" ELSE "remains") ELSE ByPorts(o.sport, o.dport))
  ELSE IF o.proto = UDP THEN (IF p.dcls \in {"m", "b"} THEN "remains" ELSE ByPorts(o.sport, o.dport))
  ELSE IF p.ver = 4 /\ o.proto = ICMP4 THEN Icmp4Dir(o.aux)
  ELSE IF p.ver = 6 /\ o.proto = ICMP6 THEN (IF p.dcls = "m" THEN "remains" ELSE Icmp6Dir(o.aux))
  ELSE "unknown"

\* "the direction heuristics give a decisive answer" as far as property C22 speaks about it:
\* TCP handshakes, ICMP echo / timestamp exchanges, and unicast TCP/UDP packets of a conversation
\* whose two ports differ (then the port heuristic has something to go by; under the documented
\* parsing rule the key ports differ exactly when the wire ports do)
Decisive(p) ==
  LET o == Classify(p) IN
  /\ o.cls = "Key"
  /\ \/ o.proto = TCP /\ (Syn(o.aux) \/ (p.dcls = "u" /\ p.scls = "u" /\ p.sport # p.dport))
     \/ o.proto = UDP /\ p.dcls = "u" /\ p.scls = "u" /\ p.sport # p.dport
     \/ p.ver = 4 /\ o.proto = ICMP4 /\ o.aux \in {8, 0, 13, 14}
     \/ p.ver = 6 /\ o.proto = ICMP6 /\ o.aux \in {128, 129} /\ p.dcls = "u" /\ p.scls = "u"

\* the key under which the conversation is stored when p is its first observed packet
StoredFirst(p) == LET o == Classify(p)
                      k == FKey(p.ver, o)
                  IN IF Dir(p, o) = "reverts" THEN RevK(k) ELSE k

Empty == <<>>
Put(f, k, v) == [x \in DOMAIN f \cup {k} |-> IF x = k THEN v ELSE f[x]]

DInit == flows = Empty /\ ignored = 0 /\ act = [name |-> "Init"]

\* The capture loop parses p and calls addToFlowLog; one action per branch of that code.
Parsed(p) == Classify(p).cls = "Key"
KeyOfPkt(p) == FKey(p.ver, Classify(p))
Label(n, p) == act' = [name |-> n, p |-> p]

\* fragments / truncated packets only bump an error counter
Ignore(p) == /\ ~Parsed(p)
             /\ ignored' = ignored + 1 /\ UNCHANGED flows /\ Label("Ignore", p)

\* the flow exists under the packet's own key
UpdateForward(p) == /\ Parsed(p) /\ KeyOfPkt(p) \in DOMAIN flows
                    /\ flows' = [flows EXCEPT ![KeyOfPkt(p)] = @ + 1]
                    /\ UNCHANGED ignored /\ Label("UpdateForward", p)

\* the flow exists under the mirrored key
UpdateReverse(p) == /\ Parsed(p) /\ KeyOfPkt(p) \notin DOMAIN flows /\ RevK(KeyOfPkt(p)) \in DOMAIN flows
                    /\ flows' = [flows EXCEPT ![RevK(KeyOfPkt(p))] = @ + 1]
                    /\ UNCHANGED ignored /\ Label("UpdateReverse", p)

New(p) == Parsed(p) /\ KeyOfPkt(p) \notin DOMAIN flows /\ RevK(KeyOfPkt(p)) \notin DOMAIN flows

\* first packet of a conversation, heuristic says request (or nothing): stored as seen
InsertAsSeen(p) == /\ New(p) /\ Dir(p, Classify(p)) # "reverts"
                   /\ flows' = Put(flows, KeyOfPkt(p), 1)
                   /\ UNCHANGED ignored /\ Label("InsertAsSeen", p)

\* first packet of a conversation, heuristic says response: stored mirrored
InsertMirrored(p) == /\ New(p) /\ Dir(p, Classify(p)) = "reverts"
                     /\ flows' = Put(flows, RevK(KeyOfPkt(p)), 1)
                     /\ UNCHANGED ignored /\ Label("InsertMirrored", p)

Observe(p) == Ignore(p) \/ UpdateForward(p) \/ UpdateReverse(p) \/ InsertAsSeen(p) \/ InsertMirrored(p)

\* observable: the stored keys with their packet counts
Obs == [flows |-> {[k |-> k, n |-> flows[k]] : k \in DOMAIN flows}, ignored |-> ignored]

(***************************************************************************)
(* Conversations.  c = [ver, proto, a, acls, pa, b, bcls, pb]: a is the    *)
(* requester.  An exchange kind e = [name, c2s, s2c] gives the auxiliary   *)
(* byte (TCP flags / ICMP type) of the packets in the two directions.      *)
(***************************************************************************)
FullLen(ver) == IF ver = 4 THEN 60 ELSE 80

ConvPkt(c, d, e) ==
  LET fwd == d = "c2s"
      aux == IF fwd THEN e.c2s ELSE e.s2c
  IN [ver |-> c.ver, len |-> FullLen(c.ver), ihl |-> IF c.ver = 4 THEN 5 ELSE 10, fragOff |-> 0, proto |-> c.proto,
      sip |-> IF fwd THEN c.a ELSE c.b, dip |-> IF fwd THEN c.b ELSE c.a,
      scls |-> IF fwd THEN c.acls ELSE c.bcls, dcls |-> IF fwd THEN c.bcls ELSE c.acls,
      sport |-> IF c.proto \in {TCP, UDP} THEN (IF fwd THEN c.pa ELSE c.pb) ELSE 0,
      dport |-> IF c.proto \in {TCP, UDP} THEN (IF fwd THEN c.pb ELSE c.pa) ELSE 0,
      tcpFlags |-> IF c.proto = TCP THEN aux ELSE 0,
      icmpType |-> IF c.proto = IcmpProto(c.ver) THEN aux ELSE 0]

\* a responder with a multicast / broadcast address never answers from that address
Dirs(c) == IF c.bcls = "u" THEN {"c2s", "s2c"} ELSE {"c2s"}

RequestKinds == {"handshake", "echo", "timestamp"}

\* C22, first sentence: the stored orientation does not depend on which side is seen first
OrientationStable(c, e) ==
  (Dirs(c) = {"c2s", "s2c"} /\ Decisive(ConvPkt(c, "c2s", e)) /\ Decisive(ConvPkt(c, "s2c", e)))
     => StoredFirst(ConvPkt(c, "c2s", e)) = StoredFirst(ConvPkt(c, "s2c", e))

\* C22, second sentence: handshakes and echo / timestamp exchanges are stored requester -> responder,
\* i.e. under the key of the request
RequesterIsSource(c, e) ==
  e.name \in RequestKinds =>
     \A d \in Dirs(c) : StoredFirst(ConvPkt(c, d, e)) = FKey(c.ver, Classify(ConvPkt(c, "c2s", e)))
=============================================================================
