---------------------------- MODULE DirectionGen ----------------------------
(***************************************************************************)
(* Behaviour generator for forward replay (spec -> code) of Direction.tla. *)
(* A behaviour observes one conversation c through the real capture path:  *)
(*   step 1  its first packet, travelling d1, of exchange kind e           *)
(*   step 2  the other side's packet of the same kind (or d1 again when    *)
(*           the peer is a multicast / broadcast address)                   *)
(*   step 3  a later packet travelling d1 again                            *)
(* After every step the stored keys and packet counts (Obs) are printed;   *)
(* `judged` says whether property C22 demands the orientation (Decisive    *)
(* first packet) or whether either orientation is acceptable.              *)
(***************************************************************************)
EXTENDS Direction, Json

CONSTANT Starts        \* set of <<conversation, first direction, exchange kind>>
VARIABLES start, hist, done

K(n, x, y) == [name |-> n, c2s |-> x, s2c |-> y]
Conv(v, pr, a, ac, pa, b, bc, pb) == [ver |-> v, proto |-> pr, a |-> a, acls |-> ac, pa |-> pa, b |-> b, bcls |-> bc, pb |-> pb]
Other(d) == IF d = "c2s" THEN "s2c" ELSE "c2s"

\* the later packet of an exchange: TCP data (ACK), otherwise the same kind again
Later(c, e) == IF c.proto = TCP THEN K("mid", 16, 16) ELSE e

StepPkt(s, i) ==
  LET c == s[1]  d == s[2]  e == s[3] IN
  IF i = 1 THEN ConvPkt(c, d, e)
  ELSE IF i = 2 THEN ConvPkt(c, IF Dirs(c) = {"c2s", "s2c"} THEN Other(d) ELSE d, e)
  ELSE ConvPkt(c, d, Later(c, e))

GenInit == DInit /\ start \in Starts /\ hist = <<>> /\ done = FALSE
GenNext ==
  \/ /\ ~done /\ Len(hist) < 3
     /\ Observe(StepPkt(start, Len(hist) + 1))
     /\ hist' = Append(hist, [act |-> act', exp |-> [flows |-> Obs'.flows, ignored |-> Obs'.ignored,
                                                     judged |-> Decisive(StepPkt(start, 1)),
                                                     tags |-> Tags(StepPkt(start, 1))]])
     /\ UNCHANGED <<start, done>>
  \/ /\ ~done /\ Len(hist) = 3
     /\ PrintT(<<"TRACE", ToJson(hist)>>)
     /\ done' = TRUE /\ hist' = <<>> /\ flows' = Empty /\ ignored' = 0 /\ act' = [name |-> "Done"]
     /\ UNCHANGED start
GenSpec == GenInit /\ [][GenNext]_<<dvars, start, hist, done>>

\* ---- domains
EdgePorts == {0, 53, 80, 443, 445, 1023, 1024, 8080, 32767, 32768, 65535}
MorePorts == EdgePorts \cup {1, 52, 54, 79, 81, 442, 444, 446, 8079, 8081, 32769, 49152, 65534}
DirsOf(c) == Dirs(c)

TcpKindsG == {K("handshake", 2, 18), K("handshake", 194, 82), K("mid", 16, 16), K("mid", 24, 24), K("mid", 0, 0), K("mid", 17, 4)}
UdpKindsG == {K("udp", 0, 0)}

\* every TCP flag byte: f without SYN on both sides, f = SYN without ACK paired with f + ACK
FlagKinds == {K("mid", f, f) : f \in {g \in 0..255 : ~Syn(g)}}
             \cup {K("handshake", f, f + 16) : f \in {g \in 0..255 : Syn(g) /\ ~Ack(g)}}
\* every ICMP type
Icmp4KindsAll == {K("echo", 8, 0), K("timestamp", 13, 14)} \cup {K("other", t, t) : t \in (0..255) \ {0, 8, 13, 14}}
Icmp6KindsAll == {K("echo", 128, 129)} \cup {K("other", t, t) : t \in (0..255) \ {128, 129}}

StartsOf(C, KS) == {<<c, d, e>> : c \in C, d \in {"c2s", "s2c"}, e \in KS} 
Legal(S) == {s \in S : s[2] \in Dirs(s[1])}

PortConvs(P, pr, peers) ==
  {Conv(v, pr, "A", "u", pp[1], q[1], q[2], pp[2]) : v \in {4, 6}, pp \in P \X P, q \in peers}

UB == {<<"B", "u">>}
FewPairs == {<<40000, 443>>, <<1024, 32768>>, <<80, 443>>, <<5000, 5000>>}

GenStartsQuick == Legal(
  StartsOf(PortConvs(EdgePorts, TCP, UB), TcpKindsG)
  \cup StartsOf(PortConvs(EdgePorts, UDP, UB), UdpKindsG)
  \cup StartsOf({Conv(v, pr, "A", "u", pp[1], "A", "u", pp[2]) : v \in {4, 6}, pr \in {TCP, UDP}, pp \in FewPairs}, {K("mid", 16, 16)})
  \cup StartsOf({Conv(v, TCP, "A", "u", pp[1], "B", "u", pp[2]) : v \in {4, 6}, pp \in {<<40000, 443>>, <<1024, 32768>>}}, FlagKinds)
  \cup StartsOf({Conv(4, UDP, "A", "u", pp[1], q[1], q[2], pp[2]) : pp \in {<<68, 67>>, <<53, 40000>>, <<5353, 5353>>, <<40000, 53>>},
                                                                    q \in {<<"M", "m">>, <<"BC", "b">>}}, UdpKindsG)
  \cup StartsOf({Conv(6, UDP, "A", "u", pp[1], "M", "m", pp[2]) : pp \in {<<546, 547>>, <<53, 40000>>, <<5353, 5353>>}}, UdpKindsG)
  \cup StartsOf({Conv(4, ICMP4, "A", "u", 0, q[1], q[2], 0) : q \in {<<"B", "u">>, <<"BC", "b">>, <<"M", "m">>}}, Icmp4KindsAll)
  \cup StartsOf({Conv(6, ICMP6, "A", "u", 0, q[1], q[2], 0) : q \in {<<"B", "u">>, <<"M", "m">>}}, Icmp6KindsAll)
  \cup StartsOf({Conv(v, pr, "A", "u", 0, "B", "u", 0) : v \in {4, 6}, pr \in {ESP, 47, 0, 255, 132}}, {K("plain", 0, 0)})
  \cup StartsOf({Conv(4, ICMP6, "A", "u", 0, "B", "u", 0), Conv(6, ICMP4, "A", "u", 0, "B", "u", 0)}, {K("plain", 0, 0)}))
=============================================================================
