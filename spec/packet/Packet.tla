------------------------------- MODULE Packet -------------------------------
(***************************************************************************)
(* C19.  The parser's decision procedure as a state machine over the rule  *)
(* of PacketRule.tla (Classify, Reverse, MirrorOut): one parse per Deliver,*)
(* steps in the order of the code (ParsePacketV4/V6 in pkg/capture/flow.go)*)
(* TLC checks in PacketMC that the procedure computes the rule and that    *)
(* the shape, destination-port and mirror laws hold for every packet of an *)
(* edge-rich domain.                                                       *)
(***************************************************************************)
EXTENDS PacketRule

CONSTANT Packets     \* the packets the capture source may deliver in this model

(***************************************************************************)
(* The decision procedure as a state machine (one parse per Deliver).      *)
(***************************************************************************)
VARIABLES pkt,   \* packet being parsed (or NoPkt)
          pc,    \* "idle" | "frag" | "proto" | "ports" | "final" | "done"
          out,   \* parse result under construction
          act    \* label of the last action
vars == <<pkt, pc, out, act>>

NoPkt == [ver |-> 0]
Blank == NoKey("none")

Init == pkt = NoPkt /\ pc = "idle" /\ out = Blank /\ act = [name |-> "Init"]

\* capture source hands over the IP layer of packet p
Deliver(p) == /\ pc = "idle"
              /\ pkt' = p /\ out' = Blank
              /\ pc' = IF ShortHeader(p) THEN "short" ELSE "frag"
              /\ act' = [name |-> "Deliver"]

\* fewer bytes than the fixed header: nothing can be read
RejectShort == /\ pc = "short"
               /\ out' = NoKey("Truncated") /\ pc' = "done" /\ UNCHANGED pkt
               /\ act' = [name |-> "RejectShort"]

CheckFragment == /\ pc = "frag"
                 /\ IF pkt.ver = 4 /\ pkt.proto # ESP /\ pkt.fragOff # 0
                    THEN out' = NoKey("Fragment") /\ pc' = "done"
                    ELSE out' = [out EXCEPT !.sip = pkt.sip, !.dip = pkt.dip] /\ pc' = "proto"
                 /\ UNCHANGED pkt
                 /\ act' = [name |-> "CheckFragment"]

ParseTCP == /\ pc = "proto" /\ pkt.proto = TCP
            /\ IF pkt.len < HdrLen(pkt) + 14
               THEN out' = NoKey("Truncated") /\ pc' = "done"
               ELSE out' = [out EXCEPT !.aux = pkt.tcpFlags] /\ pc' = "ports"
            /\ UNCHANGED pkt /\ act' = [name |-> "ParseTCP"]

ParseUDP == /\ pc = "proto" /\ pkt.proto = UDP
            /\ IF pkt.len < HdrLen(pkt) + 4
               THEN out' = NoKey("Truncated") /\ pc' = "done"
               ELSE out' = out /\ pc' = "ports"
            /\ UNCHANGED pkt /\ act' = [name |-> "ParseUDP"]

ParseICMP == /\ pc = "proto" /\ pkt.proto = IcmpProto(pkt.ver)
             /\ IF pkt.len < HdrLen(pkt) + 1
                THEN out' = NoKey("Truncated") /\ pc' = "done"
                ELSE out' = [out EXCEPT !.aux = pkt.icmpType] /\ pc' = "final"
             /\ UNCHANGED pkt /\ act' = [name |-> "ParseICMP"]

ParseOther == /\ pc = "proto" /\ pkt.proto \notin {TCP, UDP, IcmpProto(pkt.ver)}
              /\ IF pkt.len < HdrLen(pkt)
                 THEN out' = NoKey("Truncated") /\ pc' = "done"
                 ELSE out' = out /\ pc' = "final"
              /\ UNCHANGED pkt /\ act' = [name |-> "ParseOther"]

\* the common-port rule, written as the two independent decisions the parser takes
Ports == /\ pc = "ports"
         /\ LET sc == IsCommon(pkt.sport, pkt.proto)
                dc == IsCommon(pkt.dport, pkt.proto)
                keepS == ~dc \/ sc
                keepD == ~sc \/ dc
            IN out' = [out EXCEPT !.sport = IF keepS THEN pkt.sport ELSE 0,
                                  !.dport = IF keepD THEN pkt.dport ELSE 0]
         /\ pc' = "final" /\ UNCHANGED pkt /\ act' = [name |-> "Ports"]

Finalize == /\ pc = "final"
            /\ out' = [out EXCEPT !.cls = "Key", !.proto = pkt.proto]
            /\ pc' = "done" /\ UNCHANGED pkt /\ act' = [name |-> "Finalize"]

Return == /\ pc = "done" /\ pc' = "idle" /\ pkt' = NoPkt /\ out' = Blank /\ act' = [name |-> "Return"]

\* guard hoisted so that TLC enumerates Packets only in idle states
DeliverAny == pc = "idle" /\ \E p \in Packets : Deliver(p)

Next == \/ DeliverAny
        \/ RejectShort \/ CheckFragment \/ ParseTCP \/ ParseUDP \/ ParseICMP \/ ParseOther
        \/ Ports \/ Finalize \/ Return

Spec == Init /\ [][Next]_vars

(***************************************************************************)
(* Properties of the design (checked by TLC in PacketMC for all packets of *)
(* the domain).                                                            *)
(***************************************************************************)
\* the procedure computes the rule
ProcedureMatchesRule == pc = "done" => out = Classify(pkt)

\* a result is one of the three classes, and a key never carries ports for port-less protocols
ResultShape == pc = "done" =>
  /\ out.cls \in {"Fragment", "Truncated", "Key"}
  /\ (out.cls = "Key" /\ ~HasPorts(pkt)) => (out.sport = 0 /\ out.dport = 0)
  /\ (out.cls = "Key") => (out.sip = pkt.sip /\ out.dip = pkt.dip /\ out.proto = pkt.proto)

\* "extracts the destination port, dropping the ephemeral side's port": the destination port is
\* kept unless the destination is the ephemeral side of a common-port conversation, and then
\* the source port (the service port) is kept; at most one port is ever dropped
DestinationPortKept == (pc = "done" /\ out.cls = "Key" /\ HasPorts(pkt)) =>
  /\ (out.dport = pkt.dport \/ (IsCommon(pkt.sport, pkt.proto) /\ out.dport = 0 /\ out.sport = pkt.sport))
  /\ (out.sport = pkt.sport \/ (IsCommon(pkt.dport, pkt.proto) /\ out.sport = 0 /\ out.dport = pkt.dport))
  /\ (out.sport = pkt.sport \/ out.dport = pkt.dport)

\* mirror law: the other direction of the conversation yields the mirrored result
MirrorHolds == pc = "done" => Classify(Reverse(pkt)) = MirrorOut(out)
=============================================================================
