----------------------------- MODULE PacketGenT -----------------------------
(***************************************************************************)
(* Thorough-tier domain of PacketGen: the full products where the quick    *)
(* tier takes slices.  (Separate module: TLC evaluates every constant      *)
(* definition of the modules it loads, wanted or not.)                     *)
(***************************************************************************)
EXTENDS PacketGen

AB2 == {<<"A", "B">>, <<"A", "A">>}
GenThorough ==
  GenQuick
  \cup TcpPk(VLens({33, 34, 54}, {53, 54}), {5, 6, 15}, {0, 8191}, AB2, Sq(EdgePorts), {0, 2, 18})
  \cup UdpPk(VLens({23, 24, 54}, {43, 44, 54}), {5, 6, 15}, {0, 8191}, AB2, Sq(EdgePorts))
  \cup OtherPk(VLens({20, 60}, {40, 80}), {5, 15}, {0, 1}, 0..255, AB)
=============================================================================
