SPECIFICATION MCSpec
CONSTANTS
  MaxPackets = 3
INVARIANTS OneFlow StoredIsFirst SeenFirstIrrelevant Laws Accounting
CONSTRAINT Bound
VIEW View
