----------------------------- MODULE PacketGen -----------------------------
(***************************************************************************)
(* Case generator for forward replay (spec -> code) of the stateless       *)
(* parser: every packet of the chosen domain is one initial state; its     *)
(* single step prints {p, exp, rexp, tags} where exp = Classify(p) and     *)
(* rexp = Classify(Reverse(p)) are evaluated by TLC.  The harness builds   *)
(* real header bytes for p and Reverse(p), calls ParsePacketV4/V6 and      *)
(* compares.                                                               *)
(***************************************************************************)
EXTENDS PacketDom, Json

CONSTANT GenPackets
VARIABLES p, done

AB == {<<"A", "B">>}
AllBytes == 0..255

\* (1) all edge port pairs, both transport protocols, both families, full and capture length
GenPortCases ==
  TcpPk(VLens({54, 60}, {54, 80}), {5}, {0}, AB, Sq(EdgePorts), {16})
  \cup UdpPk(VLens({24, 60}, {44, 80}), {5}, {0}, AB, Sq(EdgePorts))

\* (2) every length boundary x header length x fragment offset x protocol, a few port pairs
\*     (19 / 39: not even the fixed header - outside the capture source's contract, recorded only)
GenFewPorts == {<<40000, 443>>, <<443, 40000>>, <<1024, 1023>>, <<53, 53>>, <<0, 8080>>}
GenVL == VLens(EdgeLens4 \cup {19}, EdgeLens6 \cup {39})
GenLenCases ==
  TcpPk(GenVL, {5, 6}, {0, 1, 8191}, AB, GenFewPorts, {2})
  \cup UdpPk(GenVL, {5, 6}, {0, 1, 8191}, AB, GenFewPorts)
  \cup IcmpPk(GenVL, {5, 6}, {0, 1, 8191}, AB, {8})
  \cup OtherPk(GenVL, {5, 6}, {0, 1, 8191}, EdgeProtos, AB)

\* (3) all 256 TCP flag bytes and all 256 ICMP types
GenAuxCases ==
  TcpPk(VLens({34, 60}, {54, 80}), {5}, {0}, AB, {<<40000, 443>>, <<1024, 32768>>}, AllBytes)
  \cup IcmpPk(VLens({21, 60}, {41, 80}), {5}, {0}, AB, AllBytes)

GenQuick == GenPortCases \cup GenLenCases \cup GenAuxCases

Case(q) == [p |-> q, exp |-> Classify(q), rexp |-> Classify(Reverse(q)), tags |-> Tags(q),
            mirror |-> MirrorLaw(q)]

GenInit == p \in GenPackets /\ done = FALSE
GenNext == /\ ~done
           /\ PrintT(<<"TRACE", ToJson(Case(p))>>)
           /\ done' = TRUE /\ UNCHANGED p
GenSpec == GenInit /\ [][GenNext]_<<p, done>>
=============================================================================
