SPECIFICATION MCSpec
CONSTANTS
  MaxU32 = 7
  RejectNegativeDelta = TRUE
  TsOnly = FALSE
  MaxOps = 3
INVARIANTS RoundTrip Ordered
CONSTRAINT Bound
CHECK_DEADLOCK FALSE
