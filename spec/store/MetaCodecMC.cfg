SPECIFICATION MCSpec
CONSTANTS
  MaxU32 = 7
  RejectNegativeDelta = TRUE
  MaxOps = 3
INVARIANTS RoundTrip Ordered
CONSTRAINT Bound
CHECK_DEADLOCK FALSE
