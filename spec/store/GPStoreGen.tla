----------------------------- MODULE GPStoreGen -----------------------------
(***************************************************************************)
(* Forward replay generator for C01: write histories (sessions of 1-2      *)
(* blocks, every payload size class in every column) without faults.  The  *)
(* writer's system-call steps are deterministic, so a behaviour is fully   *)
(* described by the W_Begin arguments; after every session the generator   *)
(* records what the specification says is on disk: the committed block     *)
(* ids and, per block and column, the header (length class / encoding).    *)
(***************************************************************************)
EXTENDS GPStoreMC, Json

VARIABLES hist, done

HdrTags(m) == [i \in 1..Len(m.blks) |-> [c \in Cols |-> m.blks[i].cols[c].enc]]

GenInit == Init /\ hist = <<>> /\ done = FALSE

GenNext ==
  \/ /\ ~done
     /\ MCNext
     /\ hist' = IF wpc' = "mkdir" /\ wpc = "idle"
                  THEN Append(hist, [bs |-> wblks', pays |-> [i \in 1..Len(wblks') |-> payload'[wblks'[i]]]])
                ELSE IF wpc' = "idle" /\ wpc # "idle"
                  THEN [hist EXCEPT ![Len(hist)] = [bs |-> hist[Len(hist)].bs, pays |-> hist[Len(hist)].pays,
                                                     committed |-> committed', tags |-> HdrTags(fs'.meta)]]
                  ELSE hist
     /\ UNCHANGED done
  \/ /\ ~done /\ wpc = "idle" /\ Cardinality(DOMAIN payload) = MaxBlocks
     /\ PrintT(<<"TRACE", ToJson(hist)>>)
     /\ done' = TRUE /\ UNCHANGED <<vars, hist>>

GenSpec == GenInit /\ [][GenNext]_<<vars, hist, done>>
=============================================================================
