SPECIFICATION MCSpec
CONSTANTS
  NCols = 2
  BufCap = 4
  SeekOnFallback = TRUE
  ReadAll = FALSE
  MaxPerSession = 2
  MaxBlocks = 2
  EnableCrash = FALSE
  EnableFault = FALSE
  EnableReader = TRUE
  PayKind = "two"
INVARIANTS Consistent AlwaysReadable ReaderSnapshot ReaderNoErrorKF
PROPERTIES AppendOnly ReturnAgrees
CHECK_DEADLOCK FALSE
VIEW View
