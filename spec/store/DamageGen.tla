------------------------------ MODULE DamageGen ------------------------------
EXTENDS Damage
\* emits every placement of one damage (and, in simulation, of several) with the allowed outcome per day
VARIABLE done
GenInit == Init /\ done = FALSE
GenNext == \/ /\ ~done /\ Next /\ UNCHANGED done
           \/ /\ ~done /\ phase = "done"
              /\ PrintT(<<"TRACE", ToJson([damaged |-> damaged, outcome |-> outcome])>>)
              /\ done' = TRUE /\ UNCHANGED vars
GenSpec == GenInit /\ [][GenNext]_<<vars, done>>
=============================================================================
