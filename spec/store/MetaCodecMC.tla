----------------------------- MODULE MetaCodecMC -----------------------------
EXTENDS MetaCodec, Json
CONSTANTS MaxOps,
          TsOnly    \* TRUE: one count vector only (exhaust timestamp orders instead)
VARIABLES hist, done

\* scaled value sets: MaxU32 = 7. Timestamps: a low group around 10 (equal, +1, earlier) and a high
\* group around 10+MaxU32 (largest representable gap from 10, one more, two more).
TsVals == {9, 10, 11, 17, 18, 19}
CntVals == {0, 1, 7, 8}

\* counts vary one field at a time (the fields are independent in the codec)
Cnts == IF TsOnly THEN {<<1, 0, 0>>} ELSE {<<a, 0, 0>> : a \in CntVals} \cup {<<0, a, 0>> : a \in CntVals} \cup {<<1, 0, a>> : a \in CntVals}

MCNext == \/ Open \/ Close
          \/ \E ts \in TsVals, c \in Cnts : Write(ts, c[1], c[2], c[3])

GenInit == Init /\ hist = <<>> /\ done = FALSE
GenNext ==
  \/ /\ ~done /\ Len(hist) < MaxOps
     /\ MCNext
     /\ hist' = Append(hist, [act |-> act', exp |-> Obs'])
     /\ UNCHANGED done
  \/ /\ ~done /\ Len(hist) = MaxOps
     /\ PrintT(<<"TRACE", ToJson(hist)>>)
     /\ done' = TRUE /\ UNCHANGED <<vars, hist>>
GenSpec == GenInit /\ [][GenNext]_<<vars, hist, done>>

MCStep == MCNext /\ UNCHANGED <<hist, done>>
MCSpec == GenInit /\ [][MCStep]_<<vars, hist, done>>
Bound == Len(disk) + Len(sess) <= MaxOps
=============================================================================
