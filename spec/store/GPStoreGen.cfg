SPECIFICATION GenSpec
CONSTANTS
  NCols = 2
  BufCap = 4
  SeekOnFallback = TRUE
  ReadAll = FALSE
  MaxPerSession = 2
  MaxBlocks = 2
  EnableCrash = FALSE
  EnableFault = FALSE
  EnableReader = FALSE
  PayKind = "all"
CHECK_DEADLOCK FALSE
