SPECIFICATION TraceSpec
CONSTANTS
  NCols = 8
  BufCap = 4096
  SeekOnFallback = TRUE
  ReadAll = FALSE
POSTCONDITION TraceAccepted
CHECK_DEADLOCK FALSE
