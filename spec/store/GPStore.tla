------------------------------- MODULE GPStore -------------------------------
(***************************************************************************)
(* goDB day directory ("GPDir") at the granularity of file-system calls.   *)
(*                                                                         *)
(* One interface, one day.  The day directory holds one file per column    *)
(* (append-only block data) and one metadata file (.blockmeta) that lists, *)
(* per column, the length / raw length / encoder of every block; offsets   *)
(* are NOT stored - they are the running sum of the lengths.  The          *)
(* directory name carries the day totals as a suffix.                      *)
(*                                                                         *)
(* A write-out (goDB.DBWriter.Write -> gpfile.GPDir.Open / WriteBlocks /   *)
(* Close) is modelled as the sequence of system calls the code performs,   *)
(* one action each; everything the code does in memory between two calls   *)
(* is folded into the preceding action.  Readers (query workers, listing)  *)
(* are modelled the same way.  Environment actions: Crash (the writing     *)
(* process dies; the file system stays), Fault (the next system call       *)
(* fails).                                                                 *)
(*                                                                         *)
(* File contents are sequences of RUNS [b, f, s, n]: n bytes that are      *)
(* bytes s..s+n-1 of form f ("enc" = output of the configured compressor,  *)
(* "raw" = uncompressed) of block b's data for that column.  A block reads *)
(* back correctly iff the region its header points at is exactly one       *)
(* complete run of the form its header claims.                             *)
(***************************************************************************)
EXTENDS Integers, Sequences, FiniteSets, TLC

CONSTANTS
  NCols,            \* number of column files (8 in goDB)
  BufCap,           \* capacity of the column writer's bufio buffer (4096 bytes)
  SeekOnFallback,   \* TRUE: the null-encoding fallback rewinds the file before rewriting
  ReadAll           \* TRUE: readers load a column file completely when they open it

Cols == 1..NCols

VARIABLES
  fs,          \* the day directory on disk
  stale,       \* ghost: a session died between its two renames and no later session renamed the directory
  committed,   \* ghost: ids of the blocks whose write-out passed its commit point, in order
  payload,     \* ghost: block id -> [Cols -> [raw, enc]] sizes of the data written
  \* ---- the writing process
  wpc, wblks, wk, wcol, wh, wpos, wopen, wplan, wname, wres,
  \* ---- one reading process
  rpc, rname, rmeta, ridx, rcol, ropen, rres, rretry,
  rwhy,        \* ghost: why the reader ended in an error ("nometa": the day directory had no metadata file)
  act

wvars == <<wpc, wblks, wk, wcol, wh, wpos, wopen, wplan, wname, wres>>
rvars == <<rpc, rname, rmeta, ridx, rcol, ropen, rres, rretry, rwhy>>
vars  == <<fs, committed, stale, payload, wvars, rvars, act>>

-----------------------------------------------------------------------------
(* Files as sequences of runs *)

Run(b, f, s, n) == [b |-> b, f |-> f, s |-> s, n |-> n]
Hole(n) == Run(0, "hole", 0, n)

RECURSIVE FLen(_)
FLen(f) == IF f = <<>> THEN 0 ELSE Head(f).n + FLen(Tail(f))

RECURSIVE Take(_, _)
Take(f, p) == IF p <= 0 \/ f = <<>> THEN <<>>
              ELSE LET h == Head(f) IN
                   IF h.n <= p THEN <<h>> \o Take(Tail(f), p - h.n)
                   ELSE <<[h EXCEPT !.n = p]>>

RECURSIVE Drop(_, _)
Drop(f, p) == IF f = <<>> THEN <<>>
              ELSE IF p <= 0 THEN f
              ELSE LET h == Head(f) IN
                   IF h.n <= p THEN Drop(Tail(f), p - h.n)
                   ELSE <<[h EXCEPT !.s = h.s + p, !.n = h.n - p]>> \o Tail(f)

\* merge runs that continue each other, drop empty ones
RECURSIVE Norm(_)
Norm(f) == IF f = <<>> THEN <<>>
           ELSE IF Head(f).n = 0 THEN Norm(Tail(f))
           ELSE IF Len(f) = 1 THEN f
           ELSE LET a == f[1]
                    b == f[2]
                IN IF b.n = 0 THEN Norm(<<a>> \o Tail(Tail(f)))
                   ELSE IF a.b = b.b /\ a.f = b.f /\ b.s = a.s + a.n
                        THEN Norm(<<[a EXCEPT !.n = a.n + b.n]>> \o Tail(Tail(f)))
                        ELSE <<a>> \o Norm(Tail(f))

WriteAt(f, p, run) ==
  LET L == FLen(f)
      pre == IF p <= L THEN Take(f, p) ELSE f \o <<Hole(p - L)>>
  IN Norm(pre \o <<run>> \o Drop(f, p + run.n))

ReadAt(f, p, n) == Norm(Take(Drop(f, p), n))

-----------------------------------------------------------------------------
(* Metadata *)

NoCol == [len |-> 0, raw |-> 0, enc |-> "none"]
FreshMeta == [present |-> TRUE, blks |-> <<>>, cur |-> [c \in Cols |-> 0], tot |-> 0]
NoMeta == [present |-> FALSE, blks |-> <<>>, cur |-> [c \in Cols |-> 0], tot |-> 0]
NoFile == [exists |-> FALSE, data |-> <<>>]

\* offset of block i in column c = sum of the lengths of the blocks before it
RECURSIVE OffsetOf(_, _, _)
OffsetOf(blks, c, i) == IF i <= 1 THEN 0 ELSE blks[i - 1].cols[c].len + OffsetOf(blks, c, i - 1)

\* does block i / column c of metadata m read back from file `file` as block m.blks[i].id ?
\* result: "ok", "bad" (wrong bytes or decoding/length error)
ReadResult(m, file, i, c) ==
  LET hd == m.blks[i].cols[c]
      b == m.blks[i].id
  IN IF hd.raw = 0 THEN (IF payload[b][c].raw = 0 THEN "ok" ELSE "bad")
     ELSE LET got == ReadAt(file, OffsetOf(m.blks, c, i), hd.len)
              want == IF hd.enc = "enc" THEN <<Run(b, "enc", 0, payload[b][c].enc)>>
                                        ELSE <<Run(b, "raw", 0, payload[b][c].raw)>>
          IN IF got = want /\ hd.raw = payload[b][c].raw THEN "ok" ELSE "bad"

-----------------------------------------------------------------------------
(* Writer: the plan of file operations for one column, exactly as           *)
(* GPFile.writeBlock + bufio.Writer produce them.                           *)
(*   - Compress() hands the encoded block to the bufio writer in ONE Write; *)
(*     bufio passes a write larger than its (empty) buffer straight to the  *)
(*     file, anything else stays in the buffer until Flush().               *)
(*   - if the encoded form is larger than the raw data the buffer is Reset  *)
(*     (buffered bytes are dropped - bytes already in the file are not) and *)
(*     the raw data are written instead.                                    *)

Op(kind, run) == [kind |-> kind, run |-> run]
NoRun == Run(0, "hole", 0, 0)

Plan(b, raw, enc) ==
  LET E == Run(b, "enc", 0, enc)
      R == Run(b, "raw", 0, raw)
  IN IF enc <= raw
     THEN <<Op("write", E)>>
     ELSE (IF enc > BufCap THEN <<Op("write", E)>> ELSE <<>>)
          \o (IF SeekOnFallback THEN <<Op("seek", NoRun)>> ELSE <<>>)
          \o <<Op("write", R)>>

HdrOf(raw, enc) == IF raw = 0 THEN NoCol
                   ELSE IF enc <= raw THEN [len |-> enc, raw |-> raw, enc |-> "enc"]
                   ELSE [len |-> raw, raw |-> raw, enc |-> "raw"]

\* first column >= c that has data (NCols+1 if none); empty columns cost no system call
RECURSIVE NextDataCol(_, _)
NextDataCol(pay, c) == IF c > NCols THEN NCols + 1
                       ELSE IF pay[c].raw > 0 THEN c ELSE NextDataCol(pay, c + 1)

\* header after all columns of block b have been added
WithBlock(h, b, pay) ==
  [h EXCEPT !.blks = Append(h.blks, [id |-> b, cols |-> [c \in Cols |-> HdrOf(pay[c].raw, pay[c].enc)]]),
            !.cur = [c \in Cols |-> h.cur[c] + HdrOf(pay[c].raw, pay[c].enc).len],
            !.tot = h.tot + 1]

Name == <<fs.dir, fs.sfx>>

WIdle == /\ wpc' = "idle" /\ wblks' = <<>> /\ wk' = 0 /\ wcol' = 0 /\ wh' = NoMeta
         /\ wpos' = [c \in Cols |-> 0] /\ wopen' = {} /\ wplan' = <<>> /\ wname' = <<"none", 0>>

\* What the writer does next once the columns < c of the k-th block of the session are done
\* (all of it in memory): skip columns without data, append a finished block to the in-memory
\* header, move on to the next block, or go on to Close().  Column files stay open for the
\* whole session, so only the first block that touches a column opens it.
RECURSIVE Proceed(_, _, _, _, _, _)
Proceed(blks, pay, open, k, c, h) ==
  IF k > Len(blks) THEN [pc |-> "mktmp", k |-> k, c |-> 0, h |-> h, plan |-> <<>>]
  ELSE LET b == blks[k]
           n == NextDataCol(pay[b], c)
       IN IF n > NCols THEN Proceed(blks, pay, open, k + 1, 1, WithBlock(h, b, pay[b]))
          ELSE [pc |-> IF n \in open THEN "fileop" ELSE "opencol", k |-> k, c |-> n, h |-> h,
                plan |-> Plan(b, pay[b][n].raw, pay[b][n].enc)]

Goto(st) == /\ wpc' = st.pc /\ wk' = st.k /\ wcol' = st.c /\ wh' = st.h /\ wplan' = st.plan

\* NewDirWriter: list the month directory and pick the day directory by prefix.
\* A session writes the blocks `bs` (a sequence of fresh ids) with the given data sizes.
W_Begin(bs, pays) ==
  /\ wpc = "idle"
  /\ \A i \in 1..Len(bs) : bs[i] \notin DOMAIN payload
  /\ payload' = [x \in DOMAIN payload \cup {bs[i] : i \in 1..Len(bs)} |->
                   IF x \in DOMAIN payload THEN payload[x]
                   ELSE pays[CHOOSE i \in 1..Len(bs) : bs[i] = x]]
  /\ wblks' = bs
  /\ wname' = IF fs.dir = "none" THEN <<"bare", 0>> ELSE Name
  /\ wpc' = "mkdir"
  /\ wres' = "running"
  /\ UNCHANGED <<fs, committed, stale, wk, wcol, wh, wpos, wopen, wplan, rvars>>
  /\ act' = [name |-> "W_Begin", bs |-> bs]

\* Open(): MkdirAll of the day directory
W_Mkdir ==
  /\ wpc = "mkdir"
  /\ fs' = IF fs.dir = "none" THEN [fs EXCEPT !.dir = "bare", !.sfx = 0] ELSE fs
  /\ wpc' = "openmeta"
  /\ UNCHANGED <<committed, stale, payload, wblks, wk, wcol, wh, wpos, wopen, wplan, wname, wres, rvars>>
  /\ act' = [name |-> "W_Mkdir"]

\* Open(): load .blockmeta, or start a fresh header when it does not exist.
\* Then (in memory) WriteBlocks starts with the first column that has data.
W_OpenMeta ==
  /\ wpc = "openmeta"
  /\ Goto(Proceed(wblks, payload, {}, 1, 1, IF fs.meta.present THEN fs.meta ELSE FreshMeta))
  /\ UNCHANGED <<fs, committed, stale, payload, wblks, wpos, wopen, wname, wres, rvars>>
  /\ act' = [name |-> "W_OpenMeta", present |-> fs.meta.present]

\* GPFile.open(): open the column file (create if missing, never truncate), seek to the
\* committed offset of the header that was loaded
W_OpenCol ==
  /\ wpc = "opencol"
  /\ fs' = IF fs.col[wcol].exists THEN fs ELSE [fs EXCEPT !.col[wcol] = [exists |-> TRUE, data |-> <<>>]]
  /\ wpos' = [wpos EXCEPT ![wcol] = wh.cur[wcol]]
  /\ wopen' = wopen \cup {wcol}
  /\ wpc' = "fileop"
  /\ UNCHANGED <<committed, stale, payload, wblks, wk, wcol, wh, wplan, wname, wres, rvars>>
  /\ act' = [name |-> "W_OpenCol", c |-> wcol, pos |-> wh.cur[wcol]]

\* one write() / lseek() on the current column file
W_FileOp ==
  /\ wpc = "fileop" /\ wplan # <<>>
  /\ LET op == Head(wplan) IN
       /\ IF op.kind = "write"
          THEN /\ fs' = [fs EXCEPT !.col[wcol].data = WriteAt(fs.col[wcol].data, wpos[wcol], op.run)]
               /\ wpos' = [wpos EXCEPT ![wcol] = wpos[wcol] + op.run.n]
          ELSE /\ fs' = fs
               /\ wpos' = [wpos EXCEPT ![wcol] = wh.cur[wcol]]
       /\ IF Tail(wplan) = <<>>
          THEN Goto(Proceed(wblks, payload, wopen, wk, wcol + 1, wh))
          ELSE wplan' = Tail(wplan) /\ UNCHANGED <<wpc, wk, wcol, wh>>
       /\ act' = [name |-> "W_FileOp", c |-> wcol, kind |-> op.kind, n |-> op.run.n, f |-> op.run.f,
                  pos |-> wpos[wcol]]
  /\ UNCHANGED <<committed, stale, payload, wblks, wopen, wname, wres, rvars>>

\* Close(): column files are closed (no effect on the directory) and the temporary metadata
\* file is created in the day directory
W_CreateTmp ==
  /\ wpc = "mktmp"
  /\ fs' = [fs EXCEPT !.tmp = fs.tmp + 1]
  /\ wpc' = "wrtmp"
  /\ UNCHANGED <<committed, stale, payload, wblks, wk, wcol, wh, wpos, wopen, wplan, wname, wres, rvars>>
  /\ act' = [name |-> "W_CreateTmp"]

\* Marshal() into the temporary file (+ close, chmod: no effect on what readers see)
W_WriteTmp ==
  /\ wpc = "wrtmp"
  /\ wpc' = "renmeta"
  /\ UNCHANGED <<fs, committed, stale, payload, wblks, wk, wcol, wh, wpos, wopen, wplan, wname, wres, rvars>>
  /\ act' = [name |-> "W_WriteTmp", nblocks |-> Len(wh.blks)]

\* rename(tmp -> .blockmeta): THE COMMIT POINT of the session
W_RenameMeta ==
  /\ wpc = "renmeta"
  /\ fs' = [fs EXCEPT !.meta = wh, !.tmp = fs.tmp - 1]
  /\ committed' = committed \o wblks
  /\ wpc' = IF Name = <<"sfx", wh.tot>> THEN "ret" ELSE "rendir"
  /\ UNCHANGED <<stale, payload, wblks, wk, wcol, wh, wpos, wopen, wplan, wname, wres, rvars>>
  /\ act' = [name |-> "W_RenameMeta"]

\* rename(day dir -> day dir + totals suffix)
W_RenameDir ==
  /\ wpc = "rendir"
  /\ fs' = [fs EXCEPT !.dir = "sfx", !.sfx = wh.tot]
  /\ stale' = FALSE
  /\ wpc' = "ret"
  /\ UNCHANGED <<committed, payload, wblks, wk, wcol, wh, wpos, wopen, wplan, wname, wres, rvars>>
  /\ act' = [name |-> "W_RenameDir", tot |-> wh.tot]

W_Return ==
  /\ wpc = "ret"
  /\ WIdle /\ wres' = "ok"
  /\ UNCHANGED <<fs, committed, stale, payload, rvars>>
  /\ act' = [name |-> "W_Return", res |-> "ok"]

\* The writing process is killed between two system calls (any writer state).
Crash ==
  /\ wpc # "idle"
  /\ WIdle /\ wres' = "crashed"
  /\ stale' = (stale \/ wpc = "rendir")
  /\ UNCHANGED <<fs, committed, payload, rvars>>
  /\ act' = [name |-> "Crash", at |-> wpc]

\* The next system call of the writer fails (ENOSPC, EIO, ...).  Every error path of the
\* writer returns the error to the caller without touching the directory again, except that
\* a temporary metadata file that was already created is removed.  A failing write() may have
\* written a strict prefix of its data.
Fault(k) ==
  /\ wpc \in {"mkdir", "openmeta", "opencol", "fileop", "mktmp", "wrtmp", "renmeta", "rendir"}
  /\ fs' = IF wpc = "fileop" /\ Head(wplan).kind = "write" /\ k > 0 /\ k < Head(wplan).run.n
             THEN [fs EXCEPT !.col[wcol].data = WriteAt(fs.col[wcol].data, wpos[wcol], [Head(wplan).run EXCEPT !.n = k])]
           ELSE IF wpc \in {"wrtmp", "renmeta"} THEN [fs EXCEPT !.tmp = fs.tmp - 1]
           ELSE fs
  /\ (k > 0 => wpc = "fileop" /\ Head(wplan).kind = "write" /\ k < Head(wplan).run.n)
  /\ WIdle /\ wres' = "err"
  /\ stale' = (stale \/ wpc = "rendir")
  /\ UNCHANGED <<committed, payload, rvars>>
  /\ act' = [name |-> "Fault", at |-> wpc, k |-> k]

-----------------------------------------------------------------------------
(* Reader: what a query worker / the interface listing does with one day    *)
(* directory (GPDir in read mode).                                          *)

RIdle == /\ rmeta' = NoMeta /\ ridx' = 0 /\ rcol' = 0 /\ ropen' = [c \in Cols |-> NoFile]

\* directory walk: the reader learns the current directory name (with suffix)
R_List ==
  /\ rpc = "idle"
  /\ IF fs.dir = "none"
     THEN /\ rpc' = "done" /\ rres' = <<>> /\ rname' = <<"none", 0>>
     ELSE /\ rpc' = "openmeta" /\ rname' = Name /\ rres' = <<>>
  /\ RIdle /\ rretry' = 0 /\ rwhy' = ""
  /\ UNCHANGED <<fs, committed, stale, payload, wvars>>
  /\ act' = [name |-> "R_List"]

\* first block / column the reader has to fetch, given a metadata snapshot
StartRead(m) ==
  IF Len(m.blks) = 0 THEN /\ rpc' = "done" /\ ridx' = 0 /\ rcol' = 0
  ELSE /\ rpc' = "read" /\ ridx' = (IF ridx = 0 THEN 1 ELSE ridx) /\ rcol' = (IF rcol = 0 THEN 1 ELSE rcol)

\* Open(): open <dir>/.blockmeta under the name the reader knows
R_OpenMeta ==
  /\ rpc = "openmeta"
  /\ IF rname = Name /\ fs.meta.present
     THEN /\ rmeta' = fs.meta /\ StartRead(fs.meta) /\ UNCHANGED <<rname, rres, rretry>>
     ELSE /\ rpc' = "recover" /\ UNCHANGED <<rname, rmeta, ridx, rcol, rres, rretry>>   \* ENOENT
  /\ ropen' = [c \in Cols |-> NoFile]
  /\ rwhy' = IF rname = Name /\ fs.meta.present THEN rwhy
             ELSE IF rname = Name THEN "nometa" ELSE IF rwhy = "nometa" THEN rwhy ELSE "renamed"
  /\ UNCHANGED <<fs, committed, stale, payload, wvars>>
  /\ act' = [name |-> "R_OpenMeta"]

\* recoverDirPath(): list the month directory, find the day by prefix
R_RecoverList ==
  /\ rpc = "recover"
  /\ IF fs.dir = "none" THEN /\ rpc' = "err" /\ rwhy' = "nodir" /\ UNCHANGED rname
                        ELSE /\ rpc' = "reopenmeta" /\ rname' = Name /\ UNCHANGED rwhy
  /\ UNCHANGED <<fs, committed, stale, payload, wvars, rmeta, ridx, rcol, ropen, rres, rretry>>
  /\ act' = [name |-> "R_RecoverList"]

\* second attempt to open the metadata file; a second ENOENT is an error
R_ReopenMeta ==
  /\ rpc = "reopenmeta"
  /\ IF rname = Name /\ fs.meta.present
     THEN /\ rmeta' = fs.meta /\ StartRead(fs.meta) /\ UNCHANGED <<rname, rres, rretry, rwhy>>
     ELSE /\ rpc' = "err" /\ UNCHANGED <<rname, rmeta, ridx, rcol, rres, rretry>>
          /\ rwhy' = IF rwhy = "nometa" \/ (rname = Name /\ ~fs.meta.present) THEN "nometa" ELSE "rename-race"
  /\ ropen' = [c \in Cols |-> NoFile]
  /\ UNCHANGED <<fs, committed, stale, payload, wvars>>
  /\ act' = [name |-> "R_ReopenMeta"]

\* ReadBlockAtIndex(c, i): lazily open the column file, then seek + read + decode.
\* Blocks without data for the column need no file access.  ENOENT on the column file
\* (directory renamed meanwhile) => Close + Open again + one retry.
R_Read ==
  /\ rpc = "read"
  /\ LET i == ridx
         c == rcol
         hd == rmeta.blks[i].cols[c]
         needFile == hd.raw > 0
         canOpen == rname = Name /\ fs.col[c].exists
         file == IF ropen[c].exists THEN ropen[c]
                 ELSE IF ReadAll THEN fs.col[c] ELSE [exists |-> TRUE, data |-> <<>>]
         data == IF ReadAll THEN file.data ELSE fs.col[c].data
     IN IF needFile /\ ~ropen[c].exists /\ ~canOpen
        THEN \* ENOENT: recover the directory path (the metadata snapshot and the column files that
             \* are already open are kept), retry once
             /\ IF rretry = 1
                THEN rpc' = "err" /\ rwhy' = "rename-race" /\ UNCHANGED <<rretry>>
                ELSE rpc' = "colrecover" /\ rretry' = 1 /\ UNCHANGED rwhy
             /\ UNCHANGED <<rname, rmeta, ridx, rcol, ropen, rres>>
        ELSE /\ ropen' = IF needFile /\ ~ropen[c].exists THEN [ropen EXCEPT ![c] = file] ELSE ropen
             /\ LET v == IF needFile THEN ReadResult(rmeta, data, i, c)
                         ELSE (IF payload[rmeta.blks[i].id][c].raw = 0 THEN "ok" ELSE "bad")
                    \* verdict of the block so far: rres holds one entry per block started
                    cur == IF Len(rres) >= i THEN rres[i] ELSE [id |-> rmeta.blks[i].id, ok |-> TRUE]
                    upd == [cur EXCEPT !.ok = cur.ok /\ v = "ok"]
                    res2 == IF Len(rres) >= i THEN [rres EXCEPT ![i] = upd] ELSE Append(rres, upd)
                IN /\ rres' = res2
                   /\ IF c < NCols
                      THEN /\ rcol' = c + 1 /\ UNCHANGED <<ridx, rpc>>
                      ELSE /\ rcol' = 1
                           /\ IF i < Len(rmeta.blks) THEN ridx' = i + 1 /\ UNCHANGED rpc
                                                     ELSE ridx' = i /\ rpc' = "done"
             /\ rretry' = 0
             /\ UNCHANGED <<rname, rmeta, rwhy>>
  /\ UNCHANGED <<fs, committed, stale, payload, wvars>>
  /\ act' = [name |-> "R_Read", i |-> ridx, c |-> rcol]

\* recoverDirPath() after a failed column open: list the month directory, take the current name
R_ColRecover ==
  /\ rpc = "colrecover"
  /\ IF fs.dir = "none" THEN /\ rpc' = "err" /\ rwhy' = "nodir" /\ UNCHANGED rname
                        ELSE /\ rpc' = "read" /\ rname' = Name /\ UNCHANGED rwhy
  /\ UNCHANGED <<fs, committed, stale, payload, wvars, rmeta, ridx, rcol, ropen, rres, rretry>>
  /\ act' = [name |-> "R_ColRecover"]

\* the reader's result has been consumed; it may run again
R_Finish ==
  /\ rpc \in {"done", "err"}
  /\ rpc' = "idle" /\ rname' = <<"none", 0>> /\ rres' = <<>> /\ RIdle /\ rretry' = 0 /\ rwhy' = ""
  /\ UNCHANGED <<fs, committed, stale, payload, wvars>>
  /\ act' = [name |-> "R_Finish"]

-----------------------------------------------------------------------------
Init ==
  /\ fs = [dir |-> "none", sfx |-> 0, meta |-> NoMeta, col |-> [c \in Cols |-> NoFile], tmp |-> 0]
  /\ committed = <<>> /\ stale = FALSE
  /\ payload = <<>>
  /\ wpc = "idle" /\ wblks = <<>> /\ wk = 0 /\ wcol = 0 /\ wh = NoMeta /\ wpos = [c \in Cols |-> 0]
  /\ wopen = {} /\ wplan = <<>>
  /\ wname = <<"none", 0>> /\ wres = "none"
  /\ rpc = "idle" /\ rname = <<"none", 0>> /\ rmeta = NoMeta /\ ridx = 0 /\ rcol = 0
  /\ ropen = [c \in Cols |-> NoFile] /\ rres = <<>> /\ rretry = 0 /\ rwhy = ""
  /\ act = [name |-> "Init"]

WriterStep == W_Mkdir \/ W_OpenMeta \/ W_OpenCol \/ W_FileOp \/ W_CreateTmp \/ W_WriteTmp
              \/ W_RenameMeta \/ W_RenameDir \/ W_Return
ReaderStep == R_List \/ R_OpenMeta \/ R_RecoverList \/ R_ReopenMeta \/ R_Read \/ R_ColRecover \/ R_Finish

-----------------------------------------------------------------------------
(* Properties *)

IsSuffixOf(s, t) == Len(s) <= Len(t) /\ SubSeq(t, Len(t) - Len(s) + 1, Len(t)) = s

\* the blocks listed in a metadata record, as ids
Ids(m) == [i \in 1..Len(m.blks) |-> m.blks[i].id]

\* every block of the on-disk metadata reads back as what was written for it (C01)
AllReadBack(m) ==
  \A i \in 1..Len(m.blks) : \A c \in Cols :
     (m.blks[i].cols[c].raw > 0 => fs.col[c].exists) /\ ReadResult(m, fs.col[c].data, i, c) = "ok"

\* Whenever no write-out is in progress - after normal returns, crashes and faults alike - the
\* directory holds exactly the committed blocks and each reads back correctly (C01, C04, C05)
Consistent ==
  wpc = "idle" =>
     /\ (fs.meta.present <=> committed # <<>>)
     /\ Ids(fs.meta) = committed
     /\ AllReadBack(fs.meta)
     /\ fs.meta.tot = Len(committed)

\* ... the same at every moment, for a reader that takes its snapshot now (C30 needs it mid-write)
AlwaysReadable ==
  fs.meta.present => Ids(fs.meta) = committed /\ AllReadBack(fs.meta)

\* the totals in the directory name agree with the committed data whenever the writer is idle (C04 listing)
ListingAgrees ==
  wpc = "idle" /\ fs.dir = "sfx" => fs.sfx = Len(committed)

\* As built the two renames of Close() cannot be atomic: if the writer dies (or the second
\* rename fails) between them, the name keeps the totals of the previous session until the
\* next session renames it (known finding KF-C04-stale-suffix).  `stale` marks exactly that.
ListingAgreesKF ==
  wpc = "idle" /\ fs.dir = "sfx" /\ ~stale => fs.sfx = Len(committed)

\* a write-out that reports success has committed its block; one that reports an error
\* before the commit point has not (C05)
ReturnAgrees ==
  [][ /\ (wres' = "ok" /\ wres # "ok" => wblks # <<>> /\ IsSuffixOf(wblks, committed))
      /\ (wres' = "err" /\ wres # "err" /\ act'.at # "rendir" =>
             committed' = committed /\ (wblks = <<>> \/ ~IsSuffixOf(wblks, committed))) ]_vars


\* committed data never changes: metadata only grows by appending, and the file regions the
\* committed metadata points at are never modified (C01 append-only, C05)
AppendOnly ==
  [][ /\ (fs.meta.present => fs'.meta.present /\ Len(fs'.meta.blks) >= Len(fs.meta.blks)
                              /\ SubSeq(fs'.meta.blks, 1, Len(fs.meta.blks)) = fs.meta.blks)
      /\ \A c \in Cols : fs.meta.present /\ fs.col[c].exists =>
            Take(fs'.col[c].data, fs.meta.cur[c]) = Take(fs.col[c].data, fs.meta.cur[c]) ]_vars

\* a reader that finishes saw a prefix of the committed blocks, all intact, and at least the
\* blocks that were committed when it started (C30); it never ends in an error (C30)
IsPrefixOf(s, t) == Len(s) <= Len(t) /\ SubSeq(t, 1, Len(s)) = s
ReaderSnapshot ==
  rpc = "done" => /\ IsPrefixOf([i \in 1..Len(rres) |-> rres[i].id], committed)
                  /\ \A i \in 1..Len(rres) : rres[i].ok
ReaderNoError == rpc # "err"

\* As built, a reader that meets a day directory whose first write-out has not committed yet
\* (directory without .blockmeta) fails (known finding KF-store-nometa-day); every other reader
\* error is still a counterexample.
\* Likewise a directory rename that falls between the reader's recovery listing and its
\* second open attempt (KF-store-rename-race): the reader retries only once.
ReaderNoErrorKF == rpc = "err" => rwhy \in {"nometa", "rename-race"}
=============================================================================
