------------------------------ MODULE MetaCodec ------------------------------
(***************************************************************************)
(* The day metadata file (.blockmeta) as a codec: what a sequence of       *)
(* accepted block writes must look like after the day is reopened (C03).   *)
(*                                                                         *)
(* The on-disk format stores, per block, the number of IPv4 flows, IPv6    *)
(* flows and drops as unsigned 32-bit numbers and the block timestamp as   *)
(* an unsigned 32-bit DELTA to the previous block (the first timestamp is  *)
(* stored in full).  A history the format cannot represent faithfully -    *)
(* a count above MaxU32, a gap above MaxU32, a timestamp EARLIER than the  *)
(* previous block (negative delta), a timestamp that is already present -  *)
(* must be rejected with an error, never stored in altered form.           *)
(*                                                                         *)
(* A write session: Open, Write*, Close.  A duplicate timestamp is         *)
(* rejected by Write (the session is abandoned, nothing is committed);     *)
(* range violations are rejected by Close (Marshal), which leaves the      *)
(* previous file in place.                                                 *)
(***************************************************************************)
EXTENDS Integers, Sequences, FiniteSets, TLC

CONSTANTS MaxU32,               \* largest value of the 32-bit fields (scaled down in bounded runs)
          RejectNegativeDelta   \* TRUE: Marshal refuses a timestamp earlier than its predecessor

VARIABLES disk,    \* blocks of the committed metadata file: <<[ts, v4, v6, dr]>>
          sess,    \* blocks written in the open session (in memory)
          open,    \* a session is open
          res,     \* result of the last operation: "ok" / "err" / "none"
          act

vars == <<disk, sess, open, res, act>>

Blk(ts, v4, v6, dr) == [ts |-> ts, v4 |-> v4, v6 |-> v6, dr |-> dr]

TsOf(s) == {s[i].ts : i \in 1..Len(s)}

\* what the format can hold
Representable(b) ==
  \A i \in 1..Len(b) :
     /\ b[i].v4 <= MaxU32 /\ b[i].v6 <= MaxU32 /\ b[i].dr <= MaxU32
     /\ i > 1 => /\ b[i].ts - b[i - 1].ts <= MaxU32
                 /\ (RejectNegativeDelta => b[i].ts - b[i - 1].ts >= 0)

\* the codec itself: deltas are written modulo 2^32, timestamps rebuilt as running sums
Wire(b) == [first |-> IF Len(b) = 0 THEN 0 ELSE b[1].ts,
            rows |-> [i \in 1..Len(b) |-> [v4 |-> b[i].v4 % (MaxU32 + 1), v6 |-> b[i].v6 % (MaxU32 + 1),
                                           dr |-> b[i].dr % (MaxU32 + 1),
                                           delta |-> IF i = 1 THEN 0 ELSE (b[i].ts - b[i - 1].ts) % (MaxU32 + 1)]]]
RECURSIVE TsAt(_, _)
TsAt(w, i) == IF i = 1 THEN w.first + w.rows[1].delta ELSE TsAt(w, i - 1) + w.rows[i].delta
Unwire(w) == [i \in 1..Len(w.rows) |-> Blk(TsAt(w, i), w.rows[i].v4, w.rows[i].v6, w.rows[i].dr)]

Init == disk = <<>> /\ sess = <<>> /\ open = FALSE /\ res = "none" /\ act = [name |-> "Init"]

Open == /\ ~open /\ open' = TRUE /\ sess' = <<>> /\ res' = "ok" /\ UNCHANGED disk
        /\ act' = [name |-> "Open"]

\* GPDir.WriteBlocks: a timestamp that is already present is refused; the caller abandons the session
Write(ts, v4, v6, dr) ==
  /\ open
  /\ IF ts \in TsOf(disk) \cup TsOf(sess)
     THEN /\ res' = "err" /\ open' = FALSE /\ sess' = <<>>
     ELSE /\ res' = "ok" /\ sess' = Append(sess, Blk(ts, v4, v6, dr)) /\ UNCHANGED open
  /\ UNCHANGED disk
  /\ act' = [name |-> "Write", ts |-> ts, v4 |-> v4, v6 |-> v6, dr |-> dr]

\* GPDir.Close: Marshal + atomic replace; an unrepresentable history is refused and the old file stays
Close ==
  /\ open
  /\ IF Representable(disk \o sess)
     THEN disk' = disk \o sess /\ res' = "ok"
     ELSE disk' = disk /\ res' = "err"
  /\ open' = FALSE /\ sess' = <<>>
  /\ act' = [name |-> "Close"]

\* what a reader gets after reopening the day
Reopened == Unwire(Wire(disk))

\* C03: every accepted history reads back unchanged
RoundTrip == Reopened = disk
\* timestamps on disk are strictly increasing (a consequence the readers rely on)
Ordered == \A i \in 1..(Len(disk) - 1) : disk[i].ts < disk[i + 1].ts

Obs == [res |-> res, disk |-> disk]
=============================================================================
