SPECIFICATION Spec
CONSTANTS
  NCols = 8
  MaxBlocksGen = 3
