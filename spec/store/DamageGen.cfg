SPECIFICATION GenSpec
CONSTANTS
  Days = {1, 2, 3}
  NCols = 8
  BlocksPerDay = 3
  MaxDamages = 1
INVARIANT Containment
CHECK_DEADLOCK FALSE
