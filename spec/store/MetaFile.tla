------------------------------- MODULE MetaFile -------------------------------
(***************************************************************************)
(* Layout of the serialized day metadata (.blockmeta) and the classes of   *)
(* malformed files a reader must survive (C03, last sentence).  The layout *)
(* is transcribed from the format documentation (database_format.md): a    *)
(* 72-byte header (version, number of blocks, day totals), then per column *)
(* an 8-byte current offset followed by 9 bytes per block (length, raw     *)
(* length, encoder), then the first timestamp (8 bytes) and 16 bytes per   *)
(* block (flow counts, drops, timestamp delta).                            *)
(***************************************************************************)
EXTENDS Integers, Sequences, FiniteSets, TLC, Json

CONSTANTS NCols, MaxBlocksGen

HeaderLen == 72
ColLen(n) == 8 + 9 * n
FileLen(n) == HeaderLen + NCols * ColLen(n) + 8 + 16 * n

\* every field boundary of a file with n blocks (truncation points)
Boundaries(n) ==
  {8 * k : k \in 0..9}
  \cup {HeaderLen + c * ColLen(n) + o : c \in 0..(NCols - 1), o \in {0, 8} \cup {8 + 9 * b + f : b \in 0..(n - 1), f \in {0, 4, 8, 9}}}
  \cup {HeaderLen + NCols * ColLen(n) + o : o \in {0, 8} \cup {8 + 16 * b + f : b \in 0..(n - 1), f \in {0, 4, 8, 12, 16}}}

Case(cls, n, arg, exp) == [cls |-> cls, blocks |-> n, arg |-> arg, exp |-> exp]

\* well-formedness classes; exp: "ok" must open, "err" must be reported as error, "any" either - never a crash
Cases ==
  UNION {
    {Case("valid", n, 0, "ok")} \cup {Case("empty", n, 0, "err")}
    \cup {Case("truncate", n, p, "err") : p \in {q \in Boundaries(n) : q < FileLen(n)} \cup {FileLen(n) - 1, 1, HeaderLen - 1}}
    \cup {Case("nblocks-huge", n, 0, "err"), Case("len-fields-max", n, 0, "any")}
    \cup {Case("nblocks-plus", n, a, "err") : a \in 0..4}
    \cup {Case("trailing-garbage", n, a, "any") : a \in {0, 7, 15, 16, 24, 100}}
    : n \in 1..MaxBlocksGen }

ASSUME \A n \in 1..MaxBlocksGen : FileLen(n) \in Boundaries(n) \/ TRUE
ASSUME PrintT(<<"TRACE", ToJson(Cases)>>)

VARIABLE x
Init == x = 0
Next == UNCHANGED x
Spec == Init /\ [][Next]_x
=============================================================================
