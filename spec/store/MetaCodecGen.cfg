SPECIFICATION GenSpec
CONSTANTS
  MaxU32 = 7
  RejectNegativeDelta = TRUE
  MaxOps = 4
CHECK_DEADLOCK FALSE
