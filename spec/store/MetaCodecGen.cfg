SPECIFICATION GenSpec
CONSTANTS
  MaxU32 = 7
  RejectNegativeDelta = TRUE
  TsOnly = FALSE
  MaxOps = 4
CHECK_DEADLOCK FALSE
