SPECIFICATION MCSpec
CONSTANTS
  NCols = 2
  BufCap = 4
  SeekOnFallback = TRUE
  ReadAll = FALSE
  MaxPerSession = 2
  MaxBlocks = 3
  EnableCrash = FALSE
  EnableFault = FALSE
  EnableReader = FALSE
  PayKind = "all"
INVARIANTS Consistent AlwaysReadable ListingAgreesKF
PROPERTIES AppendOnly ReturnAgrees
CHECK_DEADLOCK FALSE
VIEW View
