------------------------------ MODULE GPStoreMC ------------------------------
(* Bounded instances of GPStore for TLC: which environment actions are enabled and which
   payload size classes the writer draws from are chosen per configuration. *)
EXTENDS GPStore

CONSTANTS MaxBlocks, MaxPerSession,      \* number of write-outs attempted
          EnableCrash, EnableFault, EnableReader,
          PayKind         \* which payload classes are used: "all", "few"

\* payload size classes [raw, enc] relative to BufCap = 4:
\*   empty; small compressible; small incompressible (enc > raw, both buffered);
\*   mid incompressible (raw <= BufCap < enc); large compressible; large incompressible
\*   (BigC: large raw, compresses below the buffer size)
PayAll == { [raw |-> 0, enc |-> 0], [raw |-> 2, enc |-> 1], [raw |-> 1, enc |-> 2],
            [raw |-> 4, enc |-> 5], [raw |-> 7, enc |-> 5], [raw |-> 7, enc |-> 2], [raw |-> 5, enc |-> 6] }
PayFew == { [raw |-> 0, enc |-> 0], [raw |-> 2, enc |-> 1], [raw |-> 5, enc |-> 6] }
PayTwo == { [raw |-> 2, enc |-> 1], [raw |-> 5, enc |-> 6] }
Pays == IF PayKind = "all" THEN PayAll ELSE IF PayKind = "few" THEN PayFew ELSE PayTwo

MCCrash == EnableCrash /\ Crash
MCFault == EnableFault /\ \E k \in {0, 1, 4} : Fault(k)
MCReader == EnableReader /\ ReaderStep

MCNext ==
  \/ \E n \in 1..MaxPerSession : \E pays \in [1..n -> [Cols -> Pays]] :
        /\ Cardinality(DOMAIN payload) + n <= MaxBlocks
        /\ W_Begin([i \in 1..n |-> Cardinality(DOMAIN payload) + i], pays)
  \/ WriterStep
  \/ MCCrash
  \/ MCFault
  \/ MCReader

MCSpec == Init /\ [][MCNext]_vars

\* ghost and label variables do not influence behaviour
View == <<fs, committed, stale, payload, wpc, wblks, wk, wcol, wh, wpos, wopen, wplan, wname, wres,
          rpc, rname, rmeta, ridx, rcol, ropen, rres, rretry, rwhy>>
=============================================================================
