---------------------------- MODULE GPStoreTrace ----------------------------
(***************************************************************************)
(* Trace validation (code -> spec) for the storage family.                 *)
(*                                                                         *)
(* A trace is the concatenation of EXPERIMENTS separated by Reset events.  *)
(* An experiment is a history of write sessions performed by the real      *)
(* goDB writer in child processes under strace (lib/strace2nd.py maps each *)
(* system call to the GPStore action it implements), possibly ended by a   *)
(* Crash (child killed at a chosen system call) or containing a Fault (a   *)
(* chosen system call was made to fail), interleaved with Observe events:  *)
(* what the real block reader, the real query engine and the real          *)
(* interface listing returned for the database at that moment.             *)
(*                                                                         *)
(* Writer events must be enabled GPStore actions with the logged arguments *)
(* (otherwise the trace is rejected: the code no longer follows the model: *)
(* "drift").  Observe events never block; the specification's verdict on   *)
(* each one is printed (<<"INFO", json>>) and collected by the check.      *)
(***************************************************************************)
EXTENDS GPStore, Json

TraceLog == ndJsonDeserialize("trace.ndjson")

VARIABLES l,        \* position in the trace
          rstart,   \* the blocks that were committed when the current reader started
          qnometa,  \* the current (query-engine) reader tried to open the metadata of a day that had none yet
          qrenames  \* number of renames of the day directory since the current reader started
tvars == <<vars, l, rstart, qnometa, qrenames>>

Pay(q) == [c \in Cols |-> [raw |-> q[c][1], enc |-> q[c][2]]]

Stutter == UNCHANGED vars

ResetAll ==
  /\ fs' = [dir |-> "none", sfx |-> 0, meta |-> NoMeta, col |-> [c \in Cols |-> NoFile], tmp |-> 0]
  /\ committed' = <<>> /\ stale' = FALSE /\ payload' = <<>>
  /\ wpc' = "idle" /\ wblks' = <<>> /\ wk' = 0 /\ wcol' = 0 /\ wh' = NoMeta /\ wpos' = [c \in Cols |-> 0]
  /\ wopen' = {} /\ wplan' = <<>> /\ wname' = <<"none", 0>> /\ wres' = "none"
  /\ act' = [name |-> "Reset"]

ToSet(s) == {s[i] : i \in 1..Len(s)}

\* ---- what the observers must see in the current state -----------------------------------
\* blocks a reader gets: the blocks of the on-disk metadata
ExpBlocks == Ids(fs.meta)
\* blocks whose totals the listing reports: taken from the directory-name suffix when there is
\* one, from the metadata file otherwise
ExpListed == IF fs.dir = "sfx" THEN ToSet(SubSeq(committed, 1, fs.sfx)) ELSE ToSet(Ids(fs.meta))
NoMetaDay == fs.dir # "none" /\ ~fs.meta.present

IdsOf(obs) == [i \in 1..Len(obs) |-> obs[i].id]
AllOK(obs) == \A i \in 1..Len(obs) : obs[i].ok

Verdict(e) ==
  [line |-> l,
   \* --- property level (C04 / C05): the database holds exactly the committed blocks, intact,
   \*     queries and listings succeed and agree with them
   reader_ok |-> e.reader_err = "" /\ IdsOf(e.reader) = committed /\ AllOK(e.reader) /\ e.meta_ok,
   query_ok  |-> e.query_err = "" /\ IdsOf(e.query) = committed /\ AllOK(e.query) /\ e.query_corrupted = 0,
   list_ok   |-> e.list_err = "" /\ e.list_ok /\ ToSet(e.list_ids) = ToSet(committed),
   \* --- conformance level: observers agree with the model's file-system state
   conf_reader |-> (e.reader_err = "" /\ IdsOf(e.reader) = ExpBlocks) \/ NoMetaDay,
   conf_list   |-> (e.list_err = "" /\ ToSet(e.list_ids) = ExpListed) \/ NoMetaDay,
   \* --- model state descriptors used to classify a deviation
   \* --- what the model itself predicts for this state (cross-check of model fidelity)
   model_readable |-> AllReadBack(fs.meta), model_listing |-> (fs.dir = "sfx" => fs.sfx = Len(committed)),
   nometa_day |-> NoMetaDay, stale |-> stale, ncommitted |-> Len(committed),
   last |-> wres, tmp |-> fs.tmp, errs |-> <<e.reader_err, e.query_err, e.list_err>>]

\* ---- scheduler traces (C30): reader events and the reader's final result ------------------
\* the model reader's result so far, as ids / intact flags
ModelRes == [i \in 1..Len(rres) |-> [id |-> rres[i].id, ok |-> rres[i].ok]]
ObsRes(e) == [i \in 1..Len(e.res) |-> [id |-> e.res[i].id, ok |-> e.res[i].ok]]

ReaderVerdict(e) ==
  [line |-> l, kind |-> e.kind,
   \* property level (C30): no failure, every day reflects the blocks of some completed write-out
   \* (a prefix of the committed blocks, at least those committed when the reader started), intact
   no_error |-> e.err = "",
   snapshot |-> /\ IsPrefixOf([i \in 1..Len(e.res) |-> e.res[i].id], committed)
                /\ Len(e.res) >= Len(rstart),
   intact   |-> \A i \in 1..Len(e.res) : e.res[i].ok,
   \* conformance level (GPDir reader only): the model reader ended the same way with the same result
   conf     |-> e.kind # "gpdir" \/ (/\ (rpc = "err") = (e.err # "")
                                    /\ (rpc = "done" => ObsRes(e) = ModelRes)),
   nometa_day |-> NoMetaDay, nometa_seen |-> qnometa, renames_during |-> qrenames, model_rpc |-> rpc, model_why |-> rwhy, ncommitted |-> Len(committed), nstart |-> Len(rstart),
   err |-> e.err]

Step(e) ==
  CASE e.ev = "Reset"        -> ResetAll /\ rpc' = "idle" /\ rname' = <<"none", 0>> /\ rres' = <<>> /\ RIdle /\ rretry' = 0 /\ rwhy' = ""
    [] e.ev = "W_OpenMetaAny" -> W_OpenMeta
    [] e.ev = "W_OpenColAny"  -> W_OpenCol
    [] e.ev = "W_SeekAny"     -> W_FileOp /\ act'.kind = "seek"
    [] e.ev = "W_WriteAny"    -> W_FileOp /\ act'.kind = "write"
    [] e.ev = "R_Start"       -> Stutter
    [] e.ev = "Q_Step"        -> Stutter
    [] e.ev = "R_List"        -> R_List
    [] e.ev = "R_OpenMeta"    -> R_OpenMeta
    [] e.ev = "R_RecoverList" -> IF rpc = "colrecover" THEN R_ColRecover ELSE R_RecoverList
    [] e.ev = "R_ReopenMeta"  -> R_ReopenMeta
    [] e.ev = "R_Read"        -> R_Read /\ act'.i = e.i /\ act'.c = e.c
    [] e.ev = "R_Done"        -> (IF e.kind = "gpdir" /\ rpc \in {"done", "err"} THEN R_Finish ELSE Stutter)
                                 /\ PrintT(<<"INFO", ToJson(ReaderVerdict(e))>>)
    [] e.ev = "W_Begin"      -> W_Begin(e.bs, [i \in 1..Len(e.bs) |-> Pay(e.pays[i])])
    [] e.ev = "W_Mkdir"      -> W_Mkdir
    [] e.ev = "W_OpenMeta"   -> W_OpenMeta /\ act'.present = e.present
    [] e.ev = "W_OpenCol"    -> W_OpenCol /\ act'.c = e.c
    [] e.ev = "Lseek"        -> IF wpc = "fileop" /\ wplan # <<>> /\ Head(wplan).kind = "seek" /\ wcol = e.c
                                THEN W_FileOp /\ e.pos = wh.cur[wcol]
                                ELSE Stutter /\ e.c = wcol /\ e.pos = wpos[wcol]
    [] e.ev = "Write"        -> W_FileOp /\ act'.kind = "write" /\ act'.c = e.c /\ act'.n = e.n
    [] e.ev = "W_CreateTmp"  -> W_CreateTmp
    [] e.ev = "W_WriteTmp"   -> W_WriteTmp
    [] e.ev = "W_RenameMeta" -> W_RenameMeta
    [] e.ev = "W_RenameDir"  -> W_RenameDir
    [] e.ev = "W_Return"     -> IF e.res = "ok" THEN W_Return ELSE wres = "err" /\ Stutter
    [] e.ev = "Crash"        -> IF wpc = "idle" THEN Stutter ELSE Crash
    [] e.ev = "Fault"        -> Fault(0)
    [] e.ev = "TornWrite"    -> Fault(e.k)
    [] e.ev = "Observe"      -> Stutter /\ PrintT(<<"INFO", ToJson(Verdict(e))>>)

TraceInit == Init /\ l = 1 /\ rstart = <<>> /\ qnometa = FALSE /\ qrenames = 0

TraceNext ==
  /\ l <= Len(TraceLog)
  /\ Step(TraceLog[l])
  /\ l' = l + 1
  /\ qnometa' = IF TraceLog[l].ev \in {"R_Start", "Reset"} THEN FALSE
                 ELSE IF TraceLog[l].ev = "Q_Step" /\ TraceLog[l].point \in {"r.openmeta", "r.reopenmeta"} /\ NoMetaDay THEN TRUE
                 ELSE qnometa
  /\ qrenames' = IF TraceLog[l].ev \in {"R_Start", "Reset"} THEN 0
                  ELSE IF TraceLog[l].ev = "W_RenameDir" THEN qrenames + 1 ELSE qrenames
  /\ rstart' = IF TraceLog[l].ev = "R_Start" THEN committed
                ELSE IF TraceLog[l].ev = "Reset" THEN <<>> ELSE rstart

TraceSpec == TraceInit /\ [][TraceNext]_tvars

TraceAccepted ==
  \/ TLCGet("stats").diameter - 1 = Len(TraceLog)
  \/ PrintT(<<"MISMATCH", ToJson([consumed |-> TLCGet("stats").diameter - 1, total |-> Len(TraceLog)])>>) /\ FALSE
=============================================================================
