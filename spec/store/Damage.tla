-------------------------------- MODULE Damage --------------------------------
(***************************************************************************)
(* Containment of damaged files (C06).  A database of several days; each   *)
(* day directory holds NCols column files and one metadata file.  The      *)
(* environment damages files (Damage action); a reader/query then runs.    *)
(*                                                                         *)
(* Specification of the reader under damage:                               *)
(*   - it terminates without crashing, whatever was damaged;               *)
(*   - for every day WITHOUT damage it returns exactly that day's blocks;  *)
(*   - for a damaged day any subset of its blocks may be missing (blocks   *)
(*     that are returned are not judged: a flipped bit inside a counter    *)
(*     yields a different but well-formed value);                          *)
(*   - blocks of a damaged day that were present in its metadata but are   *)
(*     missing from the result were skipped, and the statistics must count *)
(*     at least those as corrupted - unless the day's metadata itself is   *)
(*     damaged (then the list of blocks is not known).                     *)
(***************************************************************************)
EXTENDS Integers, Sequences, FiniteSets, TLC, Json

CONSTANTS Days, NCols, BlocksPerDay, MaxDamages

Files == {"meta"} \cup {"col" \o ToString(c) : c \in 1..NCols}
\* "field-ones": one field of the file's structure is set to all ones (metadata: a day total / a block length /
\* an encoder-type byte / a timestamp delta, chosen by the region; column file: the first bytes of a block)
Kinds == {"truncate", "bitflip", "garbage", "swap-column", "swap-day", "missing", "zero-length", "grow", "field-ones"}
Regions == {"head", "first-block", "mid", "last-block"}

VARIABLES damaged,   \* set of [day, file, kind, region]
          phase, outcome, act
vars == <<damaged, phase, outcome, act>>

Dmg(d, f, k, r) == [day |-> d, file |-> f, kind |-> k, region |-> r]

Init == damaged = {} /\ phase = "setup" /\ outcome = [d \in Days |-> "exact"] /\ act = [name |-> "Init"]

\* the environment damages one file of one day
Damage(d, f, k, r) ==
  /\ phase = "setup" /\ Cardinality(damaged) < MaxDamages
  /\ ~\E x \in damaged : x.day = d /\ x.file = f
  /\ damaged' = damaged \cup {Dmg(d, f, k, r)}
  /\ UNCHANGED <<phase, outcome>>
  /\ act' = [name |-> "Damage", d |-> d, f |-> f, k |-> k, r |-> r]

\* A metadata file copied from ANOTHER day is well-formed and announces that other day's block
\* timestamps; whatever is derived from the damaged directory then appears under the donor day's
\* time labels. The rows cannot be told apart by their labels, so the donor day is not judged.
Donor(d) == (d % Cardinality(Days)) + 1
DamagedDays(s) == {x.day : x \in s} \cup {Donor(x.day) : x \in {y \in s : y.kind = "swap-day" /\ y.file = "meta"}}
MetaDamaged(s, d) == \E x \in s : x.day = d /\ x.file = "meta"

\* the query runs: what the specification allows per day
\*   "exact"  : exactly the stored blocks
\*   "subset" : any subset, missing blocks counted as corrupted
\*   "any"    : any subset (metadata damaged - block list unknown)
Query ==
  /\ phase = "setup"
  /\ phase' = "done"
  /\ outcome' = [d \in Days |-> IF d \notin DamagedDays(damaged) THEN "exact"
                                ELSE IF MetaDamaged(damaged, d) \/ d \notin {x.day : x \in damaged} THEN "any"
                                \* a damaged metadata file anywhere may carry bogus block timestamps, and the engine takes
                                \* the covered time range from the first / last day: blocks can then be left out as "outside
                                \* the range" rather than skipped as corrupted, so the count is only judged without it
                                ELSE IF \E x \in damaged : x.file = "meta" THEN "any"
                                ELSE "subset"]
  /\ UNCHANGED damaged
  /\ act' = [name |-> "Query"]

Next == Query \/ \E d \in Days, f \in Files, k \in Kinds, r \in Regions : Damage(d, f, k, r)
Spec == Init /\ [][Next]_vars

\* containment: undamaged days are never affected
Containment == phase = "done" => \A d \in Days : d \notin DamagedDays(damaged) => outcome[d] = "exact"
SomethingJudged == phase = "done" /\ damaged # {} => \E d \in Days : TRUE
=============================================================================
