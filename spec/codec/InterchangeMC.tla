--------------------------- MODULE InterchangeMC ---------------------------
EXTENDS Interchange

MCBuilds2 == {"cgo", "nocgo"}
MCBuilds4 == {"cgo", "nocgo", "noliblz4", "nolibzstd"}
MCEncs == {"lz4", "zstd", "null"}
MCClasses == {"tiny", "mid", "big"}
MCAppend == {"nocgo", "nolibzstd"}

\* symbolic column sizes (unit: KiB, rounded up): the compressible column of a tiny block grows when
\* compressed, of a mid block shrinks but by less than the 8 KiB scratch, of a big block by more
MCRaw(c, k) == CASE c = "tiny" -> 1 [] c = "mid" -> 4 [] c = "big" -> 30 [] OTHER -> 0
MCEnc(c, k) == IF k = "I" THEN MCRaw(c, k) + 1
               ELSE CASE c = "tiny" -> 2 [] c = "mid" -> 2 [] c = "big" -> 8 [] OTHER -> 0
=============================================================================
