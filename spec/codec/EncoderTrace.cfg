SPECIFICATION TraceSpec
CONSTANTS
  DataClasses = {}
  ScratchShapes = {}
  DecShapes = {}
  Levels <- TLevels
  ScratchMode = "overwrite"
  HasCtx = TRUE
  Sz <- TSz
  FSz <- TFSz
POSTCONDITION TraceAccepted
CHECK_DEADLOCK FALSE
