SPECIFICATION Spec
CONSTANTS
  Builds <- MCBuilds4
  Encs <- MCEncs
  Classes <- MCClasses
  MaxBlocks = 2
  AppendBuilds <- MCAppend
  Raw <- MCRaw
  Enc <- MCEnc
INVARIANTS TypeOK Interchangeable
CHECK_DEADLOCK FALSE
