----------------------------- MODULE EncoderMC -----------------------------
(***************************************************************************)
(* Bounded exhaustive exploration of Encoder: all op sequences with at     *)
(* most MaxOps calls on one instance, over the full shape space            *)
(* (data class x scratch shape x context history x level changes).         *)
(***************************************************************************)
EXTENDS Encoder
CONSTANT MaxOps

VARIABLE nops
mcvars == <<vars, nops>>

MCData == {"empty", "b1", "smallC", "smallI", "k4C", "k4I", "k64C", "k64I", "k300M"}
MCDataSmall == {"b1", "k4C", "k64I"}
MCScratch == {"nil", "len0cap0", "len0capBig", "lenNcapBig", "lenNcapSmall"}
MCScratchSmall == {"nil", "lenNcapBig", "lenNcapSmall"}
MCDecShapes == {"exact", "slack"}
MCLevels == {"A", "B"}

\* symbolic sizes: raw size grows with the class, frame size is smaller for compressible ("C")
\* and larger than raw for incompressible classes ("I", empty, one byte)
MCSz(d) == CASE d = "empty" -> 0 [] d = "b1" -> 1 [] d = "smallC" -> 3 [] d = "smallI" -> 3
             [] d = "k4C" -> 5 [] d = "k4I" -> 5 [] d = "k64C" -> 65 [] d = "k64I" -> 65
             [] d = "k300M" -> 300 [] OTHER -> 0
MCFSz(d) == CASE d = "empty" -> 1 [] d = "b1" -> 2 [] d = "smallC" -> 2 [] d = "smallI" -> 4
             [] d = "k4C" -> 3 [] d = "k4I" -> 6 [] d = "k64C" -> 20 [] d = "k64I" -> 66
             [] d = "k300M" -> 150 [] OTHER -> 1

MCInit == Init /\ nops = 0
Tick == nops < MaxOps /\ nops' = nops + 1
MCCompress   == Tick /\ \E d \in DataClasses, s \in ScratchShapes : Compress(d, s)
MCDecompress == Tick /\ \E k \in 1..Len(wr), sh \in DecShapes : Decompress(k, sh)
MCSetLevel   == Tick /\ \E l \in Levels : SetLevel(l)
MCClose      == Tick /\ Close
MCNext == MCCompress \/ MCDecompress \/ MCSetLevel \/ MCClose
MCSpec == MCInit /\ [][MCNext]_mcvars
=============================================================================
