---------------------------- MODULE Interchange ----------------------------
(***************************************************************************)
(* Property C02: goDB data is interchangeable between build                *)
(* configurations (system compression libraries through cgo, pure-Go       *)
(* implementations with CGO_ENABLED=0 / goprobe_noliblz4 /                 *)
(* goprobe_nolibzstd).                                                     *)
(*                                                                         *)
(* One day of one interface.  A write-out by build b appends one block     *)
(* (goDB.DBWriter.Write / gpfile.GPDir.WriteBlocks) with the encoder the   *)
(* writer is configured with.  Every column of the block is stored the way *)
(* GPFile.writeBlock does it: empty -> header only; compressed form        *)
(* (Encoder.Compress with the pre-sized non-empty scratch slice of GPFile) *)
(* if it is not larger than the raw bytes, else raw (null encoding).       *)
(* After every write-out every build opens the day and reads everything    *)
(* back (GPDir reader: column bytes and metadata; query engine: raw rows). *)
(*                                                                         *)
(* The build configuration is an argument of the actions on which NOTHING  *)
(* observable depends: that independence is the property.  Compressed      *)
(* bytes may differ between implementations; what every build reads back   *)
(* may not.                                                                *)
(*                                                                         *)
(* AppendBuilds is the design switch shared with Encoder.tla               *)
(* (ScratchMode = "append"): builds whose zstd encoder appends its output  *)
(* to the scratch slice.  The documented design has AppendBuilds = {};     *)
(* the non-empty setting exists only for the negative model run that must  *)
(* violate Interchangeable.                                                *)
(***************************************************************************)
EXTENDS Naturals, Sequences, FiniteSets, TLC

CONSTANTS Builds,        \* build configurations
          Encs,          \* encoders a writer can be configured with
          Classes,       \* block content classes
          MaxBlocks,
          AppendBuilds,  \* builds with the appending zstd design
          Raw(_, _),     \* symbolic raw size of column kind k of a block of class c
          Enc(_, _)      \* symbolic compressed size of the same

VARIABLES day,        \* stored blocks: [id, cls, enc, by, cols]
          committed,  \* ghost: classes of the blocks handed to the writers, in order
          act

vars == <<day, committed, act>>

ColKinds == {"C", "I"}    \* a compressible and an incompressible column stand for the eight
JunkSz == 8               \* len of GPFile's scratch slice (8192 bytes), in the unit of Raw/Enc

\* how GPFile.writeBlock stores one column
Stored(b, e, c, k) ==
  LET raw  == Raw(c, k)
      junk == IF e = "zstd" /\ b \in AppendBuilds THEN JunkSz ELSE 0
      n    == junk + Enc(c, k)
  IN  IF raw = 0 THEN [form |-> "empty", len |-> 0]
      ELSE IF e = "null" THEN [form |-> "raw", len |-> raw]
      ELSE IF n > raw THEN [form |-> "raw", len |-> raw]                 \* fallback to null encoding
      ELSE IF junk > 0 THEN [form |-> "junk+frame", len |-> n]           \* not a frame
      ELSE [form |-> "frame", len |-> n]

\* a stored column decodes to the bytes written iff it is raw or exactly one frame - for EVERY reader build
ColReadable(r, col) == col.form \in {"empty", "raw", "frame"}
BlockView(r, blk) == IF \A k \in ColKinds : ColReadable(r, blk.cols[k]) THEN blk.cls ELSE "unreadable"

\* what build r reads back from the day: per block the flows (class) it contains
View(r) == [i \in 1..Len(day) |-> BlockView(r, day[i])]

Init == day = <<>> /\ committed = <<>> /\ act = [name |-> "Init"]

\* one write-out of build b with encoder e: a block of class c is appended
WriteOut(b, e, c) ==
  /\ Len(day) < MaxBlocks
  /\ day' = Append(day, [id |-> Len(day) + 1, cls |-> c, enc |-> e, by |-> b,
                         cols |-> [k \in ColKinds |-> Stored(b, e, c, k)]])
  /\ committed' = Append(committed, c)
  /\ act' = [name |-> "WriteOut", b |-> b, e |-> e, c |-> c, id |-> Len(day) + 1]

Next == \E b \in Builds, e \in Encs, c \in Classes : WriteOut(b, e, c)

Spec == Init /\ [][Next]_vars

\* observables compared with the implementation after every write-out: what every build reads back
Obs == [n |-> Len(day), views |-> [r \in Builds |-> View(r)]]

TypeOK == /\ Len(day) = Len(committed) /\ Len(day) <= MaxBlocks
          /\ \A i \in 1..Len(day) : day[i].by \in Builds /\ day[i].enc \in Encs /\ day[i].cls \in Classes

\* every build reads back exactly the flows that were written, whoever wrote them
Interchangeable == \A r \in Builds : View(r) = committed

\* two days written from the same input by different builds hold the same flows:
\* the view is a function of the input alone (it never mentions day[i].by)
SameFlows == \A r1, r2 \in Builds : View(r1) = View(r2)

\* earlier blocks are never changed by a later write-out of another build
AppendOnly == [][ /\ Len(day') = Len(day) + 1
                  /\ \A i \in 1..Len(day) : day'[i] = day[i] ]_vars
=============================================================================
