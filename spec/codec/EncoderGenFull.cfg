SPECIFICATION GenSpec
CONSTANTS
  DataClasses <- MCData
  ScratchShapes <- MCScratch
  DecShapes <- MCDecShapes
  Levels <- MCLevels
  ScratchMode = "overwrite"
  HasCtx = TRUE
  Sz <- MCSz
  FSz <- MCFSz
  MaxOps = 0
  Depth = 2
CHECK_DEADLOCK FALSE
