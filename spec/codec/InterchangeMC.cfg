SPECIFICATION Spec
CONSTANTS
  Builds <- MCBuilds4
  Encs <- MCEncs
  Classes <- MCClasses
  MaxBlocks = 3
  AppendBuilds = {}
  Raw <- MCRaw
  Enc <- MCEnc
INVARIANTS TypeOK Interchangeable SameFlows
PROPERTIES AppendOnly
CHECK_DEADLOCK FALSE
