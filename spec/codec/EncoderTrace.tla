---------------------------- MODULE EncoderTrace ----------------------------
(***************************************************************************)
(* Trace validation (code -> spec) for the block encoders.  The Go driver  *)
(* (harness/internal/codec, Drive) runs long seeded op sequences on real   *)
(* encoder instances - input lengths anywhere between 0 and 512 KiB,       *)
(* scratch buffers of arbitrary length and capacity, every level - and     *)
(* logs one NDJSON event per Encoder action with the observables the       *)
(* implementation showed after the call: whether the returned count was    *)
(* the emitted / raw length, what the emitted bytes decode to with an      *)
(* independent decoder, which input Decompress restored, and (zstd) which  *)
(* contexts the instance holds.  A trace is accepted iff every event is    *)
(* the spec action with the logged arguments AND the logged observables    *)
(* equal Obs of the model state.  Traces of many instances are             *)
(* concatenated with Reset events.  A mismatch is printed (MISMATCH line,  *)
(* = rejection of that instance's trace) and validation continues with the *)
(* model state, so that one TLC run judges every instance; the check       *)
(* accepts a log iff it was consumed completely and no MISMATCH appeared.  *)
(***************************************************************************)
EXTENDS Encoder, Json

TraceLog == ndJsonDeserialize("trace.ndjson")

VARIABLE l
tvars == <<vars, l>>

TSz(d) == 1
TFSz(d) == 1
TLevels == 0..22

Reset == /\ level' = "default" /\ ctx' = "none" /\ closed' = FALSE
         /\ wr' = <<>> /\ inputs' = <<>> /\ ret' = NoRet
         /\ act' = [name |-> "Reset"]

Step(e) ==
  CASE e.ev = "Reset"      -> Reset
    [] e.ev = "Compress"   -> Compress(e.d, e.s)
    [] e.ev = "Decompress" -> Decompress(e.k, e.sh)
    [] e.ev = "SetLevel"   -> SetLevel(e.lvl)
    [] e.ev = "Close"      -> Close

\* the observables of event e agree with the model state after the step (primed by the caller)
ObsOK(e, o) ==
  /\ e.nframes = o.nframes
  /\ (e.ev = "Compress" => e.frame = o.frames[o.nframes])
  /\ e.err = o.ret.err
  /\ e.n_ok = o.ret.n_ok
  /\ e.src = o.ret.src
  /\ (e.ctx # "" => e.ctx = o.ctx)

Explain(e, o) ==
  [line |-> l, ev |-> e.ev, tr |-> e.tr,
   model_nframes |-> o.nframes, model_ret |-> o.ret, model_ctx |-> o.ctx,
   frame_ok |-> (e.ev = "Compress" /\ e.nframes = o.nframes) => e.frame = o.frames[o.nframes],
   ret_ok |-> e.err = o.ret.err /\ e.n_ok = o.ret.n_ok /\ e.src = o.ret.src,
   ctx_ok |-> (e.ctx # "" => e.ctx = o.ctx)]

TraceInit == Init /\ l = 1

TraceNext ==
  /\ l <= Len(TraceLog)
  /\ LET e == TraceLog[l] IN
       /\ Step(e)
       /\ l' = l + 1
       /\ \/ e.ev = "Reset"
          \/ ObsOK(e, Obs')
          \/ /\ e.ev # "Reset" /\ ~ObsOK(e, Obs')
             /\ PrintT(<<"MISMATCH", ToJson(Explain(e, Obs'))>>)

TraceSpec == TraceInit /\ [][TraceNext]_tvars

TraceAccepted ==
  \/ TLCGet("stats").diameter - 1 = Len(TraceLog)
  \/ PrintT(<<"INFO", ToJson([consumed |-> TLCGet("stats").diameter - 1, total |-> Len(TraceLog)])>>) /\ FALSE
=============================================================================
