SPECIFICATION MCSpec
CONSTANTS
  DataClasses <- MCData
  ScratchShapes <- MCScratch
  DecShapes <- MCDecShapes
  Levels <- MCLevels
  ScratchMode = "overwrite"
  HasCtx = TRUE
  Sz <- MCSz
  FSz <- MCFSz
  MaxOps = 3
INVARIANTS TypeOK RoundTrip OneFramePerCall
PROPERTIES ReportedLen HistoryIndependent CtxLazy
CHECK_DEADLOCK FALSE
