SPECIFICATION MCSpec
CONSTANTS
  DataClasses <- MCDataSmall
  ScratchShapes <- MCScratch
  DecShapes <- MCDecShapes
  Levels <- MCLevels
  ScratchMode = "append"
  HasCtx = TRUE
  Sz <- MCSz
  FSz <- MCFSz
  MaxOps = 2
INVARIANTS TypeOK RoundTrip OneFramePerCall
CHECK_DEADLOCK FALSE
