SPECIFICATION GenSpec
CONSTANTS
  Builds <- MCBuilds2
  Encs <- MCEncs
  Classes <- MCClasses
  MaxBlocks = 9
  AppendBuilds = {}
  Raw <- MCRaw
  Enc <- MCEnc
  Depth = 2
CHECK_DEADLOCK FALSE
