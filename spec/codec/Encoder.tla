------------------------------ MODULE Encoder ------------------------------
(***************************************************************************)
(* One goDB block encoder instance (pkg/goDB/encoder: lz4, zstd, null; cgo  *)
(* and native implementations) as the storage layer uses it:               *)
(*                                                                         *)
(*   Compress(data, scratch, dst)  emits the compressed form of data to    *)
(*                                 the writer dst and returns the number   *)
(*                                 of bytes emitted                        *)
(*   Decompress(in, out, src)      reads one frame from src and restores   *)
(*                                 the data into out                       *)
(*   SetLevel(l), Close()                                                  *)
(*                                                                         *)
(* Property C07: what the writer received for one Compress call is exactly *)
(* ONE frame Enc(data); the reported count equals the bytes received;      *)
(* Dec(Enc(data)) = data; none of this depends on the scratch buffer the   *)
(* caller hands in (nil, empty, pre-sized and non-empty as GPFile passes   *)
(* it, too small), on the (de)compression contexts the instance created    *)
(* lazily in earlier calls, or on level changes in between.                *)
(*                                                                         *)
(* Bytes are abstract: the writer content is a sequence of SEGMENTS, a     *)
(* segment is a frame  [kind |-> "frame", data, lvl]  or junk (bytes that  *)
(* are not part of a frame).  Sizes are symbolic integers (Sz).  The       *)
(* harness owns the concretisation data class -> bytes and the projection  *)
(* bytes received by the writer -> data class ("error" if they do not      *)
(* decode to the input with a fresh decoder).                              *)
(*                                                                         *)
(* ScratchMode is the design switch: "overwrite" is what the interface     *)
(* documents (scratch is working memory only), "append" is the design in   *)
(* which the output is appended to the scratch slice (EncodeAll(data,buf)  *)
(* semantics) - kept only for the negative model run that must violate     *)
(* OneFramePerCall / RoundTrip.                                            *)
(***************************************************************************)
EXTENDS Naturals, Sequences, FiniteSets, TLC

CONSTANTS DataClasses,    \* size/compressibility classes of the input
          ScratchShapes,  \* shapes of the caller's scratch buffer
          DecShapes,      \* shapes of the buffers / reader handed to Decompress
          Levels,         \* levels SetLevel switches to (abstract names, harness maps them per type)
          ScratchMode,    \* "overwrite" | "append"
          HasCtx,         \* TRUE for encoder types that keep (de)compression contexts (zstd)
          Sz(_),          \* symbolic raw size of a data class
          FSz(_)          \* symbolic frame size of a data class

VARIABLES level,   \* current compression level ("default" until SetLevel)
          ctx,     \* contexts created so far: "none" | "comp" | "decomp" | "both"
          closed,
          wr,      \* the writer: sequence (one entry per Compress call) of segment sequences
          inputs,  \* ghost: data class handed to the i-th Compress call
          ret,     \* return value of the last call
          act

vars == <<level, ctx, closed, wr, inputs, ret, act>>

NonEmptyScratch == {"lenNcapBig", "lenNcapSmall"}   \* len(scratch) > 0
JunkSize == 8                                       \* symbolic len(scratch) of the pre-sized shapes

Frame(d, l) == [kind |-> "frame", data |-> d, lvl |-> l]
Junk        == [kind |-> "junk", data |-> "junk", lvl |-> "none"]

\* what one Compress call hands to the writer
Emit(d, l, s) ==
  IF ScratchMode = "append" /\ s \in NonEmptyScratch THEN <<Junk, Frame(d, l)>> ELSE <<Frame(d, l)>>

SegSize(sg) == IF sg.kind = "junk" THEN JunkSize ELSE FSz(sg.data)
RECURSIVE SegsSize(_)
SegsSize(ss) == IF ss = <<>> THEN 0 ELSE SegSize(Head(ss)) + SegsSize(Tail(ss))

\* decoding exactly the bytes of one Compress call: defined iff they are one frame
Decodable(ss) == Len(ss) = 1 /\ ss[1].kind = "frame"
Dec(ss) == IF Decodable(ss) THEN ss[1].data ELSE "error"

AddCtx(c, what) ==
  IF ~HasCtx THEN "none"
  ELSE IF c = "none" THEN what
  ELSE IF c = what THEN c
  ELSE "both"

NoRet == [op |-> "none", n |-> 0, data |-> "none", err |-> FALSE]

Init == /\ level = "default" /\ ctx = "none" /\ closed = FALSE
        /\ wr = <<>> /\ inputs = <<>> /\ ret = NoRet
        /\ act = [name |-> "Init"]

\* Encoder.Compress(data of class d, scratch of shape s, dst = the writer)
Compress(d, s) ==
  /\ ~closed
  /\ LET out == Emit(d, level, s) IN
       /\ wr' = Append(wr, out)
       /\ ret' = [op |-> "Compress", n |-> SegsSize(out), data |-> "none", err |-> FALSE]
  /\ inputs' = Append(inputs, d)
  /\ ctx' = AddCtx(ctx, "comp")
  /\ UNCHANGED <<level, closed>>
  /\ act' = [name |-> "Compress", d |-> d, s |-> s]

\* Encoder.Decompress(in = the bytes of the k-th Compress call, out = buffer of the raw length)
Decompress(k, sh) ==
  /\ ~closed
  /\ k \in 1..Len(wr)
  /\ ret' = IF Decodable(wr[k])
              THEN [op |-> "Decompress", n |-> Sz(Dec(wr[k])), data |-> Dec(wr[k]), err |-> FALSE]
              ELSE [op |-> "Decompress", n |-> 0, data |-> "error", err |-> TRUE]
  /\ ctx' = AddCtx(ctx, "decomp")
  /\ UNCHANGED <<level, closed, wr, inputs>>
  /\ act' = [name |-> "Decompress", k |-> k, sh |-> sh]

\* Encoder.SetLevel
SetLevel(l) ==
  /\ ~closed
  /\ level' = l
  /\ ret' = NoRet
  /\ UNCHANGED <<ctx, closed, wr, inputs>>
  /\ act' = [name |-> "SetLevel", l |-> l]

\* Encoder.Close: releases the contexts; the instance is not used afterwards
Close ==
  /\ ~closed
  /\ closed' = TRUE /\ ctx' = "none"
  /\ ret' = NoRet
  /\ UNCHANGED <<level, wr, inputs>>
  /\ act' = [name |-> "Close"]

Next == \/ \E d \in DataClasses, s \in ScratchShapes : Compress(d, s)
        \/ \E k \in 1..Len(wr), sh \in DecShapes : Decompress(k, sh)
        \/ \E l \in Levels : SetLevel(l)
        \/ Close

Spec == Init /\ [][Next]_vars

(***************************************************************************)
(* Observables compared with the implementation after every step.          *)
(*   frames[i]  what the bytes the writer received in the i-th Compress     *)
(*              call decode to (data class of the i-th input, or "error")  *)
(*   n_ok       the returned count is the one the property demands:        *)
(*              Compress: bytes received by the writer in this call,       *)
(*              Decompress: raw length of the data                         *)
(*   src        Decompress: index of the Compress call whose input came    *)
(*              back (0: none)                                             *)
(*   ctx        internal (drift only): contexts alive in the instance      *)
(***************************************************************************)
LastSize == IF wr = <<>> THEN 0 ELSE SegsSize(wr[Len(wr)])

RetObs ==
  CASE ret.op = "Compress"   -> [op |-> "Compress", err |-> ret.err, n_ok |-> ret.n = LastSize, src |-> 0]
    [] ret.op = "Decompress" -> [op |-> "Decompress", err |-> ret.err,
                                 n_ok |-> ~ret.err /\ ret.n = Sz(inputs[act.k]),
                                 src |-> IF ~ret.err /\ ret.data = inputs[act.k] THEN act.k ELSE 0]
    [] OTHER                 -> [op |-> "none", err |-> FALSE, n_ok |-> TRUE, src |-> 0]

Obs == [frames |-> [i \in 1..Len(wr) |-> Dec(wr[i])],
        nframes |-> Len(wr),
        ret |-> RetObs,
        ctx |-> ctx, level |-> level, closed |-> closed]

(***************************************************************************)
(* Properties of the design (checked by TLC on all op sequences).          *)
(***************************************************************************)
TypeOK == /\ level \in Levels \cup {"default"}
          /\ ctx \in {"none", "comp", "decomp", "both"}
          /\ closed \in BOOLEAN
          /\ Len(wr) = Len(inputs)
          /\ \A i \in 1..Len(inputs) : inputs[i] \in DataClasses

\* decompressing exactly what the compressor wrote restores the input
RoundTrip == \A i \in 1..Len(wr) : Dec(wr[i]) = inputs[i]

\* every Compress call hands exactly one frame - nothing before, nothing after - to the writer
OneFramePerCall == \A i \in 1..Len(wr) : Decodable(wr[i])

\* the reported byte count is the emitted byte count; Decompress reports the raw length and the data
ReportedLen ==
  [][ /\ (act'.name = "Compress" =>
            /\ Len(wr') = Len(wr) + 1
            /\ ret'.n = SegsSize(wr'[Len(wr')])
            /\ ~ret'.err)
      /\ (act'.name = "Decompress" =>
            /\ ~ret'.err /\ ret'.data = inputs[act'.k] /\ ret'.n = Sz(inputs[act'.k])
            /\ wr' = wr)
    ]_vars

\* the frame depends on the data (and level) only: not on the scratch shape, not on the context history
HistoryIndependent ==
  [][ act'.name = "Compress" => wr'[Len(wr')] = <<Frame(act'.d, level)>> ]_vars

\* contexts are created lazily, only grow, and are released by Close only
CtxLazy ==
  [][ /\ (act'.name = "Compress"   => ctx' = AddCtx(ctx, "comp"))
      /\ (act'.name = "Decompress" => ctx' = AddCtx(ctx, "decomp"))
      /\ (act'.name = "SetLevel"   => ctx' = ctx)
      /\ (act'.name = "Close"      => ctx' = "none" /\ closed')
    ]_vars
=============================================================================
