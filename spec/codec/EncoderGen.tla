----------------------------- MODULE EncoderGen -----------------------------
(***************************************************************************)
(* Behaviour generator for forward replay (spec -> code): Encoder plus a   *)
(* history variable.  Every op sequence of length Depth - and every        *)
(* shorter one that ends with Close - is printed once as JSON, a list of   *)
(* steps [act, exp] with exp = Obs after the step.  Printing happens       *)
(* inside the next-state relation so the module serves exhaustive BFS and  *)
(* -simulate alike.                                                        *)
(***************************************************************************)
EXTENDS EncoderMC, Json
CONSTANT Depth
VARIABLES hist, done

gvars == <<vars, nops, hist, done>>

GenInit == Init /\ nops = 0 /\ hist = <<>> /\ done = FALSE
GenNext == \/ /\ ~done /\ Len(hist) < Depth /\ ~closed
              /\ Next
              /\ hist' = Append(hist, [act |-> act', exp |-> Obs'])
              /\ UNCHANGED <<done, nops>>
           \/ /\ ~done /\ (Len(hist) = Depth \/ closed)
              /\ PrintT(<<"TRACE", ToJson(hist)>>)
              /\ done' = TRUE /\ hist' = <<>>
              /\ level' = "default" /\ ctx' = "none" /\ closed' = FALSE /\ wr' = <<>> /\ inputs' = <<>>
              /\ ret' = NoRet /\ act' = [name |-> "Done"]
              /\ UNCHANGED nops
GenSpec == GenInit /\ [][GenNext]_gvars
=============================================================================
