--------------------------- MODULE InterchangeGen ---------------------------
(***************************************************************************)
(* Behaviour generator for forward replay (spec -> code): every sequence   *)
(* of Depth write-outs (writer build x encoder x block class per step)     *)
(* with, after every step, what the specification says every build reads   *)
(* back.                                                                   *)
(***************************************************************************)
EXTENDS InterchangeMC, Json
CONSTANT Depth
VARIABLES hist, done

\* ---- behaviour generator (forward replay): every sequence of Depth write-outs
gvars == <<vars, hist, done>>
GenInit == Init /\ hist = <<>> /\ done = FALSE
GenNext == \/ /\ ~done /\ Len(hist) < Depth
              /\ Next
              /\ hist' = Append(hist, [act |-> act', exp |-> Obs'])
              /\ UNCHANGED done
           \/ /\ ~done /\ Len(hist) = Depth
              /\ PrintT(<<"TRACE", ToJson(hist)>>)
              /\ done' = TRUE /\ hist' = <<>> /\ day' = <<>> /\ committed' = <<>>
              /\ act' = [name |-> "Done"]
GenSpec == GenInit /\ [][GenNext]_gvars
=============================================================================
