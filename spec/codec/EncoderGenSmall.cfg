SPECIFICATION GenSpec
CONSTANTS
  DataClasses <- MCDataSmall
  ScratchShapes <- MCScratchSmall
  DecShapes <- MCDecShapes
  Levels <- MCLevels
  ScratchMode = "overwrite"
  HasCtx = TRUE
  Sz <- MCSz
  FSz <- MCFSz
  MaxOps = 0
  Depth = 3
CHECK_DEADLOCK FALSE
