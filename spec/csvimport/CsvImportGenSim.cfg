SPECIFICATION GenSpec
CONSTANTS
  Ifaces = {"a", "b"}
  DefIface = "dflt"
  Keys <- GenKeys
  MaxTs = 40
  Vals <- GenVals
  BadKinds <- AllBad
  IfaceKinds <- AllIfaceBad
  Schemas <- GenSchemas8
  Depth = 12
  EmitAll = FALSE
CHECK_DEADLOCK FALSE
