---------------------------- MODULE CsvImportMC ----------------------------
(* bounded exhaustive exploration of the CsvImport design *)
EXTENDS CsvImport
CONSTANT MaxRead

MCVals == {<<1, 2, 3, 4>>, <<5, 0, 1, 0>>}
MCVals1 == {<<1, 2, 3, 4>>}
MCSchemas == {[id |-> "with", iface |-> TRUE], [id |-> "without", iface |-> FALSE]}
\* unusable rows: the remaining fields cannot matter, one representative per kind and time
MCCandidates(s) == OkRows \cup {r \in BadRows(s) : r.iface = "a" /\ r.key = "k4" /\ r.val = <<1, 2, 3, 4>>}
MCCandidates1(s) == {r \in MCCandidates(s) : r.val = <<1, 2, 3, 4>>}
Bound == read <= MaxRead
=============================================================================
