--------------------------- MODULE CsvImportGen ---------------------------
(***************************************************************************)
(* Behaviour generator for forward replay (spec -> code).  CsvImport plus  *)
(* a history of [act, exp] steps.  The rows offered in a state are chosen  *)
(* RELATIVE to the state, so that every row class of the property occurs   *)
(* without enumerating interchangeable rows:                               *)
(*   usable rows at the current time, one slot later, one slot earlier     *)
(*   (time going backwards) x {v4 key, second v4 key, v6 key, the v4 key   *)
(*   on another interface}  -- repeating a key at the same time is the     *)
(*   "duplicate key" class;  unusable rows of every kind at the current    *)
(*   time.  Counters rotate with the row number.                           *)
(* EmitAll = TRUE : every behaviour of length 1..Depth is printed once     *)
(*   (exhaustive BFS; the harness compares the state after the last row,   *)
(*   all prefixes are behaviours of their own).                            *)
(* EmitAll = FALSE: a behaviour is printed when it reaches Depth or fails  *)
(*   (-simulate; the harness imports every prefix).                        *)
(***************************************************************************)
EXTENDS CsvImport, Json
CONSTANTS Depth, EmitAll
VARIABLES hist, done

GenValSeq == << <<1, 2, 3, 4>>, <<50, 0, 1, 0>>, <<700, 900, 20, 10>> >>
GenVals == {GenValSeq[i] : i \in 1..3}
GenKeys == {"k4", "k4b", "k6"}

Canon == <<"time", "iface", "sip", "dip", "dport", "proto", "pr", "ps", "br", "bs">>
CanonNoIf == <<"time", "sip", "dip", "dport", "proto", "pr", "ps", "br", "bs">>
\* column names: pr/ps = packets received/sent, br/bs = data vol. received/sent, x = a column the
\* tool does not know (ignored); header = schema given as first row of the file (else by option)
S1 == [id |-> "canon-iface-header", iface |-> TRUE, header |-> TRUE, cols |-> Canon]
S2 == [id |-> "canon-noiface-option", iface |-> FALSE, header |-> FALSE, cols |-> CanonNoIf]
S3 == [id |-> "perm-iface-option-extra", iface |-> TRUE, header |-> FALSE,
       cols |-> <<"iface", "sip", "dip", "x", "dport", "proto", "br", "bs", "x", "pr", "ps", "time">>]   \* iface is column 0
S4 == [id |-> "perm-noiface-header", iface |-> FALSE, header |-> TRUE,
       cols |-> <<"proto", "dport", "time", "dip", "sip", "bs", "br", "ps", "pr">>]
S5 == [id |-> "goquery-output-header", iface |-> TRUE, header |-> TRUE,
       cols |-> <<"time", "iface", "sip", "dip", "dport", "proto", "pr", "ps", "x", "br", "bs", "x">>]
S6 == [id |-> "dport-proto-first-option", iface |-> TRUE, header |-> FALSE,
       cols |-> <<"dport", "proto", "iface", "time", "pr", "br", "sip", "ps", "bs", "dip">>]
S7 == [id |-> "time-between-ips-noiface-option", iface |-> FALSE, header |-> FALSE,
       cols |-> <<"sip", "time", "dip", "x", "proto", "dport", "bs", "ps", "br", "pr">>]
S8 == [id |-> "iface-last-header", iface |-> TRUE, header |-> TRUE,
       cols |-> <<"dip", "sip", "proto", "dport", "time", "bs", "br", "ps", "pr", "iface">>]
GenSchemas2 == {S3, S4}
GenSchemas4 == {S1, S2, S3, S4}
GenSchemas4b == {S5, S6, S7, S8}
GenSchemas8 == {S1, S2, S3, S4, S5, S6, S7, S8}

AllBad == {"badsip", "baddip", "mixedfam", "badport", "bigport", "badproto", "badcount", "negcount",
           "badtime", "short", "zerotime", "emptytime", "negtime"}
AllIfaceBad == {"emptyiface", "slashiface", "backslashiface", "dotiface", "dotdotiface"}

V == GenValSeq[(read % 3) + 1]
C == IF cur = 0 THEN 1 ELSE cur
SeenKey(k) == \E i \in 1..Len(accepted) : accepted[i].key = k
GenIK == {<<"a", "k4">>, <<"a", "k6">>, <<"b", "k4">>} \cup (IF SeenKey("k4") THEN {<<"a", "k4b">>} ELSE {})
GenOk == {[kind |-> "ok", ts |-> t, iface |-> ik[1], key |-> ik[2], val |-> V] :
            t \in {C - 1, C, C + 1} \cap Slots, ik \in GenIK}
GenBad == {[kind |-> b, ts |-> C, iface |-> "a", key |-> "k4", val |-> V] :
            b \in BadKinds \cup (IF schema.iface THEN IfaceKinds ELSE {})}

Emit == PrintT(<<"TRACE", ToJson([schema |-> schema, steps |-> hist'])>>)

GenInit == Init /\ hist = <<>> /\ done = FALSE
GenNext == \/ /\ ~done /\ ~err /\ Len(hist) < Depth
              /\ \E r \in GenOk \cup GenBad : Feed(r)
              /\ hist' = Append(hist, [act |-> act', exp |-> Obs'])
              /\ (EmitAll => Emit)
              /\ UNCHANGED done
           \/ /\ ~done /\ ~EmitAll /\ (Len(hist) = Depth \/ err)
              /\ hist' = hist
              /\ Emit
              /\ done' = TRUE
              /\ UNCHANGED vars
GenSpec == GenInit /\ [][GenNext]_<<vars, hist, done>>
=============================================================================
