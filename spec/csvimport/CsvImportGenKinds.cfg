SPECIFICATION GenSpec
CONSTANTS
  Ifaces = {"a", "b"}
  DefIface = "dflt"
  Keys <- GenKeys
  MaxTs = 6
  Vals <- GenVals
  BadKinds <- AllBad
  IfaceKinds <- AllIfaceBad
  Schemas <- GenSchemas8
  Depth = 2
  EmitAll = TRUE
CHECK_DEADLOCK FALSE
