SPECIFICATION Spec
CONSTANTS
  Ifaces = {"a", "b"}
  DefIface = "dflt"
  Keys = {"k4", "k6"}
  MaxTs = 3
  Vals <- MCVals
  BadKinds = {"badfield", "short", "notime"}
  IfaceKinds = {"badiface"}
  Schemas <- MCSchemas
  Candidates <- MCCandidates
  MaxRead = 4
INVARIANTS TypeOK CountOK StoreOK BlocksOK
PROPERTIES RegressionRejected WrittenStable SkipInvisible
CONSTRAINT Bound
CHECK_DEADLOCK FALSE
