SPECIFICATION GenSpec
CONSTANTS
  Ifaces = {"a", "b"}
  DefIface = "dflt"
  Keys <- GenKeys
  MaxTs = 6
  Vals <- GenVals
  BadKinds = {"badsip", "short", "zerotime", "badcount"}
  IfaceKinds = {"slashiface"}
  Schemas <- GenSchemas4
  Depth = 3
  EmitAll = TRUE
CHECK_DEADLOCK FALSE
