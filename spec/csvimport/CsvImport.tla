------------------------------ MODULE CsvImport ------------------------------
(***************************************************************************)
(* `gpdb import` (cmd/gpdb/pkg/csvimport.Import) as a state machine over   *)
(* the stream of CSV data rows.                                            *)
(*                                                                         *)
(* What the property (C26) and the documentation of the tool demand:       *)
(*   - rows are read one by one; a row that cannot be used (malformed      *)
(*     field, too few fields, no / zero time, unusable interface name) is  *)
(*     skipped, every other row is accepted (imported);                    *)
(*   - accepted rows must be ordered by non-decreasing time: a row whose   *)
(*     time lies before the current one makes the import fail;             *)
(*   - every accepted row ends up in the destination under its interface   *)
(*     and timestamp; rows sharing interface, timestamp and flow key are   *)
(*     ADDED;                                                              *)
(*   - rows read = rows imported + rows skipped.                           *)
(*                                                                         *)
(* The tool buffers the rows of the current timestamp (`pending`) and      *)
(* writes a block per (interface, timestamp) when time advances            *)
(* (`written`), the rest at end of input.  A written block is never        *)
(* touched again (goDB day files are append-only and need increasing block *)
(* timestamps), which is why ordered input is required.                    *)
(*                                                                         *)
(* Rows are abstract: [kind, ts, iface, key, val].  kind = "ok" or the     *)
(* reason the row is unusable; ts is a slot 1..MaxTs of a strictly         *)
(* increasing list of concrete times; key identifies (family, sip, dip,    *)
(* dport, proto); val is the 4-tuple of counters.  The harness owns the    *)
(* rendering to CSV text under the schema chosen in the initial state.     *)
(***************************************************************************)
EXTENDS Naturals, Integers, Sequences, FiniteSets, TLC

CONSTANTS Ifaces,     \* interface names usable in the iface column
          DefIface,   \* interface given by option (used when the schema has no iface column)
          Keys,       \* flow key identities
          MaxTs,      \* timestamp slots 1..MaxTs
          Vals,       \* counter 4-tuples <<bytes rcvd, bytes sent, pkts rcvd, pkts sent>>
          BadKinds,   \* kinds of unusable rows that do not involve the iface column
          IfaceKinds, \* kinds of unusable rows that need an iface column
          Schemas     \* set of records [id, iface (BOOLEAN: has an iface column), ...]

VARIABLES schema,    \* the schema of this import (fixed in the initial state)
          cur,       \* timestamp slot of the last accepted row, 0 = none yet
          pending,   \* blocks being collected:  <<iface, ts>> -> (key -> counters)
          written,   \* blocks already written to the destination
          read, imported, skipped,   \* the Summary counters
          err,       \* the import failed (time went backwards)
          eof,       \* end of input reached, everything flushed
          accepted,  \* history: the accepted rows in order (for the invariants only)
          act

vars == <<schema, cur, pending, written, read, imported, skipped, err, eof, accepted, act>>

Empty == <<>>
Add(a, b) == <<a[1] + b[1], a[2] + b[2], a[3] + b[3], a[4] + b[4]>>

Slots == 1..MaxTs

(* the rows that can be rendered under schema s *)
OkRows == [kind : {"ok"}, ts : Slots, iface : Ifaces, key : Keys, val : Vals]
BadRows(s) == [kind : BadKinds \cup (IF s.iface THEN IfaceKinds ELSE {}), ts : Slots,
               iface : Ifaces, key : Keys, val : Vals]
Rows(s) == OkRows \cup BadRows(s)
AllRows == OkRows \cup [kind : BadKinds \cup IfaceKinds, ts : Slots, iface : Ifaces, key : Keys, val : Vals]
(* the rows Next chooses from (bounded model runs substitute a subset of Rows) *)
Candidates(s) == Rows(s)

(* interface a usable row is stored under *)
RowIface(r) == IF schema.iface THEN r.iface ELSE DefIface
RowBlock(r) == <<RowIface(r), r.ts>>

(* ---- block maps ---- *)
FlowUpd(f, k, d) == [x \in DOMAIN f \cup {k} |->
                       IF x = k THEN (IF k \in DOMAIN f THEN Add(f[k], d) ELSE d) ELSE f[x]]
AddRow(P, b, k, d) == [x \in DOMAIN P \cup {b} |->
                         IF x = b THEN FlowUpd(IF b \in DOMAIN P THEN P[b] ELSE Empty, k, d) ELSE P[x]]
Restrict(P, S) == [x \in S |-> P[x]]
(* union of two block maps with disjoint domains *)
Join(W, P) == [x \in DOMAIN W \cup DOMAIN P |-> IF x \in DOMAIN W THEN W[x] ELSE P[x]]

(* what the destination holds once the input ends here *)
FinalStore == Join(written, pending)

Init == /\ schema \in Schemas
        /\ cur = 0 /\ pending = Empty /\ written = Empty
        /\ read = 0 /\ imported = 0 /\ skipped = 0
        /\ err = FALSE /\ eof = FALSE /\ accepted = <<>>
        /\ act = [name |-> "Init"]

(* an unusable row: counted, nothing else happens *)
Skip(r) == /\ ~err /\ ~eof /\ r \in Candidates(schema) /\ r.kind # "ok"
           /\ read' = read + 1 /\ skipped' = skipped + 1
           /\ UNCHANGED <<schema, cur, pending, written, imported, err, eof, accepted>>
           /\ act' = [name |-> "Skip", row |-> r]

(* a usable row whose time lies before the current one: the import is rejected *)
Regress(r) == /\ ~err /\ ~eof /\ r \in Candidates(schema) /\ r.kind = "ok" /\ cur # 0 /\ r.ts < cur
              /\ read' = read + 1
              /\ err' = TRUE
              /\ UNCHANGED <<schema, cur, pending, written, imported, skipped, eof, accepted>>
              /\ act' = [name |-> "Regress", row |-> r]

(* a usable row in order: blocks older than its time are written out, the row is added *)
Accept(r) == /\ ~err /\ ~eof /\ r \in Candidates(schema) /\ r.kind = "ok" /\ (cur = 0 \/ r.ts >= cur)
             /\ LET old == {b \in DOMAIN pending : b[2] < r.ts}
                    keep == DOMAIN pending \ old
                IN /\ written' = Join(written, Restrict(pending, old))
                   /\ pending' = AddRow(Restrict(pending, keep), RowBlock(r), r.key, r.val)
             /\ cur' = r.ts
             /\ read' = read + 1 /\ imported' = imported + 1
             /\ accepted' = Append(accepted, r)
             /\ UNCHANGED <<schema, skipped, err, eof>>
             /\ act' = [name |-> "Accept", row |-> r]

Feed(r) == Skip(r) \/ Regress(r) \/ Accept(r)

(* end of input: everything still pending is written *)
Eof == /\ ~err /\ ~eof
       /\ written' = FinalStore /\ pending' = Empty /\ eof' = TRUE
       /\ UNCHANGED <<schema, cur, read, imported, skipped, err, accepted>>
       /\ act' = [name |-> "Eof"]

Next == (\E r \in AllRows : Skip(r) \/ Regress(r) \/ Accept(r)) \/ Eof

Spec == Init /\ [][Next]_vars

(***************************************************************************)
(* Observables: the Summary and the contents of the destination as a       *)
(* query by time, interface and flow key shows them, if the input ended    *)
(* after the rows fed so far.                                              *)
(***************************************************************************)
StoreRows(W) == UNION {{[iface |-> b[1], ts |-> b[2], key |-> k, c |-> W[b][k]] : k \in DOMAIN W[b]}
                       : b \in DOMAIN W}

Obs == [err |-> err, read |-> read, imported |-> imported, skipped |-> skipped,
        blocks |-> Cardinality(DOMAIN FinalStore),
        ifaces |-> Cardinality({b[1] : b \in DOMAIN FinalStore}),
        store |-> StoreRows(FinalStore)]

(***************************************************************************)
(* Properties.                                                             *)
(***************************************************************************)
TypeOK == /\ cur \in 0..MaxTs /\ read \in Nat /\ imported \in Nat /\ skipped \in Nat
          /\ err \in BOOLEAN /\ eof \in BOOLEAN
          /\ \A b \in DOMAIN pending \cup DOMAIN written : b[2] \in Slots

(* rows read = rows imported + rows skipped (the rejected row of a failed import is neither) *)
CountOK == /\ ~err => read = imported + skipped
           /\ err => read = imported + skipped + 1
           /\ imported = Len(accepted)

(* the destination holds exactly the additive aggregation of the accepted rows, defined  *)
(* directly on the history (independent of when blocks are flushed)                      *)
Matching(b, k) == {i \in 1..Len(accepted) : RowBlock(accepted[i]) = b /\ accepted[i].key = k}
RECURSIVE SumVals(_)
SumVals(I) == IF I = {} THEN <<0, 0, 0, 0>>
              ELSE LET i == CHOOSE i \in I : TRUE IN Add(accepted[i].val, SumVals(I \ {i}))
ExpectedRows ==
  {[iface |-> RowIface(accepted[i]), ts |-> accepted[i].ts, key |-> accepted[i].key,
    c |-> SumVals(Matching(RowBlock(accepted[i]), accepted[i].key))] : i \in 1..Len(accepted)}
StoreOK == StoreRows(FinalStore) = ExpectedRows

(* a block is either still pending or written, never both; pending is the current time only *)
BlocksOK == /\ DOMAIN pending \cap DOMAIN written = {}
            /\ \A b \in DOMAIN pending : b[2] = cur
            /\ \A b \in DOMAIN written : eof \/ b[2] < cur
            /\ \A b \in DOMAIN FinalStore : DOMAIN FinalStore[b] # {}

(* time going backwards is rejected and stores nothing from the offending row *)
RegressionRejected ==
  [][ /\ (act'.name \in {"Accept", "Regress"} /\ cur # 0 /\ act'.row.ts < cur) => err'
      /\ err' => (FinalStore' = FinalStore /\ imported' = imported /\ skipped' = skipped) ]_vars

(* what was written is never rewritten, and blocks of an interface are written in time order *)
WrittenStable ==
  [][ /\ \A b \in DOMAIN written : b \in DOMAIN written' /\ written'[b] = written[b]
      /\ \A b \in DOMAIN written' \ DOMAIN written :
           \A w \in DOMAIN written : w[1] = b[1] => w[2] < b[2] ]_vars

(* skipped rows leave no trace *)
SkipInvisible == [][ act'.name = "Skip" => FinalStore' = FinalStore /\ cur' = cur ]_vars
=============================================================================
