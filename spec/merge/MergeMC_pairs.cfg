SPECIFICATION Spec
CONSTANTS
  Ifaces = {"a"}
  Days = {1}
  Slots = {1, 2, 3, 4, 5, 6, 7}
  FirstSlot = 1
  LastSlot = 7
  NoIface = "zz"
  MaxBlocks = 3
  GridPos <- MCGridPos
  SrcDBs <- PairSrc
  DstDBs <- PairDst
  Selections <- PairSel
INVARIANTS TypeOK Idempotent CountsOK
PROPERTIES SourceNeverModified DryRunChangesNothing DestinationWinsByDefault OnlySelectedSourceDays SourceBlocksArrive OverwritePrefersSource
CHECK_DEADLOCK FALSE
