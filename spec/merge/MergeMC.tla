------------------------------ MODULE MergeMC ------------------------------
(* bounded exhaustive exploration of the documented merge rule *)
EXTENDS Merge
CONSTANT MaxBlocks

MCGridPos(k) == IF k <= 2 THEN 0 ELSE k - 2

Shapes == {S \in SUBSET Slots : Cardinality(S) <= MaxBlocks}
DaysOf(o) == {[t \in S |-> o] : S \in Shapes}

\* configuration "pairs": one interface, one day, every (source day, destination day) pair
PairSrc == [Cells -> DaysOf("S")]
PairDst == [Cells -> DaysOf("D")]
PairSel == {{}, {"a"}, {NoIface}}

\* configuration "grid": two interfaces x two days over representative day shapes
GridShapes == {{}, {1}, {1, 3}, {2, 3}}
GridDays(o) == {[t \in S |-> o] : S \in GridShapes}
GridSrc == [Cells -> GridDays("S")]
GridDst == [Cells -> GridDays("D")]
GridSel == {{}, {"a"}, {"a", "b"}, {"b"}, {NoIface}, {"a", NoIface}}
=============================================================================
