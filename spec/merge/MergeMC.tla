------------------------------ MODULE MergeMC ------------------------------
(* bounded exhaustive exploration of the documented merge rule *)
EXTENDS Merge
CONSTANT MaxBlocks

MCGridPos(k) == IF k <= 2 THEN 0 ELSE k - 2

Shapes == {S \in SUBSET Slots : Cardinality(S) <= MaxBlocks}
DaysOf(o) == {[t \in S |-> o] : S \in Shapes}

\* configuration "pairs": one interface, one day, every (source day, destination day) pair
PairSrc == [Cells -> DaysOf("S")]
PairDst == [Cells -> DaysOf("D")]
PairSel == {{}, {"a"}, {NoIface}}
GenPairSel == {{}}

\* configuration "grid": two interfaces x two days over representative day shapes per cell
Fn(S, o) == [t \in S |-> o]
GridCell(c, o) ==
  IF c = <<"a", 1>> THEN {Fn(S, o) : S \in {{}, {1}, {1, 3}, {2, 3}}}
  ELSE IF c = <<"a", 2>> THEN {Fn(S, o) : S \in {{}, {1, 3}}}
  ELSE IF c = <<"b", 1>> THEN {Fn(S, o) : S \in {{}, {2}, {1, 3}}}
  ELSE {Fn(S, o) : S \in (IF o = "S" THEN {{}} ELSE {{}, {3}})}
GridSrc == {f \in [Cells -> UNION {GridCell(c, "S") : c \in Cells}] : \A c \in Cells : f[c] \in GridCell(c, "S")}
GridDst == {f \in [Cells -> UNION {GridCell(c, "D") : c \in Cells}] : \A c \in Cells : f[c] \in GridCell(c, "D")}
\* smaller grid for the quick tier
GridCellQ(c, o) ==
  IF c = <<"a", 1>> THEN {Fn(S, o) : S \in (IF o = "S" THEN {{}, {1}, {1, 3}, {2, 3}} ELSE {{}, {1}, {1, 3}})}
  ELSE IF c = <<"a", 2>> THEN {Fn(S, o) : S \in {{}, {1, 3}}}
  ELSE IF c = <<"b", 1>> THEN {Fn(S, o) : S \in (IF o = "S" THEN {{2}, {1, 3}} ELSE {{}, {1, 3}})}
  ELSE {Fn(S, o) : S \in (IF o = "S" THEN {{}} ELSE {{3}})}
GridSrcQ == {f \in [Cells -> UNION {GridCellQ(c, "S") : c \in Cells}] : \A c \in Cells : f[c] \in GridCellQ(c, "S")}
GridDstQ == {f \in [Cells -> UNION {GridCellQ(c, "D") : c \in Cells}] : \A c \in Cells : f[c] \in GridCellQ(c, "D")}
GenGridSel == {{}, {"a"}, {"a", "b"}, {NoIface}}
GridSel == {{}, {"a"}, {"a", "b"}, {"b"}, {NoIface}, {"a", NoIface}}
=============================================================================
