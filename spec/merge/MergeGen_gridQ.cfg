SPECIFICATION GenSpec
CONSTANTS
  Ifaces = {"a", "b"}
  Days = {1, 2}
  Slots = {1, 2, 3}
  FirstSlot = 1
  LastSlot = 3
  NoIface = "zz"
  MaxBlocks = 2
  GridPos <- MCGridPos
  SrcDBs <- GridSrcQ
  DstDBs <- GridDstQ
  Selections <- GenGridSel
CHECK_DEADLOCK FALSE
