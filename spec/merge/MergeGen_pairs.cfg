SPECIFICATION GenSpec
CONSTANTS
  Ifaces = {"a"}
  Days = {1}
  Slots = {1, 3, 4, 5, 6, 7}
  FirstSlot = 1
  LastSlot = 7
  NoIface = "zz"
  MaxBlocks = 3
  GridPos <- MCGridPos
  SrcDBs <- PairSrc
  DstDBs <- PairDst
  Selections <- GenPairSel
CHECK_DEADLOCK FALSE
