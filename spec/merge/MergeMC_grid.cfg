SPECIFICATION Spec
CONSTANTS
  Ifaces = {"a", "b"}
  Days = {1, 2}
  Slots = {1, 2, 3}
  FirstSlot = 1
  LastSlot = 3
  NoIface = "zz"
  MaxBlocks = 2
  GridPos <- MCGridPos
  SrcDBs <- GridSrc
  DstDBs <- GridDst
  Selections <- GridSel
INVARIANTS TypeOK Idempotent CountsOK
PROPERTIES SourceNeverModified DryRunChangesNothing DestinationWinsByDefault OnlySelectedSourceDays SourceBlocksArrive OverwritePrefersSource
CHECK_DEADLOCK FALSE
