------------------------------ MODULE MergeGen ------------------------------
(***************************************************************************)
(* Case generator for forward replay (spec -> code): every initial pair of *)
(* databases x option set, followed by the SAME merge executed twice       *)
(* (idempotence).  One JSON object per case: the initial databases, the    *)
(* options and, per merge, the destination contents and MergeSummary the   *)
(* documented rule predicts, plus labels for the case descriptor (plan and *)
(* classification of every affected day, and whether the as-built          *)
(* gap-inferred completeness test would classify a day differently).       *)
(***************************************************************************)
EXTENDS MergeMC, Json
VARIABLES hist, done

PlanRows(S, D, sel, ow) ==
  {[iface |-> c[1], day |-> c[2], plan |-> Plan(S[c], D[c], ow),
    src |-> IF Complete(S[c]) THEN "complete" ELSE "partial",
    dst |-> IF ~Present(D[c]) THEN "missing" ELSE IF Complete(D[c]) THEN "complete" ELSE "partial",
    conflicts |-> Conflicts(S[c], D[c]),
    gap |-> GapOnly(S[c]) \/ GapOnly(D[c])]
   : c \in {x \in Cells : ~UnknownSel(S, sel) /\ x[1] \in Effective(S, sel) /\ Present(S[x])}}

GenInit == Init /\ hist = <<>> /\ done = FALSE

Step(sel, ow, dry) ==
  /\ MergeDB(sel, ow, dry)
  /\ hist' = Append(hist, [pre |-> DayRows(dst), exp |-> Obs', plans |-> PlanRows(src, dst, sel, ow)])

GenNext ==
  \/ /\ ~done /\ hist = <<>>
     /\ \E sel \in Selections, ow \in BOOLEAN, dry \in BOOLEAN : Step(sel, ow, dry)
     /\ UNCHANGED done
  \/ /\ ~done /\ Len(hist) = 1
     /\ Step(act.sel, act.ow, act.dry)
     /\ PrintT(<<"TRACE", ToJson([sel |-> act.sel, ow |-> act.ow, dry |-> act.dry, lastSlot |-> LastSlot, src |-> DayRows(src),
                                  steps |-> hist'])>>)
     /\ done' = TRUE
GenSpec == GenInit /\ [][GenNext]_<<vars, hist, done>>
=============================================================================
