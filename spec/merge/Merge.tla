------------------------------- MODULE Merge -------------------------------
(***************************************************************************)
(* `gpdb merge SOURCE DESTINATION` (pkg/goDB.MergeDatabases) as the        *)
(* documentation (cmd/gpdb/README.md, `gpdb merge --help`) and property    *)
(* C24 describe it:                                                        *)
(*                                                                         *)
(*   per selected interface and per day present in the source              *)
(*    - a COMPLETE source day is copied when the destination lacks the day *)
(*      or --overwrite is given;                                           *)
(*    - complete source vs complete destination without --overwrite: the   *)
(*      destination day is kept;                                           *)
(*    - otherwise the day is rebuilt block by block: union of the blocks   *)
(*      of both sides, a block timestamp present on both sides is a        *)
(*      conflict which the destination wins (the source with --overwrite); *)
(*   the source is never modified; --dry-run changes nothing; interfaces   *)
(*   default to all interfaces found in the source; the summary counts     *)
(*   the days copied / rebuilt / skipped and the conflicts resolved.       *)
(*                                                                         *)
(* A day is a function  slot -> origin of the block payload ("S" written   *)
(* by the source's writer, "D" by the destination's); the empty function   *)
(* is "day missing" (a day directory exists from its first block on).      *)
(* Slots are representative block timestamps of a day: FirstSlot lies      *)
(* within the completeness tolerance of the day start, LastSlot is the     *)
(* last block interval of the day (its end is the day end); an optional    *)
(* slot between FirstSlot and the rest is a block just outside the         *)
(* tolerance after the day start.                                          *)
(* "Complete" = full-day coverage within the tolerance: the day has a      *)
(* block within tolerance of the day start and its last block interval     *)
(* ends within tolerance of the day end.                                   *)
(***************************************************************************)
EXTENDS Naturals, Integers, FiniteSets, Sequences, TLC

CONSTANTS Ifaces,     \* interfaces that may exist in source / destination
          Days,       \* day identities
          Slots,      \* block slots of a day (naturals, increasing in time)
          FirstSlot,  \* the slot within tolerance of the day start
          LastSlot,   \* the slot whose interval ends at the day end
          NoIface     \* an interface name that exists nowhere

VARIABLES src, dst,   \* the two databases:  <<iface, day>> -> (slot -> origin)
          sum,        \* the MergeSummary of the last merge
          act

vars == <<src, dst, sum, act>>

Empty == <<>>
Cells == Ifaces \X Days
Present(d) == d # Empty

Complete(d) == FirstSlot \in DOMAIN d /\ LastSlot \in DOMAIN d

(* ---- the documented per-day plan ---- *)
Plan(s, d, ow) ==
  IF ~Present(s) THEN "none"
  ELSE IF Complete(s) /\ (~Present(d) \/ ow) THEN "copy"
  ELSE IF Complete(s) /\ Complete(d) THEN "skip"
  ELSE "rebuild"

Rebuild(s, d, ow) == [t \in DOMAIN s \cup DOMAIN d |->
                        IF t \in DOMAIN s /\ (t \notin DOMAIN d \/ ow) THEN s[t] ELSE d[t]]

ApplyDay(s, d, ow) ==
  LET p == Plan(s, d, ow) IN
  IF p = "copy" THEN s ELSE IF p = "rebuild" THEN Rebuild(s, d, ow) ELSE d

Conflicts(s, d) == Cardinality(DOMAIN s \cap DOMAIN d)

(* ---- the whole merge ---- *)
IfacesOf(db) == {i \in Ifaces : \E y \in Days : Present(db[<<i, y>>])}
Effective(S, sel) == IF sel = {} THEN IfacesOf(S) ELSE sel
UnknownSel(S, sel) == ~(sel \subseteq IfacesOf(S))

ApplyDB(S, D, sel, ow) ==
  IF UnknownSel(S, sel) THEN D
  ELSE [c \in Cells |-> IF c[1] \in Effective(S, sel) THEN ApplyDay(S[c], D[c], ow) ELSE D[c]]

RECURSIVE SumOver(_, _)
SumOver(f, C) == IF C = {} THEN 0 ELSE LET c == CHOOSE c \in C : TRUE IN f[c] + SumOver(f, C \ {c})

Summary(S, D, sel, ow, dry) ==
  LET eff == Effective(S, sel)
      cells == {c \in Cells : c[1] \in eff}
      with(p) == {c \in cells : Plan(S[c], D[c], ow) = p}
      confl == SumOver([c \in Cells |-> Conflicts(S[c], D[c])], with("rebuild"))
  IN IF UnknownSel(S, sel)
     THEN [unknown |-> TRUE, dry |-> dry, ifaces |-> 0, copied |-> 0, rebuilt |-> 0, skipped |-> 0,
           byDst |-> 0, bySrc |-> 0]
     ELSE [unknown |-> FALSE, dry |-> dry,
           ifaces |-> Cardinality(eff \cap IfacesOf(S)),
           copied |-> Cardinality(with("copy")),
           rebuilt |-> Cardinality(with("rebuild")),
           skipped |-> Cardinality(with("skip")),
           \* conflicts are resolved only when a rebuild is carried out (-1: not stated for a dry run)
           byDst |-> IF dry THEN -1 ELSE IF ow THEN 0 ELSE confl,
           bySrc |-> IF dry THEN -1 ELSE IF ow THEN confl ELSE 0]

NoSum == [unknown |-> FALSE, dry |-> FALSE, ifaces |-> 0, copied |-> 0, rebuilt |-> 0, skipped |-> 0, byDst |-> 0, bySrc |-> 0]

(* the databases the exploration starts from (model configurations substitute these) *)
SrcDBs == [Cells -> {Empty}]
DstDBs == [Cells -> {Empty}]
Selections == {{}}

Init == /\ src \in SrcDBs /\ dst \in DstDBs
        /\ sum = NoSum
        /\ act = [name |-> "Init"]

MergeDB(sel, ow, dry) ==
  /\ dst' = IF dry THEN dst ELSE ApplyDB(src, dst, sel, ow)
  /\ sum' = Summary(src, dst, sel, ow, dry)
  /\ UNCHANGED src
  /\ act' = [name |-> "Merge", sel |-> sel, ow |-> ow, dry |-> dry]

Next == \E sel \in Selections, ow \in BOOLEAN, dry \in BOOLEAN : MergeDB(sel, ow, dry)

Spec == Init /\ [][Next]_vars

(***************************************************************************)
(* Observables                                                             *)
(***************************************************************************)
DayRows(db) == {[iface |-> c[1], day |-> c[2],
                 blocks |-> {[slot |-> t, p |-> db[c][t]] : t \in DOMAIN db[c]}] : c \in {x \in Cells : Present(db[x])}}
Obs == [dst |-> DayRows(dst), sum |-> sum]

(***************************************************************************)
(* The as-built completeness test infers the block duration from the last  *)
(* two block timestamps (300 s for a single block).  The harness places    *)
(* FirstSlot at the day start (+ up to the tolerance), a Beyond slot at    *)
(* tolerance + 1 s, the slots in between every 4 hours (04:00 ... 16:00)   *)
(* and LastSlot at 23:55, the last 5-minute block of a day; GridPos gives  *)
(* the position in 4-hour units.  The as-built test then accepts a day     *)
(* whose last block lies hours before the day end when the gap in front of *)
(* that block is at least as long as the time remaining to the day end.    *)
(* Named deviation predicate, used only to LABEL                           *)
(* cases (never for expectations).                                         *)
(***************************************************************************)
CONSTANT GridPos(_)       \* slot -> number of block lengths after day start (0 for the slots at the start)
Max(S) == CHOOSE x \in S : \A y \in S : y <= x
GapComplete(d) ==
  /\ FirstSlot \in DOMAIN d /\ Cardinality(DOMAIN d) >= 2
  /\ LET l == Max(DOMAIN d)
         p == Max(DOMAIN d \ {l})
     IN 2 * GridPos(l) - GridPos(p) >= GridPos(LastSlot) + 1
GapOnly(d) == GapComplete(d) /\ ~Complete(d)

(***************************************************************************)
(* Properties of the documented rule (checked exhaustively by TLC).        *)
(***************************************************************************)
TypeOK == /\ DOMAIN src = Cells /\ DOMAIN dst = Cells
          /\ \A c \in Cells : DOMAIN src[c] \subseteq Slots /\ DOMAIN dst[c] \subseteq Slots

SourceNeverModified == [][src' = src]_vars
DryRunChangesNothing == [][act'.dry => dst' = dst]_vars

(* merging the same source again changes nothing further (for every option set, from every reachable state) *)
Idempotent ==
  \A sel \in Selections, ow \in BOOLEAN :
    LET once == ApplyDB(src, dst, sel, ow) IN ApplyDB(src, once, sel, ow) = once

(* without --overwrite no destination block is lost or altered *)
DestinationWinsByDefault ==
  [][~act'.ow => \A c \in Cells : \A t \in DOMAIN dst[c] : t \in DOMAIN dst'[c] /\ dst'[c][t] = dst[c][t]]_vars

(* days of interfaces that are not selected, and days the source does not have, are untouched *)
OnlySelectedSourceDays ==
  [][\A c \in Cells : (c[1] \notin Effective(src, act'.sel) \/ ~Present(src[c]) \/ UnknownSel(src, act'.sel))
                        => dst'[c] = dst[c]]_vars

(* after a real merge every source block of a selected day is in the destination, unless the day was kept *)
SourceBlocksArrive ==
  [][(~act'.dry /\ ~UnknownSel(src, act'.sel)) =>
       \A c \in Cells : (c[1] \in Effective(src, act'.sel) /\ Plan(src[c], dst[c], act'.ow) \in {"copy", "rebuild"})
                          => DOMAIN src[c] \subseteq DOMAIN dst'[c]]_vars

(* with --overwrite a selected day holds the source payload wherever the source has a block *)
OverwritePrefersSource ==
  [][(~act'.dry /\ act'.ow /\ ~UnknownSel(src, act'.sel)) =>
       \A c \in Cells : c[1] \in Effective(src, act'.sel) => \A t \in DOMAIN src[c] : dst'[c][t] = src[c][t]]_vars

(* the counts account for every source day of the effective interfaces *)
CountsOK ==
  ~sum.unknown =>
    LET eff == Effective(src, act.sel) IN
    act.name = "Merge" =>
      sum.copied + sum.rebuilt + sum.skipped = Cardinality({c \in Cells : c[1] \in eff /\ Present(src[c])})
=============================================================================
