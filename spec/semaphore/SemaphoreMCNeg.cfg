SPECIFICATION Spec
CONSTANTS
  N = 2
  NQ = 3
  LeakOnFail = TRUE
INVARIANTS TypeOK LimitOK NoLeak
CHECK_DEADLOCK FALSE
