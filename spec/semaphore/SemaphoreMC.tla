---------------------------- MODULE SemaphoreMC ----------------------------
(* Bounded exhaustive check of the design: every interleaving of a burst of NQ queries. *)
EXTENDS Semaphore
=============================================================================
