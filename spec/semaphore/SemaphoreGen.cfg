SPECIFICATION GenSpec
CONSTANTS
  N = 1
  NQ = 3
  LeakOnFail = FALSE
  Depth = 40
CHECK_DEADLOCK FALSE
