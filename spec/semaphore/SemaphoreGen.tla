---------------------------- MODULE SemaphoreGen ----------------------------
(***************************************************************************)
(* Behaviour generator for the forward replay (spec -> code) of Semaphore. *)
(*                                                                         *)
(* The harness is the only scheduler of the replay: it issues queries,     *)
(* lets time pass, cancels contexts and opens the gate a query is held at. *)
(* Those are the EXTERNAL actions (PreFail, TryAcquire, Timeout, Cancel,   *)
(* Release of a query that executes normally or was cancelled).  What the  *)
(* code does by itself in between is INTERNAL: a query with failing        *)
(* arguments fails as soon as it executes (Fail) and returns (Release),    *)
(* a freed slot is handed to the longest waiting query (Acquire of the     *)
(* head of waitq -- Go channels serve blocked senders in order).  Internal *)
(* actions are urgent: external actions are taken in stable states only,   *)
(* and the implementation is compared with Obs in stable states.           *)
(* Queries are issued in the order 1, 2, ... (they are interchangeable     *)
(* before they are issued).                                                *)
(*                                                                         *)
(* Every behaviour runs until all NQ queries have ended and is printed     *)
(* once as JSON [n, nq, steps: list of [act, ext, stable, exp]].           *)
(***************************************************************************)
EXTENDS Semaphore, Json
CONSTANT Depth        \* upper bound on the number of steps (4 * NQ is never reached)
VARIABLES hist, done
gvars == <<vars, hist, done>>

MinOf(S) == CHOOSE x \in S : \A y \in S : x <= y

FailSet == {q \in Queries : pc[q] = "running" /\ kind[q] = "fail"}
RelSet  == {q \in Queries : pc[q] = "failed"}
InternalEnabled == FailSet # {} \/ RelSet # {} \/ (free > 0 /\ waitq # <<>>)
Internal == IF FailSet # {} THEN Fail(MinOf(FailSet))
            ELSE IF RelSet # {} THEN Release(MinOf(RelSet))
            ELSE Acquire(Head(waitq))

Idle == {q \in Queries : pc[q] = "idle"}
External ==
  \/ /\ Idle # {}
     /\ LET q == MinOf(Idle) IN PreFail(q) \/ \E k \in {"ok", "fail"} : TryAcquire(q, k)
  \/ \E q \in Queries : \/ Timeout(q)
                        \/ Cancel(q)
                        \/ (pc[q] \in {"running", "cancelled"} /\ Release(q))

AllEnded == \A q \in Queries : Terminal(q)

GenInit == Init /\ hist = <<>> /\ done = FALSE
GenNext ==
  \/ /\ ~done /\ ~AllEnded /\ Len(hist) < Depth
     /\ IF InternalEnabled THEN Internal ELSE External
     /\ hist' = Append(hist, [act |-> act', ext |-> ~InternalEnabled, stable |-> ~InternalEnabled', exp |-> Obs'])
     /\ UNCHANGED done
  \/ /\ ~done /\ (AllEnded \/ Len(hist) = Depth)
     /\ PrintT(<<"TRACE", ToJson([n |-> N, nq |-> NQ, complete |-> AllEnded, steps |-> hist])>>)
     /\ done' = TRUE /\ hist' = <<>>
     /\ pc' = [q \in Queries |-> "idle"] /\ kind' = [q \in Queries |-> "none"] /\ free' = N /\ waitq' = <<>>
     /\ st' = [q \in Queries |-> "none"] /\ cx' = [q \in Queries |-> FALSE]
     /\ act' = [name |-> "Done", q |-> 0, k |-> "none"]
GenSpec == GenInit /\ [][GenNext]_gvars
=============================================================================
