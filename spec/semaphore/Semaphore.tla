----------------------------- MODULE Semaphore -----------------------------
(***************************************************************************)
(* The query concurrency limit of goProbe (property C31).                  *)
(*                                                                         *)
(* Both query runners (pkg/goDB/engine/query.go and                        *)
(* cmd/global-query/pkg/distributed/query.go) take a semaphore of N slots  *)
(* (WithMaxConcurrent).  A query                                           *)
(*   - prepares its statement; a query whose arguments cannot be prepared  *)
(*     (unparsable condition ...) fails before it comes near the           *)
(*     semaphore (PreFail),                                                *)
(*   - tries to acquire a slot for up to one keep-alive interval           *)
(*     (TryAcquire; Acquire when a slot is handed to a waiting query;      *)
(*     Timeout when none became free: answered "too many requests"),       *)
(*   - executes inside its slot and ends normally, fails (non-existing     *)
(*     interface, unresolvable host list, query safeguard ...) or has its  *)
(*     context cancelled by the client (Fail, Cancel),                     *)
(*   - gives the slot back when it returns, on EVERY path (Release -- the  *)
(*     deferred release of the code).                                      *)
(*                                                                         *)
(* The module is the general design: any waiting query may get a freed     *)
(* slot, a newcomer may take a slot while others wait.  SemaphoreGen       *)
(* restricts the schedules to the ones a sequential harness can enforce.   *)
(***************************************************************************)
EXTENDS Naturals, Sequences, FiniteSets, TLC

CONSTANTS N,          \* configured maximum number of concurrent queries (>= 1)
          NQ,         \* number of queries of the burst; queries are 1..NQ
          LeakOnFail  \* FALSE: the design.  TRUE: the release is skipped on the failure path
                      \* (used by a negative TLC run only, the invariants must catch it)

Queries == 1..NQ
Kinds   == {"ok", "fail", "prefail"}   \* what the query's arguments make it do once it runs

VARIABLES pc,     \* query -> "idle" | "waiting" | "running" | "failed" | "cancelled" | "done" | "rejected"
          kind,   \* query -> kind chosen when the query is issued ("none" before)
          free,   \* free slots
          waitq,  \* the waiting queries in order of arrival
          st,     \* query -> answer: "none" | "ok" | "error" | "toomany" | "any" (cancelled: not judged)
          cx,     \* query -> its context was cancelled
          act     \* label and arguments of the last action
vars == <<pc, kind, free, waitq, st, cx, act>>

Holding(q) == pc[q] \in {"running", "failed", "cancelled"}
Held       == {q \in Queries : Holding(q)}
Terminal(q) == pc[q] \in {"done", "rejected"}
Quiescent  == \A q \in Queries : pc[q] \in {"idle", "done", "rejected"}

Without(s, q) == SelectSeq(s, LAMBDA x : x # q)
InSeq(s, q)   == \E i \in 1..Len(s) : s[i] = q

Init == /\ pc = [q \in Queries |-> "idle"]
        /\ kind = [q \in Queries |-> "none"]
        /\ free = N
        /\ waitq = <<>>
        /\ st = [q \in Queries |-> "none"]
        /\ cx = [q \in Queries |-> FALSE]
        /\ act = [name |-> "Init", q |-> 0, k |-> "none"]

\* args.Prepare() fails: the query is answered with an error and never touches the semaphore
PreFail(q) ==
  /\ pc[q] = "idle"
  /\ pc' = [pc EXCEPT ![q] = "done"]
  /\ kind' = [kind EXCEPT ![q] = "prefail"]
  /\ st' = [st EXCEPT ![q] = "error"]
  /\ UNCHANGED <<free, waitq, cx>>
  /\ act' = [name |-> "PreFail", q |-> q, k |-> "prefail"]

\* checkSemaphore: sem.TryAddFor(keep-alive) -- a free slot is taken at once, otherwise the query waits
TryAcquire(q, k) ==
  /\ pc[q] = "idle" /\ k \in {"ok", "fail"}
  /\ kind' = [kind EXCEPT ![q] = k]
  /\ IF free > 0
       THEN /\ pc' = [pc EXCEPT ![q] = "running"]
            /\ free' = free - 1
            /\ UNCHANGED waitq
       ELSE /\ pc' = [pc EXCEPT ![q] = "waiting"]
            /\ waitq' = Append(waitq, q)
            /\ UNCHANGED free
  /\ UNCHANGED <<st, cx>>
  /\ act' = [name |-> "TryAcquire", q |-> q, k |-> k]

\* a slot became free within the timeout: the waiting query takes it
\* (a query whose context was cancelled meanwhile still takes the slot: TryAddFor does not look at it)
Acquire(q) ==
  /\ pc[q] = "waiting" /\ free > 0
  /\ pc' = [pc EXCEPT ![q] = IF cx[q] THEN "cancelled" ELSE "running"]
  /\ free' = free - 1
  /\ waitq' = Without(waitq, q)
  /\ UNCHANGED <<kind, st, cx>>
  /\ act' = [name |-> "Acquire", q |-> q, k |-> kind[q]]

\* no slot became free for one keep-alive interval: StatusTooManyRequests
Timeout(q) ==
  /\ pc[q] = "waiting" /\ free = 0
  /\ pc' = [pc EXCEPT ![q] = "rejected"]
  /\ st' = [st EXCEPT ![q] = "toomany"]
  /\ waitq' = Without(waitq, q)
  /\ UNCHANGED <<kind, free, cx>>
  /\ act' = [name |-> "Timeout", q |-> q, k |-> kind[q]]

\* the executing query hits an error (still inside its slot)
Fail(q) ==
  /\ pc[q] = "running" /\ kind[q] = "fail"
  /\ pc' = [pc EXCEPT ![q] = "failed"]
  /\ st' = [st EXCEPT ![q] = "error"]
  /\ UNCHANGED <<kind, free, waitq, cx>>
  /\ act' = [name |-> "Fail", q |-> q, k |-> kind[q]]

\* the client cancels the query's context while the query waits or executes
Cancel(q) ==
  /\ pc[q] \in {"waiting", "running"} /\ kind[q] = "ok" /\ ~cx[q]
  /\ cx' = [cx EXCEPT ![q] = TRUE]
  /\ pc' = [pc EXCEPT ![q] = IF pc[q] = "running" THEN "cancelled" ELSE pc[q]]
  /\ UNCHANGED <<kind, free, waitq, st>>
  /\ act' = [name |-> "Cancel", q |-> q, k |-> kind[q]]

\* the query returns: `defer smeDone()` gives the slot back -- on every path
Release(q) ==
  /\ \/ pc[q] = "running" /\ kind[q] = "ok"
     \/ pc[q] \in {"failed", "cancelled"}
  /\ pc' = [pc EXCEPT ![q] = "done"]
  /\ st' = [st EXCEPT ![q] = CASE pc[q] = "running"   -> "ok"
                               [] pc[q] = "failed"    -> "error"
                               [] OTHER               -> "any"]
  /\ free' = IF LeakOnFail /\ pc[q] = "failed" THEN free ELSE free + 1
  /\ UNCHANGED <<kind, waitq, cx>>
  /\ act' = [name |-> "Release", q |-> q, k |-> kind[q]]

Next == \E q \in Queries :
          \/ PreFail(q)
          \/ \E k \in {"ok", "fail"} : TryAcquire(q, k)
          \/ Acquire(q) \/ Timeout(q) \/ Fail(q) \/ Cancel(q) \/ Release(q)

Spec == Init /\ [][Next]_vars

(***************************************************************************)
(* What is compared with the implementation after every stable step: the   *)
(* number of held slots (len(sem) of the semaphore channel the harness     *)
(* owns) and, per query, where it is and what it answered.                 *)
(***************************************************************************)
Obs == [held |-> N - free, pc |-> pc, st |-> st]

(***************************************************************************)
(* Property C31.                                                           *)
(***************************************************************************)
TypeOK == /\ pc \in [Queries -> {"idle", "waiting", "running", "failed", "cancelled", "done", "rejected"}]
          /\ free \in 0..N
          /\ \A q \in Queries : InSeq(waitq, q) <=> pc[q] = "waiting"

\* never more than N queries execute at once, and every taken slot belongs to exactly one of them
LimitOK == Cardinality(Held) <= N
SlotsOK == free + Cardinality(Held) = N

\* a query beyond the limit is answered "too many requests" -- and only such a query is
RejectedOK == \A q \in Queries : (pc[q] = "rejected") <=> (st[q] = "toomany")

\* every finished, failed or cancelled query has released its slot
NoLeak == Quiescent => free = N

\* a query is turned away only while all slots are taken
RejectOnlyWhenFull == [][act'.name = "Timeout" => free = 0]_vars

\* a query starts executing only by taking a free slot
AcquireTakesSlot ==
  [][\A q \in Queries : (~Holding(q) /\ Holding(q)') => (free > 0 /\ free' = free - 1)]_vars
=============================================================================
