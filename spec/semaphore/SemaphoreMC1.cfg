SPECIFICATION Spec
CONSTANTS
  N = 1
  NQ = 4
  LeakOnFail = FALSE
INVARIANTS TypeOK LimitOK SlotsOK RejectedOK NoLeak
PROPERTIES RejectOnlyWhenFull AcquireTakesSlot
CHECK_DEADLOCK FALSE
