SPECIFICATION GenSpec
CONSTANTS
  Pool <- PoolFlat
  MaxHosts = 4
  AsBuilt = {}
  Depth = 8
CHECK_DEADLOCK FALSE
