SPECIFICATION Spec
CONSTANTS
  Pool <- PoolTime
  MaxHosts = 2
  AsBuilt = {"stats"}
INVARIANTS FinalIsMerged
CHECK_DEADLOCK FALSE
