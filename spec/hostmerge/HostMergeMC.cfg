SPECIFICATION Spec
CONSTANTS
  Pool <- PoolTime
  MaxHosts = 4
  AsBuilt = {}
INVARIANTS TypeOK FinalIsMerged PartialIsMerged ErrorsReported
CHECK_DEADLOCK FALSE
