SPECIFICATION GenSpec
CONSTANTS
  Pool <- PoolTime
  MaxHosts = 3
  AsBuilt = {}
  Depth = 8
CHECK_DEADLOCK FALSE
