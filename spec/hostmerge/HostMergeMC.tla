---------------------------- MODULE HostMergeMC ----------------------------
(***************************************************************************)
(* Pools of host results for the bounded runs of HostMerge.                *)
(*                                                                         *)
(* PoolTime: a query with time labels ("time,iface,sip").  A, A2 and A3    *)
(* are three ways to reach the same machine hA (the same host label and    *)
(* host id): A2 repeats a row of A in the same zone (overlapping row),     *)
(* A3 reports from another time zone (equal-instant rows).  B is another   *)
(* machine whose totals and hits exceed its rows (row limit).  E and F     *)
(* fail with different errors, M and N have no rows (M covers the whole    *)
(* query range and knows an interface nobody else has).                    *)
(* PoolFlat: the same without time labels ("iface,sip").                   *)
(* Several hosts carry a row with the counters <<6, 6, 6, 6>> under        *)
(* different keys: rows that tie under every sort key and direction.       *)
(***************************************************************************)
EXTENDS HostMerge

K(ts, iface, host, hid, sip) == [ts |-> ts, iface |-> iface, host |-> host, hid |-> hid, sip |-> sip]
R(k, zone, c) == [k |-> k, zone |-> zone, c |-> c]
H(name, err, status, rows, tot, stats, hits, ifaces, first, last) ==
  [name |-> name, err |-> err, status |-> status, rows |-> rows, tot |-> tot, stats |-> stats,
   hits |-> hits, ifaces |-> ifaces, first |-> first, last |-> last]

PoolTime == <<
  H("A", "", "ok",
    {R(K(1, "eth0", "hA", "1", 1), "utc", <<10, 20, 1, 2>>), R(K(2, "eth0", "hA", "1", 1), "utc", <<7, 0, 3, 0>>),
     R(K(2, "eth0", "hA", "1", 3), "utc", <<6, 6, 6, 6>>)},
    <<23, 26, 10, 8>>, <<1000, 4000, 7, 0, 2, 3>>, 3, {"eth0"}, 100, 200),
  H("B", "", "ok",
    {R(K(1, "eth1", "hB", "2", 1), "+02", <<100, 200, 10, 20>>), R(K(3, "eth0", "hB", "2", 2), "+02", <<1, 2, 3, 4>>),
     R(K(2, "eth1", "hB", "2", 3), "+02", <<6, 6, 6, 6>>)},
    <<500, 600, 70, 80>>, <<500, 900, 3, 1, 1, 1>>, 5, {"eth0", "eth1"}, 50, 150),
  H("A2", "", "ok",
    {R(K(1, "eth0", "hA", "1", 1), "utc", <<1, 1, 1, 1>>), R(K(3, "eth0", "hA", "1", 2), "utc", <<4, 4, 2, 2>>),
     R(K(3, "eth0", "hA", "1", 3), "utc", <<6, 6, 6, 6>>)},
    <<11, 11, 9, 9>>, <<64, 128, 2, 0, 1, 1>>, 3, {"eth0"}, 120, 300),
  H("A3", "", "ok",
    {R(K(1, "eth0", "hA", "1", 1), "+02", <<5, 0, 1, 0>>), R(K(2, "eth0", "hA", "1", 2), "+02", <<9, 9, 9, 9>>)},
    <<14, 9, 10, 9>>, <<32, 32, 1, 0, 1, 1>>, 2, {"eth0"}, 90, 210),
  H("E", "connection refused", "ok", {}, Zero4, Zero6, 0, {}, 0, 0),
  H("F", "context deadline exceeded", "ok", {}, Zero4, Zero6, 0, {}, 0, 0),
  H("M", "", "empty", {}, Zero4, <<0, 0, 0, 0, 1, 0>>, 0, {"eth2"}, 10, 400),
  H("N", "", "empty", {}, Zero4, Zero6, 0, {"eth0"}, 100, 200)
>>

PoolFlat == <<
  H("A", "", "ok",
    {R(K(0, "eth0", "hA", "1", 1), "-", <<10, 20, 1, 2>>), R(K(0, "eth0", "hA", "1", 2), "-", <<7, 0, 3, 0>>),
     R(K(0, "eth0", "hA", "1", 4), "-", <<6, 6, 6, 6>>)},
    <<23, 26, 10, 8>>, <<1000, 4000, 7, 0, 2, 3>>, 3, {"eth0"}, 100, 200),
  H("B", "", "ok",
    {R(K(0, "eth1", "hB", "2", 1), "-", <<100, 200, 10, 20>>), R(K(0, "eth1", "hB", "2", 5), "-", <<6, 6, 6, 6>>)},
    <<500, 600, 70, 80>>, <<500, 900, 3, 1, 1, 1>>, 5, {"eth0", "eth1"}, 50, 150),
  H("A2", "", "ok",
    {R(K(0, "eth0", "hA", "1", 1), "-", <<1, 1, 1, 1>>), R(K(0, "eth0", "hA", "1", 3), "-", <<4, 4, 2, 2>>)},
    <<5, 5, 3, 3>>, <<64, 128, 2, 0, 1, 1>>, 2, {"eth0"}, 120, 300),
  H("E", "connection refused", "ok", {}, Zero4, Zero6, 0, {}, 0, 0),
  H("M", "", "empty", {}, Zero4, <<0, 0, 0, 0, 1, 0>>, 0, {"eth2"}, 10, 400)
>>
=============================================================================
