SPECIFICATION Spec
CONSTANTS
  Pool <- PoolTime
  MaxHosts = 2
  AsBuilt = {"range"}
INVARIANTS FinalIsMerged
CHECK_DEADLOCK FALSE
