SPECIFICATION Spec
CONSTANTS
  Pool <- PoolTime
  MaxHosts = 2
  AsBuilt = {"sticky"}
INVARIANTS FinalIsMerged
CHECK_DEADLOCK FALSE
