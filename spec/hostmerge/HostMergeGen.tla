---------------------------- MODULE HostMergeGen ----------------------------
(***************************************************************************)
(* Behaviour generator for the forward replay (spec -> code) of HostMerge: *)
(* every choice of 1..MaxHosts host results from the pool, every arrival   *)
(* order, with and without streaming.  A behaviour is printed once as      *)
(*   [stream, steps: list of [act, exp]]                                   *)
(* where exp is the ORDER-FREE merge of the results that have arrived      *)
(* (Merged(chosen \ pending); for the Finish step Merged(chosen)) -- the   *)
(* specification's definition, not the incremental computation, is the     *)
(* oracle the implementation is compared with.  The pool itself is printed *)
(* once (<<"INFO", pool>>) for the harness to build the host results from. *)
(***************************************************************************)
EXTENDS HostMergeMC, Json
CONSTANT Depth
VARIABLES hist, emitted
gvars == <<vars, hist, emitted>>

ASSUME PrintT(<<"INFO", ToJson([pool |-> Pool])>>)

GenInit == Init /\ hist = <<>> /\ emitted = FALSE
GenNext ==
  \/ /\ ~done /\ Len(hist) < Depth
     /\ Next
     /\ hist' = Append(hist, [act |-> act', exp |-> Merged(chosen \ pending')])
     /\ UNCHANGED emitted
  \/ /\ done /\ ~emitted
     /\ PrintT(<<"TRACE", ToJson([stream |-> stream, steps |-> hist])>>)
     /\ emitted' = TRUE
     /\ UNCHANGED <<vars, hist>>
GenSpec == GenInit /\ [][GenNext]_gvars
=============================================================================
