----------------------------- MODULE HostMerge -----------------------------
(***************************************************************************)
(* Property C15: the merged result of a distributed query does not depend  *)
(* on the order in which the per-host results arrive, and a streaming      *)
(* query ends with the same result as a query without streaming.           *)
(*                                                                         *)
(* The module follows cmd/global-query/pkg/distributed/query.go:           *)
(*   Arrive(h)  one iteration of aggregateResults = aggregateSingleResult  *)
(*              on the next result taken from the querier's channel (in    *)
(*              streaming mode followed by finalizeResult and the partial  *)
(*              result handed to the SSE sender),                          *)
(*   Finish     the channel is closed: finalizeResult, the Result returned *)
(*              by QueryRunner.Run / RunStreaming.                         *)
(*                                                                         *)
(* Merged(S) is the ORDER-FREE definition of what the statement demands:   *)
(* rows = union of the hosts' rows (counters of rows with the same labels  *)
(* and attributes added up; a time label is an instant, the zone it is     *)
(* presented in is not part of a row's identity), totals and statistics =  *)
(* sums, hits = sum of the hosts' hits minus the rows that were merged     *)
(* into another row, every failed host reported with its error, interfaces *)
(* = union, covered time range = union of the hosts' ranges.  The          *)
(* invariant FinalIsMerged says that the incremental algorithm ends with   *)
(* Merged(all results), for every arrival order, with and without          *)
(* streaming.                                                              *)
(*                                                                         *)
(* The rows of a result are a SEQUENCE; Merged(S) gives their set.  Their  *)
(* order is the subject of spec/results/Sorting.tla (C14): a function of   *)
(* the row set and the sort key / direction asked for.  For this property  *)
(* that means: all arrival orders of the same host results return the rows *)
(* in the same order - the forward replay executes every behaviour under   *)
(* seven sort variants (key x direction x ascending) and compares the      *)
(* returned sequences across the arrival orders of one multiset; the pools *)
(* contain rows that tie under every sort key.                             *)
(*                                                                         *)
(* AsBuilt is a set of switches that turn the incremental step into what   *)
(* the code was seen to do where that deviates from the statement; the     *)
(* property is checked with AsBuilt = {}, every switch is used by a        *)
(* negative TLC run that must violate FinalIsMerged (the invariant is not  *)
(* vacuous for that kind of defect):                                       *)
(*   "range"   Summary.First/Last are overwritten by the last arrival      *)
(*   "sticky"  streaming: a partial result without rows sets the status    *)
(*             "no rows", later partials with rows never set it back       *)
(*   "stats"   workload.Stats.Add adds BlocksProcessed twice and never     *)
(*             BytesLoaded                                                 *)
(*   "zone"    rows are keyed by the time.Time value: equal instants       *)
(*             presented in different zones are different rows             *)
(***************************************************************************)
EXTENDS Integers, Sequences, FiniteSets, FiniteSetsExt, TLC

CONSTANTS Pool,      \* sequence of candidate host results (see HostResult below)
          MaxHosts,  \* a query addresses between 1 and MaxHosts hosts
          AsBuilt    \* subset of {"range", "sticky", "stats", "zone"}

(***************************************************************************)
(* A host result (what the querier puts on the channel for one host):      *)
(*   name    the host as it was addressed (key of HostsStatuses)           *)
(*   err     "" or the error the query of this host ended with             *)
(*   status  the status the host reported for itself ("ok" / "empty")      *)
(*   rows    set of rows [k, zone, c]: k = [ts, iface, host, hid, sip]     *)
(*           (labels and attributes, ts = 0: no time label), zone the      *)
(*           presentation zone of the time label, c = <<br, bs, pr, ps>>   *)
(*   tot     the host's totals <<br, bs, pr, ps>>                          *)
(*   stats   <<bytes loaded, bytes decompressed, blocks processed,         *)
(*             blocks corrupted, directories processed, workloads>>        *)
(*   hits    the host's total number of hits (>= number of rows)           *)
(*   ifaces  set of interfaces the host queried                            *)
(*   first, last   the time range the host's data covers                   *)
(***************************************************************************)
Zero4 == <<0, 0, 0, 0>>
Zero6 == <<0, 0, 0, 0, 0, 0>>
Add4(a, b) == <<a[1] + b[1], a[2] + b[2], a[3] + b[3], a[4] + b[4]>>
Add6(a, b) == <<a[1] + b[1], a[2] + b[2], a[3] + b[3], a[4] + b[4], a[5] + b[5], a[6] + b[6]>>
\* workload.Stats.Add as built: blocks processed (3) twice, bytes loaded (1) never
Add6AsBuilt(a, b) == <<a[1], a[2] + b[2], a[3] + 2 * b[3], a[4] + b[4], a[5] + b[5], a[6] + b[6]>>

Hosts == 1..Len(Pool)
Failed(i) == Pool[i].err # ""

\* identity of a row: labels and attributes; as built the presentation zone belongs to it
Ident(r) == IF "zone" \in AsBuilt /\ r.k.ts # 0 THEN <<r.k, r.zone>> ELSE <<r.k, "-">>

\* the accumulated rows: set of [id, k, c]
MergeRows(A, rows) ==
  LET ids == {a.id : a \in A} \cup {Ident(r) : r \in rows}
      Old(id) == {a \in A : a.id = id}
      New(id) == {r \in rows : Ident(r) = id}
      Cnt(id) == FoldSet(LAMBDA r, s : Add4(r.c, s),
                         FoldSet(LAMBDA a, s : Add4(a.c, s), Zero4, Old(id)), New(id))
      KeyOf(id) == IF Old(id) # {} THEN (CHOOSE a \in Old(id) : TRUE).k ELSE (CHOOSE r \in New(id) : TRUE).k
  IN {[id |-> id, k |-> KeyOf(id), c |-> Cnt(id)] : id \in ids}
\* number of arriving rows that were added to an existing row
MergedCount(A, rows) == Cardinality({r \in rows : \E a \in A : a.id = Ident(r)})

VARIABLES chosen,   \* the hosts of this query (subset of Hosts)
          pending,  \* hosts whose result has not arrived yet
          stream,   \* TRUE: RunStreaming (partial results), FALSE: Run
          acc,      \* the accumulated result (finalResult, rowMap, ifaceMap of the code)
          sent,     \* streaming: the partial results handed to the sender so far
          final,    \* the returned result (after Finish)
          done, act
vars == <<chosen, pending, stream, acc, sent, final, done, act>>

NoResult == [rows |-> {}, tot |-> Zero4, stats |-> Zero6, hits |-> 0, hs |-> {}, ifaces |-> {},
             first |-> 0, last |-> 0, status |-> "none"]

Acc0 == [rows |-> {}, tot |-> Zero4, stats |-> Zero6, hits |-> 0, hs |-> {}, ifaces |-> {},
         ranged |-> FALSE, first |-> 0, last |-> 0, code |-> "ok"]

\* the observable result: rows as [k, c] (how a merged time label is presented is not judged)
ObsRows(A) == {[k |-> a.k, c |-> a.c] : a \in A}

\* results.Result.End(): a result without rows gets a "no rows" status (empty / missing data)
EndCode(a) == IF a.rows = {} THEN "norows"
              ELSE IF "sticky" \in AsBuilt THEN a.code ELSE "ok"

Project(a) == [rows |-> ObsRows(a.rows), tot |-> a.tot, stats |-> a.stats, hits |-> a.hits, hs |-> a.hs,
               ifaces |-> a.ifaces, first |-> a.first, last |-> a.last, status |-> EndCode(a)]

Min2(a, b) == IF a <= b THEN a ELSE b
Max2(a, b) == IF a >= b THEN a ELSE b

\* aggregateSingleResult
Step(a, i) ==
  LET h == Pool[i] IN
  IF Failed(i)
  THEN [a EXCEPT !.hs = a.hs \cup {[host |-> h.name, code |-> "error", msg |-> h.err]}]
  ELSE [a EXCEPT
          !.hs     = a.hs \cup {[host |-> h.name, code |-> h.status, msg |-> ""]},
          !.rows   = MergeRows(a.rows, h.rows),
          !.hits   = a.hits + h.hits - MergedCount(a.rows, h.rows),
          !.tot    = Add4(a.tot, h.tot),
          !.stats  = IF "stats" \in AsBuilt THEN Add6AsBuilt(a.stats, h.stats) ELSE Add6(a.stats, h.stats),
          !.ifaces = a.ifaces \cup h.ifaces,
          !.ranged = TRUE,
          !.first  = IF "range" \in AsBuilt \/ ~a.ranged THEN h.first ELSE Min2(a.first, h.first),
          !.last   = IF "range" \in AsBuilt \/ ~a.ranged THEN h.last ELSE Max2(a.last, h.last)]

Init == /\ chosen \in {S \in SUBSET Hosts : Cardinality(S) \in 1..MaxHosts}
        /\ pending = chosen
        /\ stream \in BOOLEAN
        /\ acc = Acc0
        /\ sent = <<>>
        /\ final = NoResult
        /\ done = FALSE
        /\ act = [name |-> "Init", h |-> 0]

Arrive(i) ==
  /\ ~done /\ i \in pending
  /\ pending' = pending \ {i}
  /\ LET a == Step(acc, i) IN
       IF stream /\ ~Failed(i)
       THEN \* finalizeResult on the running result, then the partial result goes to the sender
            /\ acc' = [a EXCEPT !.code = EndCode(a)]
            /\ sent' = Append(sent, Project(a))
       ELSE /\ acc' = a
            /\ UNCHANGED sent
  /\ UNCHANGED <<chosen, stream, final, done>>
  /\ act' = [name |-> "Arrive", h |-> i]

Finish ==
  /\ ~done /\ pending = {}
  /\ final' = Project(acc)
  /\ done' = TRUE
  /\ UNCHANGED <<chosen, pending, stream, acc, sent>>
  /\ act' = [name |-> "Finish", h |-> 0]

Next == (\E i \in Hosts : Arrive(i)) \/ Finish
Spec == Init /\ [][Next]_vars

(***************************************************************************)
(* The order-free definition.                                              *)
(***************************************************************************)
Merged(S) ==
  LET ok == {i \in S : ~Failed(i)}
      AllRows == UNION {{[h |-> i, r |-> r] : r \in Pool[i].rows} : i \in ok}
      Keys == {x.r.k : x \in AllRows}
      Sum4(X, f(_)) == FoldSet(LAMBDA x, s : Add4(f(x), s), Zero4, X)
      Sum6(X, f(_)) == FoldSet(LAMBDA x, s : Add6(f(x), s), Zero6, X)
      SumI(X, f(_)) == FoldSet(LAMBDA x, s : f(x) + s, 0, X)
  IN [rows   |-> {[k |-> k, c |-> Sum4({x \in AllRows : x.r.k = k}, LAMBDA x : x.r.c)] : k \in Keys},
      tot    |-> Sum4(ok, LAMBDA i : Pool[i].tot),
      stats  |-> Sum6(ok, LAMBDA i : Pool[i].stats),
      hits   |-> SumI(ok, LAMBDA i : Pool[i].hits) - (Cardinality(AllRows) - Cardinality(Keys)),
      hs     |-> {[host |-> Pool[i].name, code |-> "error", msg |-> Pool[i].err] : i \in S \ ok}
                 \cup {[host |-> Pool[i].name, code |-> Pool[i].status, msg |-> ""] : i \in ok},
      ifaces |-> UNION {Pool[i].ifaces : i \in ok},
      first  |-> IF ok = {} THEN 0 ELSE Min({Pool[i].first : i \in ok}),
      last   |-> IF ok = {} THEN 0 ELSE Max({Pool[i].last : i \in ok}),
      status |-> IF Keys = {} THEN "norows" ELSE "ok"]

(***************************************************************************)
(* Property C15.                                                           *)
(***************************************************************************)
TypeOK == /\ pending \subseteq chosen /\ chosen \subseteq Hosts
          /\ stream \in BOOLEAN /\ done \in BOOLEAN

\* for every arrival order, with and without streaming, the returned result is the order-free merge
FinalIsMerged == done => final = Merged(chosen)

\* every partial result is the order-free merge of what has arrived (the running result is a result)
PartialIsMerged ==
  (stream /\ ~done /\ act.name = "Arrive" /\ ~Failed(act.h)) => sent[Len(sent)] = Merged(chosen \ pending)

\* every failed host is reported with its error, whatever else happened
ErrorsReported == done => \A i \in chosen : Failed(i) =>
                    [host |-> Pool[i].name, code |-> "error", msg |-> Pool[i].err] \in final.hs
=============================================================================
