SPECIFICATION Spec
CONSTANTS
  Pool <- PoolTime
  MaxHosts = 2
  AsBuilt = {"zone"}
INVARIANTS FinalIsMerged
CHECK_DEADLOCK FALSE
