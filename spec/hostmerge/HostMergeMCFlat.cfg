SPECIFICATION Spec
CONSTANTS
  Pool <- PoolFlat
  MaxHosts = 4
  AsBuilt = {}
INVARIANTS TypeOK FinalIsMerged PartialIsMerged ErrorsReported
CHECK_DEADLOCK FALSE
