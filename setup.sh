#!/bin/sh
# Run once after a fresh restore, offline: warm the Go build cache for the harness and syntax-check the specs.
set -e
cd "$(dirname "$0")"
export GOFLAGS=-mod=mod GOPROXY=off GOWORK=off
cp /repo/go.sum harness/go.sum
(cd harness && go build -tags verif -o /dev/null ./cmd/... ./internal/... 2>&1 | grep -v "^$" || true; go vet -tags verif ./internal/hx >/dev/null 2>&1 || true)
python3 - <<'PY'
import os, sys
sys.path.insert(0, "lib")
import vlib
bad = 0
for fam in sorted(os.listdir(vlib.SPEC)):
    d = os.path.join(vlib.SPEC, fam)
    if fam == "common" or not os.path.isdir(d):
        continue
    for f in sorted(os.listdir(d)):
        if f.endswith(".tla"):
            ok, out = vlib.sany(fam, f[:-4])
            if not ok:
                bad += 1
                print("SANY FAILED", fam, f); print(out[-1500:])
print("specs parsed, %d failures" % bad)
sys.exit(1 if bad else 0)
PY
