#!/bin/sh
# Run once after a fresh restore, offline: warm the Go build cache for the harness and syntax-check the specs.
set -e
cd "$(dirname "$0")"
export GOFLAGS=-mod=mod GOPROXY=off GOWORK=off
cp /repo/go.sum harness/go.sum
(cd harness && go build -tags verif ./cmd/... ./internal/...)
# build variants used by the codec family (C07 / C02): pure Go, and cgo without one of the system libraries
(cd harness && CGO_ENABLED=0 go build -tags verif ./cmd/vh_codec/ && go build -tags verif,goprobe_noliblz4 ./cmd/vh_codec/ \
  && go build -tags verif,goprobe_nolibzstd ./cmd/vh_codec/) || echo "warning: codec build variants not warmed"
rm -f harness/vh_codec
python3 - <<'PY'
import os, sys
sys.path.insert(0, "lib")
import vlib
bad = 0
for fam in sorted(os.listdir(vlib.SPEC)):
    d = os.path.join(vlib.SPEC, fam)
    if fam == "common" or not os.path.isdir(d):
        continue
    for f in sorted(os.listdir(d)):
        if f.endswith(".tla"):
            ok, out = vlib.sany(fam, f[:-4])
            if not ok:
                bad += 1
                print("SANY FAILED", fam, f); print(out[-1500:])
print("specs parsed, %d failures" % bad)
sys.exit(1 if bad else 0)
PY
