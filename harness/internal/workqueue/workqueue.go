// Package workqueue binds spec/workqueue/WorkQueue.tla (property C11) to the goDB query engine.
//
// The worker count of a query is runtime.NumCPU() (engine: numProcessingUnits), so the binding runs
// the real engine in child processes started under `taskset -c 0-(k-1)`; this package provides the
// child commands.  It has no oracle of its own: results are logged as QueryTrace events and judged
// by TLC against Query!Result (spec/query).
//
//	wq-gen    write the equality database (many day directories, two interfaces) and print it
//	wq-days   write a database with N day directories holding one tiny block each and print it
//	wq-query  run queries (one JSON query per stdin line) on a database and print one event per query;
//	          SIGUSR1 makes it print the stacks of all goroutines and carry on
package workqueue

import (
	"encoding/json"
	"flag"
	"fmt"
	"os"
	"os/signal"
	"runtime"
	"syscall"
	"time"

	"verifharness/internal/cond"
	"verifharness/internal/hx"
	"verifharness/internal/query"
)

// Day0 is the first day of the generated databases (2010-01-01, day aligned: 4100 days end in the past).
const Day0 = int64(1262304000)

func init() {
	hx.Register("wq-gen", cmdGen)
	hx.Register("wq-days", cmdDays)
	hx.Register("wq-query", cmdQuery)
}

// pool: a few flows of both families (the adversarial addresses of Flows.tla)
var pool = []cond.Flow{
	{Fam: 4, SIP: []int{10, 200, 0, 1}, DIP: []int{10, 0, 0, 1}, Dport: 80, Proto: 6},
	{Fam: 4, SIP: []int{10, 0, 0, 1}, DIP: []int{10, 200, 0, 1}, Dport: 443, Proto: 6},
	{Fam: 4, SIP: []int{32, 1, 0, 0}, DIP: []int{0, 0, 0, 0}, Dport: 53, Proto: 17},
	{Fam: 4, SIP: []int{255, 255, 255, 255}, DIP: []int{32, 1, 0, 0}, Dport: 65535, Proto: 6},
	{Fam: 4, SIP: []int{10, 0, 0, 1}, DIP: []int{32, 1, 0, 0}, Dport: 8080, Proto: 6},
	{Fam: 6, SIP: v6(32, 1), DIP: v6(10, 0), Dport: 80, Proto: 6},
	{Fam: 6, SIP: v6(10, 0), DIP: v6(32, 1), Dport: 443, Proto: 6},
	{Fam: 6, SIP: v6(0, 0), DIP: v6(255, 2), Dport: 53, Proto: 17},
	{Fam: 6, SIP: v6(255, 2), DIP: v6(0, 0), Dport: 0, Proto: 58},
	{Fam: 6, SIP: v6(32, 1), DIP: v6(0, 0), Dport: 256, Proto: 17},
}

func v6(a, b int) []int {
	x := make([]int, 16)
	x[0], x[1], x[15] = a, b, 1
	return x
}

// cmdGen writes the equality database: `days` consecutive days for each of two interfaces (a third
// of the days of the second interface are missing), one or two blocks per day, two to five flows of
// both families per block.  With 32 days per workload this gives several workloads per interface,
// so that several workers take part and maps of several workloads are merged.
func cmdGen(args []string) {
	fs := flag.NewFlagSet("wq-gen", flag.ExitOnError)
	dir := fs.String("dir", "", "database directory")
	seed := fs.Uint64("seed", 1, "seed")
	days := fs.Int("days", 150, "days per interface")
	bulk := fs.Int("bulk", 300, "additional flows in the first block of every third day of e0 (long evaluations that overlap between workers)")
	fs.Parse(args)
	rng := hx.NewRNG(*seed*131 + 5)
	var db query.DB
	for k, iface := range []string{"e0", "e1"} {
		for d := 0; d < *days; d++ {
			if k == 1 && rng.Intn(3) == 0 {
				continue
			}
			nb := 1 + rng.Intn(2)
			for b := 0; b < nb; b++ {
				ts := Day0 + int64(d)*86400 + []int64{300, 43200}[b]
				if b == 0 && rng.Intn(8) == 0 {
					ts = Day0 + int64(d)*86400 // exactly midnight
				}
				blk := query.Block{Iface: iface, TS: ts, Recs: []query.Rec{}}
				nf := 2 + rng.Intn(4)
				seen := map[int]bool{}
				for len(blk.Recs) < nf {
					i := rng.Intn(len(pool))
					if seen[i] {
						continue
					}
					seen[i] = true
					c := [4]uint64{uint64(rng.Intn(3000)), uint64(rng.Intn(3000)), uint64(rng.Intn(9)), uint64(rng.Intn(9))}
					switch rng.Intn(5) {
					case 0:
						c[1], c[3] = 0, 0
					case 1:
						c[0], c[2] = 0, 0
					}
					blk.Recs = append(blk.Recs, query.Rec{F: pool[i], C: c})
				}
				if k == 0 && b == 0 && d%3 == 0 {
					// many flows, alternately inside and outside 10.128.0.0/9 (and 10.0.0.0/9 for the destination)
					for i := 0; i < *bulk; i++ {
						f := cond.Flow{Fam: 4, SIP: []int{10, []int{200, 0, 129, 127}[i%4], i >> 8, i & 255}, DIP: []int{10, []int{0, 128}[(i/4)%2], 1, 1},
							Dport: 1000 + i%7, Proto: 6}
						blk.Recs = append(blk.Recs, query.Rec{F: f, C: [4]uint64{uint64(40 + i), uint64(i % 13), 1 + uint64(i%3), uint64(i % 2)}})
					}
				}
				db = append(db, blk)
			}
		}
	}
	if err := query.WriteDB(*dir, db); err != nil {
		hx.Die("wq-gen: %v", err)
	}
	emitDB(db)
}

// cmdDays writes `days` day directories of interface e0, each with one block of two flows.
func cmdDays(args []string) {
	fs := flag.NewFlagSet("wq-days", flag.ExitOnError)
	dir := fs.String("dir", "", "database directory")
	days := fs.Int("days", 2100, "day directories")
	fs.Parse(args)
	recs := []query.Rec{{F: pool[0], C: [4]uint64{100, 50, 2, 1}}, {F: pool[5], C: [4]uint64{7, 0, 1, 0}}}
	t0 := time.Now()
	if err := query.WriteDays(*dir, "e0", Day0, *days, 300, recs); err != nil {
		hx.Die("wq-days: %v", err)
	}
	var db query.DB
	for i := 0; i < *days; i++ {
		db = append(db, query.Block{Iface: "e0", TS: Day0 + int64(i)*86400 + 300, Recs: recs})
	}
	fmt.Fprintf(os.Stderr, "wq-days: %d day directories in %.1fs\n", *days, time.Since(t0).Seconds())
	emitDB(db)
}

func emitDB(db query.DB) {
	o := hx.NewOut(os.Stdout)
	n := 0
	for _, b := range db {
		n += len(b.Recs)
	}
	o.Emit(map[string]any{"ev": "DB", "db": db, "records": n, "blocks": len(db)})
	o.Flush()
}

// cmdQuery runs every query read from stdin on the database and prints one QueryTrace event per
// query, with the configuration the process saw (NumCPU = worker count, GOMAXPROCS, low-memory).
// A marker line is written to stderr before each query so that a goroutine dump can be related
// to the query that was running.
func cmdQuery(args []string) {
	fs := flag.NewFlagSet("wq-query", flag.ExitOnError)
	db := fs.String("db", "", "database directory")
	lowmem := fs.Bool("lowmem", false, "low-memory mode")
	reps := fs.Int("reps", 1, "run every query this many times")
	fs.Parse(args)
	dumpOnSignal()
	o := hx.NewOut(os.Stdout)
	n := 0
	err := hx.Lines(os.Stdin, func(line []byte) error {
		var q query.Query
		if err := json.Unmarshal(line, &q); err != nil {
			return err
		}
		for r := 0; r < *reps; r++ {
			fmt.Fprintf(os.Stderr, "WQ-START query %d rep %d numcpu %d\n", n, r, runtime.NumCPU())
			t0 := time.Now()
			got, rerr := query.Run(*db, q, 0, *lowmem)
			el := time.Since(t0).Seconds()
			fmt.Fprintf(os.Stderr, "WQ-END query %d rep %d %.3fs\n", n, r, el)
			if got.Rows == nil {
				got.Rows = []query.Row{}
			}
			if got.Ifaces == nil {
				got.Ifaces = []string{}
			}
			o.Emit(map[string]any{"ev": "Q", "q": query.QueryJSON(q), "rows": got.Rows, "totals": got.Totals, "hits": got.Hits,
				"ifaces": got.Ifaces, "err": rerr, "text": q.Condition(0), "qtype": q.QueryType(), "qn": n, "rep": r,
				"numcpu": runtime.NumCPU(), "gomaxprocs": runtime.GOMAXPROCS(0), "lowmem": *lowmem, "secs": el})
			o.Flush()
		}
		n++
		return nil
	})
	if err != nil {
		hx.Die("wq-query: %v", err)
	}
}

// dumpOnSignal makes the child write the stacks of all goroutines to stderr on SIGUSR1 and carry on, so
// that the check can look at a query that takes long without ending it.
func dumpOnSignal() {
	ch := make(chan os.Signal, 4)
	signal.Notify(ch, syscall.SIGUSR1)
	os.Stderr.WriteString("WQ-READY\n") // from here on SIGUSR1 is handled
	go func() {
		for range ch {
			buf := make([]byte, 1<<22)
			n := runtime.Stack(buf, true)
			os.Stderr.Write(append(append([]byte("WQ-DUMP-BEGIN\n"), buf[:n]...), []byte("\nWQ-DUMP-END\n")...))
		}
	}()
}
