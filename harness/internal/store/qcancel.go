//go:build verif

package store

import (
	"context"
	"flag"
	"fmt"
	"os"
	"strconv"
	"sync"
	"time"

	"verifharness/internal/hx"

	"github.com/els0r/goProbe/v4/pkg/capture/capturetypes"
	"github.com/els0r/goProbe/v4/pkg/goDB"
	"github.com/els0r/goProbe/v4/pkg/goDB/encoder/encoders"
	"github.com/els0r/goProbe/v4/pkg/goDB/engine"
	"github.com/els0r/goProbe/v4/pkg/goDB/storage/gpfile"
	"github.com/els0r/goProbe/v4/pkg/query"
)

// qc-run (extension, spec/querycancel/QueryCancel.tla): one query on a database of `days` day
// directories (one workload of `days` directories) in THIS process.  The verif gate parks the first
// worker that is about to open a column file (the worker is inside readBlocksAndEvaluate of its first
// directory: state "read" of the specification) for `park` milliseconds.  With -breach the statement
// carries MaxMemPct = 0, so heap.Watch reports a breach at its first tick (1 s): the watcher
// goroutine of run() acts while the worker is parked, exactly the scenario the specification's
// scenario configuration explores.  The outcome is printed as one line "OUTCOME <what>"; a panic of a
// goroutine kills the process (exit code 2, Go prints "panic: ..." on stderr) and is read by the caller.
func init() {
	hx.Register("qc-run", func(args []string) {
		fs := flag.NewFlagSet("qc-run", flag.ExitOnError)
		db := fs.String("db", "", "database directory (created)")
		days := fs.Int("days", 1, "day directories (= directories of the one workload)")
		breach := fs.Bool("breach", false, "force a memory breach at the first tick of heap.Watch")
		park := fs.Int("park", 1800, "milliseconds the first worker is parked inside its first directory")
		fs.Parse(args)
		if *db == "" {
			hx.Die("qc-run: -db required")
		}
		w := goDB.NewDBWriter(*db, IFACE, encoders.EncoderTypeLZ4)
		for d := 0; d < *days; d++ {
			for b := 1; b <= 2; b++ {
				fm := FlowMap(FlowsFor(7, d*4+b, "s"))
				if err := w.Write(fm, capturetypes.CaptureStats{}, Day0+int64(d)*86400+300*int64(b)); err != nil {
					hx.Die("qc-run: write: %v", err)
				}
			}
		}
		var once sync.Once
		gpfile.SetVerifGate(func(point string) {
			if point == "r.opencol" {
				once.Do(func() {
					fmt.Println("VEVENT parked")
					os.Stdout.Sync()
					time.Sleep(time.Duration(*park) * time.Millisecond)
					fmt.Println("VEVENT released")
					os.Stdout.Sync()
				})
			}
		})
		a := &query.Args{Query: "sip,dip,dport,proto", Ifaces: IFACE, First: strconv.FormatInt(Day0-86400, 10),
			Last: strconv.FormatInt(Day0+40*86400, 10), Format: "json", NumResults: 1000000, MaxMemPct: 90}
		stmt, err := a.Prepare()
		if err != nil {
			hx.Die("qc-run: prepare: %v", err)
		}
		if *breach {
			stmt.MaxMemPct = 0 // any memory use is above 0 % of the physical memory
		}
		res, err := engine.NewQueryRunner(*db).RunStatement(context.Background(), stmt, nil)
		// give a late panic of another goroutine the chance to show before the verdict is printed
		time.Sleep(300 * time.Millisecond)
		switch {
		case err != nil:
			fmt.Printf("OUTCOME error %q\n", err.Error())
		case res == nil:
			fmt.Println("OUTCOME nil-result")
		default:
			fmt.Printf("OUTCOME ok rows=%d\n", len(res.Rows))
		}
	})
}
