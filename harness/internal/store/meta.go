package store

import (
	"encoding/json"
	"flag"
	"fmt"
	"os"
	"path/filepath"
	"strings"

	"verifharness/internal/hx"

	"github.com/els0r/goProbe/v4/pkg/goDB/encoder/encoders"
	"github.com/els0r/goProbe/v4/pkg/goDB/storage/gpfile"
	"github.com/els0r/goProbe/v4/pkg/types"
)

// Binding of spec/store/MetaCodec.tla (C03): write sessions with extreme timestamps / counts through
// the real GPDir API, reopen, compare with the model's committed history; plus malformed metadata files.

func init() {
	hx.Register("meta-replay", cmdMetaReplay)
	hx.Register("meta-fuzz", cmdMetaFuzz)
}

type metaStep struct {
	Act struct {
		Name string `json:"name"`
		TS   int64  `json:"ts"`
		V4   int64  `json:"v4"`
		V6   int64  `json:"v6"`
		Dr   int64  `json:"dr"`
	} `json:"act"`
	Exp struct {
		Res  string          `json:"res"`
		Disk json.RawMessage `json:"disk"`
	} `json:"exp"`
}

type metaBlk struct {
	TS int64 `json:"ts"`
	V4 int64 `json:"v4"`
	V6 int64 `json:"v6"`
	Dr int64 `json:"dr"`
}

const metaBase = Day0 + 3600

// realTS concretises the model's scaled timestamps (MaxU32 = 7): the low group 9..12 stays next to the
// base, the high group 17.. sits at base + (2^32-1) + (ts-17), so that a model delta d between the groups
// corresponds to a real delta d + 2^32 - 8 (model d <= 7  <=>  real delta <= 2^32-1).
func realTS(ts int64) int64 {
	if ts < 15 {
		return metaBase + (ts - 10)
	}
	return metaBase + (1<<32 - 1) + (ts - 17)
}

// realCnt concretises the scaled counts {0,1,7,8} to {0,1,2^32-1,2^32}.
func realCnt(c int64) uint64 {
	switch c {
	case 7:
		return 1<<32 - 1
	case 8:
		return 1 << 32
	default:
		return uint64(c)
	}
}

func cmdMetaReplay(args []string) {
	fs := flag.NewFlagSet("meta-replay", flag.ExitOnError)
	root := fs.String("root", "", "scratch root")
	fs.Parse(args)
	o := hx.NewOut(os.Stdout)
	defer o.Flush()
	n, bad, steps := 0, 0, 0
	err := hx.Lines(os.Stdin, func(line []byte) error {
		var beh []metaStep
		if err := json.Unmarshal(line, &beh); err != nil {
			return err
		}
		dir := filepath.Join(*root, fmt.Sprintf("m%06d", n))
		n++
		defer os.RemoveAll(dir)
		var w *gpfile.GPDir
		fail, at, cls := "", -1, ""
		for i, st := range beh {
			steps++
			got := "ok"
			p := hx.Catch(func() {
				switch st.Act.Name {
				case "Open":
					w = gpfile.NewDirWriter(dir, metaBase, gpfile.WithEncoderTypeLevel(encoders.EncoderTypeNull, 0))
					if err := w.Open(); err != nil {
						got = "err"
					}
				case "Write":
					var data [types.ColIdxCount][]byte
					err := w.WriteBlocks(realTS(st.Act.TS), gpfile.TrafficMetadata{NumV4Entries: realCnt(st.Act.V4), NumV6Entries: realCnt(st.Act.V6),
						NumDrops: realCnt(st.Act.Dr)}, types.Counters{BytesRcvd: 1, PacketsRcvd: 1}, data)
					if err != nil {
						got = "err" // the caller (DBWriter) abandons the session without Close()
					}
				case "Close":
					if err := w.Close(); err != nil {
						got = "err"
					}
				}
			})
			if p != "" {
				fail, at, cls = "panic: "+p, i, "panic"
				break
			}
			if got != st.Exp.Res {
				fail = fmt.Sprintf("%s returned %s, specification %s", st.Act.Name, got, st.Exp.Res)
				at = i
				cls = "accepts-unrepresentable"
				if got == "err" {
					cls = "rejects-representable"
				}
				break
			}
			if st.Act.Name == "Close" || (st.Act.Name == "Write" && got == "err") {
				// reopen and compare with the specification's committed history
				var want []metaBlk
				if len(st.Exp.Disk) > 0 && st.Exp.Disk[0] == '[' {
					json.Unmarshal(st.Exp.Disk, &want)
				}
				msg := compareMeta(dir, want)
				if msg != "" {
					fail, at, cls = msg, i, "reopened-differs"
					break
				}
			}
		}
		if fail != "" {
			bad++
			o.Emit(map[string]any{"id": n - 1, "ok": false, "step": at, "msg": fail, "desc": map[string]any{"cls": cls, "act": beh[at].Act.Name}, "behaviour": json.RawMessage(line)})
		}
		return nil
	})
	if err != nil {
		hx.Die("meta-replay: %v", err)
	}
	o.Emit(map[string]any{"summary": true, "behaviours": n, "failed": bad, "steps": steps})
}

func dayDirOf(dir string) (string, string) {
	var found, suffix string
	filepath.Walk(dir, func(p string, info os.FileInfo, err error) error {
		if err == nil && info.IsDir() && strings.HasPrefix(info.Name(), fmt.Sprint(gpfile.DirTimestamp(metaBase))) {
			found = p
			_, suffix, _ = gpfile.ExtractTimestampMetadataSuffix(info.Name())
		}
		return nil
	})
	return found, suffix
}

func compareMeta(dir string, want []metaBlk) string {
	found, suffix := dayDirOf(dir)
	if found == "" || !fileExists(filepath.Join(found, ".blockmeta")) {
		if len(want) == 0 {
			return ""
		}
		return "no metadata on disk, specification has " + fmt.Sprint(len(want)) + " blocks"
	}
	r := gpfile.NewDirReader(dir, metaBase, suffix)
	if err := r.Open(); err != nil {
		return "reopen: " + err.Error()
	}
	defer r.Close()
	blocks := r.BlockMetadata[0].Blocks()
	if len(blocks) != len(want) {
		return fmt.Sprintf("reopened day has %d blocks, specification %d", len(blocks), len(want))
	}
	var sum gpfile.TrafficMetadata
	for i, b := range blocks {
		w := want[i]
		bt := r.BlockTraffic[i]
		if b.Timestamp != realTS(w.TS) {
			return fmt.Sprintf("block %d reopened with timestamp %d, written %d", i, b.Timestamp, realTS(w.TS))
		}
		if bt.NumV4Entries != realCnt(w.V4) || bt.NumV6Entries != realCnt(w.V6) || bt.NumDrops != realCnt(w.Dr) {
			return fmt.Sprintf("block %d reopened with counts %v, written %d/%d/%d", i, bt, realCnt(w.V4), realCnt(w.V6), realCnt(w.Dr))
		}
		sum = sum.Add(bt)
	}
	if r.Traffic != sum {
		return fmt.Sprintf("day totals %v differ from the sum of the blocks %v", r.Traffic, sum)
	}
	return ""
}

func fileExists(p string) bool { _, err := os.Stat(p); return err == nil }

// cmdMetaFuzz: malformed metadata files. For each case line {"cls":..., "arg":n} a valid day is written,
// its .blockmeta is damaged according to the well-formedness class, and the day is opened by the real
// reader and by the real writer: an error or a structurally usable header are fine, a panic is not.
func cmdMetaFuzz(args []string) {
	fs := flag.NewFlagSet("meta-fuzz", flag.ExitOnError)
	root := fs.String("root", "", "scratch root")
	seed := fs.Uint64("seed", 1, "seed")
	fs.Parse(args)
	o := hx.NewOut(os.Stdout)
	defer o.Flush()
	n, bad, errs, oks := 0, 0, 0, 0
	err := hx.Lines(os.Stdin, func(line []byte) error {
		var c struct {
			Cls    string `json:"cls"`
			Blocks int    `json:"blocks"`
			Arg    int    `json:"arg"`
			Exp    string `json:"exp"` // "ok": must open, "err": must be reported as an error, "any": either (never a panic)
		}
		if err := json.Unmarshal(line, &c); err != nil {
			return err
		}
		dir := filepath.Join(*root, fmt.Sprintf("f%06d", n))
		n++
		defer os.RemoveAll(dir)
		rng := hx.NewRNG(*seed*31 + uint64(n))
		w := gpfile.NewDirWriter(dir, metaBase, gpfile.WithEncoderTypeLevel(encoders.EncoderTypeNull, 0))
		if err := w.Open(); err != nil {
			hx.Die("fuzz setup: %v", err)
		}
		for b := 0; b < c.Blocks; b++ {
			var data [types.ColIdxCount][]byte
			for k := range data {
				data[k] = rng.Bytes(1 + rng.Intn(40))
			}
			if err := w.WriteBlocks(metaBase+int64(300*b), gpfile.TrafficMetadata{NumV4Entries: uint64(rng.Intn(100))}, types.Counters{}, data); err != nil {
				hx.Die("fuzz setup: %v", err)
			}
		}
		if err := w.Close(); err != nil {
			hx.Die("fuzz setup: %v", err)
		}
		found, suffix := dayDirOf(dir)
		mp := filepath.Join(found, ".blockmeta")
		orig, _ := os.ReadFile(mp)
		mut := append([]byte{}, orig...)
		switch c.Cls {
		case "valid":
		case "empty":
			mut = nil
		case "truncate": // arg = number of bytes kept (every field boundary is enumerated by the caller)
			if c.Arg < len(mut) {
				mut = mut[:c.Arg]
			}
		case "nblocks-huge":
			for i := 8; i < 16; i++ {
				mut[i] = 0xff
			}
		case "nblocks-plus": // claims more blocks than the size admits
			mut[15] += byte(1 + c.Arg%5)
		case "trailing-garbage":
			mut = append(mut, rng.Bytes(1+c.Arg)...)
		case "bitflip":
			for k := 0; k <= c.Arg%4; k++ {
				p := rng.Intn(len(mut))
				mut[p] ^= 1 << uint(rng.Intn(8))
			}
		case "random":
			mut = rng.Bytes(c.Arg)
		case "len-fields-max": // block length fields at their maximum
			for i := 72 + 8; i < 72+8+8 && i < len(mut); i++ {
				mut[i] = 0xff
			}
		}
		os.WriteFile(mp, mut, 0o644)
		verdict := ""
		p := hx.Catch(func() {
			r := gpfile.NewDirReader(dir, metaBase, suffix)
			if err := r.Open(); err != nil {
				errs++
				if c.Exp == "ok" {
					verdict = "valid metadata rejected: " + err.Error()
				}
			} else {
				oks++
				if c.Exp == "err" {
					verdict = "malformed metadata accepted without error"
				}
				// a header that was accepted must be usable
				nb := r.NBlocks()
				if nb > 0 {
					r.TimeRange()
					_ = r.BlockTraffic[nb-1]
					for col := types.ColumnIndex(0); col < types.ColIdxCount; col++ {
						_, _ = r.ReadBlockAtIndex(col, nb-1)
						_, _ = r.ReadBlockAtIndex(col, 0)
					}
				}
				r.Close()
			}
			w2 := gpfile.NewDirWriter(dir, metaBase)
			if err := w2.Open(); err == nil {
				w2.Close()
			}
		})
		if p == "" && verdict != "" {
			bad++
			o.Emit(map[string]any{"id": n - 1, "ok": false, "msg": verdict, "desc": map[string]any{"cls": "malformed-metadata-verdict", "file_class": c.Cls, "exp": c.Exp}, "case": c})
		}
		if p != "" {
			bad++
			where := "?"
			for _, l := range strings.Split(p, "\n") {
				if strings.Contains(l, "goProbe/v4/pkg") && strings.Contains(l, "(") {
					where = strings.TrimSpace(strings.SplitN(l, "(", 2)[0])
					where = where[strings.LastIndex(where, "/")+1:]
					break
				}
			}
			o.Emit(map[string]any{"id": n - 1, "ok": false, "msg": p[:min(len(p), 1500)], "desc": map[string]any{"cls": "panic-on-malformed-metadata", "file_class": c.Cls, "at": where}, "case": c})
		}
		return nil
	})
	if err != nil {
		hx.Die("meta-fuzz: %v", err)
	}
	o.Emit(map[string]any{"summary": true, "cases": n, "failed": bad, "open_errors": errs, "open_ok": oks})
}
