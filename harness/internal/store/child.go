package store

import (
	"bytes"
	"context"
	"encoding/json"
	"flag"
	"fmt"
	"os"
	"path/filepath"
	"runtime"
	"sort"
	"strconv"
	"strings"
	"time"

	"verifharness/internal/hx"

	"github.com/els0r/goProbe/v4/pkg/capture/capturetypes"
	"github.com/els0r/goProbe/v4/pkg/goDB"
	"github.com/els0r/goProbe/v4/pkg/goDB/encoder/encoders"
	"github.com/els0r/goProbe/v4/pkg/goDB/engine"
	"github.com/els0r/goProbe/v4/pkg/goDB/storage/gpfile"
	"github.com/els0r/goProbe/v4/pkg/query"
	"github.com/els0r/goProbe/v4/pkg/results"
	"github.com/els0r/goProbe/v4/pkg/types"
)

func init() {
	hx.Register("store-write", cmdWrite)
	hx.Register("store-observe", cmdObserve)
}

// marker writes one event line to stderr with a single write(2) call, so that it shows up in
// the strace log in order with the file-system calls of the same thread.
func marker(v any) {
	b, _ := json.Marshal(v)
	os.Stderr.Write(append(append([]byte("VEVENT "), b...), '\n'))
}

func parseIDs(s string) []int {
	var ids []int
	for _, p := range strings.Split(s, ",") {
		if p == "" {
			continue
		}
		n, err := strconv.Atoi(p)
		if err != nil {
			hx.Die("bad id %q", p)
		}
		ids = append(ids, n)
	}
	return ids
}

// cmdWrite performs write sessions (DBWriter.Write for one block, DBWriter.WriteBulk for several)
// on a locked OS thread, each framed by W_Begin / W_Return markers; with -obs the database is
// observed (reader, query engine, listing) after every session and reported as an Observe marker.
func cmdWrite(args []string) {
	fs := flag.NewFlagSet("store-write", flag.ExitOnError)
	db := fs.String("db", "", "db root")
	iface := fs.String("iface", "eth0", "interface")
	seed := fs.Uint64("seed", 1, "seed")
	encName := fs.String("enc", "lz4", "encoder")
	level := fs.Int("level", 0, "encoder level")
	sessArg := fs.String("sessions", "1", "sessions separated by ';', block ids of a session separated by ','")
	profile := fs.String("profile", "m", "size profile")
	obs0 := fs.Bool("obs0", false, "observe before the first session")
	obs := fs.Bool("obs", false, "observe after every session")
	fs.Parse(args)
	runtime.LockOSThread()
	et, err := encoders.GetTypeByString(*encName)
	if err != nil {
		hx.Die("%v", err)
	}
	if *obs0 {
		marker(observe(*db, *iface, *seed, *profile))
	}
	for _, sess := range strings.Split(*sessArg, ";") {
		ids := parseIDs(sess)
		if len(ids) == 0 {
			continue
		}
		type blk struct {
			ID   int      `json:"id"`
			Pays [][2]int `json:"pays"`
		}
		var blks []blk
		var wls []goDB.BulkWorkload
		for _, id := range ids {
			fl := FlowsFor(*seed, id, *profile)
			m := FlowMap(fl)
			blks = append(blks, blk{ID: id, Pays: Sizes(Columns(m), et, *level)})
			wls = append(wls, goDB.BulkWorkload{FlowMap: m, CaptureStats: capturetypes.CaptureStats{Dropped: uint64(1) << uint(id)}, Timestamp: TS(id)})
		}
		w := goDB.NewDBWriter(*db, *iface, et)
		if *level > 0 {
			w.EncoderLevel(*level)
		}
		marker(map[string]any{"ev": "W_Begin", "blks": blks})
		if len(wls) == 1 {
			err = w.Write(wls[0].FlowMap, wls[0].CaptureStats, wls[0].Timestamp)
		} else {
			err = w.WriteBulk(wls, TS(ids[0]))
		}
		res := "ok"
		msg := ""
		if err != nil {
			res, msg = "err", err.Error()
		}
		marker(map[string]any{"ev": "W_Return", "res": res, "msg": msg})
		if *obs {
			marker(observe(*db, *iface, *seed, *profile))
		}
	}
}

type blockObs struct {
	ID int  `json:"id"`
	OK bool `json:"ok"`
}

type observation struct {
	Ev        string     `json:"ev"`
	ReaderErr string     `json:"reader_err"`
	Reader    []blockObs `json:"reader"`    // day directory read through GPDir: every block, all columns, compared byte for byte
	MetaOK    bool       `json:"meta_ok"`   // per-block traffic metadata and day totals equal the sums over the blocks read
	QueryErr  string     `json:"query_err"` // engine query over the whole day
	Query     []blockObs `json:"query"`     // blocks (by timestamp) returned by a time-resolved raw query, and whether their rows are exact
	QueryStat int        `json:"query_corrupted"`
	ListErr   string     `json:"list_err"`
	ListIDs   []int      `json:"list_ids"`  // blocks whose totals went into the interface summary (decoded from the drop counter)
	ListOK    bool       `json:"list_ok"`   // all summary numbers equal the sums over exactly those blocks
	DirNames  []string   `json:"dir_names"` // entries of the month directory (informational)
	Tmp       int        `json:"tmp_files"` // left-over temporary metadata files (informational)
}

func dayDirs(db, iface string) (month string, names []string) {
	t := time.Unix(Day0, 0)
	month = filepath.Join(db, iface, strconv.Itoa(t.Year()), fmt.Sprintf("%02d", int(t.Month())))
	ents, _ := os.ReadDir(month)
	for _, e := range ents {
		names = append(names, e.Name())
	}
	return
}

func idsFromDrops(d uint64) []int {
	ids := []int{}
	for i := 0; i < 40; i++ {
		if d&(1<<uint(i)) != 0 {
			ids = append(ids, i)
		}
	}
	return ids
}

// observe looks at the database the way users do: block reader, query engine, interface listing.
func observe(db, iface string, seed uint64, profile string) observation {
	o := observation{Ev: "Observe", Reader: []blockObs{}, Query: []blockObs{}, ListIDs: []int{}, DirNames: []string{}}
	month, names := dayDirs(db, iface)
	o.DirNames = append(o.DirNames, names...)
	for _, n := range names {
		ents, _ := os.ReadDir(filepath.Join(month, n))
		for _, e := range ents {
			if strings.HasPrefix(e.Name(), ".tmp-metadata") {
				o.Tmp++
			}
		}
	}
	// ---- 1. block reader (only if a day directory exists)
	var sumT Totals
	if len(names) > 0 {
		p := hx.Catch(func() {
			_, suffix, err := gpfile.ExtractTimestampMetadataSuffix(names[0])
			if err != nil {
				o.ReaderErr = err.Error()
				return
			}
			d := gpfile.NewDirReader(filepath.Join(db, iface), Day0, suffix)
			if err := d.Open(); err != nil {
				o.ReaderErr = err.Error()
				return
			}
			defer d.Close()
			o.MetaOK = true
			blocks := d.BlockMetadata[0].Blocks()
			for bi, b := range blocks {
				id := IDOf(b.Timestamp)
				bo := blockObs{ID: id, OK: id > 0}
				if id > 0 {
					fl := FlowsFor(seed, id, profile)
					want := Columns(FlowMap(fl))
					for c := types.ColumnIndex(0); c < types.ColIdxCount; c++ {
						got, err := d.ReadBlockAtIndex(c, bi)
						if err != nil || !bytes.Equal(got, want[c]) {
							bo.OK = false
						}
					}
					t := TotalsFor(fl, id)
					bt := d.BlockTraffic[bi]
					if int(bt.NumV4Entries) != t.V4 || int(bt.NumV6Entries) != t.V6 || int(bt.NumDrops) != t.Drops {
						o.MetaOK = false
					}
					sumT.V4, sumT.V6, sumT.Drops = sumT.V4+t.V4, sumT.V6+t.V6, sumT.Drops+t.Drops
					sumT.C.Add(t.C)
				}
				o.Reader = append(o.Reader, bo)
			}
			if int(d.Traffic.NumV4Entries) != sumT.V4 || int(d.Traffic.NumV6Entries) != sumT.V6 ||
				int(d.Traffic.NumDrops) != sumT.Drops || d.Counts != sumT.C {
				o.MetaOK = false
			}
		})
		if p != "" {
			o.ReaderErr = p
		}
	} else {
		o.MetaOK = true
	}
	// ---- 2. query engine: time-resolved raw flows over the whole day
	if _, err := os.Stat(filepath.Join(db, iface)); err == nil {
		p := hx.Catch(func() {
			a := &query.Args{Query: "time,sip,dip,dport,proto", Ifaces: iface, First: strconv.FormatInt(Day0-86400, 10),
				Last: strconv.FormatInt(Day0+2*86400, 10), Format: "json", NumResults: 100000000, MaxMemPct: 90}
			res, err := engine.NewQueryRunner(db).Run(context.Background(), a)
			if err != nil {
				o.QueryErr = err.Error()
				return
			}
			o.QueryStat = int(res.Summary.Stats.BlocksCorrupted)
			byTS := map[int64]results.Rows{}
			for _, r := range res.Rows {
				byTS[r.Labels.Timestamp.Unix()] = append(byTS[r.Labels.Timestamp.Unix()], r)
			}
			var tss []int64
			for ts := range byTS {
				tss = append(tss, ts)
			}
			sort.Slice(tss, func(i, j int) bool { return tss[i] < tss[j] })
			for _, ts := range tss {
				id := IDOf(ts)
				bo := blockObs{ID: id, OK: id > 0}
				if id > 0 {
					want := map[string]types.Counters{}
					for _, f := range FlowsFor(seed, id, profile) {
						want[string(f.Key())] = f.C
					}
					rows := byTS[ts]
					if len(rows) != len(want) {
						bo.OK = false
					}
					for _, r := range rows {
						sip, dip := r.Attributes.SrcIP.AsSlice(), r.Attributes.DstIP.AsSlice()
						dp := []byte{byte(r.Attributes.DstPort >> 8), byte(r.Attributes.DstPort)}
						k := types.NewKey(sip, dip, dp, r.Attributes.IPProto)
						if c, ok := want[string(k)]; !ok || c != r.Counters {
							bo.OK = false
						}
					}
				}
				o.Query = append(o.Query, bo)
			}
		})
		if p != "" {
			o.QueryErr = p
		}
		// ---- 3. interface listing (goQuery list)
		p = hx.Catch(func() {
			wm, err := goDB.NewDBWorkManager(goDB.NewMetadataQuery(), db, iface, 1)
			if err != nil {
				o.ListErr = err.Error()
				return
			}
			md, err := wm.ReadMetadata(Day0-86400, Day0+2*86400)
			if err != nil {
				o.ListErr = err.Error()
				return
			}
			o.ListIDs = idsFromDrops(md.Traffic.NumDrops)
			var t Totals
			for _, id := range o.ListIDs {
				bt := TotalsFor(FlowsFor(seed, id, profile), id)
				t.V4, t.V6 = t.V4+bt.V4, t.V6+bt.V6
				t.C.Add(bt.C)
			}
			o.ListOK = int(md.Traffic.NumV4Entries) == t.V4 && int(md.Traffic.NumV6Entries) == t.V6 && md.Counts == t.C
		})
		if p != "" {
			o.ListErr = p
		}
	} else {
		o.ListOK = true
	}
	return o
}

func cmdObserve(args []string) {
	fs := flag.NewFlagSet("store-observe", flag.ExitOnError)
	db := fs.String("db", "", "db root")
	iface := fs.String("iface", "eth0", "interface")
	seed := fs.Uint64("seed", 1, "seed")
	profile := fs.String("profile", "m", "size profile")
	fs.Parse(args)
	o := observe(*db, *iface, *seed, *profile)
	b, _ := json.Marshal(o)
	fmt.Println(string(b))
}
