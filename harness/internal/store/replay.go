package store

import (
	"bytes"
	"encoding/json"
	"flag"
	"fmt"
	"os"
	"path/filepath"
	"strings"

	"verifharness/internal/hx"

	"github.com/els0r/goProbe/v4/pkg/goDB/encoder/encoders"
	"github.com/els0r/goProbe/v4/pkg/goDB/storage/gpfile"
	"github.com/els0r/goProbe/v4/pkg/types"
)

func init() { hx.Register("store-replay", cmdReplay) }

type genPay struct {
	Raw int `json:"raw"`
	Enc int `json:"enc"`
}

type genSession struct {
	Bs        []int       `json:"bs"`
	Pays      [][]genPay  `json:"pays"` // per block, per model column
	Committed []int       `json:"committed"`
	Tags      [][]string  `json:"tags"` // per committed block, per model column: enc / raw / none
}

// class names the payload size relation of the model (BufCap = 4) for the harness.
func class(p genPay) string {
	const B = 4
	switch {
	case p.Raw == 0:
		return "Empty"
	case p.Enc <= p.Raw && p.Raw <= B:
		return "SmallC"
	case p.Enc <= p.Raw && p.Enc > B:
		return "LargeC"
	case p.Enc <= p.Raw:
		return "BigC"
	case p.Enc <= B:
		return "SmallI"
	case p.Raw <= B:
		return "MidI"
	default:
		return "LargeI"
	}
}

// dataFor draws concrete bytes of a size class and checks (with the real encoder) that they are in
// the class, i.e. in the same relation to the 4096-byte write buffer as the model payload is to BufCap.
var bigData = false

func dataFor(rng *hx.RNG, cls string, et encoders.Type, level int) []byte {
	const B = 4096
	scale := 1
	if bigData {
		scale = 10
	}
	for try := 0; try < 40; try++ {
		var d []byte
		switch cls {
		case "Empty":
			return nil
		case "SmallC":
			d = bytes.Repeat([]byte{byte(rng.Intn(256)), 1, 2, 3}, 50+rng.Intn(400))
		case "SmallI":
			d = rng.Bytes(64 + rng.Intn(2900))
		case "MidI":
			d = rng.Bytes(B - rng.Intn(6))
		case "LargeC":
			d = make([]byte, 9000+rng.Intn(7000*scale))
			for i := range d {
				d[i] = byte(rng.Intn(16))
			}
		case "BigC":
			d = bytes.Repeat([]byte{9, 8, 7, byte(rng.Intn(256)), 5}, 1000+rng.Intn(3000*scale))
		case "LargeI":
			d = rng.Bytes(5000 + rng.Intn(8000*scale*scale/2+1))
		}
		raw, enc := len(d), EncLen(et, level, d)
		ok := false
		switch cls {
		case "SmallC":
			ok = enc <= raw && raw <= B
		case "SmallI":
			ok = enc > raw && enc <= B
		case "MidI":
			ok = enc > raw && raw <= B && enc > B
		case "LargeC":
			ok = enc <= raw && enc > B
		case "BigC":
			ok = enc <= raw && raw > B && enc <= B
		case "LargeI":
			ok = enc > raw && raw > B
		}
		if et == encoders.EncoderTypeNull {
			ok = true // the null encoder never grows data: the classes collapse, sizes still vary
		}
		if ok {
			return d
		}
	}
	return nil // class not reachable with this encoder (e.g. incompressible classes under zstd overhead rules)
}

type written struct {
	id      int
	data    [types.ColIdxCount][]byte
	traffic gpfile.TrafficMetadata
	counts  types.Counters
}

// replayOne executes one generated history on a fresh directory through the gpfile API and compares
// what a reader gets after every session with what was written.
func replayOne(root string, seed uint64, n int, encName string, level int, sess []genSession) (fail string, step int, skipped bool) {
	// encName may be a comma separated list: the sessions of a history then rotate through the encoders
	// (a day written by processes configured with different compressors)
	var ets []encoders.Type
	for _, name := range strings.Split(encName, ",") {
		t, err := encoders.GetTypeByString(name)
		if err != nil {
			hx.Die("%v", err)
		}
		ets = append(ets, t)
	}
	et := ets[0]
	dir := filepath.Join(root, fmt.Sprintf("b%06d", n))
	defer os.RemoveAll(dir)
	rng := hx.NewRNG(seed*1000003 + uint64(n))
	all := map[int]*written{}
	var tot gpfile.Stats
	for si, s := range sess {
		et = ets[(si+n)%len(ets)]
		w := gpfile.NewDirWriter(dir, Day0, gpfile.WithEncoderTypeLevel(et, level))
		if err := w.Open(); err != nil {
			return "open for write: " + err.Error(), si, false
		}
		for bi, id := range s.Bs {
			wr := &written{id: id}
			for c := 0; c < int(types.ColIdxCount); c++ {
				cls := class(s.Pays[bi][c%len(s.Pays[bi])])
				d := dataFor(rng, cls, et, level)
				if d == nil && cls != "Empty" {
					w.Close()
					return "", si, true
				}
				wr.data[c] = d
			}
			wr.traffic = gpfile.TrafficMetadata{NumV4Entries: uint64(rng.Intn(1 << 20)), NumV6Entries: uint64(rng.Intn(1000)), NumDrops: uint64(rng.Intn(5))}
			wr.counts = types.Counters{BytesRcvd: uint64(rng.Intn(1 << 30)), BytesSent: uint64(rng.Intn(1 << 30)), PacketsRcvd: uint64(rng.Intn(1 << 20)), PacketsSent: uint64(rng.Intn(1 << 20))}
			if err := w.WriteBlocks(TS(id), wr.traffic, wr.counts, wr.data); err != nil {
				return "WriteBlocks: " + err.Error(), si, false
			}
			all[id] = wr
		}
		if err := w.Close(); err != nil {
			return "close after write: " + err.Error(), si, false
		}
		for _, id := range s.Bs {
			tot.Traffic = tot.Traffic.Add(all[id].traffic)
			tot.Counts.Add(all[id].counts)
		}
		// ---- read back the way the query engine does: directory listing -> suffix -> reader
		month := filepath.Dir(w.Path())
		ents, _ := os.ReadDir(month)
		var names []string
		for _, e := range ents {
			if strings.HasPrefix(e.Name(), fmt.Sprint(Day0)) {
				names = append(names, e.Name())
			}
		}
		if len(names) != 1 {
			return fmt.Sprintf("day has %d directories: %v", len(names), names), si, false
		}
		_, suffix, _ := gpfile.ExtractTimestampMetadataSuffix(names[0])
		for _, sfx := range []string{suffix, ""} {
			r := gpfile.NewDirReader(dir, Day0, sfx)
			if err := r.Open(); err != nil {
				return "open for read: " + err.Error(), si, false
			}
			blocks := r.BlockMetadata[0].Blocks()
			if len(blocks) != len(s.Committed) {
				r.Close()
				return fmt.Sprintf("reader sees %d blocks, specification %d", len(blocks), len(s.Committed)), si, false
			}
			for bi, b := range blocks {
				id := s.Committed[bi]
				if b.Timestamp != TS(id) {
					r.Close()
					return fmt.Sprintf("block %d has timestamp %d, written for %d", bi, b.Timestamp, TS(id)), si, false
				}
				wr := all[id]
				for c := types.ColumnIndex(0); c < types.ColIdxCount; c++ {
					got, err := r.ReadBlockAtIndex(c, bi)
					if err != nil {
						r.Close()
						return fmt.Sprintf("read block %d (id %d) column %d (%s): %v", bi, id, c, class(sessPay(sess, id, int(c))), err), si, false
					}
					if !bytes.Equal(got, wr.data[c]) {
						r.Close()
						return fmt.Sprintf("block %d (id %d) column %d (%s): %d bytes read back differ from the %d bytes written", bi, id, c, class(sessPay(sess, id, int(c))), len(got), len(wr.data[c])), si, false
					}
				}
				if r.BlockTraffic[bi] != wr.traffic {
					r.Close()
					return fmt.Sprintf("block %d traffic metadata %v, written %v", bi, r.BlockTraffic[bi], wr.traffic), si, false
				}
			}
			if r.Traffic != tot.Traffic || r.Counts != tot.Counts {
				r.Close()
				return fmt.Sprintf("day totals %v/%v, written %v/%v", r.Traffic, r.Counts, tot.Traffic, tot.Counts), si, false
			}
			r.Close()
		}
	}
	return "", len(sess), false
}

func sessPay(sess []genSession, id, c int) genPay {
	for _, s := range sess {
		for bi, b := range s.Bs {
			if b == id {
				return s.Pays[bi][c%len(s.Pays[bi])]
			}
		}
	}
	return genPay{}
}

func cmdReplay(args []string) {
	fs := flag.NewFlagSet("store-replay", flag.ExitOnError)
	seed := fs.Uint64("seed", 1, "seed")
	root := fs.String("root", "", "scratch root")
	encName := fs.String("enc", "lz4", "encoder")
	level := fs.Int("level", 0, "level")
	big := fs.Bool("big", false, "large payloads (up to several 100 KiB)")
	fs.Parse(args)
	bigData = *big
	o := hx.NewOut(os.Stdout)
	defer o.Flush()
	n, bad, skipped, steps := 0, 0, 0, 0
	classes := map[string]int{}
	err := hx.Lines(os.Stdin, func(line []byte) error {
		var sess []genSession
		if err := json.Unmarshal(line, &sess); err != nil {
			return err
		}
		var fail string
		var at int
		var skip bool
		p := hx.Catch(func() { fail, at, skip = replayOne(*root, *seed, n, *encName, *level, sess) })
		if p != "" {
			fail = p
		}
		for _, s := range sess {
			for _, b := range s.Pays {
				for _, c := range b {
					classes[class(c)]++
				}
			}
		}
		if skip {
			skipped++
		} else if fail != "" {
			bad++
			cls := ""
			if i := strings.Index(fail, "("); i >= 0 && strings.Contains(fail, "column") {
				if j := strings.LastIndex(fail, "("); j >= 0 {
					cls = strings.SplitN(fail[j+1:], ")", 2)[0]
				}
			}
			o.Emit(map[string]any{"id": n, "ok": false, "step": at, "msg": fail, "desc": map[string]any{"enc": *encName, "class": cls}, "behaviour": json.RawMessage(line)})
		}
		steps += at
		n++
		return nil
	})
	if err != nil {
		hx.Die("store-replay: %v", err)
	}
	o.Emit(map[string]any{"summary": true, "behaviours": n, "failed": bad, "skipped": skipped, "sessions": steps, "classes": classes})
}
