//go:build verif

package store

import (
	"bytes"
	"context"
	"encoding/json"
	"flag"
	"fmt"
	"os"
	"path/filepath"
	"sort"
	"strconv"
	"strings"
	"sync"
	"time"

	"verifharness/internal/hx"

	"github.com/els0r/goProbe/v4/pkg/capture/capturetypes"
	"github.com/els0r/goProbe/v4/pkg/goDB"
	"github.com/els0r/goProbe/v4/pkg/goDB/encoder/encoders"
	"github.com/els0r/goProbe/v4/pkg/goDB/engine"
	"github.com/els0r/goProbe/v4/pkg/goDB/storage/gpfile"
	"github.com/els0r/goProbe/v4/pkg/query"
	"github.com/els0r/goProbe/v4/pkg/results"
	"github.com/els0r/goProbe/v4/pkg/types"
)

// Deterministic interleaving of a real writer (goDB.DBWriter) and a real reader (GPDir reader loop, or
// the whole query engine) on one database: the verif-tag gate in pkg/goDB/storage/gpfile blocks each
// of them before every file-system operation; the scheduler releases exactly one actor at a time and
// waits until it is parked at its next gate (or has finished). Every released gate is logged as the
// GPStore action it implements (C30, trace validation by GPStoreTrace.tla).

func init() { hx.Register("store-sched", cmdSched) }

type arrival struct {
	actor string // "w" or "r"
	point string
	done  bool
}

type sched struct {
	mu      sync.Mutex
	arrive  chan arrival
	resume  map[string]chan struct{}
	parked  map[string]string // actor -> point it is parked at ("" = running / not started, "done")
	timeout time.Duration
}

func newSched() *sched {
	return &sched{arrive: make(chan arrival, 16), resume: map[string]chan struct{}{"w": make(chan struct{}), "r": make(chan struct{})},
		parked: map[string]string{}, timeout: 20 * time.Second}
}

// gate is installed as gpfile's verification gate; it is also called by the harness' own reader loop.
func (s *sched) gate(point string) {
	actor := point[:1]
	s.arrive <- arrival{actor: actor, point: point}
	<-s.resume[actor]
}

// wait blocks until the given actor parks or finishes.
func (s *sched) wait(actor string) (arrival, bool) {
	t := time.NewTimer(s.timeout)
	defer t.Stop()
	for {
		select {
		case a := <-s.arrive:
			if a.done {
				s.parked[a.actor] = "done"
			} else {
				s.parked[a.actor] = a.point
			}
			if a.actor == actor {
				return a, true
			}
		case <-t.C:
			return arrival{}, false
		}
	}
}

// release lets the actor run until its next gate or its end.
func (s *sched) release(actor string) (arrival, bool) {
	s.parked[actor] = ""
	s.resume[actor] <- struct{}{}
	return s.wait(actor)
}

type schedEvent map[string]any

type schedRun struct {
	s        *sched
	db       string
	seed     uint64
	profile  string
	et       encoders.Type
	sessions [][]int
	events   []schedEvent
	readerKind string
	pre        int

	// reader result
	rres []blockObs
	rerr string
	qrows map[int64]results.Rows
}

func (r *schedRun) emit(e schedEvent) { r.events = append(r.events, e) }

// writer goroutine: all sessions, one after the other
func (r *schedRun) writer() {
	defer func() { r.s.arrive <- arrival{actor: "w", done: true} }()
	for _, ids := range r.sessions {
		var wls []goDB.BulkWorkload
		for _, id := range ids {
			m := FlowMap(FlowsFor(r.seed, id, r.profile))
			wls = append(wls, goDB.BulkWorkload{FlowMap: m, CaptureStats: capturetypes.CaptureStats{Dropped: uint64(1) << uint(id)}, Timestamp: TS(id)})
		}
		w := goDB.NewDBWriter(r.db, IFACE, r.et)
		var err error
		if len(wls) == 1 {
			err = w.Write(wls[0].FlowMap, wls[0].CaptureStats, wls[0].Timestamp)
		} else {
			err = w.WriteBulk(wls, TS(ids[0]))
		}
		res := "ok"
		if err != nil {
			res = "err:" + err.Error()
		}
		r.s.gate("w.return:" + res)
	}
}

// IFACE is the interface name used by the scheduler runs.
const IFACE = "eth0"

// gpdirReader mimics what a query worker does with one day directory, using only the real GPDir API:
// list the month directory, open the day with the suffix found, read every block of every column.
func (r *schedRun) gpdirReader() {
	defer func() { r.s.arrive <- arrival{actor: "r", done: true} }()
	t := time.Unix(Day0, 0).UTC()
	month := filepath.Join(r.db, IFACE, strconv.Itoa(t.Year()), fmt.Sprintf("%02d", int(t.Month())))
	r.s.gate("r.list")
	ents, _ := os.ReadDir(month)
	var name string
	for _, e := range ents {
		if strings.HasPrefix(e.Name(), strconv.FormatInt(Day0, 10)) {
			name = e.Name()
		}
	}
	if name == "" {
		return
	}
	_, suffix, _ := gpfile.ExtractTimestampMetadataSuffix(name)
	p := hx.Catch(func() {
		d := gpfile.NewDirReader(filepath.Join(r.db, IFACE), Day0, suffix)
		if err := d.Open(); err != nil {
			r.rerr = "open: " + err.Error()
			return
		}
		defer d.Close()
		blocks := d.BlockMetadata[0].Blocks()
		for bi, b := range blocks {
			id := IDOf(b.Timestamp)
			bo := blockObs{ID: id, OK: id > 0}
			var want [types.ColIdxCount][]byte
			if id > 0 {
				want = Columns(FlowMap(FlowsFor(r.seed, id, r.profile)))
			}
			for c := types.ColumnIndex(0); c < types.ColIdxCount; c++ {
				r.s.gate(fmt.Sprintf("r.call:%d:%d", bi+1, int(c)+1))
				got, err := d.ReadBlockAtIndex(c, bi)
				if err != nil {
					// the engine marks the block as corrupted and goes on; for the property a block of
					// a completed write-out that cannot be read is damage
					bo.OK = false
					if r.rerr == "" && !d.IsOpen() {
						r.rerr = "read: " + err.Error()
					}
					continue
				}
				if !bytes.Equal(got, want[c]) {
					bo.OK = false
				}
			}
			r.rres = append(r.rres, bo)
			if r.rerr != "" {
				return
			}
		}
	})
	if p != "" {
		r.rerr = p
	}
}

// queryReader runs the whole query engine (directory walk, work manager, workers, aggregation).
func (r *schedRun) queryReader() {
	defer func() { r.s.arrive <- arrival{actor: "r", done: true} }()
	p := hx.Catch(func() {
		if _, err := os.Stat(filepath.Join(r.db, IFACE)); err != nil {
			return
		}
		a := &query.Args{Query: "time,sip,dip,dport,proto", Ifaces: IFACE, First: strconv.FormatInt(Day0-86400, 10),
			Last: strconv.FormatInt(Day0+2*86400, 10), Format: "json", NumResults: 100000000, MaxMemPct: 90, LowMem: r.readerKind == "query-lowmem"}
		res, err := engine.NewQueryRunner(r.db).Run(context.Background(), a)
		if err != nil {
			r.rerr = err.Error()
			return
		}
		if res.Summary.Stats.BlocksCorrupted > 0 {
			r.rerr = fmt.Sprintf("query skipped %d corrupted blocks", res.Summary.Stats.BlocksCorrupted)
		}
		byTS := map[int64]results.Rows{}
		for _, row := range res.Rows {
			byTS[row.Labels.Timestamp.Unix()] = append(byTS[row.Labels.Timestamp.Unix()], row)
		}
		var tss []int64
		for ts := range byTS {
			tss = append(tss, ts)
		}
		sort.Slice(tss, func(i, j int) bool { return tss[i] < tss[j] })
		for _, ts := range tss {
			id := IDOf(ts)
			bo := blockObs{ID: id, OK: id > 0}
			if id > 0 {
				want := map[string]types.Counters{}
				for _, f := range FlowsFor(r.seed, id, r.profile) {
					want[string(f.Key())] = f.C
				}
				rows := byTS[ts]
				if len(rows) != len(want) {
					bo.OK = false
				}
				for _, row := range rows {
					dp := []byte{byte(row.Attributes.DstPort >> 8), byte(row.Attributes.DstPort)}
					k := types.NewKey(row.Attributes.SrcIP.AsSlice(), row.Attributes.DstIP.AsSlice(), dp, row.Attributes.IPProto)
					if c, ok := want[string(k)]; !ok || c != row.Counters {
						bo.OK = false
					}
				}
			}
			r.rres = append(r.rres, bo)
		}
	})
	if p != "" {
		r.rerr = p
	}
}

// run executes one schedule. policy decides, given the step number and which actors can move, who moves.
func (r *schedRun) run(policy func(step int, canW, canR bool, wPoint, rPoint string) string) (ok bool, why string) {
	s := r.s
	gpfile.SetVerifGate(s.gate)
	defer gpfile.SetVerifGate(nil)
	go r.writer()
	if _, ok := s.wait("w"); !ok {
		return false, "writer did not reach its first gate"
	}
	readerStarted := false
	sess := 0
	afterOpenCol := false
	inCall := false
	curI, curC := 0, 0
	step := 0
	wDoneCount := 0
	for {
		wp, rp := s.parked["w"], s.parked["r"]
		canW := wp != "done" && wp != ""
		canR := (!readerStarted && wDoneCount >= r.pre) || (readerStarted && rp != "done" && rp != "")
		if !canW && !canR {
			break
		}
		who := policy(step, canW, canR, wp, rp)
		if inCall && canR {
			who = "r" // a ReadBlockAtIndex call in progress is one model step: no switch inside it
		}
		step++
		if who == "r" && !readerStarted {
			readerStarted = true
			if r.readerKind == "gpdir" {
				go r.gpdirReader()
			} else {
				go r.queryReader()
			}
			if _, ok := s.wait("r"); !ok {
				return false, "reader did not start"
			}
			r.emit(schedEvent{"ev": "R_Start", "kind": r.readerKind})
			continue
		}
		point := s.parked[who]
		// ---- log the action that is about to execute
		if who == "w" {
			switch {
			case point == "w.list":
				ids := r.sessions[sess]
				type blk struct {
					ID   int      `json:"id"`
					Pays [][2]int `json:"pays"`
				}
				var pays [][][2]int
				for _, id := range ids {
					pays = append(pays, Sizes(Columns(FlowMap(FlowsFor(r.seed, id, r.profile))), r.et, 0))
				}
				r.emit(schedEvent{"ev": "W_Begin", "bs": ids, "pays": pays})
			case point == "w.mkdir":
				r.emit(schedEvent{"ev": "W_Mkdir"})
			case point == "w.openmeta":
				r.emit(schedEvent{"ev": "W_OpenMetaAny"})
			case point == "w.opencol":
				r.emit(schedEvent{"ev": "W_OpenColAny"})
				afterOpenCol = true
			case point == "w.seek":
				if !afterOpenCol {
					r.emit(schedEvent{"ev": "W_SeekAny"})
				}
				afterOpenCol = false
			case point == "w.write":
				r.emit(schedEvent{"ev": "W_WriteAny"})
			case point == "w.mktmp":
				r.emit(schedEvent{"ev": "W_CreateTmp"})
			case point == "w.wrtmp":
				r.emit(schedEvent{"ev": "W_WriteTmp"})
			case point == "w.renmeta":
				r.emit(schedEvent{"ev": "W_RenameMeta"})
			case point == "w.rendir":
				r.emit(schedEvent{"ev": "W_RenameDir"})
			case strings.HasPrefix(point, "w.return:"):
				res := strings.TrimPrefix(point, "w.return:")
				if res != "ok" {
					r.emit(schedEvent{"ev": "W_Return", "res": "err", "msg": res})
				} else {
					r.emit(schedEvent{"ev": "W_Return", "res": "ok", "msg": ""})
				}
				sess++
				wDoneCount++
			}
		} else if r.readerKind != "gpdir" {
			r.emit(schedEvent{"ev": "Q_Step", "point": point})
		} else {
			switch {
			case point == "r.list":
				r.emit(schedEvent{"ev": "R_List"})
			case point == "r.openmeta":
				r.emit(schedEvent{"ev": "R_OpenMeta"})
			case point == "r.recoverlist":
				r.emit(schedEvent{"ev": "R_RecoverList"})
			case point == "r.reopenmeta":
				r.emit(schedEvent{"ev": "R_ReopenMeta"})
			case strings.HasPrefix(point, "r.call:"):
				fmt.Sscanf(point, "r.call:%d:%d", &curI, &curC)
				r.emit(schedEvent{"ev": "R_Read", "i": curI, "c": curC})
				inCall = true
			case !inCall && curI > 0 && (point == "r.opencol" || point == "r.seek" || point == "r.read"):
				// the retry of the pending ReadBlockAtIndex call after a path recovery
				r.emit(schedEvent{"ev": "R_Read", "i": curI, "c": curC})
				inCall = true
			}
		}
		a, ok := s.release(who)
		if !ok {
			return false, fmt.Sprintf("%s did not park again after %s (deadlock or hang in the code under test)", who, point)
		}
		if who == "r" {
			// inside a read call the file gates (opencol/seek/read/close) are not model steps of their own
			if a.done || strings.HasPrefix(a.point, "r.call:") || a.point == "r.openmeta" || a.point == "r.recoverlist" || r.readerKind != "gpdir" {
				inCall = false
			}
			if a.done {
				rr := r.rres
				if rr == nil {
					rr = []blockObs{}
				}
				r.emit(schedEvent{"ev": "R_Done", "res": rr, "err": truncate(r.rerr, 300), "kind": r.readerKind})
			}
		}
	}
	return true, ""
}

func truncate(s string, n int) string {
	if len(s) > n {
		return s[:n]
	}
	return s
}

// cmdSched runs a batch of schedules: one JSON line per schedule on stdin
// {"x":id,"sessions":[[1],[2]],"pre":[[..]],"policy":{"kind":"random","seed":n,"pr":30} |
//  {"kind":"insert-reader","at":k} | {"kind":"insert-writer","at":k}, "reader":"gpdir"|"query"|"query-lowmem"}
// and prints {"x":id,"events":[...]} per schedule.
func cmdSched(args []string) {
	fs := flag.NewFlagSet("store-sched", flag.ExitOnError)
	root := fs.String("root", "", "scratch root")
	seed := fs.Uint64("seed", 1, "data seed")
	profile := fs.String("profile", "m", "size profile")
	encName := fs.String("enc", "lz4", "encoder")
	fs.Parse(args)
	et, err := encoders.GetTypeByString(*encName)
	if err != nil {
		hx.Die("%v", err)
	}
	o := hx.NewOut(os.Stdout)
	defer o.Flush()
	n := 0
	err = hx.Lines(os.Stdin, func(line []byte) error {
		var in struct {
			X        int     `json:"x"`
			Sessions [][]int `json:"sessions"`
			Pre      int     `json:"pre"` // number of sessions that must have returned before the reader may start
			Reader   string  `json:"reader"`
			Policy   struct {
				Kind string `json:"kind"`
				Seed uint64 `json:"seed"`
				Pr   int    `json:"pr"`
				At     int      `json:"at"`
				Script []string `json:"script"` // "r"/"w": one step; "W": writer up to and including its next return; "R": reader to its end
			} `json:"policy"`
		}
		if err := json.Unmarshal(line, &in); err != nil {
			return err
		}
		db := filepath.Join(*root, fmt.Sprintf("s%06d", n))
		n++
		os.MkdirAll(db, 0o755)
		defer os.RemoveAll(db)
		r := &schedRun{s: newSched(), db: db, seed: *seed, profile: *profile, et: et, sessions: in.Sessions, readerKind: in.Reader, pre: in.Pre}
		r.emit(schedEvent{"ev": "Reset", "x": in.X})
		rng := hx.NewRNG(in.Policy.Seed)
		wSteps, rSteps := 0, 0
		script := append([]string{}, in.Policy.Script...)
		policy := func(step int, canW, canR bool, wp, rp string) string {
			pick := "w"
			switch in.Policy.Kind {
			case "script":
				if !canR && rSteps == 0 {
					break // sessions that must finish before the reader may start: the script has not begun
				}
				for len(script) > 0 {
					tok := script[0]
					if tok == "r" || tok == "w" {
						script = script[1:]
						pick = tok
						break
					}
					if tok == "W" {
						if !canW {
							script = script[1:]
							continue
						}
						if strings.HasPrefix(wp, "w.return:") {
							script = script[1:]
						}
						pick = "w"
						break
					}
					if tok == "R" {
						if !canR {
							script = script[1:]
							continue
						}
						pick = "r"
						break
					}
					script = script[1:]
				}
			case "insert-reader": // writer runs `at` steps, then the reader runs to completion, then the writer finishes
				if wSteps >= in.Policy.At && canR {
					pick = "r"
				}
			case "insert-writer": // reader runs `at` steps, then the writer runs to completion, then the reader finishes
				if rSteps < in.Policy.At && canR {
					pick = "r"
				}
			default:
				if rng.Intn(100) < in.Policy.Pr {
					pick = "r"
				}
			}
			if pick == "w" && !canW {
				pick = "r"
			}
			if pick == "r" && !canR {
				pick = "w"
			}
			if pick == "w" {
				wSteps++
			} else {
				rSteps++
			}
			return pick
		}
		ok, why := r.run(policy)
		out := map[string]any{"x": in.X, "events": r.events, "ok": ok, "why": why}
		o.Emit(out)
		if !ok {
			// a hung goroutine still holds the gate: give up on this process
			o.Flush()
			os.Exit(3)
		}
		return nil
	})
	if err != nil {
		hx.Die("store-sched: %v", err)
	}
}
