package store

import (
	"context"
	"encoding/json"
	"flag"
	"fmt"
	"os"
	"path/filepath"
	"runtime"
	"sort"
	"strconv"
	"strings"
	"time"

	"verifharness/internal/hx"

	"github.com/els0r/goProbe/v4/pkg/capture/capturetypes"
	"github.com/els0r/goProbe/v4/pkg/goDB"
	"github.com/els0r/goProbe/v4/pkg/goDB/encoder/encoders"
	"github.com/els0r/goProbe/v4/pkg/goDB/engine"
	"github.com/els0r/goProbe/v4/pkg/goDB/info"
	"github.com/els0r/goProbe/v4/pkg/query"
	"github.com/els0r/goProbe/v4/pkg/results"
	"github.com/els0r/goProbe/v4/pkg/types"
)

// Binding of spec/mergecommit/MergeCommit.tla (C25): build a source and a destination database, run the
// real goDB.MergeDatabases in a child (under strace, killed at a chosen system call), observe the
// destination through the query engine, the interface listing and a second merge.

func init() {
	hx.Register("merge-setup", cmdMergeSetup)
	hx.Register("merge-run", cmdMergeRun)
	hx.Register("merge-observe", cmdMergeObserve)
}

// block ids 1..4 live on day 1, ids 5.. on day 2
func mergeTS(id int) int64 {
	if id >= 5 {
		return Day0 + 86400 + 300*int64(id)
	}
	return Day0 + 300*int64(id)
}

func mergeIDOf(ts int64) int {
	for id := 1; id <= 9; id++ {
		if mergeTS(id) == ts {
			return id
		}
	}
	return -1
}

func writeBlocksTo(db string, seed uint64, ids []int) {
	for _, id := range ids {
		w := goDB.NewDBWriter(db, IFACE, encoders.EncoderTypeLZ4)
		if err := w.Write(FlowMap(FlowsFor(seed, id, "s")), capturetypes.CaptureStats{Dropped: uint64(1) << uint(id)}, mergeTS(id)); err != nil {
			hx.Die("merge setup: %v", err)
		}
	}
}

// merge-setup: dst holds day 1 = {1,2}; src holds day 1 = {3,4} and day 2 = {5,6}
func cmdMergeSetup(args []string) {
	fs := flag.NewFlagSet("merge-setup", flag.ExitOnError)
	root := fs.String("root", "", "directory that receives src/ and dst/")
	seed := fs.Uint64("seed", 1, "seed")
	fs.Parse(args)
	writeBlocksTo(filepath.Join(*root, "dst"), *seed, []int{1, 2})
	writeBlocksTo(filepath.Join(*root, "src"), *seed, []int{3, 4, 5, 6})
}

func mergeOpts(root string, overwrite bool) goDB.MergeOptions {
	o := goDB.MergeOptions{SourcePath: filepath.Join(root, "src"), DestinationPath: filepath.Join(root, "dst"), Overwrite: overwrite}
	if overwrite {
		o.CompleteTolerance = 48 * time.Hour // every day counts as complete: existing days are replaced by a copy
	}
	return o
}

func cmdMergeRun(args []string) {
	fs := flag.NewFlagSet("merge-run", flag.ExitOnError)
	root := fs.String("root", "", "directory holding src/ and dst/")
	overwrite := fs.Bool("overwrite", false, "overwrite mode (complete source days replace destination days)")
	fs.Parse(args)
	runtime.LockOSThread()
	marker(map[string]any{"ev": "M_Begin", "overwrite": *overwrite})
	sum, err := goDB.MergeDatabases(context.Background(), mergeOpts(*root, *overwrite))
	res, msg := "ok", ""
	if err != nil {
		res, msg = "err", err.Error()
	}
	marker(map[string]any{"ev": "M_Return", "res": res, "msg": msg, "copied": sum.DaysCopied, "rebuilt": sum.DaysRebuilt, "skipped": sum.DaysSkipped})
}

type mergeObs struct {
	Ev         string           `json:"ev"`
	QueryErr   string           `json:"query_err"`
	Days       map[string][]int `json:"days"`       // per day ("1","2"): ids of the blocks whose rows are exactly as written
	Doubled    map[string][]int `json:"doubled"`    // blocks whose rows appear with exactly doubled counters (counted twice)
	Other      map[string]int   `json:"other"`      // blocks with rows that are neither
	Ifaces     []string         `json:"ifaces"`     // interface listing of the destination root
	AnyErr     string           `json:"any_err"`    // query over all listed interfaces ("any")
	RemergeErr string           `json:"remerge_err"` // a later merge of the same source (only with -remerge)
	AfterDays  map[string][]int `json:"after_days"` // day contents after the later merge
	AfterErr   string           `json:"after_err"`
}

func queryDays(db, ifaces string, seed uint64) (map[string][]int, map[string][]int, map[string]int, string) {
	days := map[string][]int{"1": {}, "2": {}}
	dbl := map[string][]int{"1": {}, "2": {}}
	other := map[string]int{"1": 0, "2": 0}
	var qerr string
	p := hx.Catch(func() {
		a := &query.Args{Query: "time,sip,dip,dport,proto", Ifaces: ifaces, First: strconv.FormatInt(Day0-86400, 10),
			Last: strconv.FormatInt(Day0+5*86400, 10), Format: "json", NumResults: 100000000, MaxMemPct: 90}
		r, err := engine.NewQueryRunner(db).Run(context.Background(), a)
		if err != nil {
			qerr = err.Error()
			return
		}
		byTS := map[int64]results.Rows{}
		for _, row := range r.Rows {
			byTS[row.Labels.Timestamp.Unix()] = append(byTS[row.Labels.Timestamp.Unix()], row)
		}
		for ts, rows := range byTS {
			id := mergeIDOf(ts)
			day := "1"
			if ts >= Day0+86400 {
				day = "2"
			}
			if id < 0 {
				other[day]++
				continue
			}
			want := map[string]types.Counters{}
			for _, f := range FlowsFor(seed, id, "s") {
				want[string(f.Key())] = f.C
			}
			exact, double := len(rows) == len(want), len(rows) == len(want)
			for _, row := range rows {
				dp := []byte{byte(row.Attributes.DstPort >> 8), byte(row.Attributes.DstPort)}
				k := types.NewKey(row.Attributes.SrcIP.AsSlice(), row.Attributes.DstIP.AsSlice(), dp, row.Attributes.IPProto)
				c, ok := want[string(k)]
				if !ok || c != row.Counters {
					exact = false
				}
				c2 := c
				c2.Add(c)
				if !ok || c2 != row.Counters {
					double = false
				}
			}
			switch {
			case exact:
				days[day] = append(days[day], id)
			case double:
				dbl[day] = append(dbl[day], id)
			default:
				other[day]++
			}
		}
	})
	if p != "" {
		qerr = "panic: " + p
	}
	for _, m := range []map[string][]int{days, dbl} {
		for k := range m {
			sort.Ints(m[k])
		}
	}
	return days, dbl, other, qerr
}

func cmdMergeObserve(args []string) {
	fs := flag.NewFlagSet("merge-observe", flag.ExitOnError)
	root := fs.String("root", "", "directory holding src/ and dst/")
	seed := fs.Uint64("seed", 1, "seed")
	overwrite := fs.Bool("overwrite", false, "mode of the later merge")
	remerge := fs.Bool("remerge", false, "also run a later merge and observe again")
	fs.Parse(args)
	dst := filepath.Join(*root, "dst")
	o := mergeObs{Ev: "Observe", Ifaces: []string{}}
	o.Days, o.Doubled, o.Other, o.QueryErr = queryDays(dst, IFACE, *seed)
	if ifs, err := info.GetInterfaces(dst); err == nil {
		o.Ifaces = ifs
	}
	_, _, _, o.AnyErr = queryDays(dst, "any", *seed)
	if *remerge {
		if _, err := goDB.MergeDatabases(context.Background(), mergeOpts(*root, *overwrite)); err != nil {
			o.RemergeErr = err.Error()
		}
		o.AfterDays, _, _, o.AfterErr = queryDays(dst, IFACE, *seed)
	}
	for _, s := range []*string{&o.QueryErr, &o.AnyErr, &o.RemergeErr, &o.AfterErr} {
		if len(*s) > 300 {
			*s = (*s)[:300]
		}
		*s = strings.ReplaceAll(*s, *root, "<root>")
	}
	b, _ := json.Marshal(o)
	fmt.Println(string(b))
}

var _ = os.Stat
