package store

import (
	"context"
	"encoding/json"
	"flag"
	"fmt"
	"os"
	"os/exec"
	"path/filepath"
	"runtime"
	"strconv"
	"strings"
	"time"

	"verifharness/internal/hx"

	"github.com/els0r/goProbe/v4/pkg/capture/capturetypes"
	"github.com/els0r/goProbe/v4/pkg/goDB"
	"github.com/els0r/goProbe/v4/pkg/goDB/encoder/encoders"
	"github.com/els0r/goProbe/v4/pkg/goDB/engine"
	"github.com/els0r/goProbe/v4/pkg/query"
	"github.com/els0r/goProbe/v4/pkg/types"
)

// Binding of spec/store/Damage.tla (C06): a three-day database, one or more damaged files, then the
// real query engine; undamaged days must come back exactly, nothing may crash or hang.

func init() { hx.Register("store-damage", cmdDamage) }

const dmgDays = 3
const dmgBlocks = 3

func gid(day, blk int) int   { return day*8 + blk } // day 1..3, blk 1..3  -> distinct generator ids (< 31)
func dmgTS(day, blk int) int64 { return Day0 + int64(day-1)*86400 + 300*int64(blk) }

type dmgCase struct {
	Damaged []struct {
		Day    int    `json:"day"`
		File   string `json:"file"`
		Kind   string `json:"kind"`
		Region string `json:"region"`
	} `json:"damaged"`
	Outcome []string `json:"outcome"`
	K       int      `json:"k"` // concretisation number
}

func buildBase(db string, seed uint64, profile string, et encoders.Type) {
	for d := 1; d <= dmgDays; d++ {
		for b := 1; b <= dmgBlocks; b++ {
			m := FlowMap(FlowsFor(seed, gid(d, b), profile))
			w := goDB.NewDBWriter(db, IFACE, et)
			if err := w.Write(m, capturetypes.CaptureStats{Dropped: uint64(1) << uint(gid(d, b))}, dmgTS(d, b)); err != nil {
				hx.Die("damage base: %v", err)
			}
		}
	}
}

func dayDirFor(db string, day int) string {
	t := time.Unix(Day0+int64(day-1)*86400, 0).UTC()
	month := filepath.Join(db, IFACE, strconv.Itoa(t.Year()), fmt.Sprintf("%02d", int(t.Month())))
	ents, _ := os.ReadDir(month)
	pre := strconv.FormatInt(Day0+int64(day-1)*86400, 10)
	for _, e := range ents {
		if strings.HasPrefix(e.Name(), pre) {
			return filepath.Join(month, e.Name())
		}
	}
	return ""
}

func fileFor(dir, file string) string {
	if file == "meta" {
		return filepath.Join(dir, ".blockmeta")
	}
	var c int
	fmt.Sscanf(file, "col%d", &c)
	return filepath.Join(dir, ColName(c-1))
}

func applyDamage(db string, rng *hx.RNG, day int, file, kind, region string) {
	dir := dayDirFor(db, day)
	p := fileFor(dir, file)
	data, _ := os.ReadFile(p)
	n := len(data)
	lo, hi := 0, n
	switch region {
	case "head":
		hi = min(n, 16)
	case "first-block":
		lo, hi = min(n, 16), max(min(n, 16), n/3)
	case "mid":
		lo, hi = n/3, max(n/3, 2*n/3)
	case "last-block":
		lo = 2 * n / 3
	}
	if hi <= lo {
		lo, hi = 0, n
	}
	pos := lo
	if hi > lo {
		pos = lo + rng.Intn(hi-lo)
	}
	switch kind {
	case "truncate":
		os.WriteFile(p, data[:pos], 0o644)
	case "bitflip":
		if n > 0 {
			for k := 0; k < 1+rng.Intn(3); k++ {
				q := lo + rng.Intn(max(1, hi-lo))
				if q < n {
					data[q] ^= 1 << uint(rng.Intn(8))
				}
			}
			os.WriteFile(p, data, 0o644)
		}
	case "garbage":
		g := rng.Bytes(8 + rng.Intn(56))
		for i, b := range g {
			if pos+i < n {
				data[pos+i] = b
			}
		}
		os.WriteFile(p, data, 0o644)
	case "swap-column":
		other := 1 + rng.Intn(int(types.ColIdxCount))
		od, _ := os.ReadFile(fileFor(dir, fmt.Sprintf("col%d", other)))
		os.WriteFile(p, od, 0o644)
	case "swap-day":
		od, _ := os.ReadFile(fileFor(dayDirFor(db, day%dmgDays+1), file))
		os.WriteFile(p, od, 0o644)
	case "missing":
		os.Remove(p)
	case "zero-length":
		os.WriteFile(p, nil, 0o644)
	case "grow":
		os.WriteFile(p, append(data, rng.Bytes(1+rng.Intn(5000))...), 0o644)
	case "field-ones":
		off, width := pos, 4
		if file == "meta" {
			// layout: 72-byte header, per column 8 + 9*nBlocks (len u32, raw len u32, encoder u8), first timestamp, 16 per block
			nb := dmgBlocks
			col, blk := rng.Intn(int(types.ColIdxCount)), rng.Intn(nb)
			base := 72 + col*(8+9*nb) + 8 + 9*blk
			switch region {
			case "head":
				off, width = 16+8*rng.Intn(7), 8 // one of the day totals
			case "first-block":
				off, width = base+4*rng.Intn(2), 4 // a block length / raw length
			case "mid":
				off, width = base+8, 1 // the encoder type byte
			default:
				off, width = 72+int(types.ColIdxCount)*(8+9*nb)+8+16*blk+4*rng.Intn(4), 4 // flow counts / drops / timestamp delta
			}
		}
		for i := 0; i < width && off+i < n; i++ {
			data[off+i] = 0xff
		}
		os.WriteFile(p, data, 0o644)
	}
}

type dmgResult struct {
	Err       string
	Panic     string
	Hang      bool
	Blocks    map[int64]bool // timestamp -> rows exact
	Corrupted int
	Processed int
}

func runQuery(db string, seed uint64, profile string, lowMem bool) dmgResult {
	res := dmgResult{Blocks: map[int64]bool{}}
	done := make(chan struct{})
	go func() {
		defer close(done)
		res.Panic = hx.Catch(func() {
			a := &query.Args{Query: "time,sip,dip,dport,proto", Ifaces: IFACE, First: strconv.FormatInt(Day0-86400, 10),
				Last: strconv.FormatInt(Day0+5*86400, 10), Format: "json", NumResults: 100000000, MaxMemPct: 90, LowMem: lowMem}
			r, err := engine.NewQueryRunner(db).Run(context.Background(), a)
			if err != nil {
				res.Err = err.Error()
				return
			}
			res.Corrupted = int(r.Summary.Stats.BlocksCorrupted)
			res.Processed = int(r.Summary.Stats.BlocksProcessed)
			byTS := map[int64][]int{}
			for i, row := range r.Rows {
				byTS[row.Labels.Timestamp.Unix()] = append(byTS[row.Labels.Timestamp.Unix()], i)
			}
			for d := 1; d <= dmgDays; d++ {
				for b := 1; b <= dmgBlocks; b++ {
					ts := dmgTS(d, b)
					idx, ok := byTS[ts]
					if !ok {
						continue
					}
					want := map[string]types.Counters{}
					for _, f := range FlowsFor(seed, gid(d, b), profile) {
						want[string(f.Key())] = f.C
					}
					exact := len(idx) == len(want)
					for _, i := range idx {
						row := r.Rows[i]
						dp := []byte{byte(row.Attributes.DstPort >> 8), byte(row.Attributes.DstPort)}
						k := types.NewKey(row.Attributes.SrcIP.AsSlice(), row.Attributes.DstIP.AsSlice(), dp, row.Attributes.IPProto)
						if c, ok := want[string(k)]; !ok || c != row.Counters {
							exact = false
						}
					}
					res.Blocks[ts] = exact
					delete(byTS, ts)
				}
			}
			for ts := range byTS {
				res.Blocks[ts] = false // rows under a timestamp that was never written
			}
		})
	}()
	select {
	case <-done:
	case <-time.After(60 * time.Second):
		res.Hang = true
	}
	return res
}

func cmdDamage(args []string) {
	fs := flag.NewFlagSet("store-damage", flag.ExitOnError)
	root := fs.String("root", "", "scratch root")
	seed := fs.Uint64("seed", 1, "seed")
	profile := fs.String("profile", "s", "size profile")
	encName := fs.String("enc", "lz4", "encoder")
	fs.Parse(args)
	et, err := encoders.GetTypeByString(*encName)
	if err != nil {
		hx.Die("%v", err)
	}
	base := filepath.Join(*root, "base")
	os.MkdirAll(base, 0o755)
	buildBase(base, *seed, *profile, et)
	o := hx.NewOut(os.Stdout)
	defer o.Flush()
	n, bad := 0, 0
	stats := map[string]int{}
	err = hx.Lines(os.Stdin, func(line []byte) error {
		var c dmgCase
		if err := json.Unmarshal(line, &c); err != nil {
			return err
		}
		db := filepath.Join(*root, fmt.Sprintf("d%06d", n))
		o.Emit(map[string]any{"begin": n})
		o.Flush() // a crash of the code under test in a goroutine of its own kills this process: the driver must know where
		n++
		if out, err := exec.Command("cp", "-a", base, db).CombinedOutput(); err != nil {
			hx.Die("cp: %v %s", err, out)
		}
		defer os.RemoveAll(db)
		rng := hx.NewRNG(*seed*977 + uint64(n)*13 + uint64(c.K))
		for _, d := range c.Damaged {
			applyDamage(db, rng, d.Day, d.File, d.Kind, d.Region)
		}
		for _, lowMem := range []bool{false, true} {
			r := runQuery(db, *seed, *profile, lowMem)
			fail, cls := "", ""
			kind, file := "none", "none"
			if len(c.Damaged) > 0 {
				kind, file = c.Damaged[0].Kind, "column"
				for _, d := range c.Damaged {
					if d.File == "meta" {
						kind, file = d.Kind, "meta"
						break
					}
				}
			}
			switch {
			case r.Hang:
				buf := make([]byte, 1<<20)
				buf = buf[:runtime.Stack(buf, true)]
				dump := string(buf)
				if i := strings.Index(dump, "goProbe/v4/pkg/goDB"); i > 600 {
					dump = dump[i-600:]
				}
				fail, cls = "query did not return within 60 s; goroutines:\n"+dump, "hang"
			case r.Panic != "":
				fail, cls = r.Panic, "panic"
			default:
				for d := 1; d <= dmgDays; d++ {
					allowed := c.Outcome[d-1]
					missing := 0
					for b := 1; b <= dmgBlocks; b++ {
						exact, present := r.Blocks[dmgTS(d, b)]
						if allowed == "exact" && (!present || !exact) {
							fail = fmt.Sprintf("day %d is undamaged but block %d is %s (query error: %q)", d, b, map[bool]string{true: "altered", false: "missing"}[present], r.Err)
							cls = "undamaged-day-affected"
							if r.Err != "" {
								cls = "query-fails-entirely"
							}
						}
						if !present {
							missing++
						}
					}
					if fail == "" && allowed == "subset" && r.Err == "" && missing > r.Corrupted {
						fail = fmt.Sprintf("day %d: %d blocks missing from the result but statistics count only %d corrupted blocks", d, missing, r.Corrupted)
						cls = "skipped-blocks-not-counted"
					}
				}
				for ts, exact := range r.Blocks {
					if IDOfAny(ts) == 0 && !exact && fail == "" && file != "meta" {
						fail, cls = fmt.Sprintf("rows under timestamp %d that was never written", ts), "phantom-block"
					}
				}
			}
			stats[fmt.Sprintf("err=%v", r.Err != "")]++
			if fail != "" {
				bad++
				if len(fail) > 6000 {
					fail = fail[:6000]
				}
				o.Emit(map[string]any{"id": n - 1, "ok": false, "msg": fail, "desc": map[string]any{"cls": cls, "file": file, "kind": kind, "lowmem": lowMem}, "case": c})
				if r.Hang {
					o.Flush()
					os.Exit(3)
				}
				break
			}
		}
		return nil
	})
	if err != nil {
		hx.Die("store-damage: %v", err)
	}
	o.Emit(map[string]any{"summary": true, "cases": n, "failed": bad, "stats": stats})
}

// IDOfAny returns 1 if ts is one of the written block timestamps, 0 otherwise.
func IDOfAny(ts int64) int {
	for d := 1; d <= dmgDays; d++ {
		for b := 1; b <= dmgBlocks; b++ {
			if dmgTS(d, b) == ts {
				return 1
			}
		}
	}
	return 0
}
