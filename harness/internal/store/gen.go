// Package store binds spec/store/GPStore.tla to the goDB storage layer
// (pkg/goDB/storage/gpfile, pkg/goDB.DBWriter, query engine, interface listing).
package store

import (
	"encoding/binary"
	"fmt"
	"io"

	"verifharness/internal/hx"

	"github.com/els0r/goProbe/v4/pkg/goDB/encoder"
	"github.com/els0r/goProbe/v4/pkg/goDB/encoder/encoders"
	"github.com/els0r/goProbe/v4/pkg/types"
	"github.com/els0r/goProbe/v4/pkg/types/hashmap"
	"github.com/fako1024/gotools/bitpack"
)

// Day0 is the (day aligned) timestamp of the modelled day; block id i is written for Day0+300*i.
const Day0 = int64(1700006400)

// TS maps a model block id to its timestamp.
func TS(id int) int64 { return Day0 + 300*int64(id) }

// IDOf maps a timestamp back to the model block id (-1 if it is none).
func IDOf(ts int64) int {
	d := ts - Day0
	if d <= 0 || d%300 != 0 || d/300 > 280 {
		return -1
	}
	return int(d / 300)
}

// Flow is one generated flow record.
type Flow struct {
	V4    bool
	SIP   []byte
	DIP   []byte
	Dport uint16
	Proto byte
	C     types.Counters
}

// Key returns the goDB key of the flow.
func (f Flow) Key() types.Key {
	dp := []byte{byte(f.Dport >> 8), byte(f.Dport)}
	if f.V4 {
		return types.NewV4Key(f.SIP, f.DIP, dp, f.Proto)
	}
	return types.NewV6Key(f.SIP, f.DIP, dp, f.Proto)
}

// NFlows is the number of flows of block id under a size profile: "s" small blocks (all columns
// far below the 4 KiB write buffer), "l" large (address columns beyond it), "m" alternating.
func NFlows(profile string, id int) int {
	switch profile {
	case "s":
		return 3 + id%4
	case "l":
		return 1400 + 37*id
	default:
		if id%2 == 0 {
			return 1300 + 11*id
		}
		return 2 + id%5
	}
}

// FlowsFor generates the flows of a block deterministically from (seed, id). Addresses are random
// (incompressible columns), ports/protocols come from small sets (compressible columns). All keys
// of one block are distinct; counters stay small enough for 32-bit sums in TLC.
func FlowsFor(seed uint64, id int, profile string) []Flow {
	rng := hx.NewRNG(seed*7919 + uint64(id)*104729 + 17)
	n := NFlows(profile, id)
	seen := map[string]bool{}
	var fl []Flow
	for len(fl) < n {
		f := Flow{V4: rng.Intn(4) != 0}
		if f.V4 {
			f.SIP, f.DIP = rng.Bytes(4), rng.Bytes(4)
		} else {
			f.SIP, f.DIP = rng.Bytes(16), rng.Bytes(16)
		}
		f.Dport = []uint16{53, 80, 443, 8080, 22}[rng.Intn(5)]
		f.Proto = []byte{6, 17, 1}[rng.Intn(3)]
		f.C = types.Counters{BytesRcvd: uint64(40 + rng.Intn(1400)), BytesSent: uint64(rng.Intn(900)),
			PacketsRcvd: uint64(1 + rng.Intn(9)), PacketsSent: uint64(rng.Intn(7))}
		k := string(f.Key())
		if seen[k] {
			continue
		}
		seen[k] = true
		fl = append(fl, f)
	}
	return fl
}

// FlowMap builds the aggregated flow map handed to DBWriter.Write.
func FlowMap(fl []Flow) *hashmap.AggFlowMap {
	m := hashmap.NewAggFlowMap()
	for _, f := range fl {
		hashmap.AggFlowMap(*m).SetOrUpdate(f.Key(), f.V4, f.C.BytesRcvd, f.C.BytesSent, f.C.PacketsRcvd, f.C.PacketsSent)
	}
	return m
}

// Totals of a block.
type Totals struct {
	V4, V6, Drops int
	C             types.Counters
}

// TotalsFor computes the summary values of a block; drops = 2^id so that any sum of drops over
// distinct blocks identifies the set of blocks that went into it.
func TotalsFor(fl []Flow, id int) Totals {
	t := Totals{Drops: 1 << uint(id)}
	for _, f := range fl {
		if f.V4 {
			t.V4++
		} else {
			t.V6++
		}
		t.C.Add(f.C)
	}
	return t
}

// Columns reproduces the column byte strings DBWriter derives from a flow map (flatten, sort,
// append per column, bit-pack the counters) using only exported pieces of goProbe. It is used to
// tell the specification the raw size of every column and - by running the configured encoder -
// the size of its compressed form. If it ever diverges from the real writer the trace validation
// reports drift (write sizes differ), not a violation.
func Columns(m *hashmap.AggFlowMap) [types.ColIdxCount][]byte {
	var cols [types.ColIdxCount][]byte
	v4, v6 := m.Flatten()
	v4, v6 = v4.Sort(), v6.Sort()
	var br, bs, pr, ps []uint64
	for _, list := range []hashmap.List{v4, v6} {
		for _, fl := range list {
			br, bs, pr, ps = append(br, fl.BytesRcvd), append(bs, fl.BytesSent), append(pr, fl.PacketsRcvd), append(ps, fl.PacketsSent)
			cols[types.DportColIdx] = append(cols[types.DportColIdx], fl.GetDport()...)
			cols[types.ProtoColIdx] = append(cols[types.ProtoColIdx], fl.GetProto())
			cols[types.SIPColIdx] = append(cols[types.SIPColIdx], fl.GetSIP()...)
			cols[types.DIPColIdx] = append(cols[types.DIPColIdx], fl.GetDIP()...)
		}
	}
	cols[types.BytesRcvdColIdx] = bitpack.Pack(br)
	cols[types.BytesSentColIdx] = bitpack.Pack(bs)
	cols[types.PacketsRcvdColIdx] = bitpack.Pack(pr)
	cols[types.PacketsSentColIdx] = bitpack.Pack(ps)
	return cols
}

type countW struct{ n int }

func (c *countW) Write(p []byte) (int, error) { c.n += len(p); return len(p), nil }

// EncLen measures the size of the compressed form of data under the given encoder/level.
func EncLen(t encoders.Type, level int, data []byte) int {
	if len(data) == 0 {
		return 0
	}
	e, err := encoder.New(t)
	if err != nil {
		hx.Die("encoder: %v", err)
	}
	defer e.Close()
	if level > 0 {
		e.SetLevel(level)
	}
	var w countW
	if _, err := e.Compress(data, make([]byte, 0, 8192), io.Writer(&w)); err != nil {
		hx.Die("compress: %v", err)
	}
	return w.n
}

// Sizes returns, per column in file order, [raw, enc] as the specification's payload argument.
func Sizes(cols [types.ColIdxCount][]byte, t encoders.Type, level int) [][2]int {
	out := make([][2]int, types.ColIdxCount)
	for i := range cols {
		out[i] = [2]int{len(cols[i]), EncLen(t, level, cols[i])}
	}
	return out
}

// ColName returns the file name of a column.
func ColName(i int) string { return types.ColumnFileNames[i] + ".gpf" }

func u64(b []byte) uint64 { return binary.BigEndian.Uint64(b) }

var _ = fmt.Sprintf
