package pauselock

// pauselock-drive (B): goroutines race on a real capture.Manager - a feeder offering packets to the
// scripted source, lock holders calling write-outs / status requests / live queries - with seeded
// random pauses (the interleaving itself is up to the Go scheduler: the log, not the seed, is what
// is validated).  Every observable instant is appended to one global event log under a mutex:
// events raised inside the source are logged atomically with the state change they stand for.
// spec/pauselock/PauseLockTrace.tla accepts the log iff it is a behaviour of PauseLock.

import (
	"flag"
	"io"
	"os"
	"sync"
	"time"

	"verifharness/internal/hx"
	"verifharness/internal/pauselock/capsrc"
)

// logEvent is one line of the trace (only the fields an event kind needs are present).
type logEvent map[string]any

type eventLog struct {
	mu  sync.Mutex
	out *hx.Out
	tr  int
	// pauses in progress (between a StatsEnter/StatsExit or, for live queries, unknown): informational
	inCritical int
	closed     bool
}

func (g *eventLog) add(e logEvent) {
	g.mu.Lock()
	if !g.closed {
		e["tr"] = g.tr
		g.out.Emit(e)
	}
	g.mu.Unlock()
}

func drivePackets(rng *hx.RNG, n int) []capsrc.Pkt {
	mk := func(ver, proto int, sip string, sport int, dip string, dport, aux int, ptype string, size int) capsrc.Pkt {
		p := capsrc.Pkt{Ver: ver, Len: 60, IHL: 5, Proto: proto, Sip: sip, Dip: dip, Scls: "u", Dcls: "u", Ptype: ptype, Size: size, N: 1}
		if ver == 6 {
			p.Len, p.IHL = 80, 10
		}
		switch {
		case proto == protoTCP:
			p.Sport, p.Dport, p.TCPFlags = sport, dport, aux
		case proto == protoUDP:
			p.Sport, p.Dport = sport, dport
		default:
			p.ICMPType = aux
		}
		return p
	}
	pool := []capsrc.Pkt{
		mk(4, protoTCP, "A", 40000, "B", 443, 16, "in", 100), mk(4, protoTCP, "B", 443, "A", 40000, 16, "out", 300),
		mk(4, protoTCP, "A", 40001, "B", 443, 24, "in", 1500),
		mk(6, protoTCP, "C", 50000, "D", 8080, 2, "out", 74), mk(6, protoTCP, "D", 8080, "C", 50000, 18, "in", 74),
		mk(6, protoUDP, "A", 40001, "B", 53, 0, "in", 120), mk(6, protoUDP, "B", 53, "A", 40001, 0, "out", 90),
		mk(6, protoICMP6, "B", 0, "A", 0, 129, "in", 64), mk(6, protoICMP6, "A", 0, "B", 0, 128, "out", 64),
		mk(4, protoICMP4, "A", 0, "B", 0, 8, "out", 84), mk(4, protoUDP, "C", 5353, "D", 5353, 0, "in", 80),
	}
	frag := pool[2]
	frag.FragOff = 185
	trunc := pool[3]
	trunc.Len = 40 + 13
	pool = append(pool, frag, trunc)
	res := make([]capsrc.Pkt, n)
	for i := range res {
		res[i] = pool[rng.Intn(len(pool))]
		res[i].ID = i + 1
	}
	return res
}

const (
	protoTCP   = 6
	protoUDP   = 17
	protoICMP4 = 1
	protoICMP6 = 58
)

func nap(rng *hx.RNG, mu *sync.Mutex, max int) {
	mu.Lock()
	d := rng.Intn(max)
	mu.Unlock()
	if d > 0 {
		time.Sleep(time.Duration(d) * time.Microsecond)
	}
}

// driveOne runs one racing trace; returns false if the system got stuck.
func driveOne(g *eventLog, seed uint64, tr, npackets, ncalls int) bool {
	rng := hx.NewRNG(seed*7919 + uint64(tr))
	var rmu sync.Mutex
	pkts := drivePackets(rng, npackets)
	vers := map[int]int{}
	for _, p := range pkts {
		vers[p.ID] = p.Ver
	}
	paused := 0 // informational: lock holders between Begin and End
	var w *capsrc.World
	onEvent := func(e capsrc.Event) {
		switch e.Ev {
		case "Take":
			g.mu.Lock()
			pz := paused > 0
			g.mu.Unlock()
			g.add(logEvent{"ev": "Take", "id": e.ID, "ver": vers[e.ID], "paused": pz})
		case "NextEnter", "Woken", "Unblock", "StatsEnter", "StatsExit":
			g.add(logEvent{"ev": e.Ev})
		}
	}
	g.mu.Lock()
	g.tr = tr
	g.closed = false
	g.mu.Unlock()
	g.add(logEvent{"ev": "Reset"})
	var err error
	w, err = capsrc.Start(capsrc.Options{OnEvent: onEvent})
	if err != nil {
		hx.Die("pauselock drive: %v", err)
	}
	book := capsrc.NewBook(uint32(tr + 1))
	w.Src.SetPreferTok(func() bool { rmu.Lock(); defer rmu.Unlock(); return rng.Intn(2) == 0 })
	prng := hx.NewRNG(seed ^ uint64(tr)*31)
	var wg sync.WaitGroup
	stuck := make(chan string, 8)
	// feeder
	wg.Add(1)
	go func() {
		defer wg.Done()
		for i := range pkts {
			p := pkts[i]
			nap(rng, &rmu, 60)
			raw := capsrc.Raw(p, book, prng)
			if err := w.Src.OfferLogged(raw, func() { g.add(logEvent{"ev": "Offer", "p": p}) }); err != nil {
				stuck <- "packet-not-taken"
				return
			}
		}
	}()
	// lock holders
	kinds := []string{"wo", "st", "lq"}
	for l := 1; l <= 3; l++ {
		wg.Add(1)
		go func(l int) {
			defer wg.Done()
			for c := 0; c < ncalls; c++ {
				nap(rng, &rmu, 150)
				rmu.Lock()
				k := kinds[rng.Intn(3)]
				rmu.Unlock()
				g.mu.Lock()
				paused++
				g.mu.Unlock()
				g.add(logEvent{"ev": "Begin", "l": l, "k": k})
				res := call(w, book, k)
				g.mu.Lock()
				paused--
				g.mu.Unlock()
				if res.Kind != k {
					stuck <- "call-failed-" + res.Kind
					return
				}
				g.add(logEvent{"ev": "End", "l": l, "k": k, "rows": res.Rows, "stats": res.Stats})
			}
		}(l)
	}
	done := make(chan struct{})
	go func() { wg.Wait(); close(done) }()
	select {
	case <-done:
	case <-time.After(3 * capsrc.Timeout):
		g.add(logEvent{"ev": "Stuck", "what": "goroutines-blocked"})
		return false
	}
	select {
	case what := <-stuck:
		g.add(logEvent{"ev": "Stuck", "what": what})
		return false
	default:
	}
	if !w.Src.AwaitParked(nil) {
		g.add(logEvent{"ev": "Stuck", "what": "capture-loop"})
		return false
	}
	if n := w.Overflows(); n > 0 {
		g.add(logEvent{"ev": "Stuck", "what": "unexpected-overflow-report"})
		return false
	}
	g.add(logEvent{"ev": "Final", "flog": w.Snapshot(book, false)})
	g.mu.Lock()
	g.closed = true // the final write-out of Manager.Close is not part of the trace
	g.mu.Unlock()
	w.Stop()
	return true
}

// Drive writes the event log of `traces` racing runs.
func Drive(seed uint64, traces, npackets, ncalls int, out io.Writer) {
	o := hx.NewOut(out)
	defer o.Flush()
	g := &eventLog{out: o}
	for tr := 0; tr < traces; tr++ {
		if !driveOne(g, seed, tr, npackets, ncalls) {
			return
		}
	}
}

func init() {
	hx.Register("pauselock-drive", func(args []string) {
		fs := flag.NewFlagSet("pauselock-drive", flag.ExitOnError)
		seed := fs.Uint64("seed", 1, "seed")
		traces := fs.Int("traces", 10, "traces")
		packets := fs.Int("packets", 40, "packets per trace")
		calls := fs.Int("calls", 10, "calls per lock holder")
		fs.Parse(args)
		Drive(*seed, *traces, *packets, *calls, os.Stdout)
	})
}
