package capsrc

import (
	"context"
	"errors"
	"fmt"
	"log/slog"
	"reflect"
	"sort"
	"sync"
	"sync/atomic"
	"time"
	"unsafe"

	"github.com/els0r/goProbe/v4/cmd/goProbe/config"
	gpcapture "github.com/els0r/goProbe/v4/pkg/capture"
	"github.com/els0r/goProbe/v4/pkg/capture/capturetypes"
	"github.com/els0r/goProbe/v4/pkg/goprobe/writeout"
	"github.com/els0r/goProbe/v4/pkg/types"
	"github.com/els0r/goProbe/v4/pkg/types/hashmap"
	slimcap "github.com/fako1024/slimcap/capture"
)

// performWriteout is the write-out of the capture manager exactly as its scheduler
// (Manager.ScheduleWriteouts) and Manager.Update call it: start the write-out handler, rotate every
// capture under the three-point lock, wait for the handler.  The method is unexported and has no
// exported equivalent with a caller-chosen timestamp, so the harness links to it by name (no change
// of /repo; a rename makes the harness fail to link = machinery failure, never a verdict).
//
//go:linkname performWriteout github.com/els0r/goProbe/v4/pkg/capture.(*Manager).performWriteout
func performWriteout(cm *gpcapture.Manager, ctx context.Context, timestamp time.Time, ifaces ...string)

// ---------------------------------------------------------------- error log capture

// The capture loop reports a local buffer overflow on its error channel; Manager.logErrors writes
// it to the logger of the telemetry package, which is slog's default logger.  A slog handler
// installed by the harness makes "an overflow was reported for interface X" observable.
type logCapture struct {
	iface string
}

var (
	logMu     sync.Mutex
	logWorlds = map[string]*World{}
	logOnce   sync.Once
)

func (h logCapture) Enabled(_ context.Context, l slog.Level) bool { return l >= slog.LevelError }
func (h logCapture) WithGroup(string) slog.Handler               { return h }
func (h logCapture) WithAttrs(as []slog.Attr) slog.Handler {
	for _, a := range as {
		if a.Key == "iface" {
			h.iface = a.Value.String()
		}
	}
	return h
}
func (h logCapture) Handle(_ context.Context, r slog.Record) error {
	iface := h.iface
	overflow := false
	var text string
	r.Attrs(func(a slog.Attr) bool {
		if a.Key == "iface" {
			iface = a.Value.String()
		}
		if a.Key == "error" {
			if e, ok := a.Value.Any().(error); ok && errors.Is(e, gpcapture.ErrLocalBufferOverflow) {
				overflow = true
			}
			text = a.Value.String()
		}
		return true
	})
	logMu.Lock()
	w := logWorlds[iface]
	logMu.Unlock()
	if w == nil {
		return nil
	}
	if overflow {
		w.overflows.Add(1)
	} else {
		w.errMu.Lock()
		w.otherErrs = append(w.otherErrs, r.Message+": "+text)
		w.errMu.Unlock()
	}
	w.Src.Wake()
	return nil
}

// InstallLogCapture replaces slog's default logger (once per process).
func InstallLogCapture() {
	logOnce.Do(func() { slog.SetDefault(slog.New(logCapture{})) })
}

// ---------------------------------------------------------------- world

// WriteoutRecord is what one interface handed to the write-out handler.
type WriteoutRecord struct {
	TS    int64
	Map   *hashmap.AggFlowMap
	Stats capturetypes.CaptureStats
}

// recorder is a write-out handler that keeps what it receives and optionally forwards it to a
// real handler (the GoDB handler of pkg/goprobe/writeout).
type recorder struct {
	mu   sync.Mutex
	recs []WriteoutRecord
	next writeout.Handler
}

func (r *recorder) HandleWriteout(ctx context.Context, ts time.Time, ch <-chan capturetypes.TaggedAggFlowMap) <-chan struct{} {
	done := make(chan struct{}, 1)
	var fwd chan capturetypes.TaggedAggFlowMap
	var fwdDone <-chan struct{}
	if r.next != nil {
		fwd = make(chan capturetypes.TaggedAggFlowMap, writeout.WriteoutsChanDepth)
		fwdDone = r.next.HandleWriteout(ctx, ts, fwd)
	}
	go func() {
		for m := range ch {
			r.mu.Lock()
			r.recs = append(r.recs, WriteoutRecord{TS: ts.Unix(), Map: m.Map, Stats: m.Stats})
			r.mu.Unlock()
			if fwd != nil {
				fwd <- m
			}
		}
		if fwd != nil {
			close(fwd)
			<-fwdDone
		}
		done <- struct{}{}
	}()
	return done
}

var worldSeq atomic.Int64

// World is one capture.Manager with one interface fed by a scripted source.
type World struct {
	Iface string
	Mgr   *gpcapture.Manager
	Src   *Source
	Cap   *gpcapture.Capture
	Log   *gpcapture.FlowLog

	rec       *recorder
	overflows atomic.Int64
	errMu     sync.Mutex
	otherErrs []string
}

// Options of a world.
type Options struct {
	BufferLimit int              // local buffer size limit in bytes (0: goProbe's default)
	Next        writeout.Handler // real write-out handler to forward to (nil: record only)
	OnEvent     func(Event)
}

// Start creates the manager and starts the capture of one (fictitious) interface.
func Start(o Options) (*World, error) {
	InstallLogCapture()
	w := &World{Iface: fmt.Sprintf("vh%d", worldSeq.Add(1)), rec: &recorder{next: o.Next}}
	w.Src = NewSource()
	w.Src.OnEvent = o.OnEvent
	logMu.Lock()
	logWorlds[w.Iface] = w
	logMu.Unlock()
	opts := []gpcapture.ManagerOption{gpcapture.WithSourceInitFn(func(c *gpcapture.Capture) (slimcap.SourceZeroCopy, error) {
		w.Cap = c
		return w.Src, nil
	})}
	if o.BufferLimit > 0 {
		opts = append(opts, gpcapture.WithLocalBuffers(1, o.BufferLimit))
	}
	w.Mgr = gpcapture.NewManager(w.rec, opts...)
	cfg := &config.Config{Interfaces: config.Ifaces{w.Iface: config.CaptureConfig{
		RingBuffer: &config.RingBufferConfig{BlockSize: config.DefaultRingBufferBlockSize, NumBlocks: config.DefaultRingBufferNumBlocks}}}}
	if _, _, _, err := w.Mgr.Update(context.Background(), cfg); err != nil {
		return nil, err
	}
	if w.Cap == nil {
		return nil, errors.New("capture was not started (source init function not called)")
	}
	f := reflect.ValueOf(w.Cap).Elem().FieldByName("flowLog")
	if !f.IsValid() || f.Kind() != reflect.Ptr {
		return nil, errors.New("Capture has no flowLog field any more")
	}
	w.Log = (*gpcapture.FlowLog)(unsafe.Pointer(f.Pointer()))
	if !w.Src.AwaitParked(nil) {
		return nil, errors.New("capture loop did not start fetching packets")
	}
	return w, nil
}

// Stop closes the capture (Manager.Close performs a final write-out first).
func (w *World) Stop() {
	w.Src.ArmGate(false)
	w.Mgr.Close(context.Background())
	logMu.Lock()
	delete(logWorlds, w.Iface)
	logMu.Unlock()
}

// Overflows is the number of local buffer overflows the capture reported so far.
func (w *World) Overflows() int { return int(w.overflows.Load()) }

// OtherErrors returns error log lines of this interface that are not overflow reports.
func (w *World) OtherErrors() []string {
	w.errMu.Lock()
	defer w.errMu.Unlock()
	return append([]string{}, w.otherErrs...)
}

// Writeout runs one write-out of the manager for timestamp ts (blocks until it is complete).
func (w *World) Writeout(ts int64) {
	performWriteout(w.Mgr, context.Background(), time.Unix(ts, 0), w.Iface)
}

// Writeouts returns what the write-out handler received so far.
func (w *World) Writeouts() []WriteoutRecord {
	w.rec.mu.Lock()
	defer w.rec.mu.Unlock()
	return append([]WriteoutRecord{}, w.rec.recs...)
}

// Status calls Manager.Status for the interface.
func (w *World) Status() (capturetypes.CaptureStats, bool) {
	m := w.Mgr.Status(context.Background(), w.Iface)
	s, ok := m[w.Iface]
	return s, ok
}

// Live calls Manager.GetFlowMaps (what a live query does) and returns the aggregated map (nil if
// the manager had nothing to report).
func (w *World) Live() *hashmap.AggFlowMap {
	ch := make(chan hashmap.AggFlowMapWithMetadata, 4)
	w.Mgr.GetFlowMaps(context.Background(), nil, ch, w.Iface)
	close(ch)
	var res *hashmap.AggFlowMap
	for m := range ch {
		res = m.AggFlowMap
	}
	return res
}

// ---------------------------------------------------------------- projections

// Counters are the four counters of a flow.
type Counters struct {
	Br uint64 `json:"br"`
	Bs uint64 `json:"bs"`
	Pr uint64 `json:"pr"`
	Ps uint64 `json:"ps"`
}

// FlowKey is the abstract key of a flow log entry (FKey of FlowRule.tla).
type FlowKey struct {
	Ver   int    `json:"ver"`
	Sip   string `json:"sip"`
	Sport int    `json:"sport"`
	Dip   string `json:"dip"`
	Dport int    `json:"dport"`
	Proto int    `json:"proto"`
}

// FlowRow is one entry of the flow log.
type FlowRow struct {
	K FlowKey  `json:"k"`
	C Counters `json:"c"`
}

// AggKey is the key of an aggregated (stored) flow: no source port.
type AggKey struct {
	Ver   int    `json:"ver"`
	Sip   string `json:"sip"`
	Dip   string `json:"dip"`
	Dport int    `json:"dport"`
	Proto int    `json:"proto"`
}

// AggRow is one row of a rotation result / live view / stored block.
type AggRow struct {
	K AggKey   `json:"k"`
	C Counters `json:"c"`
}

func be16(b []byte) int { return int(b[0])<<8 | int(b[1]) }

// Snapshot projects the capture's flow log.  Only call it while the capture loop cannot touch the
// flow log (parked in the source, or waiting for the unlock) and no rotation is running.
// withIdle also returns flows whose counters are zero (kept for one interval after a rotation).
func (w *World) Snapshot(b *Book, withIdle bool) []FlowRow {
	rows := []FlowRow{}
	for k, f := range w.Log.FlowsV4() {
		if !withIdle && f.PacketsRcvd == 0 && f.PacketsSent == 0 && f.BytesRcvd == 0 && f.BytesSent == 0 {
			continue
		}
		kb := []byte(k)
		rows = append(rows, FlowRow{K: FlowKey{Ver: 4, Sip: b.Name(4, kb[0:4]), Sport: be16(kb[4:6]), Dip: b.Name(4, kb[6:10]),
			Dport: be16(kb[10:12]), Proto: int(kb[12])}, C: Counters{f.BytesRcvd, f.BytesSent, f.PacketsRcvd, f.PacketsSent}})
	}
	for k, f := range w.Log.FlowsV6() {
		if !withIdle && f.PacketsRcvd == 0 && f.PacketsSent == 0 && f.BytesRcvd == 0 && f.BytesSent == 0 {
			continue
		}
		kb := []byte(k)
		rows = append(rows, FlowRow{K: FlowKey{Ver: 6, Sip: b.Name(6, kb[0:16]), Sport: be16(kb[16:18]), Dip: b.Name(6, kb[18:34]),
			Dport: be16(kb[34:36]), Proto: int(kb[36])}, C: Counters{f.BytesRcvd, f.BytesSent, f.PacketsRcvd, f.PacketsSent}})
	}
	SortFlowRows(rows)
	return rows
}

// ProjectAgg projects an aggregated flow map (nil = empty).
func ProjectAgg(m *hashmap.AggFlowMap, b *Book) []AggRow {
	rows := []AggRow{}
	if m == nil {
		return rows
	}
	for i, mm := range []*hashmap.Map{m.PrimaryMap, m.SecondaryMap} {
		if mm == nil {
			continue
		}
		ver := 4
		if i == 1 {
			ver = 6
		}
		for it := mm.Iter(); it.Next(); {
			k := types.Key(it.Key())
			v := it.Val()
			kv := ver
			if k.IsIPv4() {
				kv = 4
			} else {
				kv = 6
			}
			if kv != ver {
				kv = -ver // key of the wrong family in this map: keep it visible
			}
			av := 4
			if !k.IsIPv4() {
				av = 6
			}
			rows = append(rows, AggRow{K: AggKey{Ver: kv, Sip: b.Name(av, k.GetSIP()), Dip: b.Name(av, k.GetDIP()),
				Dport: be16(k.GetDport()), Proto: int(k.GetProto())}, C: Counters{v.BytesRcvd, v.BytesSent, v.PacketsRcvd, v.PacketsSent}})
		}
	}
	SortAggRows(rows)
	return rows
}

// SortFlowRows orders rows canonically.
func SortFlowRows(r []FlowRow) {
	sort.Slice(r, func(a, b int) bool { return fmt.Sprint(r[a].K) < fmt.Sprint(r[b].K) })
}

// SortAggRows orders rows canonically.
func SortAggRows(r []AggRow) {
	sort.Slice(r, func(a, b int) bool { return fmt.Sprint(r[a].K) < fmt.Sprint(r[b].K) })
}

// SameFlowRows compares two sorted row lists.
func SameFlowRows(a, b []FlowRow) bool {
	if len(a) != len(b) {
		return false
	}
	for i := range a {
		if a[i] != b[i] {
			return false
		}
	}
	return true
}

// SameAggRows compares two sorted row lists.
func SameAggRows(a, b []AggRow) bool {
	if len(a) != len(b) {
		return false
	}
	for i := range a {
		if a[i] != b[i] {
			return false
		}
	}
	return true
}
