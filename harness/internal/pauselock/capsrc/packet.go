package capsrc

import (
	"encoding/binary"
	"fmt"

	"verifharness/internal/hx"

	slimcap "github.com/fako1024/slimcap/capture"
)

// Pkt is the abstract packet of PacketRule.tla / FlowRule.tla: header fields, the classes of the
// two addresses, the capture direction (ptype "in" / "out"), the wire size and a burst count n
// (n identical packets delivered back to back).
type Pkt struct {
	ID       int    `json:"id"`
	Ver      int    `json:"ver"`
	Len      int    `json:"len"`
	IHL      int    `json:"ihl"`
	FragOff  int    `json:"fragOff"`
	Proto    int    `json:"proto"`
	Sip      string `json:"sip"`
	Dip      string `json:"dip"`
	Sport    int    `json:"sport"`
	Dport    int    `json:"dport"`
	TCPFlags int    `json:"tcpFlags"`
	ICMPType int    `json:"icmpType"`
	Scls     string `json:"scls"`
	Dcls     string `json:"dcls"`
	Ptype    string `json:"ptype"`
	Size     int    `json:"size"`
	N        int    `json:"n"`
}

const (
	protoTCP   = 6
	protoUDP   = 17
	protoICMP4 = 1
	protoICMP6 = 58
)

// Book concretises address identities ("A", "B", ... with class u/m/b) deterministically per
// world number and projects address bytes back to identities (foreign bytes show up as ?hex).
type Book struct {
	n     uint32
	bytes map[string][]byte
	ids   map[string]string
}

// NewBook returns the address book number n.
func NewBook(n uint32) *Book { return &Book{n: n, bytes: map[string][]byte{}, ids: map[string]string{}} }

// Addr returns the bytes of identity id (class cls) for IP version ver.
func (c *Book) Addr(ver int, id, cls string) []byte {
	key := fmt.Sprintf("%d/%s", ver, id)
	if b, ok := c.bytes[key]; ok {
		return b
	}
	// a stable small number per identity name
	var h uint32
	for _, ch := range id {
		h = h*31 + uint32(ch)
	}
	h = h%251 + 1
	var b []byte
	if ver == 4 {
		switch cls {
		case "b":
			b = []byte{255, 255, 255, 255}
		case "m":
			b = []byte{224, 0, byte(h & 1), byte(c.n)} // the documented local multicast ranges 224.0.0/24, 224.0.1/24
		default:
			b = []byte{10, byte(h), byte(c.n >> 8), byte(c.n)}
		}
	} else {
		b = make([]byte, 16)
		switch cls {
		case "m":
			b[0], b[1] = 0xff, 0x02
			b[11] = byte(h)
			binary.BigEndian.PutUint32(b[12:], c.n|1)
		default:
			b[0], b[1], b[2], b[3] = 0x20, 0x01, 0x0d, 0xb8
			b[5] = byte(h)
			// bytes 6..12 deliberately non-zero: a key cut to 13 bytes must not look like anything known
			b[6], b[7], b[8], b[9], b[10], b[11] = 0xfe, byte(h), 0xca, 0xfe, byte(c.n>>8), 0x42
			binary.BigEndian.PutUint32(b[12:], c.n)
		}
	}
	c.bytes[key] = b
	c.ids[fmt.Sprintf("%d/%x", ver, b)] = id
	return b
}

// Name projects address bytes to the identity.
func (c *Book) Name(ver int, b []byte) string {
	if id, ok := c.ids[fmt.Sprintf("%d/%x", ver, b)]; ok {
		return id
	}
	return fmt.Sprintf("?%x", b)
}

// Build assembles the IP layer of p; everything the abstract packet does not determine is random.
func Build(p Pkt, book *Book, rng *hx.RNG) []byte {
	hdr := 40
	if p.Ver == 4 {
		hdr = 4 * p.IHL
	}
	full := hdr + 24
	if p.Len > full {
		full = p.Len
	}
	b := rng.Bytes(full)
	if p.Ver == 4 {
		b[0] = 0x40 | byte(p.IHL&0x0f)
		b[6] = (b[6] & 0xe0) | byte((p.FragOff>>8)&0x1f)
		b[7] = byte(p.FragOff & 0xff)
		b[9] = byte(p.Proto)
		copy(b[12:16], book.Addr(4, p.Sip, p.Scls))
		copy(b[16:20], book.Addr(4, p.Dip, p.Dcls))
	} else {
		b[0] = 0x60 | (b[0] & 0x0f)
		b[6] = byte(p.Proto)
		copy(b[8:24], book.Addr(6, p.Sip, p.Scls))
		copy(b[24:40], book.Addr(6, p.Dip, p.Dcls))
	}
	t := b[hdr:]
	switch {
	case p.Proto == protoTCP:
		binary.BigEndian.PutUint16(t[0:2], uint16(p.Sport))
		binary.BigEndian.PutUint16(t[2:4], uint16(p.Dport))
		t[13] = byte(p.TCPFlags)
	case p.Proto == protoUDP:
		binary.BigEndian.PutUint16(t[0:2], uint16(p.Sport))
		binary.BigEndian.PutUint16(t[2:4], uint16(p.Dport))
	case p.Ver == 4 && p.Proto == protoICMP4, p.Ver == 6 && p.Proto == protoICMP6:
		t[0] = byte(p.ICMPType)
	}
	if p.Len < 0 {
		return b[:0]
	}
	return b[:p.Len]
}

// Raw builds the packet as the source delivers it.
func Raw(p Pkt, book *Book, rng *hx.RNG) RawPkt {
	pt := slimcap.PacketType(slimcap.PacketThisHost)
	if p.Ptype == "out" {
		pt = slimcap.PacketOutgoing
	}
	return RawPkt{IP: Build(p, book, rng), PktType: pt, Size: uint32(p.Size), ID: p.ID}
}
