// Package capsrc is the harness-side environment of a real goProbe capture, shared by the
// pauselock (C21) and flowlog (C20) families:
//
//   - Source: a scripted capture source (slimcap capture.SourceZeroCopy).  It is the only scheduler
//     the capture properties need: NextIPPacketZeroCopy / Unblock / Stats are exactly the places
//     where the capture loop and the lock holders of pkg/capture/capture.go meet the outside world.
//   - World: one real capture.Manager with one interface fed by a Source, the capture's FlowLog
//     (read through reflection, never written), the error log of the capture (slog capture, so a
//     reported local buffer overflow is observable) and the write-out trigger.
//   - Pkt / Build / Book: abstract packets of spec/*/PacketRule.tla and their concretisation.
package capsrc

import (
	"errors"
	"sync"
	"time"

	"github.com/fako1024/gotools/link"
	slimcap "github.com/fako1024/slimcap/capture"
)

// Timeout is the time the harness waits for an acknowledgement of the system under test before it
// declares the step failed (the machine is shared: generous, but far below the 30 s lock timeout).
var Timeout = 20 * time.Second

// RawPkt is one packet as the capture source delivers it.
type RawPkt struct {
	IP      []byte
	PktType byte
	Size    uint32
	ID      int // harness-side identity (for event logs)
}

// Event is one observable instant at the source (used by the racing driver, binding B).
type Event struct {
	Ev string // NextEnter, Take, Woken, Unblock, StatsEnter, StatsExit
	ID int
}

// Source implements slimcap's capture.SourceZeroCopy.  All state changes are atomic under mu, so
// "the capture loop is parked inside NextIPPacketZeroCopy and no wake-up token is pending" is a
// well defined instant.
type Source struct {
	mu      sync.Mutex
	changed chan struct{} // closed and replaced on every state change (broadcast)

	pending *RawPkt // packet offered by the harness, not yet taken
	tok     bool    // persistent unblock token (like the event fd of the real ring source)
	closed  bool

	inNext   bool
	entries  int // number of calls of NextIPPacketZeroCopy
	taken    int // packets handed to the capture loop
	unblocks int // calls of Unblock()

	statsEntered  int
	statsReleased int
	gateArmed     bool

	preferTok func() bool // both a packet and a token are ready: which one wins (nil: packet)
	OnEvent   func(Event) // called under mu (the order of calls is a linearisation)
}

// NewSource returns an idle source.
func NewSource() *Source { return &Source{changed: make(chan struct{})} }

func (s *Source) broadcast() {
	close(s.changed)
	s.changed = make(chan struct{})
}

func (s *Source) emit(ev string, id int) {
	if s.OnEvent != nil {
		s.OnEvent(Event{Ev: ev, ID: id})
	}
}

// wait blocks (mu held on entry and exit) until pred() or the timeout.
func (s *Source) wait(pred func() bool, d time.Duration) bool {
	var deadline <-chan time.Time
	for !pred() {
		if deadline == nil {
			t := time.NewTimer(d)
			defer t.Stop()
			deadline = t.C
		}
		ch := s.changed
		s.mu.Unlock()
		select {
		case <-ch:
			s.mu.Lock()
		case <-deadline:
			s.mu.Lock()
			return pred()
		}
	}
	return true
}

var errNotScripted = errors.New("scripted source: only the zero-copy IP packet interface is implemented")

// NextIPPacketZeroCopy blocks until the harness offers a packet, an unblock token is pending
// (ErrCaptureUnblocked) or the source is closed (ErrCaptureStopped).
func (s *Source) NextIPPacketZeroCopy() (slimcap.IPLayer, slimcap.PacketType, uint32, error) {
	s.mu.Lock()
	defer s.mu.Unlock()
	s.inNext = true
	s.entries++
	s.emit("NextEnter", 0)
	s.broadcast()
	for {
		if s.closed {
			s.inNext = false
			s.broadcast()
			return nil, 0, 0, slimcap.ErrCaptureStopped
		}
		takePkt := s.pending != nil
		if takePkt && s.tok && s.preferTok != nil && s.preferTok() {
			takePkt = false
		}
		if takePkt {
			p := s.pending
			s.pending = nil
			s.inNext = false
			s.taken++
			s.emit("Take", p.ID)
			s.broadcast()
			return slimcap.IPLayer(p.IP), p.PktType, p.Size, nil
		}
		if s.tok {
			s.tok = false
			s.inNext = false
			s.emit("Woken", 0)
			s.broadcast()
			return nil, 0, 0, slimcap.ErrCaptureUnblocked
		}
		ch := s.changed
		s.mu.Unlock()
		<-ch
		s.mu.Lock()
	}
}

// Unblock leaves a persistent wake-up token (called by ThreePointLock.Lock and Unlock).
func (s *Source) Unblock() error {
	s.mu.Lock()
	s.tok = true
	s.unblocks++
	s.emit("Unblock", 0)
	s.broadcast()
	s.mu.Unlock()
	return nil
}

// Stats is called inside the locked section of status requests and write-outs.  With the gate
// armed it parks there until ReleaseStats.
func (s *Source) Stats() (slimcap.Stats, error) {
	s.mu.Lock()
	defer s.mu.Unlock()
	s.statsEntered++
	n := s.statsEntered
	s.emit("StatsEnter", n)
	s.broadcast()
	if s.gateArmed {
		s.wait(func() bool { return s.statsReleased >= n || s.closed }, 10*time.Minute)
	} else if s.statsReleased < n {
		s.statsReleased = n
	}
	s.emit("StatsExit", n)
	s.broadcast()
	return slimcap.Stats{}, nil
}

// Close stops the source.
func (s *Source) Close() error {
	s.mu.Lock()
	s.closed = true
	s.broadcast()
	s.mu.Unlock()
	return nil
}

func (s *Source) NextPayloadZeroCopy() ([]byte, slimcap.PacketType, uint32, error) {
	return nil, 0, 0, errNotScripted
}
func (s *Source) NewPacket() slimcap.Packet { return nil }
func (s *Source) NextPacket(slimcap.Packet) (slimcap.Packet, error) {
	return nil, errNotScripted
}
func (s *Source) NextPayload([]byte) ([]byte, byte, uint32, error) {
	return nil, 0, 0, errNotScripted
}
func (s *Source) NextIPPacket(slimcap.IPLayer) (slimcap.IPLayer, slimcap.PacketType, uint32, error) {
	return nil, 0, 0, errNotScripted
}
func (s *Source) NextPacketFn(func([]byte, uint32, slimcap.PacketType, byte) error) error {
	return errNotScripted
}
func (s *Source) Link() *link.Link { return &link.Link{} }

// ---------------------------------------------------------------- harness side

// ArmGate makes Stats() park until ReleaseStats (armed = true) or pass through.
func (s *Source) ArmGate(armed bool) {
	s.mu.Lock()
	s.gateArmed = armed
	if !armed {
		s.statsReleased = s.statsEntered
	}
	s.broadcast()
	s.mu.Unlock()
}

// SetPreferTok installs the tie-break between a ready packet and a pending token.
func (s *Source) SetPreferTok(f func() bool) {
	s.mu.Lock()
	s.preferTok = f
	s.mu.Unlock()
}

// Offer hands a packet to the capture loop and returns once it has been taken.
func (s *Source) Offer(p RawPkt) error { return s.OfferLogged(p, nil) }

// OfferLogged is Offer with a callback at the instant the packet becomes available to the loop.
func (s *Source) OfferLogged(p RawPkt, offered func()) error {
	s.mu.Lock()
	defer s.mu.Unlock()
	if !s.wait(func() bool { return s.pending == nil }, Timeout) {
		return errors.New("previous packet still not taken by the capture loop")
	}
	want := s.taken + 1
	s.pending = &p
	if offered != nil {
		offered()
	}
	s.broadcast()
	if !s.wait(func() bool { return s.taken >= want }, Timeout) {
		s.pending = nil
		return errors.New("capture loop does not fetch the packet")
	}
	return nil
}

// AwaitParked waits until the capture loop sits inside NextIPPacketZeroCopy with nothing to wake
// it up (no pending packet, no unblock token).  extra() is an alternative exit (e.g. an overflow
// was reported: the loop then waits for the unlock outside the source).
func (s *Source) AwaitParked(extra func() bool) bool {
	s.mu.Lock()
	defer s.mu.Unlock()
	return s.wait(func() bool {
		return (s.inNext && !s.tok && s.pending == nil) || (extra != nil && extra())
	}, Timeout)
}

// Parked reports the instantaneous state.
func (s *Source) Parked() bool {
	s.mu.Lock()
	defer s.mu.Unlock()
	return s.inNext && !s.tok && s.pending == nil
}

// AwaitStatsEntered waits until n calls of Stats() have begun.
func (s *Source) AwaitStatsEntered(n int) bool {
	s.mu.Lock()
	defer s.mu.Unlock()
	return s.wait(func() bool { return s.statsEntered >= n }, Timeout)
}

// StatsCounts returns (entered, released).
func (s *Source) StatsCounts() (int, int) {
	s.mu.Lock()
	defer s.mu.Unlock()
	return s.statsEntered, s.statsReleased
}

// ReleaseStats lets the Stats() call number n (1-based) return.
func (s *Source) ReleaseStats(n int) {
	s.mu.Lock()
	if s.statsReleased < n {
		s.statsReleased = n
	}
	s.broadcast()
	s.mu.Unlock()
}

// Wake broadcasts (used by World when an out-of-band observable, e.g. the error log, changed).
func (s *Source) Wake() {
	s.mu.Lock()
	s.broadcast()
	s.mu.Unlock()
}

// Counters returns (entries, taken, unblocks).
func (s *Source) Counters() (int, int, int) {
	s.mu.Lock()
	defer s.mu.Unlock()
	return s.entries, s.taken, s.unblocks
}
