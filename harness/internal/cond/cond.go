// Package cond binds spec/cond/Cond.tla (property C09) to pkg/goDB/conditions/node.
//
// Replay (F): TLC enumerates condition trees and, per tree, the vector of answers the
// specification predicts for every flow of the universe.  Every tree is rendered to goProbe
// condition text, handed to node.ParseAndInstrument, and the resulting Node is evaluated on real
// types.Key values built 1:1 from the specification's flow records.  Checked per (tree, flow):
// answer = predicted answer, key bytes unchanged afterwards, no panic, and the same Node gives
// the same answers when the flows are visited in a different order.
//
// Drive (B): seeded random trees (any prefix length, perturbed addresses, random flows) are
// evaluated and logged; CondTrace.tla evaluates the specification on every logged event.
//
// The harness only reports facts (got/expected, mutated, panicked, per-atom stand-alone facts);
// classification into violation classes is done by checks/c09.py.
package cond

import (
	"time"
	"bytes"
	"encoding/json"
	"flag"
	"fmt"
	"io"
	"net/netip"
	"os"
	"strconv"
	"strings"

	"verifharness/internal/hx"

	"github.com/els0r/goProbe/v4/pkg/goDB/conditions/node"
	"github.com/els0r/goProbe/v4/pkg/types"
)

// Tree is a condition tree as printed by TLC (Cond.tla: At / Not / And / Or).
type Tree struct {
	K    string `json:"k"`
	Attr string `json:"attr,omitempty"`
	Cmp  string `json:"cmp,omitempty"`
	B    []int  `json:"b,omitempty"`
	N    int    `json:"n,omitempty"`
	Sym  string `json:"sym,omitempty"`
	X    *Tree  `json:"x,omitempty"`
	L    *Tree  `json:"l,omitempty"`
	R    *Tree  `json:"r,omitempty"`
}

// Flow is a flow record of Flows.tla.
type Flow struct {
	ID    int   `json:"id"`
	Fam   int   `json:"fam"`
	SIP   []int `json:"sip"`
	DIP   []int `json:"dip"`
	Dport int   `json:"dport"`
	Proto int   `json:"proto"`
}

func toBytes(v []int) []byte {
	b := make([]byte, len(v))
	for i, x := range v {
		b[i] = byte(x)
	}
	return b
}

// Key builds the real key of a flow record through the public constructors.
func (f Flow) Key() types.Key {
	dport := []byte{byte(f.Dport >> 8), byte(f.Dport)}
	if f.Fam == 4 {
		return types.NewV4Key(toBytes(f.SIP), toBytes(f.DIP), dport, byte(f.Proto))
	}
	return types.NewV6Key(toBytes(f.SIP), toBytes(f.DIP), dport, byte(f.Proto))
}

// IPString renders an address byte tuple.
func IPString(b []int) string {
	if len(b) == 4 {
		return netip.AddrFrom4([4]byte(toBytes(b))).String()
	}
	return netip.AddrFrom16([16]byte(toBytes(b))).String()
}

// AtomText renders one atom with the given comparator spelling.
func AtomText(t *Tree, cmp string) string {
	var val string
	switch t.Attr {
	case "sip", "dip", "src", "dst", "host":
		if t.Sym != "" {
			val = t.Sym // a host name, resolved when the condition is prepared
		} else {
			val = IPString(t.B)
		}
	case "snet", "dnet", "net":
		val = IPString(t.B) + "/" + strconv.Itoa(t.N)
	default:
		if t.Sym != "" {
			val = t.Sym
		} else {
			val = strconv.Itoa(t.N)
		}
	}
	return t.Attr + cmp + val
}

// Render renders a tree to condition text in the base grammar; every compound operand is
// parenthesised so that the parser rebuilds exactly this tree.
func Render(t *Tree) string {
	switch t.K {
	case "atom":
		return AtomText(t, " "+t.Cmp+" ")
	case "not":
		return "!(" + Render(t.X) + ")"
	case "and":
		return "(" + Render(t.L) + " & " + Render(t.R) + ")"
	case "or":
		return "(" + Render(t.L) + " | " + Render(t.R) + ")"
	}
	hx.Die("cond: unknown node kind %q", t.K)
	return ""
}

// Atoms lists the atoms of a tree in left-to-right order.
func Atoms(t *Tree, acc []*Tree) []*Tree {
	switch t.K {
	case "atom":
		return append(acc, t)
	case "not":
		return Atoms(t.X, acc)
	default:
		return Atoms(t.R, Atoms(t.L, acc))
	}
}

// dnsTimeout bounds the resolution of host names used as values (0: the lookup gives up at once).
var dnsTimeout = 3 * time.Second

// Parse runs the real ParseAndInstrument; err covers rejections and panics.
func Parse(text string) (n node.Node, err string) {
	p := hx.Catch(func() {
		var e error
		n, _, e = node.ParseAndInstrument(text, dnsTimeout)
		if e != nil {
			err = "error: " + e.Error()
		} else if n == nil {
			err = "error: nil node"
		}
	})
	if p != "" {
		return nil, p
	}
	return n, err
}

// Fact is what one Evaluate call on one key showed.
type Fact struct {
	Got     bool   `json:"got"`
	Mutated bool   `json:"mut"`
	Panic   string `json:"panic,omitempty"`
}

// EvalOn evaluates n on a fresh key of f and reports answer, mutation and panic.
func EvalOn(n node.Node, f Flow) Fact {
	k := f.Key()
	orig := k.Clone()
	var fact Fact
	fact.Panic = hx.Catch(func() { fact.Got = n.Evaluate(k) })
	if len(fact.Panic) > 600 {
		fact.Panic = fact.Panic[:600]
	}
	fact.Mutated = !bytes.Equal(k, orig)
	return fact
}

type genCase struct {
	Tree  *Tree  `json:"tree"`
	Exp   []bool `json:"exp"`
	Hinge []bool `json:"hinge"`
	H     int    `json:"h"`
}

type fail struct {
	Flow int    `json:"flow"` // flow id (1-based)
	Kind string `json:"kind"` // result | mutated | panic | order | rejected
	Exp  bool   `json:"exp"`
	Got  bool   `json:"got"`
	Msg  string `json:"msg,omitempty"`
}

func init() {
	hx.Register("cond-replay", func(args []string) {
		fs := flag.NewFlagSet("cond-replay", flag.ExitOnError)
		seed := fs.Uint64("seed", 1, "seed (order of the second pass)")
		fs.Parse(args)
		Replay(*seed, os.Stdin, os.Stdout)
	})
	hx.Register("cond-drive", func(args []string) {
		fs := flag.NewFlagSet("cond-drive", flag.ExitOnError)
		seed := fs.Uint64("seed", 1, "seed")
		n := fs.Int("n", 1000, "number of random trees")
		depth := fs.Int("depth", 4, "maximum tree height")
		nf := fs.Int("flows", 8, "flows per tree")
		fs.Parse(args)
		Drive(*seed, *n, *depth, *nf, os.Stdin, os.Stdout)
	})
}

// Replay: first input line {"flows":[...]} (the universe printed by the specification), then one
// generated case per line.  Output: one line per condition with at least one failing fact, then a
// summary line.
func Replay(seed uint64, in io.Reader, out io.Writer) {
	o := hx.NewOut(out)
	defer o.Flush()
	var flows []Flow
	rng := hx.NewRNG(seed)
	n, bad, evals, parsed := 0, 0, 0, 0
	err := hx.Lines(in, func(line []byte) error {
		if flows == nil {
			var u struct {
				Flows []Flow `json:"flows"`
			}
			if err := json.Unmarshal(line, &u); err != nil || len(u.Flows) == 0 {
				return fmt.Errorf("first line must be the flow universe: %v", err)
			}
			flows = u.Flows
			return nil
		}
		var c genCase
		if err := json.Unmarshal(line, &c); err != nil {
			return fmt.Errorf("case %d: %v", n, err)
		}
		if len(c.Exp) != len(flows) {
			return fmt.Errorf("case %d: %d expectations for %d flows", n, len(c.Exp), len(flows))
		}
		id := n
		n++
		text := Render(c.Tree)
		var fails []fail
		nd, perr := Parse(text)
		if perr != "" {
			kind := "rejected"
			if strings.HasPrefix(perr, "panic") {
				kind = "panic"
			}
			fails = append(fails, fail{Flow: 0, Kind: kind, Msg: perr})
		} else {
			parsed++
			// pass 1: flows in universe order, one fresh key each
			got1 := make([]Fact, len(flows))
			for i, f := range flows {
				got1[i] = EvalOn(nd, f)
				evals++
			}
			// pass 2: the same Node, fresh keys, a seeded permutation of the flows
			perm := make([]int, len(flows))
			for i := range perm {
				perm[i] = i
			}
			for i := len(perm) - 1; i > 0; i-- {
				j := rng.Intn(i + 1)
				perm[i], perm[j] = perm[j], perm[i]
			}
			got2 := make([]Fact, len(flows))
			for _, i := range perm {
				got2[i] = EvalOn(nd, flows[i])
				evals++
			}
			for i, f := range flows {
				g := got1[i]
				switch {
				case g.Panic != "":
					fails = append(fails, fail{Flow: f.ID, Kind: "panic", Exp: c.Exp[i], Msg: g.Panic})
				case g.Got != c.Exp[i]:
					fails = append(fails, fail{Flow: f.ID, Kind: "result", Exp: c.Exp[i], Got: g.Got})
				case got2[i].Panic == "" && got2[i].Got != g.Got:
					fails = append(fails, fail{Flow: f.ID, Kind: "order", Exp: c.Exp[i], Got: got2[i].Got,
						Msg: "second pass in another order answered differently"})
				}
				if g.Mutated || got2[i].Mutated {
					fails = append(fails, fail{Flow: f.ID, Kind: "mutated", Exp: c.Exp[i], Got: g.Got,
						Msg: "key bytes differ after Evaluate"})
				}
			}
		}
		if len(fails) > 0 {
			bad++
			o.Emit(map[string]any{"ok": false, "id": id, "text": text, "fails": fails, "case": json.RawMessage(bytes.TrimSpace(line))})
		}
		return nil
	})
	if err != nil {
		hx.Die("cond replay: %v", err)
	}
	o.Emit(map[string]any{"summary": true, "conditions": n, "parsed": parsed, "evaluations": evals, "failed": bad, "flows": len(flows)})
}

// ---------------------------------------------------------------------------------------------
// Drive (B): seeded random trees over every attribute, comparator and prefix length.

var (
	addrAttrs  = []string{"sip", "dip", "src", "dst", "host"}
	netAttrs   = []string{"snet", "dnet", "net"}
	portAttrs  = []string{"dport", "port"}
	protoAttrs = []string{"proto", "protocol", "ipproto"}
	allCmps    = []string{"=", "!=", "<", "<=", ">", ">="}
	ports      = []int{0, 1, 79, 80, 81, 255, 256, 443, 8080, 65534, 65535}
	protos     = []int{0, 1, 6, 17, 58, 254, 255}
	protoSyms  = map[int]string{6: "tcp", 17: "udp", 1: "icmp"}
)

type driver struct {
	rng   *hx.RNG
	addrs [][]int // address universe taken from the specification's flows
}

func (d *driver) addr() []int {
	a := append([]int(nil), d.addrs[d.rng.Intn(len(d.addrs))]...)
	if d.rng.Intn(3) == 0 { // flip one bit: neighbours of the universe at every bit position
		bit := d.rng.Intn(len(a) * 8)
		a[bit/8] ^= 0x80 >> (bit % 8)
	}
	return a
}

func (d *driver) atom() *Tree {
	r := d.rng
	switch r.Intn(10) {
	case 0, 1, 2:
		return &Tree{K: "atom", Attr: addrAttrs[r.Intn(len(addrAttrs))], Cmp: allCmps[r.Intn(2)], B: d.addr()}
	case 3, 4, 5, 6:
		a := d.addr()
		max := len(a) * 8
		p := r.Intn(max + 1)
		if r.Intn(4) == 0 { // boundary classes more often
			c := []int{0, 1, 7, 8, 9, 31, 32, 63, 64, 65, 127, 128}
			p = c[r.Intn(len(c))]
			if p > max {
				p = max
			}
		}
		return &Tree{K: "atom", Attr: netAttrs[r.Intn(len(netAttrs))], Cmp: allCmps[r.Intn(2)], B: a, N: p}
	case 7, 8:
		return &Tree{K: "atom", Attr: portAttrs[r.Intn(len(portAttrs))], Cmp: allCmps[r.Intn(6)], B: []int{}, N: ports[r.Intn(len(ports))]}
	default:
		n := protos[r.Intn(len(protos))]
		t := &Tree{K: "atom", Attr: protoAttrs[r.Intn(len(protoAttrs))], Cmp: allCmps[r.Intn(6)], B: []int{}, N: n}
		if s, ok := protoSyms[n]; ok && r.Intn(2) == 0 {
			t.Sym = s
		}
		return t
	}
}

func (d *driver) tree(depth int) *Tree {
	if depth == 0 || d.rng.Intn(4) == 0 {
		return d.atom()
	}
	switch d.rng.Intn(5) {
	case 0:
		return &Tree{K: "not", X: d.tree(depth - 1)}
	case 1, 2:
		return &Tree{K: "and", L: d.tree(depth - 1), R: d.tree(depth - 1)}
	default:
		return &Tree{K: "or", L: d.tree(depth - 1), R: d.tree(depth - 1)}
	}
}

// flow draws a flow that is likely to be close to the values the tree mentions.
func (d *driver) flow(id int, atoms []*Tree) Flow {
	r := d.rng
	fam := 4
	if r.Intn(2) == 0 {
		fam = 6
	}
	n := 4
	if fam == 6 {
		n = 16
	}
	pick := func() []int {
		for try := 0; try < 4; try++ {
			var a []int
			if len(atoms) > 0 && r.Intn(2) == 0 {
				a = atoms[r.Intn(len(atoms))].B
			} else {
				a = d.addr()
			}
			if len(a) == n {
				a = append([]int(nil), a...)
				if r.Intn(3) == 0 {
					bit := r.Intn(n * 8)
					a[bit/8] ^= 0x80 >> (bit % 8)
				}
				return a
			}
		}
		a := make([]int, n)
		for i := range a {
			a[i] = r.Intn(256)
		}
		return a
	}
	return Flow{ID: id, Fam: fam, SIP: pick(), DIP: pick(), Dport: ports[r.Intn(len(ports))], Proto: protos[r.Intn(len(protos))]}
}

func atomJSON(t *Tree) map[string]any {
	b := t.B
	if b == nil {
		b = []int{}
	}
	return map[string]any{"k": "atom", "attr": t.Attr, "cmp": t.Cmp, "b": b, "n": t.N, "sym": t.Sym}
}

// treeJSON prints a tree with every atom field present (TLC reads it back as Cond.tla records).
func treeJSON(t *Tree) map[string]any {
	switch t.K {
	case "atom":
		return atomJSON(t)
	case "not":
		return map[string]any{"k": "not", "x": treeJSON(t.X)}
	default:
		return map[string]any{"k": t.K, "l": treeJSON(t.L), "r": treeJSON(t.R)}
	}
}

type facts struct {
	Got   []bool `json:"got"`
	Mut   []bool `json:"mut"`
	Panic []bool `json:"panic"`
}

func evalAll(nd node.Node, flows []Flow, order []int) (f facts, firstPanic string) {
	f = facts{Got: make([]bool, len(flows)), Mut: make([]bool, len(flows)), Panic: make([]bool, len(flows))}
	for _, i := range order {
		x := EvalOn(nd, flows[i])
		f.Got[i], f.Mut[i], f.Panic[i] = x.Got, x.Mutated, x.Panic != ""
		if x.Panic != "" && firstPanic == "" {
			firstPanic = x.Panic
		}
	}
	return
}

// Drive logs one event per random tree: the tree, the flows, the answers of two passes in
// different orders, mutation / panic flags and the same facts for every atom on its own.
func Drive(seed uint64, n, depth, nf int, in io.Reader, out io.Writer) {
	o := hx.NewOut(out)
	defer o.Flush()
	d := &driver{rng: hx.NewRNG(seed)}
	err := hx.Lines(in, func(line []byte) error {
		var u struct {
			Flows []Flow `json:"flows"`
		}
		if err := json.Unmarshal(line, &u); err != nil {
			return err
		}
		seen := map[string]bool{}
		for _, f := range u.Flows {
			for _, a := range [][]int{f.SIP, f.DIP} {
				if k := fmt.Sprint(a); !seen[k] {
					seen[k] = true
					d.addrs = append(d.addrs, a)
				}
			}
		}
		return nil
	})
	if err != nil || len(d.addrs) == 0 {
		hx.Die("cond drive: need the flow universe on stdin: %v", err)
	}
	for c := 0; c < n; c++ {
		t := d.tree(1 + d.rng.Intn(depth))
		atoms := Atoms(t, nil)
		flows := make([]Flow, nf)
		for i := range flows {
			flows[i] = d.flow(i+1, atoms)
		}
		text := Render(t)
		ev := map[string]any{"tree": treeJSON(t), "flows": flows, "text": text}
		order := make([]int, nf)
		for i := range order {
			order[i] = i
		}
		nd, perr := Parse(text)
		empty := facts{Got: make([]bool, nf), Mut: make([]bool, nf), Panic: make([]bool, nf)}
		if perr != "" {
			ev["rej"], ev["msg"] = true, perr
			ev["got"], ev["got2"], ev["mut"], ev["panic"] = empty.Got, empty.Got, empty.Mut, empty.Panic
		} else {
			f1, p1 := evalAll(nd, flows, order)
			for i := len(order) - 1; i > 0; i-- {
				j := d.rng.Intn(i + 1)
				order[i], order[j] = order[j], order[i]
			}
			f2, _ := evalAll(nd, flows, order)
			for i := range f1.Mut {
				f1.Mut[i] = f1.Mut[i] || f2.Mut[i]
				f1.Panic[i] = f1.Panic[i] || f2.Panic[i]
			}
			ev["rej"], ev["msg"] = false, p1
			ev["got"], ev["got2"], ev["mut"], ev["panic"] = f1.Got, f2.Got, f1.Mut, f1.Panic
		}
		var al []map[string]any
		for i := range order {
			order[i] = i
		}
		for _, a := range atoms {
			e := map[string]any{"a": atomJSON(a)}
			and, aerr := Parse(Render(a))
			if aerr != "" {
				e["rej"] = true
				e["got"], e["mut"], e["panic"] = empty.Got, empty.Mut, empty.Panic
			} else {
				fa, _ := evalAll(and, flows, order)
				e["rej"] = false
				e["got"], e["mut"], e["panic"] = fa.Got, fa.Mut, fa.Panic
			}
			al = append(al, e)
		}
		ev["atoms"] = al
		o.Emit(ev)
	}
}
