package cond

// Binding of spec/cond/CondSyntax.tla (property C10) to the real preparation path
// query.Args.Prepare -> conditions.SanitizeUserInput -> node.ParseAndInstrument -> Tokenize+Join.
//
// condsyn-replay reads the generator output of CondSyntaxGen.tla:
//   line 1            {"flows":[...],"alpha":[...],"maxlen":N,"wswords":[...]}
//   {"kind":"seq"...}  class codes for all token sequences below a prefix (+ predicted selections
//                      of the well-formed ones)
//   {"kind":"tree"...} surface token lists of one syntax tree in every style (+ predicted selection)
//   {"kind":"text"...} one literal text with class and predicted selection (replays, controls)
// and prepares every text Reps times (the sanitiser iterates over a Go map).  It reports facts;
// checks/c10.py classifies them.
//
// condsyn-fuzz mutates seed texts byte-wise: no panic, no hang, and for accepted texts the stored
// canonical form must be accepted again and be a fixed point.

import (
	"encoding/json"
	"errors"
	"flag"
	"fmt"
	"io"
	"os"
	"sort"
	"strings"
	"sync"
	"time"

	"verifharness/internal/hx"

	"github.com/els0r/goProbe/v4/pkg/query"
)

// Prep is the outcome of one Args.Prepare call as far as the condition is concerned.
type Prep struct {
	Accepted bool
	Canon    string
	Msg      string
	Panic    string
	At       string // goProbe function on top of the panicking stack
}

// panicSite extracts the innermost goProbe function from a stack dump.
func panicSite(stack string) string {
	for _, l := range strings.Split(stack, "\n") {
		if i := strings.Index(l, "github.com/els0r/goProbe/v4/"); i == 0 {
			l = strings.TrimPrefix(l, "github.com/els0r/goProbe/v4/")
			if j := strings.LastIndex(l, "("); j > 0 {
				l = l[:j]
			}
			return l
		}
	}
	return ""
}

// PrepareOnce prepares a query whose only questionable argument is the condition.
func PrepareOnce(text string) (p Prep) {
	p.Panic = hx.Catch(func() {
		a := query.NewArgs("sip,dip,dport,proto", "eth0", query.WithCondition(text), query.WithFormat("json"),
			query.WithResolveTimeout(20*time.Millisecond))
		stmt, err := a.Prepare()
		p.Accepted = true
		if err != nil {
			var de *query.DetailError
			if !errors.As(err, &de) {
				hx.Die("condsyn: Prepare failed with an unexpected error type: %v", err)
			}
			for _, e := range de.Errors {
				if e.Location == "body.condition" {
					p.Accepted = false
					p.Msg = e.Message
				} else {
					hx.Die("condsyn: Prepare rejected a fixed argument (%s: %s)", e.Location, e.Message)
				}
			}
		}
		if stmt != nil {
			p.Canon = stmt.Condition
		}
	})
	if p.Panic != "" {
		p.At = panicSite(p.Panic)
	}
	if len(p.Panic) > 800 {
		p.Panic = p.Panic[:800]
	}
	if len(p.Msg) > 300 {
		p.Msg = p.Msg[:300]
	}
	return p
}

// Outcome summarises Reps preparations of one text.
type Outcome struct {
	Accepts int      `json:"accepts"`
	Rejects int      `json:"rejects"`
	Canons  []string `json:"canons"` // distinct canonical strings among the accepted runs
	Msg     string   `json:"msg,omitempty"`
	Panic   string   `json:"panic,omitempty"`
}

func prepareN(text string, reps int) Outcome {
	o := Outcome{Canons: []string{}}
	seen := map[string]bool{}
	for i := 0; i < reps; i++ {
		p := PrepareOnce(text)
		if p.Panic != "" {
			o.Panic = p.Panic
			return o
		}
		if p.Accepted {
			o.Accepts++
			if !seen[p.Canon] {
				seen[p.Canon] = true
				o.Canons = append(o.Canons, p.Canon)
			}
		} else {
			o.Rejects++
			if o.Msg == "" {
				o.Msg = p.Msg
			}
		}
	}
	sort.Strings(o.Canons)
	return o
}

// selection evaluates a condition text (already in the base grammar) on the flow universe.
func selection(text string, flows []Flow) (sel []bool, err string) {
	nd, perr := Parse(text)
	if perr != "" {
		return nil, perr
	}
	sel = make([]bool, len(flows))
	for i, f := range flows {
		x := EvalOn(nd, f)
		if x.Panic != "" {
			return nil, x.Panic
		}
		sel[i] = x.Got
	}
	return sel, ""
}

type synFact struct {
	Kind string `json:"kind"` // panic | reject-wellformed | accept-illformed | unstable | canon-selection | canon-not-fixed | canon-rejected
	Msg  string `json:"msg,omitempty"`
}

// judge prepares text and compares with the class / selection the specification predicts.
// class: 1 well-formed, 0 ill-formed, 2 unjudged.
func judge(text string, class int, exp []bool, flows []Flow, reps int) (facts []synFact, o Outcome) {
	o = prepareN(text, reps)
	if o.Panic != "" {
		return []synFact{{Kind: "panic", Msg: o.Panic}}, o
	}
	if class == 2 {
		return nil, o
	}
	if o.Accepts > 0 && o.Rejects > 0 || len(o.Canons) > 1 {
		facts = append(facts, synFact{Kind: "unstable", Msg: fmt.Sprintf("%d accepted / %d rejected, %d canonical forms; %s", o.Accepts, o.Rejects, len(o.Canons), o.Msg)})
	}
	if class == 1 && o.Rejects > 0 && o.Accepts == 0 {
		facts = append(facts, synFact{Kind: "reject-wellformed", Msg: o.Msg})
	}
	if class == 0 && o.Accepts > 0 && o.Rejects == 0 {
		facts = append(facts, synFact{Kind: "accept-illformed", Msg: strings.Join(o.Canons, " ;; ")})
	}
	if class == 1 {
		for _, c := range o.Canons {
			// the canonical form prepared again: accepted, unchanged, same selection as the model tree
			p2 := PrepareOnce(c)
			switch {
			case p2.Panic != "":
				facts = append(facts, synFact{Kind: "panic", Msg: "preparing the canonical form: " + p2.Panic})
			case !p2.Accepted:
				facts = append(facts, synFact{Kind: "canon-rejected", Msg: c + " :: " + p2.Msg})
			case p2.Canon != c:
				facts = append(facts, synFact{Kind: "canon-not-fixed", Msg: c + " -> " + p2.Canon})
			}
			sel, serr := selection(c, flows)
			if serr != "" {
				facts = append(facts, synFact{Kind: "canon-rejected", Msg: c + " :: " + serr})
				continue
			}
			for i := range sel {
				if sel[i] != exp[i] {
					facts = append(facts, synFact{Kind: "canon-selection", Msg: fmt.Sprintf("%s :: flow %d selected=%v, model %v", c, flows[i].ID, sel[i], exp[i])})
					break
				}
			}
		}
	}
	return facts, o
}

type synInfo struct {
	Flows   []Flow   `json:"flows"`
	Alpha   []string `json:"alpha"`
	MaxLen  int      `json:"maxlen"`
	WsWords []string `json:"wswords"`
}

type synLine struct {
	Kind  string          `json:"kind"`
	Text  string          `json:"text"`
	Class int             `json:"class"`
	Reps  int             `json:"reps"`
	Pre   []int           `json:"pre"`
	Codes []int           `json:"codes"`
	WF    []wfCase        `json:"wf"`
	Tree  json.RawMessage `json:"tree"`
	Exp   []bool          `json:"exp"`
	Texts [][]string      `json:"texts"`
}

type wfCase struct {
	Toks []string `json:"toks"`
	Exp  []bool   `json:"exp"`
}

// completions enumerates index sequences of length 0..k in the generator's order.
func completions(na, k int) [][]int {
	out := [][]int{{}}
	prev := [][]int{{}}
	for l := 1; l <= k; l++ {
		var cur [][]int
		for a := 1; a <= na; a++ {
			for _, p := range prev {
				cur = append(cur, append([]int{a}, p...))
			}
		}
		out = append(out, cur...)
		prev = cur
	}
	return out
}

// Whitespace variants (the concretisation of "tokens separated by whitespace").
var wsVariants = []string{"single", "minimal", "double", "tab", "padded"}

func joinTokens(toks []string, ws map[string]bool, variant string) string {
	var b strings.Builder
	if variant == "padded" {
		b.WriteString(" ")
	}
	for i, t := range toks {
		if i > 0 {
			switch variant {
			case "single", "padded":
				b.WriteString(" ")
			case "double":
				b.WriteString("  ")
			case "tab":
				b.WriteString("\t")
			case "minimal": // blanks only where a word form requires them
				if ws[t] || ws[toks[i-1]] {
					b.WriteString(" ")
				}
			}
		}
		b.WriteString(t)
	}
	if variant == "padded" {
		b.WriteString(" ")
	}
	return b.String()
}

type job struct {
	text  string
	class int
	exp   []bool
	meta  map[string]any
}

type jobResult struct {
	facts []synFact
	o     Outcome
}

func runJobs(jobs []job, flows []Flow, reps, workers int) []jobResult {
	res := make([]jobResult, len(jobs))
	var wg sync.WaitGroup
	ch := make(chan int, 1024)
	for w := 0; w < workers; w++ {
		wg.Add(1)
		go func() {
			defer wg.Done()
			for i := range ch {
				f, o := judge(jobs[i].text, jobs[i].class, jobs[i].exp, flows, reps)
				res[i] = jobResult{f, o}
			}
		}()
	}
	for i := range jobs {
		ch <- i
	}
	close(ch)
	wg.Wait()
	return res
}

func init() {
	hx.Register("condsyn-replay", func(args []string) {
		fs := flag.NewFlagSet("condsyn-replay", flag.ExitOnError)
		repsSeq := fs.Int("reps-seq", 2, "preparations per token sequence text")
		repsTree := fs.Int("reps-tree", 16, "preparations per spelled text")
		variants := fs.Int("variants", len(wsVariants), "number of whitespace variants")
		workers := fs.Int("workers", 4, "parallel preparations")
		fs.Parse(args)
		SynReplay(*repsSeq, *repsTree, *variants, *workers, os.Stdin, os.Stdout)
	})
	hx.Register("condsyn-fuzz", func(args []string) {
		fs := flag.NewFlagSet("condsyn-fuzz", flag.ExitOnError)
		seed := fs.Uint64("seed", 1, "seed")
		n := fs.Int("n", 10000, "mutants")
		fs.Parse(args)
		SynFuzz(*seed, *n, os.Stdin, os.Stdout)
	})
}

// SynReplay runs parts (a) and (b).
func SynReplay(repsSeq, repsTree, nvariants, workers int, in io.Reader, out io.Writer) {
	o := hx.NewOut(out)
	defer o.Flush()
	var info *synInfo
	var ws map[string]bool
	var comps [][]int
	nseq, ntext, nprep, nbad := 0, 0, 0, 0
	classes := map[int]int{}
	emit := func(jobs []job, res []jobResult, reps int) {
		for i, r := range res {
			nprep += reps
			if len(r.facts) > 0 {
				nbad++
				m := map[string]any{"ok": false, "text": jobs[i].text, "class": jobs[i].class, "facts": r.facts,
					"accepts": r.o.Accepts, "rejects": r.o.Rejects, "canons": r.o.Canons}
				for k, v := range jobs[i].meta {
					m[k] = v
				}
				o.Emit(m)
			}
		}
	}
	err := hx.Lines(in, func(line []byte) error {
		if info == nil {
			info = &synInfo{}
			if err := json.Unmarshal(line, info); err != nil || len(info.Flows) == 0 || len(info.Alpha) == 0 {
				return fmt.Errorf("first line must be the generator's INFO record: %v", err)
			}
			ws = map[string]bool{}
			for _, w := range info.WsWords {
				ws[w] = true
			}
			comps = completions(len(info.Alpha), info.MaxLen-2)
			return nil
		}
		var l synLine
		if err := json.Unmarshal(line, &l); err != nil {
			return err
		}
		var jobs []job
		switch l.Kind {
		case "seq":
			cs := comps
			if len(l.Pre) == 1 {
				cs = comps[:1]
			}
			if len(cs) != len(l.Codes) {
				return fmt.Errorf("prefix %v: %d codes for %d completions", l.Pre, len(l.Codes), len(cs))
			}
			exps := map[string][]bool{}
			for _, w := range l.WF {
				exps[strings.Join(w.Toks, " ")] = w.Exp
			}
			for q, c := range cs {
				idx := append(append([]int{}, l.Pre...), c...)
				toks := make([]string, len(idx))
				for i, x := range idx {
					toks[i] = info.Alpha[x-1]
				}
				text := strings.Join(toks, " ")
				class := l.Codes[q]
				var exp []bool
				if class == 1 {
					var ok bool
					if exp, ok = exps[text]; !ok {
						return fmt.Errorf("no predicted selection for well-formed %q", text)
					}
				}
				classes[class]++
				jobs = append(jobs, job{text: text, class: class, exp: exp, meta: map[string]any{"part": "seq", "toks": toks}})
			}
			nseq += len(jobs)
			emit(jobs, runJobs(jobs, info.Flows, repsSeq, workers), repsSeq)
		case "tree":
			for _, toks := range l.Texts {
				for v := 0; v < nvariants && v < len(wsVariants); v++ {
					text := joinTokens(toks, ws, wsVariants[v])
					jobs = append(jobs, job{text: text, class: 1, exp: l.Exp,
						meta: map[string]any{"part": "tree", "toks": toks, "variant": wsVariants[v], "tree": l.Tree}})
				}
			}
			ntext += len(jobs)
			emit(jobs, runJobs(jobs, info.Flows, repsTree, workers), repsTree)
		case "text": // a single literal text (replay files, negative controls)
			reps := l.Reps
			if reps <= 0 {
				reps = repsTree
			}
			jobs = append(jobs, job{text: l.Text, class: l.Class, exp: l.Exp, meta: map[string]any{"part": "text"}})
			ntext++
			emit(jobs, runJobs(jobs, info.Flows, reps, 1), reps)
		default:
			return fmt.Errorf("unknown line kind %q", l.Kind)
		}
		return nil
	})
	if err != nil {
		hx.Die("condsyn replay: %v", err)
	}
	o.Emit(map[string]any{"summary": true, "sequences": nseq, "wellformed": classes[1], "illformed": classes[0], "unjudged": classes[2],
		"spelled_texts": ntext, "preparations": nprep, "failed": nbad})
}

// SynFuzz: seed texts on stdin (one per line, first line the INFO record for the flows).
func SynFuzz(seed uint64, n int, in io.Reader, out io.Writer) {
	o := hx.NewOut(out)
	defer o.Flush()
	var info *synInfo
	var seeds []string
	err := hx.Lines(in, func(line []byte) error {
		if info == nil {
			info = &synInfo{}
			return json.Unmarshal(line, info)
		}
		var s string
		if err := json.Unmarshal(line, &s); err != nil {
			return err
		}
		seeds = append(seeds, s)
		return nil
	})
	if err != nil || len(seeds) == 0 {
		hx.Die("condsyn fuzz: need INFO and seed texts: %v", err)
	}
	rng := hx.NewRNG(seed)
	alphabet := []byte(" \t\n()[]{}!&|=<>*+-/.:0123456789abcdefghijklmnopqrstuvwxyzANDORT\x00\xff\"'\\%,")
	var current string
	var started time.Time
	var mu sync.Mutex
	// watchdog: a single preparation that takes longer than 10 s is a hang
	go func() {
		for {
			time.Sleep(500 * time.Millisecond)
			mu.Lock()
			c, t0 := current, started
			mu.Unlock()
			if c != "" && time.Since(t0) > 10*time.Second {
				o.Emit(map[string]any{"ok": false, "kind": "hang", "text": c})
				o.Flush()
				os.Exit(0)
			}
		}
	}()
	accepted, bad, swept := 0, 0, 0
	check := func(text, how string) {
		mu.Lock()
		current, started = text, time.Now()
		mu.Unlock()
		p := PrepareOnce(text)
		var facts []synFact
		at := ""
		switch {
		case p.Panic != "":
			facts = append(facts, synFact{Kind: "panic", Msg: p.Panic})
			at = p.At
		case p.Accepted && p.Canon != "":
			accepted++
			p2 := PrepareOnce(p.Canon)
			switch {
			case p2.Panic != "":
				facts = append(facts, synFact{Kind: "panic", Msg: "preparing the canonical form: " + p2.Panic})
				at = p2.At
			case !p2.Accepted:
				facts = append(facts, synFact{Kind: "canon-rejected", Msg: p.Canon + " :: " + p2.Msg})
			case p2.Canon != p.Canon:
				facts = append(facts, synFact{Kind: "canon-not-fixed", Msg: p.Canon + " -> " + p2.Canon})
			}
		}
		mu.Lock()
		current = ""
		mu.Unlock()
		if len(facts) > 0 {
			bad++
			o.Emit(map[string]any{"ok": false, "part": "fuzz", "how": how, "at": at, "text": text, "facts": facts, "canons": []string{p.Canon}})
		}
	}
	// deterministic dictionary sweep: every number of every seed replaced by boundary values
	dict := []string{"-1", "-16", "0", "1", "32", "33", "128", "129", "255", "256", "65535", "65536", "4294967296", "99999999999999999999", "08", ""}
	for _, sd := range seeds {
		for i := 0; i < len(sd); {
			if sd[i] < '0' || sd[i] > '9' {
				i++
				continue
			}
			j := i
			for j < len(sd) && sd[j] >= '0' && sd[j] <= '9' {
				j++
			}
			for _, d := range dict {
				check(sd[:i]+d+sd[j:], "number-sweep")
				swept++
			}
			i = j
		}
	}
	for i := 0; i < n; i++ {
		b := []byte(seeds[rng.Intn(len(seeds))])
		for m := 1 + rng.Intn(3); m > 0; m-- {
			switch rng.Intn(4) {
			case 0: // insert
				p := rng.Intn(len(b) + 1)
				b = append(b[:p], append([]byte{alphabet[rng.Intn(len(alphabet))]}, b[p:]...)...)
			case 1: // delete
				if len(b) > 0 {
					p := rng.Intn(len(b))
					b = append(b[:p], b[p+1:]...)
				}
			case 2: // replace
				if len(b) > 0 {
					b[rng.Intn(len(b))] = alphabet[rng.Intn(len(alphabet))]
				}
			default: // duplicate a slice (nesting / repetition)
				if len(b) > 1 {
					p := rng.Intn(len(b) - 1)
					q := p + 1 + rng.Intn(len(b)-p-1)
					b = append(b[:q], append(append([]byte{}, b[p:q]...), b[q:]...)...)
				}
			}
		}
		check(string(b), "byte-mutation")
	}
	o.Emit(map[string]any{"summary": true, "mutants": n, "swept": swept, "accepted": accepted, "failed": bad})
}
