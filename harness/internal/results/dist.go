package results

// dist.go: C14 through the distributed query path (cmd/global-query/pkg/distributed).
//
// A scripted distributed.Querier answers QueryRunner.Run: the rows of a case are split into one
// result per (host, host id), every result is JSON-encoded and decoded again (what the real
// querier receives from a host's API, so time labels carry the zone of the sending host) and
// the results arrive in a prescribed order.  Run merges them in a RowsMap (a Go map), sorts
// with results.By(stmt.SortBy, stmt.Direction, stmt.SortAscending), post-processes and
// truncates to Args.NumResults.  Because the map iteration order is random, every case is run
// several times per arrival order; all runs must give the same admissible output.

import (
	"context"
	"encoding/json"
	"fmt"
	"io"
	"strings"
	"time"

	"verifharness/internal/hx"

	gqdist "github.com/els0r/goProbe/v4/cmd/global-query/pkg/distributed"
	"github.com/els0r/goProbe/v4/pkg/distributed/hosts"
	"github.com/els0r/goProbe/v4/pkg/query"
	gpresults "github.com/els0r/goProbe/v4/pkg/results"
	"github.com/els0r/goProbe/v4/pkg/types"
	jsoniter "github.com/json-iterator/go"
)

type splitResolver struct{}

func (splitResolver) Resolve(_ context.Context, q string) (hosts.Hosts, error) {
	return hosts.Hosts(strings.Split(q, ",")), nil
}

// scriptedQuerier delivers prepared per-host results in a fixed order.
type scriptedQuerier struct {
	results []*gpresults.Result
}

func (s *scriptedQuerier) Query(_ context.Context, _ hosts.Hosts, _ *query.Args) (<-chan *gpresults.Result, <-chan struct{}) {
	ch := make(chan *gpresults.Result, len(s.results))
	ka := make(chan struct{})
	for _, r := range s.results {
		ch <- r
	}
	close(ch)
	close(ka)
	return ch, ka
}

// hostResult builds the result one host would send and passes it through JSON.
func hostResult(host string, rows []gpresults.Row, first, last int64) (*gpresults.Result, error) {
	res := gpresults.New()
	res.Start()
	res.Hostname = host
	res.HostsStatuses[host] = gpresults.Status{Code: types.StatusOK}
	res.Rows = rows
	res.Summary.First, res.Summary.Last = time.Unix(first, 0), time.Unix(last, 0)
	res.Summary.Interfaces = []string{"eth0", "eth1"}
	res.Summary.DataAvailable = true
	res.Summary.Hits.Total = len(rows)
	for _, r := range rows {
		res.Summary.Totals.Add(r.Counters)
	}
	res.End()
	b, err := jsoniter.Marshal(res)
	if err != nil {
		return nil, err
	}
	dec := new(gpresults.Result)
	if err := jsoniter.Unmarshal(b, dec); err != nil {
		return nil, err
	}
	if len(dec.Rows) != len(rows) {
		return nil, fmt.Errorf("JSON transport changed the number of rows (%d -> %d)", len(rows), len(dec.Rows))
	}
	return dec, nil
}

// distArgs translates a sort configuration into query arguments; ok=false if the configuration
// cannot be requested through the query API (time-labelled results are always ascending).
func distArgs(cfg sortCfg, hostList string, first, last int64, limit uint64) (*query.Args, bool) {
	qt := "sip,dip,dport,proto"
	if cfg.Key == "time" {
		if !cfg.Asc || cfg.Dir != "sum" {
			return nil, false
		}
		qt = "time,sip,dip,dport,proto"
	}
	a := query.NewArgs(qt, "eth0,eth1", query.WithFirst(fmt.Sprint(first)), query.WithLast(fmt.Sprint(last)),
		query.WithFormat("json"), query.WithNumResults(limit), query.WithQueryHosts(hostList))
	if cfg.Key != "time" {
		a.SortBy = cfg.Key
	}
	a.SortAscending = cfg.Asc
	switch cfg.Dir {
	case "sum":
		a.Sum = true
	case "in":
		a.In = true
	case "out":
		a.Out = true
	}
	return a, true
}

// DistReplay runs the TLC-generated sorting cases through the distributed query runner.
func DistReplay(reps int, in io.Reader, out io.Writer) {
	o := hx.NewOut(out)
	defer o.Flush()
	resolvers := hosts.NewResolverMap()
	resolvers.Set("string", splitResolver{})
	n, used, ncfg, runs, bad := 0, 0, 0, 0, 0
	err := hx.Lines(in, func(line []byte) error {
		var c sortCase
		if err := json.Unmarshal(line, &c); err != nil {
			return fmt.Errorf("case %d: %v", n, err)
		}
		n++
		// the aggregation adds up rows with equal labels and attributes (that is C15's business):
		// only results whose rows have pairwise different keys are sorting cases
		keys := map[PKey]bool{}
		for _, m := range c.Rows {
			keys[ProjectModel(m).Key()] = true
		}
		if len(keys) != len(c.Rows) {
			return nil
		}
		used++
		real, err := ConcretiseAll(c.Rows)
		if err != nil {
			return err
		}
		ix := newIndexer(c.Rows)
		lo, hi := spanOf(c.Rows)
		if lo == 0 {
			lo = base
		}
		if hi == 0 {
			hi = base
		}
		// one result per (host, host id)
		type grp struct {
			host string
			rows []gpresults.Row
		}
		var groups []*grp
		gidx := map[string]*grp{}
		for i, m := range c.Rows {
			k := m.Host + "/" + m.HostID
			g, ok := gidx[k]
			if !ok {
				g = &grp{host: m.Host}
				gidx[k] = g
				groups = append(groups, g)
			}
			g.rows = append(g.rows, real[i])
		}
		var hostNames []string
		seenHost := map[string]bool{}
		for _, g := range groups {
			if !seenHost[g.host] {
				seenHost[g.host] = true
				hostNames = append(hostNames, g.host)
			}
		}
		hostList := strings.Join(hostNames, ",")
		orders := permutations(len(groups))
		run := func(cfg sortCfg, order []int, limit uint64) ([]int, string, error) {
			args, _ := distArgs(cfg, hostList, lo-300, hi+300, limit)
			q := &scriptedQuerier{}
			for _, gi := range order {
				hr, err := hostResult(groups[gi].host, groups[gi].rows, lo-300, hi+300)
				if err != nil {
					return nil, "", err
				}
				q.results = append(q.results, hr)
			}
			var res *gpresults.Result
			var rerr error
			if p := hx.Catch(func() { res, rerr = gqdist.NewQueryRunner(resolvers, q).Run(context.Background(), args) }); p != "" {
				return nil, p, nil
			}
			if rerr != nil {
				return nil, "", fmt.Errorf("QueryRunner.Run: %v", rerr)
			}
			runs++
			return ix.positions(res.Rows), "", nil
		}
		for _, cfg := range c.Cases {
			if _, ok := distArgs(cfg, hostList, lo, hi, 1); !ok {
				continue
			}
			ncfg++
			adm := map[string]bool{}
			for _, a := range cfg.Adm {
				adm[seqKey(a)] = true
			}
			var fails []sortFail
			seen := map[string]bool{}
			addFail := func(f sortFail) {
				if !seen[f.rule] {
					seen[f.rule] = true
					fails = append(fails, f)
				}
			}
			var first []int
			total := 0
			need := reps // the aggregation iterates a Go map: repeat where the specification admits several outputs
			if len(cfg.Adm) == 1 {
				need = 1
			}
			for total < need {
				for _, order := range orders {
					pos, p, err := run(cfg, order, uint64(len(c.Rows)+5))
					if err != nil {
						return err
					}
					total++
					if p != "" {
						addFail(sortFail{rule: "panic", msg: p, perm: order})
						continue
					}
					if !adm[seqKey(pos)] {
						rule := "order"
						if !sameInts(sortedCopy(pos), sortedCopy(c.Canon)) {
							rule = "permutation"
						}
						addFail(sortFail{rule: rule, perm: order,
							msg: fmt.Sprintf("arrival order of the hosts' results %v: Result.Rows %v is not among the admissible outputs %v", order, pos, cfg.Adm)})
					}
					if first == nil {
						first = pos
					} else if !sameInts(pos, first) {
						addFail(sortFail{rule: "determinism", perm: order, differ: differ(c.Rows, first, pos),
							msg: fmt.Sprintf("the same rows came out as %v and as %v (arrival order %v, run %d)", first, pos, order, total)})
					}
				}
			}
			if len(fails) == 0 && first != nil {
				// the row limit keeps the first n rows of that order
				for k := 1; k <= len(c.Rows); k++ {
					for r := 0; r < 3; r++ {
						pos, p, err := run(cfg, orders[(k+r)%len(orders)], uint64(k))
						if err != nil {
							return err
						}
						if p != "" {
							addFail(sortFail{rule: "panic", msg: p})
							continue
						}
						if !sameInts(pos, first[:k]) {
							// the first k rows of ANOTHER admissible order: the order is not fixed (3), not (4)
							rule := "limit"
							for _, a := range cfg.Adm {
								if len(a) >= k && sameInts(pos, a[:k]) {
									rule = "determinism"
								}
							}
							addFail(sortFail{rule: rule, perm: orders[(k+r)%len(orders)], differ: differ(c.Rows, first[:k], pos),
								msg: fmt.Sprintf("num_results=%d: Result.Rows %v, the first rows of the unlimited result are %v", k, pos, first[:k])})
						}
					}
				}
			}
			for _, f := range fails {
				bad++
				beh := sortCase{Rows: c.Rows, Canon: c.Canon, Cases: []sortCfg{cfg}}
				desc := failDesc("distributed", f, cfg)
				o.Emit(map[string]any{"id": n - 1, "ok": false, "step": 0, "msg": f.msg, "desc": desc,
					"cfg": map[string]any{"key": cfg.Key, "dir": cfg.Dir, "asc": cfg.Asc}, "perm": f.perm, "behaviour": beh})
			}
		}
		return nil
	})
	if err != nil {
		hx.Die("dist-replay: %v", err)
	}
	o.Emit(map[string]any{"summary": true, "behaviours": n, "used": used, "configs": ncfg, "runs": runs, "failed": bad})
}
