// Package results binds spec/results/{Rows,Binning,Sorting}.tla to goProbe's pkg/results,
// pkg/query (Statement.PostProcess, Args.Prepare) and cmd/global-query/pkg/distributed.
//
// rows.go: the model row (spec/results/Rows.tla), its deterministic concretisation to
// results.Row and the projection of real rows back to model rows.  The projection keeps the
// time label as an instant (Rows!Proj): the zone a timestamp is presented in is not part of
// what is compared.
package results

import (
	"crypto/sha256"
	"encoding/binary"
	"fmt"
	"net/netip"
	"sort"
	"time"

	"verifharness/internal/hx"

	gpresults "github.com/els0r/goProbe/v4/pkg/results"
	"github.com/els0r/goProbe/v4/pkg/types"
)

// MRow is a row of the specification (Rows!Row).
type MRow struct {
	Ts     int64  `json:"ts"`
	Zone   string `json:"zone"`
	Iface  string `json:"iface"`
	Host   string `json:"host"`
	HostID string `json:"hostid"`
	Sip    string `json:"sip"`
	Dip    string `json:"dip"`
	Proto  int    `json:"proto"`
	Dport  int    `json:"dport"`
	Br     uint64 `json:"br"`
	Bs     uint64 `json:"bs"`
	Pr     uint64 `json:"pr"`
	Ps     uint64 `json:"ps"`
}

// PRow is a projected row: comparable, time label as instant, zone dropped.
type PRow struct {
	Ts     int64
	Nsec   int
	Iface  string
	Host   string
	HostID string
	Sip    string
	Dip    string
	Proto  int
	Dport  int
	Br     uint64
	Bs     uint64
	Pr     uint64
	Ps     uint64
}

// PKey is the key part of a projected row (labels and attributes).
type PKey struct {
	Ts     int64
	Nsec   int
	Iface  string
	Host   string
	HostID string
	Sip    string
	Dip    string
	Proto  int
	Dport  int
}

func (p PRow) Key() PKey {
	return PKey{p.Ts, p.Nsec, p.Iface, p.Host, p.HostID, p.Sip, p.Dip, p.Proto, p.Dport}
}

// zones: one shared *time.Location per zone atom (the most favourable case for comparisons
// of time.Time values as structs; JSON decoding may even yield one Location per value).
var zones = map[string]*time.Location{
	"utc":   time.UTC,
	"cest":  time.FixedZone("CEST", 2*3600),
	"est":   time.FixedZone("EST", -5*3600),
	"ist":   time.FixedZone("IST", 5*3600+1800),
	"local": time.Local,
}

var addrs = map[string]netip.Addr{
	"none": {},
	"v4a":  netip.MustParseAddr("10.0.0.1"),
	"v4b":  netip.MustParseAddr("10.0.0.2"),
	"v4c":  netip.MustParseAddr("192.168.1.77"),
	"v6m":  netip.MustParseAddr("::ffff:10.0.0.1"),
	"v6a":  netip.MustParseAddr("2001:db8::1"),
	"v6b":  netip.MustParseAddr("2001:db8::2"),
	"v6c":  netip.MustParseAddr("fe80::1234:5678"),
}

var addrAtoms = func() map[netip.Addr]string {
	m := map[netip.Addr]string{}
	for k, v := range addrs {
		m[v] = k
	}
	return m
}()

// Concretise turns a model row into a results.Row.
func Concretise(m MRow) (gpresults.Row, error) {
	var r gpresults.Row
	if m.Ts != 0 {
		loc, ok := zones[m.Zone]
		if !ok {
			return r, fmt.Errorf("unknown zone atom %q", m.Zone)
		}
		r.Labels.Timestamp = time.Unix(m.Ts, 0).In(loc)
	}
	r.Labels.Iface, r.Labels.Hostname, r.Labels.HostID = m.Iface, m.Host, m.HostID
	sip, ok1 := addrs[m.Sip]
	dip, ok2 := addrs[m.Dip]
	if !ok1 || !ok2 {
		return r, fmt.Errorf("unknown address atom %q/%q", m.Sip, m.Dip)
	}
	r.Attributes.SrcIP, r.Attributes.DstIP = sip, dip
	r.Attributes.IPProto, r.Attributes.DstPort = uint8(m.Proto), uint16(m.Dport)
	r.Counters = types.Counters{BytesRcvd: m.Br, BytesSent: m.Bs, PacketsRcvd: m.Pr, PacketsSent: m.Ps}
	return r, nil
}

// ConcretiseAll concretises a list of model rows (machinery failure on unknown atoms).
func ConcretiseAll(ms []MRow) ([]gpresults.Row, error) {
	out := make([]gpresults.Row, len(ms))
	for i, m := range ms {
		r, err := Concretise(m)
		if err != nil {
			return nil, err
		}
		out[i] = r
	}
	return out, nil
}

func addrAtom(a netip.Addr) string {
	if s, ok := addrAtoms[a]; ok {
		return s
	}
	return a.String()
}

// Project maps a real row to the model vocabulary.
func Project(r gpresults.Row) PRow {
	p := PRow{
		Iface: r.Labels.Iface, Host: r.Labels.Hostname, HostID: r.Labels.HostID,
		Sip: addrAtom(r.Attributes.SrcIP), Dip: addrAtom(r.Attributes.DstIP),
		Proto: int(r.Attributes.IPProto), Dport: int(r.Attributes.DstPort),
		Br: r.Counters.BytesRcvd, Bs: r.Counters.BytesSent, Pr: r.Counters.PacketsRcvd, Ps: r.Counters.PacketsSent,
	}
	if !r.Labels.Timestamp.IsZero() {
		p.Ts, p.Nsec = r.Labels.Timestamp.Unix(), r.Labels.Timestamp.Nanosecond()
	}
	return p
}

// ProjectModel is Rows!Proj on a model row.
func ProjectModel(m MRow) PRow {
	return PRow{Ts: m.Ts, Iface: m.Iface, Host: m.Host, HostID: m.HostID, Sip: m.Sip, Dip: m.Dip,
		Proto: m.Proto, Dport: m.Dport, Br: m.Br, Bs: m.Bs, Pr: m.Pr, Ps: m.Ps}
}

// ToModel renders a projected row as a model row with zone "-" (what the trace specs read).
func (p PRow) ToModel() MRow {
	if p.Nsec != 0 {
		p.Ts = -p.Ts // a time label with a sub-second part is no label of the model
	}
	return MRow{Ts: p.Ts, Zone: "-", Iface: p.Iface, Host: p.Host, HostID: p.HostID, Sip: p.Sip, Dip: p.Dip,
		Proto: p.Proto, Dport: p.Dport, Br: p.Br, Bs: p.Bs, Pr: p.Pr, Ps: p.Ps}
}

func lessP(a, b PRow) bool {
	if a.Ts != b.Ts {
		return a.Ts < b.Ts
	}
	return fmt.Sprint(a) < fmt.Sprint(b)
}

// SortP orders projected rows canonically (only so that multisets can be compared / printed).
func SortP(ps []PRow) []PRow {
	out := append([]PRow(nil), ps...)
	sort.SliceStable(out, func(i, j int) bool { return lessP(out[i], out[j]) })
	return out
}

// SameBag compares two lists of projected rows as multisets.
func SameBag(a, b []PRow) bool {
	if len(a) != len(b) {
		return false
	}
	cnt := map[PRow]int{}
	for _, x := range a {
		cnt[x]++
	}
	for _, x := range b {
		cnt[x]--
		if cnt[x] < 0 {
			return false
		}
	}
	return true
}

// ProjectAll projects Result.Rows.
func ProjectAll(rs []gpresults.Row) []PRow {
	out := make([]PRow, len(rs))
	for i := range rs {
		out[i] = Project(rs[i])
	}
	return out
}

// ProjectModelAll projects model rows.
func ProjectModelAll(ms []MRow) []PRow {
	out := make([]PRow, len(ms))
	for i := range ms {
		out[i] = ProjectModel(ms[i])
	}
	return out
}

// ModelRows renders projected rows for logging (never nil: TLC reads [] as the empty sequence).
func ModelRows(ps []PRow) []MRow {
	out := make([]MRow, 0, len(ps))
	for _, p := range ps {
		out = append(out, p.ToModel())
	}
	return out
}

// seedRNG derives a generator from (seed, purpose).  hx.RNG walks one fixed orbit with a constant
// step, so neighbouring seeds would replay the same values shifted by a few draws; hashing the
// seed puts every (seed, purpose) at an unrelated position.
func seedRNG(seed uint64, purpose string) *hx.RNG {
	h := sha256.Sum256([]byte(fmt.Sprintf("%d/%s", seed, purpose)))
	return hx.NewRNG(binary.LittleEndian.Uint64(h[:8]))
}
