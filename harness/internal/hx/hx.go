// Package hx holds helpers shared by all harness families: NDJSON in/out, seeded RNG,
// panic capture.
package hx

import (
	"bufio"
	"encoding/json"
	"fmt"
	"io"
	"os"
	"runtime/debug"
)

// Cmd is a harness sub-command: args are the command line after the sub-command name.
type Cmd func(args []string)

var registry = map[string]Cmd{}

// Register adds a sub-command (called from the init() of a family package).
func Register(name string, c Cmd) { registry[name] = c }

// Lookup returns a registered sub-command.
func Lookup(name string) (Cmd, bool) { c, ok := registry[name]; return c, ok }

// Names lists the registered sub-commands.
func Names() []string {
	var n []string
	for k := range registry {
		n = append(n, k)
	}
	return n
}

// Main dispatches os.Args to the registered sub-commands (used by every cmd/vh_<family>).
func Main() {
	if len(os.Args) < 2 {
		fmt.Fprintln(os.Stderr, "usage: vh <command> [flags]; commands:", Names())
		os.Exit(2)
	}
	c, ok := Lookup(os.Args[1])
	if !ok {
		fmt.Fprintln(os.Stderr, "vh: unknown command", os.Args[1])
		os.Exit(2)
	}
	c(os.Args[2:])
}

// Lines calls fn for every non-empty line of r (lines may be very long).
func Lines(r io.Reader, fn func(line []byte) error) error {
	br := bufio.NewReaderSize(r, 1<<20)
	for {
		line, err := br.ReadBytes('\n')
		if len(line) > 1 {
			if e := fn(line); e != nil {
				return e
			}
		}
		if err == io.EOF {
			return nil
		}
		if err != nil {
			return err
		}
	}
}

// Out is a buffered NDJSON writer.
type Out struct {
	w   *bufio.Writer
	enc *json.Encoder
}

// NewOut wraps w.
func NewOut(w io.Writer) *Out {
	bw := bufio.NewWriterSize(w, 1<<20)
	return &Out{w: bw, enc: json.NewEncoder(bw)}
}

// Emit writes one JSON line.
func (o *Out) Emit(v any) {
	if err := o.enc.Encode(v); err != nil {
		fmt.Fprintln(os.Stderr, "emit:", err)
		os.Exit(2)
	}
}

// Flush flushes.
func (o *Out) Flush() { o.w.Flush() }

// Catch runs fn and turns a panic into an error string (with stack).
func Catch(fn func()) (panicked string) {
	defer func() {
		if r := recover(); r != nil {
			panicked = fmt.Sprintf("panic: %v\n%s", r, debug.Stack())
		}
	}()
	fn()
	return ""
}

// Die reports a machinery failure (exit 2).
func Die(format string, a ...any) {
	fmt.Fprintf(os.Stderr, format+"\n", a...)
	os.Exit(2)
}

// RNG is a small deterministic generator (splitmix64) so traces are reproducible from a seed.
type RNG struct{ s uint64 }

// NewRNG seeds.
func NewRNG(seed uint64) *RNG {
	r := &RNG{s: seed*0x9E3779B97F4A7C15 + 0x1234567}
	// scramble so that neighbouring seeds give unrelated streams
	r.s = r.U64() ^ (r.U64() << 1)
	return r
}

// U64 returns the next value.
func (r *RNG) U64() uint64 {
	r.s += 0x9E3779B97F4A7C15
	z := r.s
	z = (z ^ (z >> 30)) * 0xBF58476D1CE4E5B9
	z = (z ^ (z >> 27)) * 0x94D049BB133111EB
	return z ^ (z >> 31)
}

// Intn returns a value in [0,n).
func (r *RNG) Intn(n int) int {
	if n <= 0 {
		return 0
	}
	return int(r.U64() % uint64(n))
}

// Bytes fills a new slice of n pseudo-random bytes.
func (r *RNG) Bytes(n int) []byte {
	b := make([]byte, n)
	for i := 0; i < n; i += 8 {
		v := r.U64()
		for j := 0; j < 8 && i+j < n; j++ {
			b[i+j] = byte(v >> (8 * j))
		}
	}
	return b
}
