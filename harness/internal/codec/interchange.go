package codec

import (
	"bytes"
	"context"
	"crypto/sha256"
	"encoding/binary"
	"encoding/hex"
	"encoding/json"
	"flag"
	"fmt"
	"os"
	"path/filepath"
	"sort"
	"strconv"

	"verifharness/internal/hx"

	"github.com/els0r/goProbe/v4/pkg/capture/capturetypes"
	"github.com/els0r/goProbe/v4/pkg/goDB"
	"github.com/els0r/goProbe/v4/pkg/goDB/encoder/encoders"
	"github.com/els0r/goProbe/v4/pkg/goDB/engine"
	"github.com/els0r/goProbe/v4/pkg/goDB/storage/gpfile"
	"github.com/els0r/goProbe/v4/pkg/query"
	"github.com/els0r/goProbe/v4/pkg/types"
)

// Binding of spec/codec/Interchange.tla (C02). A behaviour is a sequence of write-outs, each by some
// build configuration; after every write-out every build observes the day. One process (= one
// build) executes the steps assigned to it for many behaviours; the check orchestrates the rounds.

const ixIface = "eth0"

// wjob is one WriteOut step to perform.
type wjob struct {
	DB    string `json:"db"`
	ID    int    `json:"id"`
	Enc   string `json:"enc"`
	Level int    `json:"level"`
	Cls   string `json:"cls"`
	Seed  uint64 `json:"seed"`
	Mode  string `json:"mode"` // "flows": goDB.DBWriter.Write of a flow map; "raw": GPDir.WriteBlocks of arbitrary column bytes
	Beh   int    `json:"beh"`
}

// ojob is one observation to perform.
type ojob struct {
	DB     string   `json:"db"`
	Blocks []string `json:"blocks"` // classes of the blocks written so far (block i has id i+1)
	Seed   uint64   `json:"seed"`
	Mode   string   `json:"mode"`
	Beh    int      `json:"beh"`
}

// oresult is what one build reads back.
type oresult struct {
	Beh    int        `json:"beh"`
	View   []string   `json:"view"`   // per block: its class when everything read back equals what was written, else "unreadable"
	N      int        `json:"n"`      // blocks the reader sees
	Digest string     `json:"digest"` // digest of everything read back (column bytes, metadata, rows)
	Detail []string   `json:"detail"` // first differences (human readable)
	Stored [][]string `json:"stored"` // per block, per column: encoder type recorded in the block header
}

// nFlows is the number of flows of a block class. "big" blocks are sized such that a compressible
// two-byte column exceeds its compressed form by more than the 8 KiB scratch slice of GPFile.
func nFlows(rng *hx.RNG, cls string) int {
	switch cls {
	case "tiny":
		return 1 + rng.Intn(8)
	case "mid":
		return 250 + rng.Intn(250)
	case "big":
		return 6000 + rng.Intn(2000)
	}
	hx.Die("codec: unknown block class %q", cls)
	return 0
}

// FlowsOf generates the flows of block id of a behaviour deterministically from (seed, id, class).
func FlowsOf(seed uint64, id int, cls string) []Flow {
	rng := hx.NewRNG(seed*6151 + uint64(id)*92821 + uint64(len(cls)))
	n := nFlows(rng, cls)
	servers := [][]byte{rng.Bytes(4), rng.Bytes(4), rng.Bytes(4)}
	seen := map[string]bool{}
	var fl []Flow
	for len(fl) < n {
		f := Flow{V4: rng.Intn(4) != 0}
		if f.V4 {
			f.SIP, f.DIP = rng.Bytes(4), rng.Bytes(4)
			if rng.Intn(2) == 0 {
				f.DIP = servers[rng.Intn(len(servers))]
			}
		} else {
			f.SIP, f.DIP = rng.Bytes(16), rng.Bytes(16)
		}
		f.Dport = []uint16{53, 80, 443, 8080, 22}[rng.Intn(5)]
		f.Proto = []byte{6, 17, 1}[rng.Intn(3)]
		f.C = types.Counters{BytesRcvd: uint64(40 + rng.Intn(1400)), BytesSent: uint64(rng.Intn(900)),
			PacketsRcvd: uint64(1 + rng.Intn(9)), PacketsSent: uint64(rng.Intn(7))}
		k := string(f.Key())
		if seen[k] {
			continue
		}
		seen[k] = true
		fl = append(fl, f)
	}
	return fl
}

// rawBlock is the content of a block in "raw" mode: arbitrary column bytes of the C07 data classes.
type rawBlock struct {
	data    [types.ColIdxCount][]byte
	traffic gpfile.TrafficMetadata
	counts  types.Counters
}

var rawClasses = map[string][]string{
	"tiny": {"empty", "b1", "smallC", "smallI"},
	"mid":  {"smallC", "k4C", "k4I", "smallI"},
	"big":  {"k64C", "k64I", "k4C", "k64C"},
}

// RawOf generates a raw block deterministically from (seed, id, class).
func RawOf(seed uint64, id int, cls string) rawBlock {
	rng := hx.NewRNG(seed*2741 + uint64(id)*15485863 + uint64(len(cls)))
	var b rawBlock
	menu, ok := rawClasses[cls]
	if !ok {
		hx.Die("codec: unknown block class %q", cls)
	}
	for c := range b.data {
		b.data[c] = GenData(rng, menu[rng.Intn(len(menu))]).Pristine()
	}
	b.traffic = gpfile.TrafficMetadata{NumV4Entries: uint64(rng.Intn(1 << 20)), NumV6Entries: uint64(rng.Intn(1000)), NumDrops: uint64(rng.Intn(5))}
	b.counts = types.Counters{BytesRcvd: uint64(rng.Intn(1 << 30)), BytesSent: uint64(rng.Intn(1 << 30)), PacketsRcvd: uint64(rng.Intn(1 << 20)), PacketsSent: uint64(rng.Intn(1 << 20))}
	return b
}

func doWrite(j wjob) error {
	et, err := encoders.GetTypeByString(j.Enc)
	if err != nil {
		return err
	}
	ts := TS(j.ID)
	if j.Mode == "raw" {
		b := RawOf(j.Seed, j.ID, j.Cls)
		w := gpfile.NewDirWriter(filepath.Join(j.DB, ixIface), ts, gpfile.WithEncoderTypeLevel(et, j.Level))
		if err := w.Open(); err != nil {
			return fmt.Errorf("open: %w", err)
		}
		if err := w.WriteBlocks(ts, b.traffic, b.counts, b.data); err != nil {
			return fmt.Errorf("WriteBlocks: %w", err)
		}
		return w.Close()
	}
	fl := FlowsOf(j.Seed, j.ID, j.Cls)
	w := goDB.NewDBWriter(j.DB, ixIface, et)
	if j.Level > 0 {
		w.EncoderLevel(j.Level)
	}
	return w.Write(FlowMap(fl), capturetypes.CaptureStats{Dropped: uint64(j.ID)}, ts)
}

func dayDir(db string) (names []string) {
	// <db>/<iface>/<year>/<month>/<day>[_suffix]
	years, _ := os.ReadDir(filepath.Join(db, ixIface))
	for _, y := range years {
		months, _ := os.ReadDir(filepath.Join(db, ixIface, y.Name()))
		for _, m := range months {
			days, _ := os.ReadDir(filepath.Join(db, ixIface, y.Name(), m.Name()))
			for _, d := range days {
				names = append(names, d.Name())
			}
		}
	}
	return
}

func putU64(h interface{ Write([]byte) (int, error) }, vs ...uint64) {
	var b [8]byte
	for _, v := range vs {
		binary.BigEndian.PutUint64(b[:], v)
		h.Write(b[:])
	}
}

// doObserve reads the day the way users do (block reader; query engine in "flows" mode) and
// projects it to the specification's view.
func doObserve(j ojob) (res oresult) {
	res = oresult{Beh: j.Beh, View: []string{}, Detail: []string{}, Stored: [][]string{}}
	h := sha256.New()
	note := func(format string, a ...any) {
		if len(res.Detail) < 6 {
			res.Detail = append(res.Detail, fmt.Sprintf(format, a...))
		}
	}
	ok := make([]bool, len(j.Blocks))
	for i := range ok {
		ok[i] = true
	}
	names := dayDir(j.DB)
	if len(names) != 1 {
		note("day has %d directories: %v", len(names), names)
		for range j.Blocks {
			res.View = append(res.View, "unreadable")
		}
		return
	}
	// ---- 1. block reader
	p := hx.Catch(func() {
		_, suffix, err := gpfile.ExtractTimestampMetadataSuffix(names[0])
		if err != nil {
			note("directory name: %v", err)
			ok = make([]bool, len(j.Blocks))
			return
		}
		d := gpfile.NewDirReader(filepath.Join(j.DB, ixIface), Day0, suffix)
		if err := d.Open(); err != nil {
			note("open for read: %v", err)
			ok = make([]bool, len(j.Blocks))
			return
		}
		defer d.Close()
		blocks := d.BlockMetadata[0].Blocks()
		res.N = len(blocks)
		var sumT gpfile.TrafficMetadata
		var sumC types.Counters
		for bi, b := range blocks {
			if bi >= len(j.Blocks) {
				note("reader sees extra block with timestamp %d", b.Timestamp)
				continue
			}
			id := bi + 1
			if b.Timestamp != TS(id) {
				note("block %d has timestamp %d, written %d", id, b.Timestamp, TS(id))
				ok[bi] = false
			}
			var want [types.ColIdxCount][]byte
			var wantT gpfile.TrafficMetadata
			var wantC types.Counters
			if j.Mode == "raw" {
				rb := RawOf(j.Seed, id, j.Blocks[bi])
				want, wantT, wantC = rb.data, rb.traffic, rb.counts
			} else {
				fl := FlowsOf(j.Seed, id, j.Blocks[bi])
				want = Columns(FlowMap(fl))
				t := TotalsFor(fl)
				wantT = gpfile.TrafficMetadata{NumV4Entries: uint64(t.V4), NumV6Entries: uint64(t.V6), NumDrops: uint64(id)}
				wantC = t.C
			}
			stored := make([]string, types.ColIdxCount)
			putU64(h, uint64(id))
			for c := types.ColumnIndex(0); c < types.ColIdxCount; c++ {
				stored[c] = d.BlockMetadata[c].BlockList[bi].EncoderType.String()
				got, err := d.ReadBlockAtIndex(c, bi)
				if err != nil {
					note("block %d column %s: %v", id, types.ColumnFileNames[c], err)
					ok[bi] = false
					continue
				}
				putU64(h, uint64(len(got)))
				h.Write(got)
				if !bytes.Equal(got, want[c]) {
					note("block %d column %s: %d bytes read back differ from the %d bytes written", id, types.ColumnFileNames[c], len(got), len(want[c]))
					ok[bi] = false
				}
			}
			res.Stored = append(res.Stored, stored)
			bt := d.BlockTraffic[bi]
			putU64(h, bt.NumV4Entries, bt.NumV6Entries, bt.NumDrops)
			if bt != wantT {
				note("block %d traffic metadata %v, written %v", id, bt, wantT)
				ok[bi] = false
			}
			sumT = sumT.Add(wantT)
			sumC.Add(wantC)
		}
		for bi := len(blocks); bi < len(j.Blocks); bi++ {
			note("block %d missing in the reader's metadata", bi+1)
			ok[bi] = false
		}
		putU64(h, d.Traffic.NumV4Entries, d.Traffic.NumV6Entries, d.Traffic.NumDrops, d.Counts.BytesRcvd, d.Counts.BytesSent, d.Counts.PacketsRcvd, d.Counts.PacketsSent)
		if len(blocks) == len(j.Blocks) && (d.Traffic != sumT || d.Counts != sumC) {
			note("day totals %v/%v, written %v/%v", d.Traffic, d.Counts, sumT, sumC)
			for i := range ok {
				ok[i] = false
			}
		}
	})
	if p != "" {
		note("reader panics: %s", firstLine(p))
		ok = make([]bool, len(j.Blocks))
	}
	// ---- 2. query engine: time-resolved raw rows of the whole day
	if j.Mode != "raw" {
		p := hx.Catch(func() {
			a := &query.Args{Query: "time,sip,dip,dport,proto", Ifaces: ixIface, First: strconv.FormatInt(Day0-86400, 10),
				Last: strconv.FormatInt(Day0+2*86400, 10), Format: "json", NumResults: 100000000, MaxMemPct: 90}
			qr, err := engine.NewQueryRunner(j.DB).Run(context.Background(), a)
			if err != nil {
				note("query: %v", err)
				ok = make([]bool, len(j.Blocks))
				return
			}
			if n := qr.Summary.Stats.BlocksCorrupted; n > 0 {
				note("query reports %d corrupted blocks", n)
			}
			type row struct {
				key string
				c   types.Counters
			}
			byTS := map[int64][]row{}
			for _, r := range qr.Rows {
				sip, dip := r.Attributes.SrcIP.AsSlice(), r.Attributes.DstIP.AsSlice()
				dp := []byte{byte(r.Attributes.DstPort >> 8), byte(r.Attributes.DstPort)}
				k := types.NewKey(sip, dip, dp, r.Attributes.IPProto)
				ts := r.Labels.Timestamp.Unix()
				byTS[ts] = append(byTS[ts], row{string(k), r.Counters})
			}
			for bi := range j.Blocks {
				id := bi + 1
				rows := byTS[TS(id)]
				delete(byTS, TS(id))
				sort.Slice(rows, func(a, b int) bool { return rows[a].key < rows[b].key })
				want := map[string]types.Counters{}
				for _, f := range FlowsOf(j.Seed, id, j.Blocks[bi]) {
					want[string(f.Key())] = f.C
				}
				good := len(rows) == len(want)
				putU64(h, uint64(id), uint64(len(rows)))
				for _, r := range rows {
					h.Write([]byte(r.key))
					putU64(h, r.c.BytesRcvd, r.c.BytesSent, r.c.PacketsRcvd, r.c.PacketsSent)
					if c, found := want[r.key]; !found || c != r.c {
						good = false
					}
				}
				if !good {
					note("block %d: query returns %d rows that are not the %d flows written", id, len(rows), len(want))
					ok[bi] = false
				}
			}
			for ts, rows := range byTS {
				note("query returns %d rows for timestamp %d that was never written", len(rows), ts)
				for i := range ok {
					ok[i] = false
				}
			}
		})
		if p != "" {
			note("query panics: %s", firstLine(p))
			ok = make([]bool, len(j.Blocks))
		}
	}
	for bi, c := range j.Blocks {
		if ok[bi] {
			res.View = append(res.View, c)
		} else {
			res.View = append(res.View, "unreadable")
		}
	}
	res.Digest = hex.EncodeToString(h.Sum(nil))[:24]
	return
}

func init() {
	hx.Register("codec-ix-write", func(args []string) {
		fs := flag.NewFlagSet("codec-ix-write", flag.ExitOnError)
		fs.Parse(args)
		defer startProfile()()
		o := hx.NewOut(os.Stdout)
		defer o.Flush()
		n, failed := 0, 0
		err := hx.Lines(os.Stdin, func(line []byte) error {
			var j wjob
			if err := json.Unmarshal(line, &j); err != nil {
				return err
			}
			var werr error
			p := hx.Catch(func() { werr = doWrite(j) })
			n++
			if p != "" || werr != nil {
				failed++
				msg := p
				if werr != nil {
					msg = werr.Error()
				}
				o.Emit(map[string]any{"beh": j.Beh, "ok": false, "msg": firstLine(msg)})
			}
			return nil
		})
		if err != nil {
			hx.Die("codec-ix-write: %v", err)
		}
		o.Emit(map[string]any{"summary": true, "writes": n, "failed": failed, "build": Info()})
	})
	hx.Register("codec-ix-observe", func(args []string) {
		fs := flag.NewFlagSet("codec-ix-observe", flag.ExitOnError)
		fs.Parse(args)
		defer startProfile()()
		o := hx.NewOut(os.Stdout)
		defer o.Flush()
		n := 0
		err := hx.Lines(os.Stdin, func(line []byte) error {
			var j ojob
			if err := json.Unmarshal(line, &j); err != nil {
				return err
			}
			o.Emit(doObserve(j))
			n++
			return nil
		})
		if err != nil {
			hx.Die("codec-ix-observe: %v", err)
		}
		o.Emit(map[string]any{"summary": true, "observations": n, "build": Info()})
	})
}
