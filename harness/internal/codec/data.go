// Package codec binds spec/codec/Encoder.tla (C07) and spec/codec/Interchange.tla (C02) to
// pkg/goDB/encoder and the goDB storage layer. The same package is compiled once per build
// configuration (cgo, CGO_ENABLED=0, goprobe_noliblz4, goprobe_nolibzstd).
package codec

import (
	"bytes"
	"reflect"
	"strconv"
	"strings"

	"verifharness/internal/hx"

	"github.com/els0r/goProbe/v4/pkg/goDB/encoder"
	"github.com/els0r/goProbe/v4/pkg/goDB/encoder/encoders"
	"github.com/fako1024/gotools/bitpack"
)

// BuildInfo describes which implementation every encoder type resolves to in this binary.
type BuildInfo struct {
	Cgo         bool   `json:"cgo"`
	LZ4         string `json:"lz4"`
	ZSTD        string `json:"zstd"`
	ZSTDReflect string `json:"zstd_reflect"` // cross-check through the struct layout of the real encoder
}

// Info returns the build information of this binary.
func Info() BuildInfo {
	bi := BuildInfo{Cgo: cgoEnabled, LZ4: lz4Impl, ZSTD: zstdImpl, ZSTDReflect: "unknown"}
	if e, err := encoder.New(encoders.EncoderTypeZSTD); err == nil {
		v := reflect.ValueOf(e).Elem()
		switch {
		case v.FieldByName("cCtx").IsValid():
			bi.ZSTDReflect = "cgo"
		case v.FieldByName("encoder").IsValid():
			bi.ZSTDReflect = "native"
		}
	}
	return bi
}

// implOf names the implementation behind an encoder type in this binary.
func implOf(t encoders.Type) string {
	switch t {
	case encoders.EncoderTypeLZ4:
		return lz4Impl
	case encoders.EncoderTypeZSTD:
		return zstdImpl
	}
	return "go"
}

// ---------------------------------------------------------------------------------------------
// data classes

// sizeOf draws the length of a data class.
func sizeOf(rng *hx.RNG, cls string) int {
	switch cls {
	case "empty":
		return 0
	case "b1":
		return 1
	case "smallC", "smallI":
		return 2 + rng.Intn(3000)
	case "k4C", "k4I":
		if rng.Intn(4) == 0 {
			return 4096 + rng.Intn(3) // right at the write-buffer size
		}
		return 4096 + rng.Intn(12000)
	case "k64C", "k64I":
		if rng.Intn(4) == 0 {
			return 65536 + rng.Intn(2)
		}
		return 65536 + rng.Intn(70000)
	case "k300M":
		return 200000 + rng.Intn(330000)
	}
	if n, _, ok := parseX(cls); ok {
		return n
	}
	hx.Die("codec: unknown data class %q", cls)
	return 0
}

// parseX parses the explicit forms used by the seeded driver: data "x<len>:<C|I|M>", scratch "x<len>:<cap>".
func parseX(s string) (a int, b string, ok bool) {
	if len(s) < 4 || s[0] != 'x' {
		return 0, "", false
	}
	i := strings.IndexByte(s, ':')
	if i < 0 {
		return 0, "", false
	}
	n, err := strconv.Atoi(s[1:i])
	if err != nil {
		return 0, "", false
	}
	return n, s[i+1:], true
}

// ClassOf is the specification's name of an input of n bytes (compressible or not).
func ClassOf(n int, kind string) string {
	c := "C"
	if kind == "I" {
		c = "I"
	}
	switch {
	case n == 0:
		return "empty"
	case n == 1:
		return "b1"
	case n < 4096:
		return "small" + c
	case n < 65536:
		return "k4" + c
	case n < 200000:
		return "k64" + c
	}
	return "k300M"
}

// ShapeOf is the specification's name of a scratch buffer.
func ShapeOf(b []byte) string {
	switch {
	case b == nil:
		return "nil"
	case len(b) == 0 && cap(b) == 0:
		return "len0cap0"
	case len(b) == 0:
		return "len0capBig"
	case cap(b) >= 65536:
		return "lenNcapBig"
	}
	return "lenNcapSmall"
}

// fillCompressible writes one of several compressible content kinds.
func fillCompressible(rng *hx.RNG, d []byte) string {
	switch rng.Intn(6) {
	case 0: // repetition of a short pattern
		p := rng.Bytes(1 + rng.Intn(9))
		for i := range d {
			d[i] = p[i%len(p)]
		}
		return "repeat"
	case 1: // low entropy bytes
		for i := range d {
			d[i] = byte(rng.Intn(16))
		}
		return "low-entropy"
	case 2: // destination port column: big endian 16 bit values from a small set
		ports := []uint16{53, 80, 443, 8080, 22, 123, 3389}
		for i := 0; i+1 < len(d); i += 2 {
			p := ports[rng.Intn(len(ports))]
			d[i], d[i+1] = byte(p>>8), byte(p)
		}
		return "dport-column"
	case 3: // bit-packed counter column (as DBWriter stores counters), cut / repeated to the length
		n := len(d)/2 + 2
		vals := make([]uint64, n)
		for i := range vals {
			vals[i] = uint64(40 + rng.Intn(1400))
			if rng.Intn(50) == 0 {
				vals[i] = rng.U64() >> uint(rng.Intn(60))
			}
		}
		p := bitpack.Pack(vals)
		for i := range d {
			d[i] = p[i%len(p)]
		}
		return "bitpack-column"
	case 4: // address column: few distinct 16 byte addresses
		addrs := make([][]byte, 1+rng.Intn(12))
		for i := range addrs {
			addrs[i] = rng.Bytes(16)
		}
		for i := 0; i < len(d); i += 16 {
			copy(d[i:], addrs[rng.Intn(len(addrs))])
		}
		return "address-column"
	default: // all zero / one value
		v := byte(rng.Intn(3))
		for i := range d {
			d[i] = v
		}
		return "constant"
	}
}

// Data is one concrete input together with the memory around it (to detect writes outside).
type Data struct {
	Class  string
	Kind   string
	Bytes  []byte // the slice handed to the encoder
	back   []byte // backing array: guard | data | guard
	golden []byte // pristine copy of back
}

const guard = 48

// bufs is a process-wide free list of large buffers: the replay draws hundreds of MiB of inputs, and
// fresh allocations (page faults, GC) would cost more than the encoders under test.
var bufs [][]byte

func getBuf(n int) []byte {
	for i, b := range bufs {
		if cap(b) >= n {
			bufs[i] = bufs[len(bufs)-1]
			bufs = bufs[:len(bufs)-1]
			return b[:n]
		}
	}
	if n < 4096 {
		return make([]byte, n)
	}
	return make([]byte, n, n+n/4)
}

func putBuf(b []byte) {
	if cap(b) >= 4096 && len(bufs) < 64 {
		bufs = append(bufs, b[:0])
	}
}

// fillRandom overwrites b with pseudo-random bytes.
func fillRandom(rng *hx.RNG, b []byte) {
	for i := 0; i < len(b); i += 8 {
		v := rng.U64()
		for j := 0; j < 8 && i+j < len(b); j++ {
			b[i+j] = byte(v >> (8 * j))
		}
	}
}

// Release hands the memory of an input back to the free list (the input must not be used afterwards).
func (d *Data) Release() {
	putBuf(d.back)
	putBuf(d.golden)
	d.back, d.golden, d.Bytes = nil, nil, nil
}

// GenData draws the bytes of a data class. The slice handed out sits inside a larger array with
// guard zones on both sides; its capacity extends 16 bytes into the trailing guard zone.
func GenData(rng *hx.RNG, cls string) *Data {
	n := sizeOf(rng, cls)
	back := getBuf(guard + n + guard)
	fillRandom(rng, back)
	d := back[guard : guard+n : guard+n+16]
	kind := "random"
	sel := cls
	if _, k, ok := parseX(cls); ok {
		sel = map[string]string{"C": "k4C", "I": "k4I", "M": "k300M"}[k]
		if n == 0 {
			sel = "empty"
		}
		cls = ClassOf(n, k) // the specification's name of this input
	}
	switch sel {
	case "smallC", "k4C", "k64C":
		kind = fillCompressible(rng, d)
	case "k300M": // mixed: alternating compressible and random runs
		kind = "mixed"
		for off := 0; off < n; {
			run := 1000 + rng.Intn(60000)
			if off+run > n {
				run = n - off
			}
			if rng.Intn(2) == 0 {
				fillCompressible(rng, d[off:off+run])
			}
			off += run
		}
	case "empty":
		kind = "empty"
		if rng.Intn(2) == 0 {
			d = nil // nil and empty non-nil slices are both empty inputs
			kind = "nil"
		}
	}
	golden := getBuf(len(back))
	copy(golden, back)
	return &Data{Class: cls, Kind: kind, Bytes: d, back: back, golden: golden}
}

// Pristine returns the original input bytes.
func (d *Data) Pristine() []byte { return d.golden[guard : len(d.golden)-guard] }

// Intact reports whether the input and the memory around it still hold the original bytes.
func (d *Data) Intact() bool { return bytes.Equal(d.back, d.golden) }

// ---------------------------------------------------------------------------------------------
// scratch buffers

// Arena is a reusable memory region from which scratch / in / out buffers are cut with exact
// length and capacity (three-index slices) and guard zones outside the capacity.
type Arena struct {
	mem []byte
}

const arenaCap = 1 << 20 // "Big": enough for the worst-case bound of every data class

// NewArena allocates an arena able to hold a buffer of capacity n.
func NewArena(n int) *Arena { return &Arena{mem: make([]byte, guard+n+guard)} }

// Cut returns mem[guard : guard+l : guard+c] after refreshing the guard zones; the first l bytes are
// filled with junk from the rng (so that they are recognisable if they leak into an output).
func (a *Arena) Cut(rng *hx.RNG, l, c int) []byte {
	if c > len(a.mem)-2*guard {
		hx.Die("codec: arena too small for capacity %d", c)
	}
	for i := 0; i < guard; i++ {
		a.mem[i] = 0xC3
		a.mem[guard+c+i] = 0x3C
	}
	fillRandom(rng, a.mem[guard:guard+l])
	return a.mem[guard : guard+l : guard+c]
}

// GuardsOK reports whether the memory outside the capacity of the last Cut(…, c) is untouched.
func (a *Arena) GuardsOK(c int) bool {
	for i := 0; i < guard; i++ {
		if a.mem[i] != 0xC3 || a.mem[guard+c+i] != 0x3C {
			return false
		}
	}
	return true
}

// Scratch concretises a scratch shape of the specification. Returns the slice and its capacity
// (-1: no arena memory involved).
func Scratch(rng *hx.RNG, a *Arena, shape string) ([]byte, int) {
	lens := []int{8192, 8192, 8192, 1, 100, 4096, 65536}
	switch shape {
	case "nil":
		return nil, -1
	case "len0cap0":
		return make([]byte, 0), -1
	case "len0capBig":
		return a.Cut(rng, 0, arenaCap), arenaCap
	case "lenNcapBig": // pre-sized, non-empty, capacity sufficient for any class
		return a.Cut(rng, lens[rng.Intn(len(lens))], arenaCap), arenaCap
	case "lenNcapSmall": // pre-sized, non-empty, capacity small (GPFile: len 8192, cap 16384 from the pool)
		switch rng.Intn(4) {
		case 0, 1:
			return a.Cut(rng, 8192, 16384), 16384
		case 2:
			return a.Cut(rng, 8192, 8192), 8192
		default:
			n := 1 + rng.Intn(64)
			return a.Cut(rng, n, n), n
		}
	}
	if l, cs, ok := parseX(shape); ok {
		c, err := strconv.Atoi(cs)
		if err != nil || c < l || c > arenaCap {
			hx.Die("codec: bad scratch %q", shape)
		}
		return a.Cut(rng, l, c), c
	}
	hx.Die("codec: unknown scratch shape %q", shape)
	return nil, -1
}

// fileLike is an io.Reader over a byte slice that behaves like *os.File: a zero-length read
// returns (0, nil); reads return as many bytes as are available, io.EOF only at the end.
type fileLike struct {
	b []byte
}

func (f *fileLike) Read(p []byte) (int, error) {
	if len(p) == 0 {
		return 0, nil
	}
	if len(f.b) == 0 {
		return 0, errEOF
	}
	n := copy(p, f.b)
	f.b = f.b[n:]
	return n, nil
}

// countW is the writer handed to Compress: it keeps everything and counts bytes and calls. Its
// memory comes from the free list (see getBuf) and goes back there with release().
type countW struct {
	buf   wbuf
	calls int
}

// wbuf is a minimal append-only byte buffer (the subset of bytes.Buffer the harness uses).
type wbuf struct{ b []byte }

func (w *wbuf) Len() int      { return len(w.b) }
func (w *wbuf) Bytes() []byte { return w.b }
func (w *wbuf) write(p []byte) {
	if len(w.b)+len(p) > cap(w.b) {
		nb := getBuf(2*cap(w.b) + len(p) + 4096)[:len(w.b)]
		copy(nb, w.b)
		putBuf(w.b)
		w.b = nb
	}
	w.b = append(w.b, p...)
}

func (w *countW) Write(p []byte) (int, error) {
	w.calls++
	w.buf.write(p)
	return len(p), nil
}

func (w *countW) release() {
	putBuf(w.buf.b)
	w.buf.b = nil
}
