package codec

import (
	"flag"
	"fmt"
	"io"
	"os"

	"verifharness/internal/hx"
)

// event is one line of the recorded trace (binding B, validated by EncoderTrace.tla).
type event struct {
	Tr      int    `json:"tr"`
	Ev      string `json:"ev"`
	Type    string `json:"type"`
	Impl    string `json:"impl"`
	D       string `json:"d"`   // Compress: specification class of the input
	S       string `json:"s"`   // Compress: specification shape of the scratch buffer
	K       int    `json:"k"`   // Decompress: frame index
	Sh      string `json:"sh"`  // Decompress: buffer shape
	Lvl     int    `json:"lvl"` // SetLevel: concrete level
	NFrames int    `json:"nframes"`
	Frame   string `json:"frame"` // Compress: what the emitted bytes decode to (class or "error")
	Err     bool   `json:"err"`
	NOk     bool   `json:"n_ok"`
	Src     int    `json:"src"`
	Ctx     string `json:"ctx"` // zstd: contexts alive ("" = not observable)
	// informational (not read by the trace specification)
	DataLen    int    `json:"data_len"`
	ScratchLen int    `json:"scratch_len"`
	ScratchCap int    `json:"scratch_cap"`
	Emitted    int    `json:"emitted"`
	Detail     string `json:"detail,omitempty"`
}

func init() {
	hx.Register("codec-drive", func(args []string) {
		fs := flag.NewFlagSet("codec-drive", flag.ExitOnError)
		seed := fs.Uint64("seed", 1, "seed")
		typ := fs.String("type", "lz4", "encoder type")
		traces := fs.Int("traces", 10, "instances")
		ops := fs.Int("ops", 60, "ops per instance")
		maxLevel := fs.Int("maxlevel", 12, "highest level")
		minLevel := fs.Int("minlevel", 0, "lowest level")
		first := fs.Int("first", 0, "first instance to run (resume after a crashed instance)")
		fs.Parse(args)
		Drive(*typ, *seed, *first, *traces, *ops, *minLevel, *maxLevel, os.Stdout)
	})
}

// drawLen draws an input length between 0 and 512 KiB, biased towards the boundaries that matter.
func drawLen(rng *hx.RNG) int {
	switch rng.Intn(12) {
	case 0:
		return rng.Intn(3) // 0, 1, 2
	case 1, 2, 3:
		return rng.Intn(4096)
	case 4:
		return 4090 + rng.Intn(12) // around the 4 KiB write buffer
	case 5:
		return 8180 + rng.Intn(24) // around the 8 KiB preallocated buffers
	case 6, 7:
		return 4096 + rng.Intn(61440)
	case 8:
		return 65530 + rng.Intn(12)
	case 9, 10:
		return 65536 + rng.Intn(140000)
	}
	return 200000 + rng.Intn(324288)
}

// drawScratch draws a scratch buffer of arbitrary length and capacity.
func drawScratch(rng *hx.RNG) string {
	switch rng.Intn(8) {
	case 0:
		return "nil"
	case 1:
		return "len0cap0"
	case 2:
		return fmt.Sprintf("x0:%d", 1+rng.Intn(arenaCap))
	case 3, 4:
		return "x8192:16384" // what GPFile passes
	case 5:
		l := 1 + rng.Intn(20000)
		return fmt.Sprintf("x%d:%d", l, l+rng.Intn(3))
	default:
		l := 1 + rng.Intn(70000)
		return fmt.Sprintf("x%d:%d", l, l+rng.Intn(arenaCap-l))
	}
}

// Drive runs seeded long op sequences on real encoder instances and logs them.
func Drive(typ string, seed uint64, first, traces, ops, minLevel, maxLevel int, out io.Writer) {
	o := hx.NewOut(out)
	defer o.Flush()
	cl := newCrashLog()
	var rng *hx.RNG
	ar := arenas{NewArena(arenaCap), NewArena(arenaCap + 8192), NewArena(arenaCap + 8192)}
	t := parseType(typ)
	impl := implOf(t)
	lv := func() int { return minLevel + rng.Intn(maxLevel-minLevel+1) }
	for tr := first; tr < traces; tr++ {
		rng = hx.NewRNG(seed*31 + uint64(len(typ)) + uint64(tr)*1000003) // per instance, so that a run can resume after a crash
		cfg := Config{Type: t, Name: typ, L0: -1}
		if tr%3 != 0 {
			cfg.L0 = lv()
		}
		w, err := newWorld(cfg, seed*7777+uint64(tr), ar)
		if err != nil {
			hx.Die("codec drive: %v", err)
		}
		w.crash = cl
		o.Emit(event{Tr: tr, Ev: "Reset", Type: typ, Impl: impl})
		for i := 0; i < ops && !w.closed; i++ {
			if cl != nil {
				cl.Idx, cl.Step = tr, i
			}
			e := event{Tr: tr, Type: typ, Impl: impl}
			var a act
			r := rng.Intn(100)
			switch {
			case r < 55 || len(w.offs) == 0:
				n := drawLen(rng)
				a = act{Name: "Compress", D: fmt.Sprintf("x%d:%s", n, []string{"C", "I", "M"}[rng.Intn(3)]), S: drawScratch(rng)}
			case r < 88:
				a = act{Name: "Decompress", K: 1 + rng.Intn(len(w.offs)), Sh: []string{"exact", "slack"}[rng.Intn(2)]}
				if rng.Intn(3) == 0 {
					a.K = len(w.offs) // the frame just written is the common case
				}
			case r < 98 || i < ops/2:
				a = act{Name: "SetLevel", L: "A"}
				w.cfg.LA = lv()
				e.Lvl = w.cfg.LA
				if e.Lvl == 0 && w.cfg.Name == "zstd" {
					e.Lvl, w.cfg.LA = 1, 1
				}
			default:
				a = act{Name: "Close"}
			}
			ret, p := w.apply(a)
			if p != "" {
				ret.Err = true
				e.Detail = firstLine(p)
			}
			e.Ev, e.K, e.Sh = a.Name, a.K, a.Sh
			e.NFrames, e.Err, e.NOk, e.Src = len(w.frames), ret.Err, ret.NOk, ret.Src
			if a.Name == "Compress" {
				in := w.inputs[len(w.inputs)-1]
				e.D, e.Frame = in.Class, w.frames[len(w.frames)-1]
				e.S = map[bool]string{true: "lenNcapBig", false: "len0capBig"}[w.extra["scratch_len"].(int) > 0]
				if a.S == "nil" || a.S == "len0cap0" {
					e.S = a.S
				}
				e.DataLen, e.ScratchLen, e.ScratchCap = len(in.Bytes), w.extra["scratch_len"].(int), w.extra["scratch_cap"].(int)
				e.Emitted = w.extra["emitted"].(int)
			}
			if !w.closed {
				e.Ctx = ctxOf(w.e)
			}
			if e.Detail == "" && (ret.Err || !ret.NOk || e.Frame == "error") {
				e.Detail = w.detail
			}
			o.Emit(e)
			o.Flush() // a crash inside a C library must not lose the events logged so far
			// keep the memory of long traces bounded: the writer is append-only, forget nothing but stop growing
			if w.w.buf.Len() > 48<<20 {
				break
			}
		}
		w.release()
	}
}
