//go:build !cgo

package codec

const cgoEnabled = false
