//go:build !cgo || goprobe_noliblz4

package codec

// same constraint as pkg/goDB/encoder/lz4/lz4_native.go
const lz4Impl = "native"
