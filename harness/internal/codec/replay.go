package codec

import (
	"bytes"
	"encoding/json"
	"flag"
	"fmt"
	"io"
	"os"
	"reflect"

	"verifharness/internal/hx"

	"github.com/els0r/goProbe/v4/pkg/goDB/encoder"
	"github.com/els0r/goProbe/v4/pkg/goDB/encoder/encoders"
)

var errEOF = io.EOF

// ---- the JSON shapes printed by EncoderGen.tla

type act struct {
	Name string `json:"name"`
	D    string `json:"d,omitempty"`  // Compress: data class
	S    string `json:"s,omitempty"`  // Compress: scratch shape
	K    int    `json:"k,omitempty"`  // Decompress: index of the frame (1-based)
	Sh   string `json:"sh,omitempty"` // Decompress: buffer shape
	L    string `json:"l,omitempty"`  // SetLevel: abstract level
}

type retObs struct {
	Op  string `json:"op"`
	Err bool   `json:"err"`
	NOk bool   `json:"n_ok"`
	Src int    `json:"src"`
}

type obs struct {
	Frames  []string `json:"frames"`
	NFrames int      `json:"nframes"`
	Ret     retObs   `json:"ret"`
	Ctx     string   `json:"ctx"`
	Level   string   `json:"level"`
	Closed  bool     `json:"closed"`
}

type step struct {
	Act act `json:"act"`
	Exp obs `json:"exp"`
}

// Config is one point of the type x level grid a behaviour is replayed on.
type Config struct {
	Type   encoders.Type
	Name   string
	L0     int // level the instance is configured with after New (-1: keep the encoder's default)
	LA, LB int // concrete levels of the abstract levels "A" / "B" of SetLevel
}

// world is the implementation state of one behaviour plus what is needed to project it.
type world struct {
	cfg      Config
	rng      *hx.RNG
	e        encoder.Encoder
	verifier encoder.Encoder // independent instance used only to project writer bytes back to data
	w        countW
	inputs   []*Data
	offs     [][2]int // byte range of the i-th Compress call in the writer
	frames   []string // projection of the writer: per Compress call the class it decodes to, or "error"
	level    string
	closed   bool
	scratchA *Arena
	inA      *Arena
	outA     *Arena
	detail   string // human readable detail of the last observation
	extra    map[string]any
	curLevel int       // concrete level the instance is set to (-1: the encoder's default)
	crash    *crashLog // where to note the call about to be made (a crash inside C code kills the process)
}

// crashLog notes the call that is about to be made in the file named by VERIF_CRASHLOG, so that the
// check can attribute a crash of the process (SIGSEGV inside a C library cannot be recovered) to
// the behaviour / step / arguments that caused it and resume after it.
type crashLog struct {
	path string
	Idx  int            `json:"index"`
	Step int            `json:"step"`
	Act  act            `json:"act"`
	Lvl  int            `json:"level"`
	Info map[string]any `json:"info"`
	Cnt  map[string]int `json:"counters"`
}

func newCrashLog() *crashLog {
	if p := os.Getenv("VERIF_CRASHLOG"); p != "" {
		return &crashLog{path: p, Cnt: map[string]int{}}
	}
	return nil
}

func (c *crashLog) note(a act, lvl int, info map[string]any) {
	if c == nil {
		return
	}
	c.Act, c.Lvl, c.Info = a, lvl, info
	b, _ := json.Marshal(c)
	os.WriteFile(c.path, b, 0o644)
}

type arenas struct{ scratch, in, out *Arena }

func newWorld(cfg Config, seed uint64, ar arenas) (*world, error) {
	e, err := encoder.New(cfg.Type)
	if err != nil {
		return nil, err
	}
	if cfg.L0 >= 0 {
		e.SetLevel(cfg.L0)
	}
	return &world{cfg: cfg, rng: hx.NewRNG(seed), e: e, level: "default", scratchA: ar.scratch, inA: ar.in, outA: ar.out, frames: []string{}, curLevel: cfg.L0}, nil
}

func (w *world) release() {
	for _, in := range w.inputs {
		in.Release()
	}
	w.inputs = nil
	w.w.release()
	if !w.closed {
		hx.Catch(func() { w.e.Close() })
	}
}

// sharedVerifier holds the independent decoder instances (one per type and process) that project
// writer bytes back to data. They are never used for compression and never see the instance under
// test; a verifier that failed is discarded.
var sharedVerifier = map[encoders.Type]encoder.Encoder{}

// project decodes exactly the bytes one Compress call emitted with an independent decoder and
// names the data class they restore ("error" when they do not restore the input).
func (w *world) project(frame []byte, in *Data) string {
	if w.verifier == nil {
		w.verifier = sharedVerifier[w.cfg.Type]
	}
	if w.verifier == nil {
		v, err := encoder.New(w.cfg.Type)
		if err != nil {
			hx.Die("codec: %v", err)
		}
		w.verifier = v
		sharedVerifier[w.cfg.Type] = v
	}
	want := in.Pristine()
	out, inb := getBuf(len(want)), getBuf(len(frame))
	defer func() { putBuf(out); putBuf(inb) }()
	var n int
	var err error
	p := hx.Catch(func() { n, err = w.verifier.Decompress(inb, out, &fileLike{b: frame}) })
	switch {
	case p != "":
		w.detail = "decoding the emitted bytes panics: " + firstLine(p)
	case err != nil:
		w.detail = fmt.Sprintf("the %d emitted bytes do not decode: %v", len(frame), err)
	case n != len(want):
		w.detail = fmt.Sprintf("the emitted bytes decode to %d bytes, input had %d", n, len(want))
	case !bytes.Equal(out, want):
		w.detail = "the emitted bytes decode to different data"
	default:
		return in.Class
	}
	// a panicking / failing decoder may be left in an undefined state
	hx.Catch(func() { w.verifier.Close() })
	w.verifier = nil
	delete(sharedVerifier, w.cfg.Type)
	return "error"
}

func firstLine(s string) string {
	for i := 0; i < len(s); i++ {
		if s[i] == '\n' {
			return s[:i]
		}
	}
	return s
}

// ctxOf reads which (de)compression contexts the zstd instance holds (unexported fields are only
// inspected). Returns "" when the encoder type keeps no contexts.
func ctxOf(e encoder.Encoder) string {
	if e.Type() != encoders.EncoderTypeZSTD {
		return ""
	}
	v := reflect.ValueOf(e).Elem()
	has := func(names ...string) bool {
		for _, n := range names {
			if f := v.FieldByName(n); f.IsValid() {
				return !f.IsNil()
			}
		}
		return false
	}
	c, d := has("cCtx", "encoder"), has("dCtx", "decoder")
	switch {
	case c && d:
		return "both"
	case c:
		return "comp"
	case d:
		return "decomp"
	}
	return "none"
}

func (w *world) concreteLevel(l string) int {
	if l == "A" {
		return w.cfg.LA
	}
	return w.cfg.LB
}

// apply performs one action on the real encoder and returns the observed return value
// (panic text in p when the call panicked).
func (w *world) apply(a act) (r retObs, p string) {
	w.detail = ""
	w.extra = map[string]any{}
	switch a.Name {
	case "Compress":
		in := GenData(w.rng, a.D)
		scratch, c := Scratch(w.rng, w.scratchA, a.S)
		w.extra["data_len"], w.extra["data_kind"] = len(in.Bytes), in.Kind
		w.extra["scratch_len"], w.extra["scratch_cap"] = len(scratch), cap(scratch)
		before, callsBefore := w.w.buf.Len(), w.w.calls
		var n int
		var err error
		w.crash.note(a, w.curLevel, w.extra)
		p = hx.Catch(func() { n, err = w.e.Compress(in.Bytes, scratch, &w.w) })
		after := w.w.buf.Len()
		w.inputs = append(w.inputs, in)
		w.offs = append(w.offs, [2]int{before, after})
		r = retObs{Op: "Compress", Err: err != nil || p != "", NOk: n == after-before}
		w.extra["n"], w.extra["emitted"], w.extra["write_calls"] = n, after-before, w.w.calls-callsBefore
		if p != "" {
			w.frames = append(w.frames, "error")
			return
		}
		cls := "error"
		if err != nil {
			w.detail = "Compress: " + err.Error() // nothing (valid) was emitted: the writer content of this call is not a frame
		} else {
			cls = w.project(w.w.buf.Bytes()[before:after], in)
		}
		w.frames = append(w.frames, cls)
		if !in.Intact() {
			w.frames[len(w.frames)-1] = "error"
			w.detail = "Compress modified its input slice or memory next to it"
			w.extra["input_modified"] = true
		}
		if c >= 0 && !w.scratchA.GuardsOK(c) {
			w.frames[len(w.frames)-1] = "error"
			w.detail = "Compress wrote outside the capacity of the scratch buffer"
			w.extra["scratch_overrun"] = true
		}
		if !r.NOk && w.detail == "" {
			w.detail = fmt.Sprintf("Compress returned n=%d, the writer received %d bytes", n, after-before)
		}
	case "Decompress":
		if a.K < 1 || a.K > len(w.offs) {
			hx.Die("codec: behaviour decompresses frame %d of %d", a.K, len(w.offs))
		}
		off := w.offs[a.K-1]
		want := w.inputs[a.K-1].Pristine()
		flen := off[1] - off[0]
		all := w.w.buf.Bytes()
		var inb, out []byte
		var src io.Reader
		oc := -1
		switch a.Sh {
		case "exact":
			inb, out = make([]byte, flen), make([]byte, len(want))
			src = &fileLike{b: append([]byte(nil), all[off[0]:off[1]]...)}
		default: // "slack": dirty reused buffers with spare capacity, source continues after the frame
			inb = w.inA.Cut(w.rng, flen, flen+w.rng.Intn(4096))
			oc = len(want) + w.rng.Intn(4096)
			out = w.outA.Cut(w.rng, len(want), oc)
			src = &fileLike{b: append(append([]byte(nil), all[off[0]:]...), w.rng.Bytes(1+w.rng.Intn(300))...)}
		}
		w.extra["frame_len"], w.extra["raw_len"] = flen, len(want)
		var n int
		var err error
		w.crash.note(a, w.curLevel, w.extra)
		p = hx.Catch(func() { n, err = w.e.Decompress(inb, out, src) })
		r = retObs{Op: "Decompress", Err: err != nil || p != ""}
		if p != "" {
			return
		}
		w.extra["n"] = n
		if err != nil {
			w.detail = "Decompress: " + err.Error()
			return
		}
		r.NOk = n == len(want)
		if bytes.Equal(out[:len(want)], want) && len(out) == len(want) {
			r.Src = a.K
		} else {
			w.detail = "Decompress returned different data"
		}
		if !r.NOk {
			w.detail = fmt.Sprintf("Decompress returned n=%d for data of %d bytes", n, len(want))
		}
		if oc >= 0 && !w.outA.GuardsOK(oc) {
			r.Src = 0
			w.detail = "Decompress wrote outside the capacity of the output buffer"
		}
	case "SetLevel":
		w.curLevel = w.concreteLevel(a.L)
		p = hx.Catch(func() { w.e.SetLevel(w.curLevel) })
		w.level = a.L
		r = retObs{Op: "none", NOk: true}
	case "Close":
		var err error
		w.crash.note(a, w.curLevel, w.extra)
		p = hx.Catch(func() { err = w.e.Close() })
		w.closed = true
		r = retObs{Op: "none", NOk: true, Err: err != nil}
		if err != nil {
			w.detail = "Close: " + err.Error()
		}
	default:
		hx.Die("codec: unknown action %q", a.Name)
	}
	return
}

// compare returns the name of the first observable that differs from the specification ("" = equal).
func (w *world) compare(r retObs, exp obs) (field, msg string) {
	if r.Err != exp.Ret.Err {
		return "err", fmt.Sprintf("call failed=%v, specification %v: %s", r.Err, exp.Ret.Err, w.detail)
	}
	if len(w.frames) != exp.NFrames {
		return "nframes", fmt.Sprintf("writer holds %d emissions, specification %d", len(w.frames), exp.NFrames)
	}
	for i := range w.frames {
		if w.frames[i] != exp.Frames[i] {
			return "frames", fmt.Sprintf("bytes emitted by Compress call %d decode to %q, specification %q: %s", i+1, w.frames[i], exp.Frames[i], w.detail)
		}
	}
	if r.Op != exp.Ret.Op {
		return "op", fmt.Sprintf("op %q vs %q", r.Op, exp.Ret.Op)
	}
	if r.NOk != exp.Ret.NOk {
		return "n", fmt.Sprintf("returned count correct=%v, specification %v: %s", r.NOk, exp.Ret.NOk, w.detail)
	}
	if r.Src != exp.Ret.Src {
		return "data", fmt.Sprintf("Decompress restored input #%d, specification #%d: %s", r.Src, exp.Ret.Src, w.detail)
	}
	if w.level != exp.Level || w.closed != exp.Closed {
		hx.Die("codec: harness bookkeeping out of sync (level %s/%s closed %v/%v)", w.level, exp.Level, w.closed, exp.Closed)
	}
	return "", ""
}

// Descriptor is the stable abstract signature of a failing step (matched against known findings).
func Descriptor(binding, typ, impl string, a act, field string) map[string]any {
	desc := map[string]any{"binding": binding, "type": typ, "impl": impl, "op": a.Name, "field": field}
	if a.Name == "Compress" {
		desc["data"] = a.D
		desc["scratch_nonempty"] = a.S == "lenNcapBig" || a.S == "lenNcapSmall"
	}
	return desc
}

func parseType(s string) encoders.Type {
	t, err := encoders.GetTypeByString(s)
	if err != nil {
		hx.Die("codec: %v", err)
	}
	return t
}

func init() {
	hx.Register("codec-info", func(args []string) {
		b, _ := json.Marshal(Info())
		fmt.Println(string(b))
	})
	hx.Register("codec-replay", func(args []string) {
		fs := flag.NewFlagSet("codec-replay", flag.ExitOnError)
		seed := fs.Uint64("seed", 1, "seed")
		typ := fs.String("type", "lz4", "encoder type")
		l0 := fs.Int("l0", -1, "configured level (-1: encoder default)")
		la := fs.Int("la", 1, "level A")
		lb := fs.Int("lb", 9, "level B")
		corrupt := fs.Int("corrupt", -1, "negative control: flip the expectation of this behaviour")
		base := fs.Int("base", 0, "index of the first behaviour on stdin (indices seed the byte contents)")
		fs.Parse(args)
		Replay(Config{Type: parseType(*typ), Name: *typ, L0: *l0, LA: *la, LB: *lb}, *seed, *base, *corrupt, os.Stdin, os.Stdout)
	})
}

// Replay executes TLC behaviours of EncoderGen (one JSON array of steps per line) on one point of
// the type x level grid and compares the projected implementation state with exp after every step.
func Replay(cfg Config, seed uint64, base, corrupt int, in io.Reader, out io.Writer) {
	defer startProfile()()
	o := hx.NewOut(out)
	defer o.Flush()
	ar := arenas{NewArena(arenaCap), NewArena(arenaCap + 8192), NewArena(arenaCap + 8192)}
	impl := implOf(cfg.Type)
	n, bad, steps, drift := base, 0, 0, 0
	comp, decomp, bytesIn := 0, 0, 0
	cl := newCrashLog()
	err := hx.Lines(in, func(line []byte) error {
		var beh []step
		if err := json.Unmarshal(line, &beh); err != nil {
			return fmt.Errorf("behaviour %d: %v", n, err)
		}
		if n == corrupt && len(beh) > 0 {
			// negative control: the specification's expectation is corrupted, the replay must object
			last := &beh[len(beh)-1].Exp
			if last.NFrames > 0 {
				last.Frames[0] = "error"
			} else {
				last.NFrames = 1
				last.Frames = []string{"b1"}
			}
		}
		w, err := newWorld(cfg, seed*1000003+uint64(n)*7919, ar)
		if err != nil {
			return err
		}
		defer w.release()
		w.crash = cl
		drifted := false
		for i, st := range beh {
			if cl != nil {
				cl.Idx, cl.Step = n, i
				cl.Cnt["steps"], cl.Cnt["failed"], cl.Cnt["compress"], cl.Cnt["decompress"], cl.Cnt["bytes_in"] = steps, bad, comp, decomp, bytesIn
			}
			r, p := w.apply(st.Act)
			field, msg := "", ""
			if p != "" {
				field, msg = "panic", p
			} else {
				field, msg = w.compare(r, st.Exp)
			}
			steps++
			switch st.Act.Name {
			case "Compress":
				comp++
				bytesIn += len(w.inputs[len(w.inputs)-1].Bytes)
			case "Decompress":
				decomp++
			}
			if field != "" {
				bad++
				desc := Descriptor("F", cfg.Name, impl, st.Act, field)
				o.Emit(map[string]any{"id": n, "ok": false, "step": i, "msg": msg, "desc": desc, "detail": w.extra,
					"cfg":       map[string]any{"type": cfg.Name, "l0": cfg.L0, "la": cfg.LA, "lb": cfg.LB, "seed": seed, "index": n},
					"behaviour": json.RawMessage(line)})
				o.Flush()
				break
			}
			if c := ctxOf(w.e); c != "" && !w.closed && c != st.Exp.Ctx && !drifted {
				drifted = true
				drift++
				o.Emit(map[string]any{"id": n, "drift": true, "step": i, "msg": fmt.Sprintf("contexts alive: %s, specification %s", c, st.Exp.Ctx)})
			}
		}
		n++
		return nil
	})
	if err != nil {
		hx.Die("codec replay: %v", err)
	}
	o.Emit(map[string]any{"summary": true, "behaviours": n - base, "steps": steps, "failed": bad, "drift": drift,
		"compress": comp, "decompress": decomp, "bytes_in": bytesIn, "impl": impl, "type": cfg.Name})
}
