package codec

import (
	"os"
	"runtime/pprof"
)

// startProfile writes a CPU profile when VERIF_CPUPROFILE is set (harness tuning only).
func startProfile() func() {
	p := os.Getenv("VERIF_CPUPROFILE")
	if p == "" {
		return func() {}
	}
	f, err := os.Create(p)
	if err != nil {
		return func() {}
	}
	pprof.StartCPUProfile(f)
	return func() { pprof.StopCPUProfile(); f.Close() }
}
