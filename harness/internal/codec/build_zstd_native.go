//go:build !cgo || goprobe_nolibzstd

package codec

// same constraint as pkg/goDB/encoder/zstd/zstd_native.go
const zstdImpl = "native"
