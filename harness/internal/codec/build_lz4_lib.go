//go:build cgo && !goprobe_noliblz4

package codec

// same constraint as pkg/goDB/encoder/lz4/lz4_cgo.go
const lz4Impl = "cgo"
