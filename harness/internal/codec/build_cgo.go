//go:build cgo

package codec

const cgoEnabled = true
