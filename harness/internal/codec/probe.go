package codec

import (
	"bytes"
	"fmt"

	"verifharness/internal/hx"

	"github.com/els0r/goProbe/v4/pkg/goDB/encoder"
	"github.com/els0r/goProbe/v4/pkg/goDB/encoder/encoders"
)

func init() {
	hx.Register("probe", func(args []string) {
		for _, t := range []encoders.Type{encoders.EncoderTypeLZ4, encoders.EncoderTypeZSTD, encoders.EncoderTypeNull} {
			for _, n := range []int{0, 1, 100, 100000} {
				for _, sl := range []int{0, 8192} {
					e, _ := encoder.New(t)
					data := bytes.Repeat([]byte{7}, n)
					var w bytes.Buffer
					p := hx.Catch(func() {
						nn, err := e.Compress(data, make([]byte, sl, 16384), &w)
						fmt.Println(t, "len", n, "scratch", sl, "n", nn, "emitted", w.Len(), "err", err)
						in := make([]byte, w.Len())
						out := make([]byte, n)
						dn, err := e.Decompress(in, out, bytes.NewReader(w.Bytes()))
						fmt.Println("   dec", dn, err, bytes.Equal(out, data))
					})
					if p != "" {
						fmt.Println("   PANIC", p[:200])
					}
				}
			}
		}
	})
}
