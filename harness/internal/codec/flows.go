package codec

import (
	"github.com/els0r/goProbe/v4/pkg/types"
	"github.com/els0r/goProbe/v4/pkg/types/hashmap"
	"github.com/fako1024/gotools/bitpack"
)

// Flow generation and the column layout of a write-out. These few helpers mirror
// harness/internal/store/gen.go (same day, same timestamps, same layout); they are kept here so that
// the codec family builds independently of the store family.

// Day0 is the (day aligned) timestamp of the modelled day; block id i is written for Day0+300*i.
const Day0 = int64(1700006400)

// TS maps a model block id to its timestamp.
func TS(id int) int64 { return Day0 + 300*int64(id) }

// Flow is one generated flow record.
type Flow struct {
	V4    bool
	SIP   []byte
	DIP   []byte
	Dport uint16
	Proto byte
	C     types.Counters
}

// Key returns the goDB key of the flow.
func (f Flow) Key() types.Key {
	dp := []byte{byte(f.Dport >> 8), byte(f.Dport)}
	if f.V4 {
		return types.NewV4Key(f.SIP, f.DIP, dp, f.Proto)
	}
	return types.NewV6Key(f.SIP, f.DIP, dp, f.Proto)
}

// FlowMap builds the aggregated flow map handed to DBWriter.Write.
func FlowMap(fl []Flow) *hashmap.AggFlowMap {
	m := hashmap.NewAggFlowMap()
	for _, f := range fl {
		hashmap.AggFlowMap(*m).SetOrUpdate(f.Key(), f.V4, f.C.BytesRcvd, f.C.BytesSent, f.C.PacketsRcvd, f.C.PacketsSent)
	}
	return m
}

// Totals are the summary values of a block.
type Totals struct {
	V4, V6 int
	C      types.Counters
}

// TotalsFor computes the summary values of a block.
func TotalsFor(fl []Flow) Totals {
	var t Totals
	for _, f := range fl {
		if f.V4 {
			t.V4++
		} else {
			t.V6++
		}
		t.C.Add(f.C)
	}
	return t
}

// Columns reproduces the column byte strings DBWriter derives from a flow map (flatten, sort, append
// per column, bit-pack the counters) using only exported pieces of goProbe: the bytes every reader
// build must hand back for the block. Should it ever diverge from the real writer, blocks written
// and read by the SAME build fail as well, which tells the divergence from an interchange defect.
func Columns(m *hashmap.AggFlowMap) [types.ColIdxCount][]byte {
	var cols [types.ColIdxCount][]byte
	v4, v6 := m.Flatten()
	v4, v6 = v4.Sort(), v6.Sort()
	var br, bs, pr, ps []uint64
	for _, list := range []hashmap.List{v4, v6} {
		for _, fl := range list {
			br, bs, pr, ps = append(br, fl.BytesRcvd), append(bs, fl.BytesSent), append(pr, fl.PacketsRcvd), append(ps, fl.PacketsSent)
			cols[types.DportColIdx] = append(cols[types.DportColIdx], fl.GetDport()...)
			cols[types.ProtoColIdx] = append(cols[types.ProtoColIdx], fl.GetProto())
			cols[types.SIPColIdx] = append(cols[types.SIPColIdx], fl.GetSIP()...)
			cols[types.DIPColIdx] = append(cols[types.DIPColIdx], fl.GetDIP()...)
		}
	}
	cols[types.BytesRcvdColIdx] = bitpack.Pack(br)
	cols[types.BytesSentColIdx] = bitpack.Pack(bs)
	cols[types.PacketsRcvdColIdx] = bitpack.Pack(pr)
	cols[types.PacketsSentColIdx] = bitpack.Pack(ps)
	return cols
}
