// Package merge binds spec/merge/Merge.tla to pkg/goDB.MergeDatabases.
//
// Replay (F): every case printed by MergeGen.tla (initial source and destination databases, the
// merge options and - for the same merge executed twice - the destination contents and MergeSummary
// the documented rule predicts) is built with the real DBWriter, merged with the real
// goDB.MergeDatabases and observed through the real block reader (gpfile.GPDir) and the real query
// engine. Compared after each of the two merges: destination contents per interface/day/block,
// per-day metadata, the summary counters, the source tree (hash of every file, must never change)
// and for --dry-run the destination tree (hash, must not change).
package merge

import (
	"bytes"
	"context"
	"crypto/sha256"
	"encoding/hex"
	"encoding/json"
	"flag"
	"fmt"
	"io"
	"io/fs"
	"log/slog"
	"os"
	"path/filepath"
	"sort"
	"strconv"
	"strings"
	"time"

	"verifharness/internal/hx"
	"verifharness/internal/store"

	"github.com/els0r/goProbe/v4/pkg/capture/capturetypes"
	"github.com/els0r/goProbe/v4/pkg/goDB"
	"github.com/els0r/goProbe/v4/pkg/goDB/encoder/encoders"
	"github.com/els0r/goProbe/v4/pkg/goDB/engine"
	"github.com/els0r/goProbe/v4/pkg/goDB/storage/gpfile"
	"github.com/els0r/goProbe/v4/pkg/query"
	"github.com/els0r/goProbe/v4/pkg/types"
	"github.com/els0r/telemetry/logging"
)

func init() {
	hx.Register("merge-replay", func(args []string) {
		fs := flag.NewFlagSet("merge-replay", flag.ExitOnError)
		seed := fs.Uint64("seed", 1, "seed")
		tmp := fs.String("tmp", "", "scratch directory")
		verbose := fs.Bool("v", false, "print observations of every case")
		fs.Parse(args)
		if *tmp == "" {
			hx.Die("merge-replay: -tmp required")
		}
		_, _ = logging.Init(slog.LevelError+8, logging.EncodingPlain, logging.WithOutput(io.Discard), logging.WithErrorOutput(io.Discard))
		Replay(*seed, *tmp, *verbose, os.Stdin, os.Stdout)
	})
}

// ---- cases as printed by MergeGen.tla

type blockT struct {
	Slot int    `json:"slot"`
	P    string `json:"p"`
}

type dayT struct {
	Iface  string   `json:"iface"`
	Day    int      `json:"day"`
	Blocks []blockT `json:"blocks"`
}

type sumT struct {
	Unknown bool `json:"unknown"`
	Dry     bool `json:"dry"`
	Ifaces  int  `json:"ifaces"`
	Copied  int  `json:"copied"`
	Rebuilt int  `json:"rebuilt"`
	Skipped int  `json:"skipped"`
	ByDst   int  `json:"byDst"`
	BySrc   int  `json:"bySrc"`
}

type planT struct {
	Iface     string `json:"iface"`
	Day       int    `json:"day"`
	Plan      string `json:"plan"`
	Src       string `json:"src"`
	Dst       string `json:"dst"`
	Conflicts int    `json:"conflicts"`
	Gap       bool   `json:"gap"`
}

type stepT struct {
	Pre []dayT `json:"pre"`
	Exp struct {
		Dst []dayT `json:"dst"`
		Sum sumT   `json:"sum"`
	} `json:"exp"`
	Plans []planT `json:"plans"`
}

type caseT struct {
	Sel      []string `json:"sel"`
	Ow       bool     `json:"ow"`
	Dry      bool     `json:"dry"`
	LastSlot int      `json:"lastSlot"`
	Src      []dayT   `json:"src"`
	Steps    []stepT  `json:"steps"`
}

// ---- concretisation

type world struct {
	seed   uint64
	tol    int64 // completeness tolerance in seconds
	jitter int64 // position of the slot-1 block after the day start (0 or tol: within tolerance)
	last   int   // LastSlot of the model configuration
	twin   bool  // the two writers' payloads of a slot have identical totals (and drops) but other flows
	idle   bool  // slot 3 is a write-out of an idle interface: no flows, only drops (never in a twin world)
	ifaces map[string]string
	dayTS  map[int]int64
}

var ifaceSets = [][3]string{{"eth0", "eth1", "nosuch0"}, {"wan", "lan", "dmz"}, {"t4_1", "t4_10", "t4_2"}}

func newWorld(seed uint64, c *caseT) *world {
	h := sha256.New()
	b, _ := json.Marshal([]any{seed, c.Sel, c.Ow, c.Dry, c.Src, c.Steps[0].Pre})
	h.Write(b)
	sum := h.Sum(nil)
	rng := hx.NewRNG(uint64(sum[0])<<56 | uint64(sum[1])<<48 | uint64(sum[2])<<40 | uint64(sum[3])<<32 | uint64(sum[4])<<24 | uint64(sum[5])<<16 | uint64(sum[6])<<8 | uint64(sum[7]))
	w := &world{seed: seed, ifaces: map[string]string{}, dayTS: map[int]int64{}}
	w.tol = []int64{150, 600}[rng.Intn(2)]
	w.jitter = []int64{0, w.tol}[rng.Intn(2)]
	w.last = c.LastSlot
	w.twin = seed%3 == 2 || rng.Intn(4) == 0
	w.idle = !w.twin && rng.Intn(3) == 0
	n := ifaceSets[rng.Intn(len(ifaceSets))]
	w.ifaces["a"], w.ifaces["b"], w.ifaces["zz"] = n[0], n[1], n[2]
	w.dayTS[1] = store.Day0 + 86400*int64(rng.Intn(10))
	w.dayTS[2] = w.dayTS[1] + 86400*int64([]int{1, 1, 20, 400}[rng.Intn(4)]) // next day / other month / other year
	return w
}

func (w *world) slotTS(day, slot int) int64 {
	switch {
	case slot == 1:
		return w.dayTS[day] + w.jitter
	case slot == 2:
		return w.dayTS[day] + w.tol + 1
	case slot == w.last:
		// the last 5-minute block of a day (23:55, its interval ends at the day end)
		return w.dayTS[day] + 86400 - 300
	default:
		// representative positions on the 5-minute grid: 04:00, 08:00, 12:00, 16:00
		return w.dayTS[day] + int64(slot-2)*14400
	}
}

func (w *world) slotOf(day int, ts int64) int {
	for s := 1; s <= 16; s++ {
		if w.slotTS(day, s) == ts {
			return s
		}
	}
	return -1
}

func (w *world) dayOf(ts int64) int {
	for d, t := range w.dayTS {
		if gpfile.DirTimestamp(ts) == t {
			return d
		}
	}
	return 0
}

func ifaceIdx(m string) int {
	if m == "b" {
		return 1
	}
	return 0
}

// payload of the block written by origin p ("S"/"D") for (iface, day, slot)
//
// In a twin world the destination writer's block of a slot aggregates to exactly the totals of the
// source writer's block (same number of IPv4 / IPv6 entries, same counter sums, same drops) although
// every flow differs (other destination port): days with the same slots then carry the same metadata
// suffix in their directory name whoever wrote them.
func (w *world) flows(p, iface string, day, slot int) []store.Flow {
	if w.idle && slot == 3 {
		return nil
	}
	id := slot + 8*(day-1) + 16*ifaceIdx(iface)
	if p == "D" && !w.twin {
		id += 32
	}
	fl := store.FlowsFor(w.seed, id, "s")
	if p == "D" && w.twin {
		for i := range fl {
			fl[i].Dport += 1000
		}
	}
	return fl
}

func (w *world) drops(p, iface string, day, slot int) uint64 {
	d := uint64(slot + 10*day + 100*ifaceIdx(iface))
	if p == "D" && !w.twin {
		d += 1000
	}
	return d
}

// build writes the days with the real DBWriter (blocks in time order).
func (w *world) build(db string, days []dayT) error {
	if err := os.MkdirAll(db, 0o755); err != nil {
		return err
	}
	sorted := append([]dayT{}, days...)
	sort.Slice(sorted, func(i, j int) bool {
		if sorted[i].Iface != sorted[j].Iface {
			return sorted[i].Iface < sorted[j].Iface
		}
		return w.dayTS[sorted[i].Day] < w.dayTS[sorted[j].Day]
	})
	writers := map[string]*goDB.DBWriter{}
	for _, d := range sorted {
		wr, ok := writers[d.Iface]
		if !ok {
			wr = goDB.NewDBWriter(db, w.ifaces[d.Iface], encoders.EncoderTypeLZ4)
			writers[d.Iface] = wr
		}
		bl := append([]blockT{}, d.Blocks...)
		sort.Slice(bl, func(i, j int) bool { return bl[i].Slot < bl[j].Slot })
		for _, b := range bl {
			fm := store.FlowMap(w.flows(b.P, d.Iface, d.Day, b.Slot))
			if err := wr.Write(fm, capturetypes.CaptureStats{Dropped: w.drops(b.P, d.Iface, d.Day, b.Slot)}, w.slotTS(d.Day, b.Slot)); err != nil {
				return fmt.Errorf("building %s: %v", db, err)
			}
		}
	}
	return nil
}

// treeHash hashes every entry (relative path, type, permission bits, file contents) below root.
func treeHash(root string) (string, error) {
	h := sha256.New()
	err := filepath.WalkDir(root, func(p string, d fs.DirEntry, err error) error {
		if err != nil {
			return err
		}
		rel, _ := filepath.Rel(root, p)
		info, err := d.Info()
		if err != nil {
			return err
		}
		fmt.Fprintf(h, "%s|%v|%o|", rel, d.IsDir(), info.Mode().Perm())
		if !d.IsDir() {
			b, err := os.ReadFile(p)
			if err != nil {
				return err
			}
			s := sha256.Sum256(b)
			h.Write(s[:])
		}
		h.Write([]byte{'\n'})
		return nil
	})
	return hex.EncodeToString(h.Sum(nil)), err
}

// ---- observation of a database

type obsBlock struct {
	Slot int    `json:"slot"`
	P    string `json:"p"` // "S", "D" or "?" (matches neither payload)
}

type obsDay struct {
	Iface  string     `json:"iface"`
	Day    int        `json:"day"`
	Blocks []obsBlock `json:"blocks"`
}

type observation struct {
	Reader    []obsDay `json:"reader"` // via gpfile.GPDir
	Query     []obsDay `json:"query"`  // via the query engine
	Anomalies []string `json:"anomalies"`
}

func (w *world) modelIface(name string) string {
	for m, n := range w.ifaces {
		if n == name {
			return m
		}
	}
	return ""
}

// (a block without flows is told apart by its drop count; drops < 0: not known, the first match counts)
func (w *world) label(iface string, day, slot int, drops int64, match func(fl []store.Flow) bool) string {
	for _, p := range []string{"S", "D"} {
		fl := w.flows(p, iface, day, slot)
		if match(fl) && (len(fl) > 0 || drops < 0 || uint64(drops) == w.drops(p, iface, day, slot)) {
			return p
		}
	}
	return "?"
}

// observe reads the database through the block reader and the query engine. The query part is
// reused from qcache when the tree below db is byte-identical to one already queried (the engine is
// read-only and deterministic, so the answer cannot differ).
func (w *world) observe(db, hash string, qcache map[string][]obsDay) observation {
	o := observation{Reader: []obsDay{}, Query: []obsDay{}, Anomalies: []string{}}
	anom := func(f string, a ...any) { o.Anomalies = append(o.Anomalies, fmt.Sprintf(f, a...)) }
	ents, err := os.ReadDir(db)
	if err != nil {
		anom("cannot list database root: %v", err)
		return o
	}
	for _, e := range ents {
		mi := w.modelIface(e.Name())
		if !e.IsDir() || mi == "" || mi == "zz" {
			anom("unexpected entry %q in database root", e.Name())
			continue
		}
		ifPath := filepath.Join(db, e.Name())
		// ---- reader: walk year/month/day directories
		var dayDirs []string
		filepath.WalkDir(ifPath, func(p string, d fs.DirEntry, err error) error {
			if err != nil || !d.IsDir() {
				return nil
			}
			rel, _ := filepath.Rel(ifPath, p)
			if strings.Count(rel, string(filepath.Separator)) == 2 {
				dayDirs = append(dayDirs, p)
				return filepath.SkipDir
			}
			return nil
		})
		sort.Strings(dayDirs)
		for _, dd := range dayDirs {
			ts, suffix, err := gpfile.ExtractTimestampMetadataSuffix(filepath.Base(dd))
			if err != nil {
				anom("%s: directory %q is not a day directory", mi, filepath.Base(dd))
				continue
			}
			day := w.dayOf(ts)
			if day == 0 || ts != w.dayTS[day] {
				anom("%s: day directory %q belongs to no day of the case", mi, filepath.Base(dd))
				continue
			}
			od := obsDay{Iface: mi, Day: day, Blocks: []obsBlock{}}
			p := hx.Catch(func() {
				d := gpfile.NewDirReader(ifPath, ts, suffix)
				if err := d.Open(); err != nil {
					anom("%s day %d: cannot open: %v", mi, day, err)
					return
				}
				defer d.Close()
				var tot gpfile.TrafficMetadata
				var cnt types.Counters
				for bi, b := range d.BlockMetadata[0].Blocks() {
					slot := w.slotOf(day, b.Timestamp)
					if slot < 0 {
						anom("%s day %d: block at %d is no block of the case", mi, day, b.Timestamp)
						continue
					}
					var cols [types.ColIdxCount][]byte
					for c := types.ColumnIndex(0); c < types.ColIdxCount; c++ {
						got, err := d.ReadBlockAtIndex(c, bi)
						if err != nil {
							anom("%s day %d slot %d: column %d unreadable: %v", mi, day, slot, c, err)
						}
						cols[c] = append([]byte(nil), got...)
					}
					lbl := w.label(mi, day, slot, int64(d.BlockTraffic[bi].NumDrops), func(fl []store.Flow) bool {
						want := store.Columns(store.FlowMap(fl))
						for c := range want {
							if !bytes.Equal(want[c], cols[c]) {
								return false
							}
						}
						return true
					})
					od.Blocks = append(od.Blocks, obsBlock{Slot: slot, P: lbl})
					if lbl != "?" {
						fl := w.flows(lbl, mi, day, slot)
						var v4, v6 uint64
						var c types.Counters
						for _, f := range fl {
							if f.V4 {
								v4++
							} else {
								v6++
							}
							c.Add(f.C)
						}
						bt := d.BlockTraffic[bi]
						if bt.NumV4Entries != v4 || bt.NumV6Entries != v6 || bt.NumDrops != w.drops(lbl, mi, day, slot) {
							anom("%s day %d slot %d: block metadata %+v does not describe the block's payload (%s)", mi, day, slot, bt, lbl)
						}
						tot.NumV4Entries += v4
						tot.NumV6Entries += v6
						tot.NumDrops += w.drops(lbl, mi, day, slot)
						cnt.Add(c)
					}
				}
				allKnown := true
				for _, b := range od.Blocks {
					if b.P == "?" {
						allKnown = false
					}
				}
				if allKnown && (d.Traffic != tot || d.Counts != cnt) {
					anom("%s day %d: day totals %+v %+v differ from the sum over its blocks %+v %+v", mi, day, d.Traffic, d.Counts, tot, cnt)
				}
			})
			if p != "" {
				anom("%s day %d: reader panicked: %s", mi, day, p)
			}
			o.Reader = append(o.Reader, od)
		}
		// ---- query engine
		if cached, ok := qcache[hash+"|"+mi]; ok {
			o.Query = append(o.Query, cached...)
			continue
		}
		nq := len(o.Query)
		na := len(o.Anomalies)
		p := hx.Catch(func() {
			lo, hi := w.dayTS[1]-86400, w.dayTS[2]+2*86400
			a := &query.Args{Query: "time,sip,dip,dport,proto", Ifaces: e.Name(), First: strconv.FormatInt(lo, 10),
				Last: strconv.FormatInt(hi, 10), Format: "json", NumResults: 100000000, MaxMemPct: 90}
			res, err := engine.NewQueryRunner(db).Run(context.Background(), a)
			if err != nil {
				anom("%s: query failed: %v", mi, err)
				return
			}
			byTS := map[int64]map[string]types.Counters{}
			for _, r := range res.Rows {
				ts := r.Labels.Timestamp.Unix()
				if byTS[ts] == nil {
					byTS[ts] = map[string]types.Counters{}
				}
				sip, dip := r.Attributes.SrcIP.AsSlice(), r.Attributes.DstIP.AsSlice()
				dp := []byte{byte(r.Attributes.DstPort >> 8), byte(r.Attributes.DstPort)}
				k := string(types.NewKey(sip, dip, dp, r.Attributes.IPProto))
				if _, dup := byTS[ts][k]; dup {
					anom("%s: query returns a flow twice at %d", mi, ts)
				}
				byTS[ts][k] = r.Counters
			}
			var tss []int64
			for ts := range byTS {
				tss = append(tss, ts)
			}
			sort.Slice(tss, func(i, j int) bool { return tss[i] < tss[j] })
			days := map[int]*obsDay{}
			for _, ts := range tss {
				day := w.dayOf(ts)
				slot := -1
				if day != 0 {
					slot = w.slotOf(day, ts)
				}
				if slot < 0 {
					anom("%s: query returns rows at %d which is no block of the case", mi, ts)
					continue
				}
				lbl := w.label(mi, day, slot, -1, func(fl []store.Flow) bool {
					if len(fl) != len(byTS[ts]) {
						return false
					}
					for _, f := range fl {
						if c, ok := byTS[ts][string(f.Key())]; !ok || c != f.C {
							return false
						}
					}
					return true
				})
				if days[day] == nil {
					days[day] = &obsDay{Iface: mi, Day: day, Blocks: []obsBlock{}}
				}
				days[day].Blocks = append(days[day].Blocks, obsBlock{Slot: slot, P: lbl})
			}
			for _, dn := range []int{1, 2} {
				if days[dn] != nil {
					o.Query = append(o.Query, *days[dn])
				}
			}
		})
		if p != "" {
			anom("%s: query panicked: %s", mi, p)
		}
		if len(o.Anomalies) == na {
			qcache[hash+"|"+mi] = append([]obsDay{}, o.Query[nq:]...)
		}
	}
	return o
}

func canon(days []obsDay) string {
	var parts []string
	for _, d := range days {
		bl := append([]obsBlock{}, d.Blocks...)
		sort.Slice(bl, func(i, j int) bool { return bl[i].Slot < bl[j].Slot })
		s := fmt.Sprintf("%s/%d:", d.Iface, d.Day)
		for _, b := range bl {
			s += fmt.Sprintf(" %d%s", b.Slot, b.P)
		}
		parts = append(parts, s)
	}
	sort.Strings(parts)
	return strings.Join(parts, "; ")
}

func toObs(days []dayT) []obsDay {
	out := []obsDay{}
	for _, d := range days {
		od := obsDay{Iface: d.Iface, Day: d.Day, Blocks: []obsBlock{}}
		for _, b := range d.Blocks {
			od.Blocks = append(od.Blocks, obsBlock{Slot: b.Slot, P: b.P})
		}
		out = append(out, od)
	}
	return out
}

// firstDiff names the first (iface, day) on which two observations differ.
func firstDiff(a, b []obsDay) (string, int) {
	ma, mb := map[string]string{}, map[string]string{}
	for _, d := range a {
		ma[fmt.Sprintf("%s/%d", d.Iface, d.Day)] = canon([]obsDay{d})
	}
	for _, d := range b {
		mb[fmt.Sprintf("%s/%d", d.Iface, d.Day)] = canon([]obsDay{d})
	}
	var keys []string
	for k := range ma {
		keys = append(keys, k)
	}
	for k := range mb {
		if _, ok := ma[k]; !ok {
			keys = append(keys, k)
		}
	}
	sort.Strings(keys)
	for _, k := range keys {
		if ma[k] != mb[k] {
			p := strings.Split(k, "/")
			d, _ := strconv.Atoi(p[1])
			return p[0], d
		}
	}
	return "", 0
}

// ---- one case

type gotStep struct {
	Err     string      `json:"merge_error"`
	Sum     sumT        `json:"summary"`
	Obs     observation `json:"dst"`
	SrcSame bool        `json:"source_tree_unchanged"`
	DstSame bool        `json:"destination_tree_unchanged"`
}

type failure struct {
	OK   bool            `json:"ok"`
	Step int             `json:"step"`
	Msg  string          `json:"msg"`
	Desc map[string]any  `json:"desc"`
	Got  []gotStep       `json:"got"`
	Conc map[string]any  `json:"concretisation"`
	Case json.RawMessage `json:"case"`
}

func selClass(c *caseT) string {
	if len(c.Sel) == 0 {
		return "all"
	}
	for _, s := range c.Sel {
		if s == "zz" {
			return "unknown"
		}
	}
	return "named"
}

func (w *world) runCase(c *caseT, dir string) (*failure, []gotStep) {
	srcDB, dstDB := filepath.Join(dir, "src"), filepath.Join(dir, "dst")
	if err := w.build(srcDB, c.Src); err != nil {
		hx.Die("%v", err)
	}
	if err := w.build(dstDB, c.Steps[0].Pre); err != nil {
		hx.Die("%v", err)
	}
	src0, err := treeHash(srcDB)
	if err != nil {
		hx.Die("hash: %v", err)
	}
	var sel []string
	for _, s := range c.Sel {
		sel = append(sel, w.ifaces[s])
	}
	var got []gotStep
	qcache := map[string][]obsDay{}
	for i, st := range c.Steps {
		base := map[string]any{"binding": "F", "merge": i + 1, "overwrite": c.Ow, "dry_run": c.Dry, "sel": selClass(c)}
		gap := false
		for _, p := range st.Plans {
			gap = gap || p.Gap
		}
		base["gap_inferred_complete"] = gap
		mk := func(cls, msg string, pl *planT) *failure {
			d := map[string]any{}
			for k, v := range base {
				d[k] = v
			}
			d["cls"] = cls
			if pl == nil && len(st.Plans) == 1 {
				pl = &st.Plans[0]
			}
			if pl != nil {
				d["plan"], d["src_day"], d["dst_day"] = pl.Plan, pl.Src, pl.Dst
				d["gap_inferred_complete"] = pl.Gap
			} else if len(st.Plans) > 1 {
				d["plan"] = "several"
			}
			return &failure{Step: i + 1, Msg: msg, Desc: d}
		}
		dstPre, err := treeHash(dstDB)
		if err != nil {
			hx.Die("hash: %v", err)
		}
		var g gotStep
		var sum goDB.MergeSummary
		var merr error
		if p := hx.Catch(func() {
			sum, merr = goDB.MergeDatabases(context.Background(), goDB.MergeOptions{SourcePath: srcDB, DestinationPath: dstDB,
				Interfaces: sel, Overwrite: c.Ow, DryRun: c.Dry, CompleteTolerance: time.Duration(w.tol) * time.Second})
		}); p != "" {
			got = append(got, g)
			return mk("panic", p, nil), got
		}
		if merr != nil {
			g.Err = merr.Error()
		}
		g.Sum = sumT{Dry: sum.DryRun, Ifaces: sum.InterfacesProcessed, Copied: sum.DaysCopied, Rebuilt: sum.DaysRebuilt, Skipped: sum.DaysSkipped,
			ByDst: sum.ConflictsResolvedByDestination, BySrc: sum.ConflictsResolvedBySource}
		srcNow, err := treeHash(srcDB)
		if err != nil {
			hx.Die("hash: %v", err)
		}
		dstNow, err := treeHash(dstDB)
		if err != nil {
			hx.Die("hash: %v", err)
		}
		g.SrcSame, g.DstSame = srcNow == src0, dstNow == dstPre
		g.Obs = w.observe(dstDB, dstNow, qcache)
		got = append(got, g)
		// 1. the source is never modified
		if !g.SrcSame {
			return mk("source-modified", "the source tree changed", nil), got
		}
		exp := st.Exp
		want := toObs(exp.Dst)
		contentMismatch := func() *failure {
			if len(g.Obs.Anomalies) > 0 {
				return mk("destination-anomaly", g.Obs.Anomalies[0], nil)
			}
			for _, v := range []struct {
				name string
				days []obsDay
			}{{"block reader", g.Obs.Reader}, {"query", g.Obs.Query}} {
				want := want
				if v.name == "query" && w.idle {
					// blocks without flows return no rows: the query cannot show them
					want = []obsDay{}
					for _, d := range toObs(exp.Dst) {
						nd := obsDay{Iface: d.Iface, Day: d.Day, Blocks: []obsBlock{}}
						for _, b := range d.Blocks {
							if b.Slot != 3 {
								nd.Blocks = append(nd.Blocks, b)
							}
						}
						if len(nd.Blocks) > 0 {
							want = append(want, nd)
						}
					}
				}
				if canon(v.days) != canon(want) {
					ifc, day := firstDiff(v.days, want)
					var pl *planT
					for k := range st.Plans {
						if st.Plans[k].Iface == ifc && st.Plans[k].Day == day {
							pl = &st.Plans[k]
						}
					}
					cls := "content"
					if pl == nil && len(st.Plans) > 0 {
						cls = "content-outside-plan" // a day that no plan touches differs
					}
					return mk(cls, fmt.Sprintf("destination seen through the %s: [%s], documented rule: [%s] (first difference: %s day %d)", v.name, canon(v.days), canon(want), ifc, day), pl)
				}
			}
			return nil
		}
		if exp.Sum.Unknown {
			// a requested interface does not exist in the source: only "nothing changes" is judged
			if f := contentMismatch(); f != nil {
				return f, got
			}
			continue
		}
		if g.Err != "" {
			return mk("merge-error", "MergeDatabases failed: "+g.Err, nil), got
		}
		// 2. dry run changes nothing
		if c.Dry && !g.DstSame {
			return mk("dry-run-modified", "the destination tree changed during a dry run", nil), got
		}
		// 3. destination contents
		if f := contentMismatch(); f != nil {
			return f, got
		}
		// 4. the summary
		es := exp.Sum
		if g.Sum.Dry != c.Dry || g.Sum.Ifaces != es.Ifaces || g.Sum.Copied != es.Copied || g.Sum.Rebuilt != es.Rebuilt || g.Sum.Skipped != es.Skipped {
			return mk("summary-days", fmt.Sprintf("summary dry/ifaces/copied/rebuilt/skipped = %v/%d/%d/%d/%d, documented rule %v/%d/%d/%d/%d",
				g.Sum.Dry, g.Sum.Ifaces, g.Sum.Copied, g.Sum.Rebuilt, g.Sum.Skipped, c.Dry, es.Ifaces, es.Copied, es.Rebuilt, es.Skipped), nil), got
		}
		if es.ByDst >= 0 && (g.Sum.ByDst != es.ByDst || g.Sum.BySrc != es.BySrc) {
			return mk("summary-conflicts", fmt.Sprintf("conflicts resolved by destination/source = %d/%d, documented rule %d/%d", g.Sum.ByDst, g.Sum.BySrc, es.ByDst, es.BySrc), nil), got
		}
	}
	return nil, got
}

// Replay executes the cases (one JSON object per line).
func Replay(seed uint64, tmp string, verbose bool, in io.Reader, out io.Writer) {
	o := hx.NewOut(out)
	defer o.Flush()
	n, bad, merges := 0, 0, 0
	plans := map[string]int{}
	err := hx.Lines(in, func(line []byte) error {
		var c caseT
		if err := json.Unmarshal(line, &c); err != nil {
			return fmt.Errorf("case %d: %v", n, err)
		}
		n++
		if len(c.Steps) == 0 || c.LastSlot < 2 {
			return fmt.Errorf("case %d: malformed", n)
		}
		w := newWorld(seed, &c)
		dir, err := os.MkdirTemp(tmp, "case-")
		if err != nil {
			return err
		}
		f, got := w.runCase(&c, dir)
		os.RemoveAll(dir)
		merges += len(got)
		for _, st := range c.Steps {
			for _, p := range st.Plans {
				plans[p.Plan+"/"+p.Src+"/"+p.Dst]++
			}
		}
		conc := map[string]any{"tolerance_s": w.tol, "first_block_offset_s": w.jitter, "last_slot": w.last, "twin_payloads": w.twin, "idle_slot_3": w.idle, "slot_positions": "1: day start + first_block_offset; 2: tolerance+1 s; k: (k-2)*4 h; last: 23:55", "ifaces": w.ifaces, "days": w.dayTS}
		if verbose {
			o.Emit(map[string]any{"verbose": true, "got": got, "concretisation": conc})
		}
		if f != nil {
			f.Got, f.Conc = got, conc
			f.Case = append(json.RawMessage{}, line...)
			o.Emit(f)
			bad++
		}
		return nil
	})
	if err != nil {
		hx.Die("merge-replay: %v", err)
	}
	o.Emit(map[string]any{"summary": true, "cases": n, "failed": bad, "merges": merges, "plans": plans})
}
