package packet

// c22-drive (B): many interleaved conversations between a handful of hosts through a real
// capture; one event per packet for spec/packet/DirectionTrace.tla.

import (
	"encoding/binary"
	"flag"
	"fmt"
	"io"
	"os"

	"verifharness/internal/hx"

	slimcap "github.com/fako1024/slimcap/capture"
)

type conv22 struct {
	ver, proto int
	a, b       string // requester, responder (host ids)
	bcls       string
	pa, pb     int
	kind       int // icmp exchange kind
}

// hostAddr concretises host ids of the driver: u<i> unicast, m<i> multicast, bc broadcast.
func hostAddr(ver int, id string) []byte {
	var n int
	fmt.Sscanf(id[1:], "%d", &n)
	if ver == 4 {
		switch id[0] {
		case 'b':
			return []byte{255, 255, 255, 255}
		case 'm':
			return []byte{224, 0, byte(n % 2), byte(10 + n)}
		}
		return []byte{192, 168, byte(n), byte(100 + n)}
	}
	b := make([]byte, 16)
	if id[0] == 'm' {
		b[0], b[1], b[15] = 0xff, 0x02, byte(n)
		return b
	}
	b[0], b[1], b[2], b[3], b[15] = 0x20, 0x01, 0x0d, 0xb8, byte(n)
	return b
}

type hostBook struct{ ids map[string]string }

func (h *hostBook) addr(ver int, id string) []byte {
	b := hostAddr(ver, id)
	h.ids[fmt.Sprintf("%d/%x", ver, b)] = id
	return b
}
func (h *hostBook) name(ver int, b []byte) string {
	if id, ok := h.ids[fmt.Sprintf("%d/%x", ver, b)]; ok {
		return id
	}
	return fmt.Sprintf("?%x", b)
}

func clsOf(id string) string {
	switch id[0] {
	case 'm':
		return "m"
	case 'b':
		return "b"
	}
	return "u"
}

var c2sFlags = []int{0x02, 0x02, 0x10, 0x18, 0x11, 0x04, 0x00, 0xc2}
var s2cFlags = []int{0x12, 0x12, 0x10, 0x18, 0x11, 0x14, 0x52}
var servicePorts = []int{22, 25, 53, 80, 123, 443, 445, 1023, 1024, 3306, 8080, 8443, 32767, 32768, 40000, 0}

// icmp exchange kinds: {request type, reply type}
var icmp4Kinds = [][2]int{{8, 0}, {13, 14}, {15, 16}, {3, 3}, {11, 11}, {5, 5}}
var icmp6Kinds = [][2]int{{128, 129}, {135, 136}, {1, 1}, {3, 3}, {133, 134}}

func drawConv(rng *hx.RNG) conv22 {
	c := conv22{ver: 4, bcls: "u"}
	if rng.Intn(3) == 0 {
		c.ver = 6
	}
	c.a = fmt.Sprintf("u%d", 1+rng.Intn(5))
	c.b = fmt.Sprintf("u%d", 1+rng.Intn(5))
	switch r := rng.Intn(100); {
	case r < 45:
		c.proto = protoTCP
	case r < 80:
		c.proto = protoUDP
	case r < 92:
		c.proto = protoICMP4
		if c.ver == 6 {
			c.proto = protoICMP6
		}
	default:
		c.proto = []int{50, 47, 132, 0}[rng.Intn(4)]
	}
	if (c.proto == protoUDP || c.proto == protoICMP6) && rng.Intn(6) == 0 {
		c.b, c.bcls = fmt.Sprintf("m%d", 1+rng.Intn(3)), "m"
		if c.ver == 4 && rng.Intn(2) == 0 {
			c.b, c.bcls = "b0", "b"
		}
	}
	if c.proto == protoTCP || c.proto == protoUDP {
		// the client side never uses a well-known service port: at most one of the two ports is a
		// common service port (the both-common class is covered by the forward replay)
		c.pa = 1025 + rng.Intn(64000)
		if c.pa == 8080 {
			c.pa++
		}
		if rng.Intn(4) == 0 {
			c.pa = []int{32767, 32768, 40000, 1025, 65535}[rng.Intn(5)]
		}
		c.pb = servicePorts[rng.Intn(len(servicePorts))]
		if rng.Intn(5) == 0 {
			c.pb = rng.Intn(65536)
		}
		if rng.Intn(12) == 0 {
			c.pb = c.pa // identical ports: nothing to go by
		}
	}
	c.kind = rng.Intn(8)
	return c
}

func (c conv22) packet(rng *hx.RNG, fwd bool) Pkt {
	p := Pkt{Ver: c.ver, IHL: 5, Len: 60, Proto: c.proto}
	if c.ver == 6 {
		p.IHL, p.Len = 10, 80
	}
	if fwd {
		p.Sip, p.Dip, p.Scls, p.Dcls = c.a, c.b, "u", c.bcls
		p.Sport, p.Dport = c.pa, c.pb
	} else {
		p.Sip, p.Dip, p.Scls, p.Dcls = c.b, c.a, c.bcls, "u"
		p.Sport, p.Dport = c.pb, c.pa
	}
	switch {
	case c.proto == protoTCP:
		if fwd {
			p.TCPFlags = c2sFlags[rng.Intn(len(c2sFlags))]
		} else {
			p.TCPFlags = s2cFlags[rng.Intn(len(s2cFlags))]
		}
	case c.proto == protoICMP4 && c.ver == 4:
		k := icmp4Kinds[c.kind%len(icmp4Kinds)]
		p.ICMPType = k[1]
		if fwd {
			p.ICMPType = k[0]
		}
	case c.proto == protoICMP6 && c.ver == 6:
		k := icmp6Kinds[c.kind%len(icmp6Kinds)]
		p.ICMPType = k[1]
		if fwd {
			p.ICMPType = k[0]
		}
	}
	if c.proto != protoTCP && c.proto != protoUDP {
		p.Sport, p.Dport = 0, 0
	}
	// now and then a non-first fragment or a truncated packet (must leave the flow log alone)
	if r := rng.Intn(40); r == 0 && c.ver == 4 && c.proto != 50 {
		p.FragOff = 1 + rng.Intn(8191)
	} else if r == 1 && (c.proto == protoTCP || c.proto == protoUDP) {
		p.Len = 4*p.IHL + rng.Intn(4)
	}
	return p
}

// DriveC22 logs traces*pkts packets of interleaved conversations.
func DriveC22(seed uint64, traces, pkts, nconv int, out io.Writer) {
	o := hx.NewOut(out)
	defer o.Flush()
	rng := hx.NewRNG(seed ^ 0x22d)
	for tr := 0; tr < traces; tr++ {
		w, err := startCapture()
		if err != nil {
			hx.Die("c22-drive: %v", err)
		}
		hb := &hostBook{ids: map[string]string{}}
		o.Emit(map[string]any{"ev": "Reset", "tr": tr})
		convs := make([]conv22, nconv)
		for i := range convs {
			convs[i] = drawConv(rng)
		}
		prev := map[string]int{}
		ignored := 0
		for i := 0; i < pkts; i++ {
			c := convs[rng.Intn(len(convs))]
			fwd := c.bcls != "u" || rng.Intn(2) == 0
			p := c.packet(rng, fwd)
			ip := Build(p, func(id string) []byte { return hb.addr(p.Ver, id) }, rng)
			pt := slimcap.PacketType(slimcap.PacketThisHost)
			if !fwd {
				pt = slimcap.PacketOutgoing
			}
			if err := w.src.send(srcPkt{ip: ip, pktType: pt, size: uint32(60 + rng.Intn(1400))}); err != nil {
				hx.Die("c22-drive: %v", err)
			}
			// which flow changed?
			changed := 0
			hit := flowObs{}
			nflows := 0
			scan := func(ver int, key string, n int) {
				nflows++
				if prev[key] != n {
					changed++
					b := []byte(key)
					if ver == 4 {
						hit = flowObs{K: flowKey{Ver: 4, Sip: hb.name(4, b[0:4]), Sport: int(binary.BigEndian.Uint16(b[4:6])),
							Dip: hb.name(4, b[6:10]), Dport: int(binary.BigEndian.Uint16(b[10:12])), Proto: int(b[12])}, N: n}
					} else {
						hit = flowObs{K: flowKey{Ver: 6, Sip: hb.name(6, b[0:16]), Sport: int(binary.BigEndian.Uint16(b[16:18])),
							Dip: hb.name(6, b[18:34]), Dport: int(binary.BigEndian.Uint16(b[34:36])), Proto: int(b[36])}, N: n}
					}
					prev[key] = n
				}
			}
			for k, f := range w.log.FlowsV4() {
				scan(4, k, int(f.PacketsRcvd+f.PacketsSent))
			}
			for k, f := range w.log.FlowsV6() {
				scan(6, k, int(f.PacketsRcvd+f.PacketsSent))
			}
			if changed == 0 {
				ignored++
			}
			o.Emit(map[string]any{"ev": "Pkt", "tr": tr, "p": p, "nflows": nflows, "ignored": ignored, "changed": changed, "hit": hit})
		}
		w.stop()
	}
}

func init() {
	hx.Register("c22-drive", func(args []string) {
		fs := flag.NewFlagSet("c22-drive", flag.ExitOnError)
		seed := fs.Uint64("seed", 1, "seed")
		traces := fs.Int("traces", 4, "traces")
		pkts := fs.Int("pkts", 1500, "packets per trace")
		nconv := fs.Int("convs", 60, "conversations per trace")
		fs.Parse(args)
		DriveC22(*seed, *traces, *pkts, *nconv, os.Stdout)
	})
}
