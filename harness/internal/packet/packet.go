// Package packet binds spec/packet (Packet.tla for C19, Direction.tla for C22) to
// pkg/capture: ParsePacketV4/V6, EPHash.Reverse, ClassifyPacketDirection and the flow log of a
// running Capture.
//
// C19
//
//	c19-replay  F: cases {p, exp, rexp, tags} evaluated by TLC are turned into real header bytes
//	            (random payload / unused fields by seed), parsed by the real parser in both
//	            directions and compared; the mirror relation is checked with the real Reverse().
//	c19-drive   B: a large seeded sample over the full field ranges is parsed and logged for
//	            PacketTrace.tla.
//	c19-sweep   relational laws that need no table (mirror, at most one port dropped, a port is
//	            kept or zeroed) over all port pairs.
package packet

import (
	"encoding/binary"
	"encoding/json"
	"flag"
	"fmt"
	"io"
	"os"
	"runtime"
	"sort"
	"sync"

	"verifharness/internal/hx"

	gpcapture "github.com/els0r/goProbe/v4/pkg/capture"
	"github.com/els0r/goProbe/v4/pkg/capture/capturetypes"
	slimcap "github.com/fako1024/slimcap/capture"
)

// Pkt is the abstract packet of PacketRule.tla (scls/dcls only used by Direction.tla).
type Pkt struct {
	Ver      int    `json:"ver"`
	Len      int    `json:"len"`
	IHL      int    `json:"ihl"`
	FragOff  int    `json:"fragOff"`
	Proto    int    `json:"proto"`
	Sip      string `json:"sip"`
	Dip      string `json:"dip"`
	Sport    int    `json:"sport"`
	Dport    int    `json:"dport"`
	TCPFlags int    `json:"tcpFlags"`
	ICMPType int    `json:"icmpType"`
	Scls     string `json:"scls,omitempty"`
	Dcls     string `json:"dcls,omitempty"`
}

// Reverse is the packet of the same conversation travelling the other way.
func (p Pkt) Reverse() Pkt {
	r := p
	r.Sip, r.Dip = p.Dip, p.Sip
	r.Sport, r.Dport = p.Dport, p.Sport
	r.Scls, r.Dcls = p.Dcls, p.Scls
	return r
}

// Res is the abstract parse result (NoKey / KeyOut of PacketRule.tla).
type Res struct {
	Cls   string `json:"cls"`
	Sip   string `json:"sip"`
	Sport int    `json:"sport"`
	Dip   string `json:"dip"`
	Dport int    `json:"dport"`
	Proto int    `json:"proto"`
	Aux   int    `json:"aux"`
}

const (
	protoTCP   = 6
	protoUDP   = 17
	protoICMP4 = 1
	protoICMP6 = 58
)

// Build assembles the IP layer bytes of p. Everything the abstract packet does not determine
// (TOS, id, TTL, checksums, DF/MF bits, option bytes, payload) is random; the slice is cut to
// p.Len bytes exactly as a capture length / short packet would.
func Build(p Pkt, addr func(id string) []byte, rng *hx.RNG) []byte {
	hdr := 40
	if p.Ver == 4 {
		hdr = 4 * p.IHL
	}
	full := hdr + 24
	if p.Len > full {
		full = p.Len
	}
	b := rng.Bytes(full)
	if p.Ver == 4 {
		b[0] = 0x40 | byte(p.IHL&0x0f)
		b[6] = (b[6] & 0xe0) | byte((p.FragOff>>8)&0x1f)
		b[7] = byte(p.FragOff & 0xff)
		b[9] = byte(p.Proto)
		copy(b[12:16], addr(p.Sip))
		copy(b[16:20], addr(p.Dip))
	} else {
		b[0] = 0x60 | (b[0] & 0x0f)
		b[6] = byte(p.Proto)
		copy(b[8:24], addr(p.Sip))
		copy(b[24:40], addr(p.Dip))
	}
	t := b[hdr:]
	switch {
	case p.Proto == protoTCP:
		binary.BigEndian.PutUint16(t[0:2], uint16(p.Sport))
		binary.BigEndian.PutUint16(t[2:4], uint16(p.Dport))
		t[13] = byte(p.TCPFlags)
	case p.Proto == protoUDP:
		binary.BigEndian.PutUint16(t[0:2], uint16(p.Sport))
		binary.BigEndian.PutUint16(t[2:4], uint16(p.Dport))
	case p.Ver == 4 && p.Proto == protoICMP4, p.Ver == 6 && p.Proto == protoICMP6:
		t[0] = byte(p.ICMPType)
	}
	if p.Len < 0 {
		return b[:0]
	}
	return b[:p.Len]
}

func errnoClass(e capturetypes.ParsingErrno) string {
	switch e {
	case capturetypes.ErrnoOK:
		return "Key"
	case capturetypes.ErrnoPacketFragmentIgnore:
		return "Fragment"
	case capturetypes.ErrnoPacketTruncated:
		return "Truncated"
	}
	return fmt.Sprintf("errno%d", int(e))
}

func noKey(cls string) Res { return Res{Cls: cls} }

// Parse runs the real parser on b and projects the result; hash is the raw EPHash (nil unless Key).
func Parse(ver int, b []byte, idOf func([]byte) string) (res Res, hash []byte) {
	if p := hx.Catch(func() {
		if ver == 4 {
			h, aux, errno := gpcapture.ParsePacketV4(slimcap.IPLayer(b))
			res = noKey(errnoClass(errno))
			if errno == capturetypes.ErrnoOK {
				res = Res{Cls: "Key",
					Sip:   idOf(h[capturetypes.EPHashV4SipStart:capturetypes.EPHashV4SipEnd]),
					Sport: int(binary.BigEndian.Uint16(h[capturetypes.EPHashV4SPortStart:capturetypes.EPHashV4SPortEnd])),
					Dip:   idOf(h[capturetypes.EPHashV4DipStart:capturetypes.EPHashV4DipEnd]),
					Dport: int(binary.BigEndian.Uint16(h[capturetypes.EPHashV4DPortStart:capturetypes.EPHashV4DPortEnd])),
					Proto: int(h[capturetypes.EPHashV4ProtocolPos]), Aux: int(aux)}
				hash = append([]byte{}, h[:]...)
			}
		} else {
			h, aux, errno := gpcapture.ParsePacketV6(slimcap.IPLayer(b))
			res = noKey(errnoClass(errno))
			if errno == capturetypes.ErrnoOK {
				res = Res{Cls: "Key",
					Sip:   idOf(h[capturetypes.EPHashV6SipStart:capturetypes.EPHashV6SipEnd]),
					Sport: int(binary.BigEndian.Uint16(h[capturetypes.EPHashV6SPortStart:capturetypes.EPHashV6SPortEnd])),
					Dip:   idOf(h[capturetypes.EPHashV6DipStart:capturetypes.EPHashV6DipEnd]),
					Dport: int(binary.BigEndian.Uint16(h[capturetypes.EPHashV6DPortStart:capturetypes.EPHashV6DPortEnd])),
					Proto: int(h[capturetypes.EPHashV6ProtocolPos]), Aux: int(aux)}
				hash = append([]byte{}, h[:]...)
			}
		}
	}); p != "" {
		return noKey("panic"), nil
	}
	return res, hash
}

// realReverse applies the real EPHash.Reverse().
func realReverse(ver int, hash []byte) []byte {
	if ver == 4 {
		r := capturetypes.EPHashV4(hash).Reverse()
		return r[:]
	}
	r := capturetypes.EPHashV6(hash).Reverse()
	return r[:]
}

// addrBook is the deterministic concretisation of address identities for one case
// (distinct identities get distinct bytes) and the projection back.
type addrBook struct {
	ver   int
	bytes map[string][]byte
	ids   map[string]string
	rng   *hx.RNG
}

func newAddrBook(ver int, rng *hx.RNG) *addrBook {
	return &addrBook{ver: ver, bytes: map[string][]byte{}, ids: map[string]string{}, rng: rng}
}

func (a *addrBook) addr(id string) []byte {
	if b, ok := a.bytes[id]; ok {
		return b
	}
	n := 16
	if a.ver == 4 {
		n = 4
	}
	for {
		b := a.rng.Bytes(n)
		if _, dup := a.ids[string(b)]; !dup {
			a.bytes[id], a.ids[string(b)] = b, id
			return b
		}
	}
}

func (a *addrBook) idOf(b []byte) string {
	if id, ok := a.ids[string(b)]; ok {
		return id
	}
	return fmt.Sprintf("?%x", b)
}

func diff(exp, got Res) []string {
	var d []string
	if exp.Cls != got.Cls {
		return []string{"cls"}
	}
	if exp.Sip != got.Sip {
		d = append(d, "sip")
	}
	if exp.Sport != got.Sport {
		d = append(d, "sport")
	}
	if exp.Dip != got.Dip {
		d = append(d, "dip")
	}
	if exp.Dport != got.Dport {
		d = append(d, "dport")
	}
	if exp.Proto != got.Proto {
		d = append(d, "proto")
	}
	if exp.Aux != got.Aux {
		d = append(d, "aux")
	}
	return d
}

type c19Case struct {
	P      Pkt      `json:"p"`
	Exp    Res      `json:"exp"`
	RExp   Res      `json:"rexp"`
	Tags   []string `json:"tags"`
	Mirror bool     `json:"mirror"`
}

func protoName(ver, proto int) string {
	switch {
	case proto == protoTCP:
		return "tcp"
	case proto == protoUDP:
		return "udp"
	case ver == 4 && proto == protoICMP4, ver == 6 && proto == protoICMP6:
		return "icmp"
	case proto == 50:
		return "esp"
	}
	return "other"
}

// runPair parses p and Reverse(p) with one concretisation and returns the real results and
// whether the real Reverse() of the forward key equals the reverse packet's key.
func runPair(p Pkt, rng *hx.RNG) (got, rgot Res, mirOK bool, bytesF, bytesR []byte) {
	ab := newAddrBook(p.Ver, rng)
	bytesF = Build(p, ab.addr, rng)
	bytesR = Build(p.Reverse(), ab.addr, rng)
	var hf, hr []byte
	got, hf = Parse(p.Ver, bytesF, ab.idOf)
	rgot, hr = Parse(p.Ver, bytesR, ab.idOf)
	mirOK = true
	if hf != nil && hr != nil {
		mirOK = string(realReverse(p.Ver, hf)) == string(hr) && string(realReverse(p.Ver, hr)) == string(hf)
	}
	return
}

// ReplayC19 executes TLC cases (one JSON object per line).
func ReplayC19(seed uint64, variants int, in io.Reader, out io.Writer) {
	o := hx.NewOut(out)
	defer o.Flush()
	n, bad, evals := 0, 0, 0
	err := hx.Lines(in, func(line []byte) error {
		var c c19Case
		if err := json.Unmarshal(line, &c); err != nil {
			return fmt.Errorf("case %d: %v", n, err)
		}
		if !c.Mirror {
			return fmt.Errorf("case %d: the specification's own mirror law fails (spec error)", n)
		}
		failed := false
		for v := 0; v < variants && !failed; v++ {
			rng := hx.NewRNG(seed*1000003 + uint64(n)*31 + uint64(v))
			got, rgot, mirOK, bf, br := runPair(c.P, rng)
			evals += 2
			var msgs []string
			var dirs []string
			var dd []string
			if d := diff(c.Exp, got); len(d) > 0 {
				msgs = append(msgs, fmt.Sprintf("forward: spec %+v, ParsePacket %+v", c.Exp, got))
				dirs = append(dirs, "fwd")
				dd = append(dd, d...)
			}
			if d := diff(c.RExp, rgot); len(d) > 0 {
				msgs = append(msgs, fmt.Sprintf("reverse packet: spec %+v, ParsePacket %+v", c.RExp, rgot))
				dirs = append(dirs, "rev")
				dd = append(dd, d...)
			}
			if !mirOK {
				msgs = append(msgs, "Reverse() of the forward key is not the key of the reverse packet")
				dirs = append(dirs, "mirror")
			}
			if len(msgs) > 0 {
				failed = true
				bad++
				sort.Strings(dd)
				dd = uniq(dd)
				o.Emit(map[string]any{"id": n, "ok": false, "step": 0, "msg": fmt.Sprint(msgs),
					"desc": map[string]any{"ver": c.P.Ver, "proto": protoName(c.P.Ver, c.P.Proto), "exp": c.Exp.Cls,
						"got": got.Cls, "rgot": rgot.Cls, "diff": dd, "where": dirs, "tags": tagsOrEmpty(c.Tags)},
					"got": got, "rgot": rgot, "bytes": fmt.Sprintf("%x", bf), "rbytes": fmt.Sprintf("%x", br),
					"variant": v, "behaviour": json.RawMessage(line)})
			}
		}
		n++
		return nil
	})
	if err != nil {
		hx.Die("c19 replay: %v", err)
	}
	o.Emit(map[string]any{"summary": true, "cases": n, "evaluations": evals, "failed": bad})
}

func uniq(s []string) []string {
	var r []string
	for i, x := range s {
		if i == 0 || x != s[i-1] {
			r = append(r, x)
		}
	}
	return r
}

func tagsOrEmpty(t []string) []string {
	if t == nil {
		return []string{}
	}
	sort.Strings(t)
	return t
}

var interestingPorts = []int{0, 1, 52, 53, 54, 79, 80, 81, 442, 443, 444, 445, 446, 1023, 1024, 8079, 8080, 8081,
	32767, 32768, 32769, 49152, 65534, 65535, 255, 256, 53 << 8, 80 << 8, 0x01bb, 0xbb01, 0x1f90, 0x901f}

func drawPort(rng *hx.RNG) int {
	switch r := rng.Intn(10); {
	case r < 5:
		return rng.Intn(65536)
	case r < 9:
		return interestingPorts[rng.Intn(len(interestingPorts))]
	default:
		return (interestingPorts[rng.Intn(len(interestingPorts))] + rng.Intn(3) - 1 + 65536) % 65536
	}
}

// drawPkt draws one packet over the full field ranges.
func drawPkt(rng *hx.RNG) Pkt {
	p := Pkt{Ver: 4, IHL: 5, Sip: "A", Dip: "B"}
	if rng.Intn(2) == 0 {
		p.Ver, p.IHL = 6, 10
	}
	if rng.Intn(16) == 0 {
		p.Dip = "A"
	}
	switch r := rng.Intn(100); {
	case r < 35:
		p.Proto = protoTCP
	case r < 65:
		p.Proto = protoUDP
	case r < 75:
		p.Proto = protoICMP4
		if p.Ver == 6 {
			p.Proto = protoICMP6
		}
	case r < 80:
		p.Proto = 50
	default:
		p.Proto = rng.Intn(256)
	}
	if p.Ver == 4 {
		if rng.Intn(10) == 0 {
			p.IHL = 6 + rng.Intn(10)
		}
		if rng.Intn(100) < 15 {
			p.FragOff = 1 + rng.Intn(8191)
		}
	}
	hdr := 4 * p.IHL
	switch r := rng.Intn(100); {
	case r < 62:
		p.Len = hdr + 14 + rng.Intn(30)
	case r < 94:
		p.Len = hdr - 1 + rng.Intn(17) // around every transport limit
	default:
		p.Len = rng.Intn(hdr + 20) // anything, including less than the fixed header
	}
	if p.Proto == protoTCP || p.Proto == protoUDP {
		p.Sport, p.Dport = drawPort(rng), drawPort(rng)
	}
	if p.Proto == protoTCP {
		p.TCPFlags = rng.Intn(256)
	}
	if (p.Ver == 4 && p.Proto == protoICMP4) || (p.Ver == 6 && p.Proto == protoICMP6) {
		p.ICMPType = rng.Intn(256)
	}
	return p
}

// DriveC19 logs a seeded sample for PacketTrace.tla.
func DriveC19(seed uint64, n int, out io.Writer) {
	o := hx.NewOut(out)
	defer o.Flush()
	rng := hx.NewRNG(seed ^ 0xc19)
	for i := 0; i < n; i++ {
		p := drawPkt(rng)
		got, rgot, mirOK, _, _ := runPair(p, rng)
		o.Emit(map[string]any{"p": p, "got": got, "rgot": rgot, "mir": mirOK})
	}
}

// sweepPorts returns the port values of the sweep: all 65536 (full) or every high byte combined
// with the low bytes that matter to the byte-wise tests of the code (quick).
func sweepPorts(mode string) []uint16 {
	var ps []uint16
	if mode == "full" {
		for i := 0; i < 65536; i++ {
			ps = append(ps, uint16(i))
		}
		return ps
	}
	lows := []int{0, 1, 53, 80, 127, 128, 144, 187, 189, 255}
	for hi := 0; hi < 256; hi++ {
		for _, lo := range lows {
			ps = append(ps, uint16(hi<<8|lo))
		}
	}
	return ps
}

type sweepViol struct {
	Law   string         `json:"law"`
	Ver   int            `json:"ver"`
	Proto string         `json:"proto"`
	Sport int            `json:"sport"`
	Dport int            `json:"dport"`
	Msg   string         `json:"msg"`
	Event map[string]any `json:"event,omitempty"` // the pair as a PacketTrace.tla event (TLC classifies it)
}

// SweepC19 checks, for every port pair, the laws of Packet.tla that relate two real outputs or an
// output to its own input and so need no table:
//
//	mirror          Reverse(key(p)) = key(Reverse(p))             (MirrorHolds)
//	kept-or-zero    a key port is the wire port or 0              (ResultShape/Ports)
//	one-port-kept   at most one of the two ports is dropped       (DestinationPortKept, 3rd conjunct)
//	addr-proto      addresses and protocol are copied             (ResultShape)
func SweepC19(mode string, vers []int, workers int, out io.Writer) {
	o := hx.NewOut(out)
	defer o.Flush()
	ports := sweepPorts(mode)
	type job struct {
		ver, proto int
		lo, hi     int
	}
	var jobs []job
	const chunk = 256
	for _, ver := range vers {
		for _, proto := range []int{protoTCP, protoUDP} {
			for lo := 0; lo < len(ports); lo += chunk {
				hi := lo + chunk
				if hi > len(ports) {
					hi = len(ports)
				}
				jobs = append(jobs, job{ver, proto, lo, hi})
			}
		}
	}
	var mu sync.Mutex
	viol := map[string][]sweepViol{}
	counts := map[string]int{}
	var evals uint64
	add := func(local map[string][]sweepViol, lc map[string]int, v sweepViol) {
		k := fmt.Sprintf("%s/%d/%s", v.Law, v.Ver, v.Proto)
		lc[k]++
		if len(local[k]) < 40 {
			// re-run the pair through the ordinary projection so that TLC can judge it
			rng := hx.NewRNG(uint64(v.Sport)<<16 | uint64(v.Dport))
			p := Pkt{Ver: v.Ver, IHL: 5, Len: 60, Proto: protoTCP, Sip: "A", Dip: "B", Sport: v.Sport, Dport: v.Dport, TCPFlags: 0x10}
			if v.Proto == "udp" {
				p.Proto, p.TCPFlags = protoUDP, 0
			}
			if v.Ver == 6 {
				p.IHL, p.Len = 10, 80
			}
			got, rgot, mirOK, _, _ := runPair(p, rng)
			v.Event = map[string]any{"p": p, "got": got, "rgot": rgot, "mir": mirOK, "src": "sweep:" + v.Law}
			local[k] = append(local[k], v)
		}
	}
	jc := make(chan job)
	var wg sync.WaitGroup
	for w := 0; w < workers; w++ {
		wg.Add(1)
		go func() {
			defer wg.Done()
			local := map[string][]sweepViol{}
			lc := map[string]int{}
			var n uint64
			for j := range jc {
				rng := hx.NewRNG(uint64(j.ver*1000 + j.proto))
				p := Pkt{Ver: j.ver, IHL: 5, Len: 60, Proto: j.proto, Sip: "A", Dip: "B", TCPFlags: 0x10}
				if j.ver == 6 {
					p.IHL, p.Len = 10, 80
				}
				ab := newAddrBook(j.ver, rng)
				f := Build(p, ab.addr, rng)
				r := Build(p.Reverse(), ab.addr, rng)
				off := 4 * p.IHL
				pn := protoName(j.ver, j.proto)
				for _, sp := range ports[j.lo:j.hi] {
					for _, dp := range ports {
						binary.BigEndian.PutUint16(f[off:], sp)
						binary.BigEndian.PutUint16(f[off+2:], dp)
						binary.BigEndian.PutUint16(r[off:], dp)
						binary.BigEndian.PutUint16(r[off+2:], sp)
						var ksp, kdp uint16
						var addrOK, mirOK bool
						if j.ver == 4 {
							h1, _, e1 := gpcapture.ParsePacketV4(slimcap.IPLayer(f))
							h2, _, e2 := gpcapture.ParsePacketV4(slimcap.IPLayer(r))
							if e1 != capturetypes.ErrnoOK || e2 != capturetypes.ErrnoOK {
								add(local, lc, sweepViol{"classified", j.ver, pn, int(sp), int(dp), "complete packet not parsed to a key", nil})
								continue
							}
							mirOK = h1.Reverse() == h2
							ksp, kdp = uint16(h1[4])<<8|uint16(h1[5]), uint16(h1[10])<<8|uint16(h1[11])
							addrOK = h1[12] == byte(j.proto) && h1[0] == f[12] && h1[1] == f[13] && h1[2] == f[14] && h1[3] == f[15] &&
								h1[6] == f[16] && h1[7] == f[17] && h1[8] == f[18] && h1[9] == f[19]
						} else {
							h1, _, e1 := gpcapture.ParsePacketV6(slimcap.IPLayer(f))
							h2, _, e2 := gpcapture.ParsePacketV6(slimcap.IPLayer(r))
							if e1 != capturetypes.ErrnoOK || e2 != capturetypes.ErrnoOK {
								add(local, lc, sweepViol{"classified", j.ver, pn, int(sp), int(dp), "complete packet not parsed to a key", nil})
								continue
							}
							mirOK = h1.Reverse() == h2
							ksp, kdp = uint16(h1[16])<<8|uint16(h1[17]), uint16(h1[34])<<8|uint16(h1[35])
							addrOK = h1[36] == byte(j.proto) && string(h1[0:16]) == string(f[8:24]) && string(h1[18:34]) == string(f[24:40])
						}
						n += 2
						if !mirOK {
							add(local, lc, sweepViol{"mirror", j.ver, pn, int(sp), int(dp), "Reverse(key) is not the key of the reverse packet", nil})
						}
						if (ksp != sp && ksp != 0) || (kdp != dp && kdp != 0) {
							add(local, lc, sweepViol{"kept-or-zero", j.ver, pn, int(sp), int(dp), fmt.Sprintf("key ports %d,%d", ksp, kdp), nil})
						}
						if ksp != sp && kdp != dp {
							add(local, lc, sweepViol{"one-port-kept", j.ver, pn, int(sp), int(dp), fmt.Sprintf("both ports dropped: key ports %d,%d", ksp, kdp), nil})
						}
						if !addrOK {
							add(local, lc, sweepViol{"addr-proto", j.ver, pn, int(sp), int(dp), "addresses / protocol not copied", nil})
						}
					}
				}
			}
			mu.Lock()
			evals += n
			for k, v := range local {
				for _, x := range v {
					if len(viol[k]) < 40 {
						viol[k] = append(viol[k], x)
					}
				}
			}
			for k, c := range lc {
				counts[k] += c
			}
			mu.Unlock()
		}()
	}
	for _, j := range jobs {
		jc <- j
	}
	close(jc)
	wg.Wait()
	keys := make([]string, 0, len(viol))
	for k := range viol {
		keys = append(keys, k)
	}
	sort.Strings(keys)
	for _, k := range keys {
		v := viol[k]
		sort.Slice(v, func(a, b int) bool {
			if v[a].Sport != v[b].Sport {
				return v[a].Sport < v[b].Sport
			}
			return v[a].Dport < v[b].Dport
		})
		o.Emit(map[string]any{"ok": false, "desc": map[string]any{"binding": "sweep", "law": v[0].Law, "ver": v[0].Ver, "proto": v[0].Proto},
			"count": counts[k], "examples": v})
	}
	o.Emit(map[string]any{"summary": true, "ports": len(ports), "pairs": uint64(len(ports)) * uint64(len(ports)),
		"evaluations": evals, "failed_classes": len(keys)})
}

func init() {
	hx.Register("c19-replay", func(args []string) {
		fs := flag.NewFlagSet("c19-replay", flag.ExitOnError)
		seed := fs.Uint64("seed", 1, "seed")
		variants := fs.Int("variants", 1, "concretisations per case")
		fs.Parse(args)
		ReplayC19(*seed, *variants, os.Stdin, os.Stdout)
	})
	hx.Register("c19-drive", func(args []string) {
		fs := flag.NewFlagSet("c19-drive", flag.ExitOnError)
		seed := fs.Uint64("seed", 1, "seed")
		n := fs.Int("n", 20000, "packets")
		fs.Parse(args)
		DriveC19(*seed, *n, os.Stdout)
	})
	hx.Register("c19-sweep", func(args []string) {
		fs := flag.NewFlagSet("c19-sweep", flag.ExitOnError)
		mode := fs.String("mode", "quick", "quick|full")
		v6 := fs.Bool("v6", true, "include IPv6")
		workers := fs.Int("workers", runtime.NumCPU(), "workers")
		fs.Parse(args)
		vers := []int{4}
		if *v6 {
			vers = append(vers, 6)
		}
		SweepC19(*mode, vers, *workers, os.Stdout)
	})
}
