// Package hostmerge binds spec/hostmerge/HostMerge.tla (property C15) to the distributed query runner
// cmd/global-query/pkg/distributed.QueryRunner.
//
// hm-replay (F): TLC enumerates every choice of host results from a pool, every arrival order, with and
// without streaming (HostMergeGen.tla).  The harness builds the real per-host results.Result values from
// the pool (each passed through JSON like a reply of a host's API; failed hosts as the API client querier
// reports them), implements distributed.Querier by putting them on the result channel in exactly the
// order of the behaviour, runs QueryRunner.Run or QueryRunner.RunStreaming (recording sender) and
// compares
//   - after every arrival in streaming mode: the partial result handed to the sender,
//   - at the end: the returned Result
//
// with the specification's order-free Merged(...): rows as a multiset, totals, statistics, hits, host
// statuses, status class, interfaces, covered time range.  Optionally every case is also run with the
// results delivered by concurrent goroutines after seeded random delays (random interleavings).
package hostmerge

import (
	"context"
	"encoding/json"
	"errors"
	"flag"
	"fmt"
	"io"
	"log/slog"
	"net/netip"
	"os"
	"sort"
	"strings"
	"sync"
	"time"

	"verifharness/internal/hx"

	"github.com/danielgtaylor/huma/v2/sse"
	gqdist "github.com/els0r/goProbe/v4/cmd/global-query/pkg/distributed"
	"github.com/els0r/goProbe/v4/pkg/api"
	"github.com/els0r/goProbe/v4/pkg/distributed/hosts"
	"github.com/els0r/goProbe/v4/pkg/query"
	"github.com/els0r/goProbe/v4/pkg/results"
	"github.com/els0r/goProbe/v4/pkg/types"
	"github.com/els0r/goProbe/v4/pkg/types/workload"
	"github.com/els0r/telemetry/logging"
	jsoniter "github.com/json-iterator/go"
)

// ---------------------------------------------------------------- model values

type keyT struct {
	Ts    int64  `json:"ts"`
	Iface string `json:"iface"`
	Host  string `json:"host"`
	Hid   string `json:"hid"`
	Sip   int    `json:"sip"`
}

type rowT struct {
	K    keyT     `json:"k"`
	Zone string   `json:"zone,omitempty"`
	C    [4]int64 `json:"c"`
}

type hostT struct {
	Name   string   `json:"name"`
	Err    string   `json:"err"`
	Status string   `json:"status"`
	Rows   []rowT   `json:"rows"`
	Tot    [4]int64 `json:"tot"`
	Stats  [6]int64 `json:"stats"`
	Hits   int      `json:"hits"`
	Ifaces []string `json:"ifaces"`
	First  int64    `json:"first"`
	Last   int64    `json:"last"`
}

type hsT struct {
	Host string `json:"host"`
	Code string `json:"code"`
	Msg  string `json:"msg"`
}

// obsT is the observable result (Project / Merged of the specification).
type obsT struct {
	Rows   []rowT   `json:"rows"`
	Tot    [4]int64 `json:"tot"`
	Stats  [6]int64 `json:"stats"`
	Hits   int      `json:"hits"`
	Hs     []hsT    `json:"hs"`
	Ifaces []string `json:"ifaces"`
	First  int64    `json:"first"`
	Last   int64    `json:"last"`
	Status string   `json:"status"`
}

type actT struct {
	Name string `json:"name"`
	H    int    `json:"h"`
}

type stepT struct {
	Act actT `json:"act"`
	Exp obsT `json:"exp"`
}

type behT struct {
	Stream bool    `json:"stream"`
	Steps  []stepT `json:"steps"`
}

// ---------------------------------------------------------------- concretisation and projection

const (
	rowBase   = int64(1700000100) // ts = 1 is rowBase + 300, one 5 minute block per ts
	rangeBase = int64(1700000000) // first / last: rangeBase + 60 * value; 0 = the zero time
)

func rowTime(ts int64, zone string) time.Time {
	if ts == 0 {
		return time.Time{}
	}
	t := time.Unix(rowBase+300*ts, 0)
	switch zone {
	case "+02":
		return t.In(time.FixedZone("", 2*3600))
	default:
		return t.UTC()
	}
}

func absRowTime(t time.Time) int64 {
	if t.IsZero() {
		return 0
	}
	return (t.Unix() - rowBase) / 300
}

func rangeTime(v int64) time.Time {
	if v == 0 {
		return time.Time{}
	}
	return time.Unix(rangeBase+60*v, 0)
}

func absRangeTime(t time.Time) int64 {
	if t.IsZero() {
		return 0
	}
	return (t.Unix() - rangeBase) / 60
}

func sipAddr(n int) netip.Addr { return netip.AddrFrom4([4]byte{10, 0, 0, byte(n)}) }

// scale > 1 replicates every row of every host result `scale` times under distinct source addresses
// 10.i.0.n (i < scale) and multiplies totals and hits accordingly. Merging is key-wise, so the expected
// merged result is the TLC expectation replicated the same way: project() checks that all replicas are
// identical and complete, and hands replica 0 (with totals / hits divided by scale) to the comparison.
// This is how results of more than 100 rows (the cap of streaming partial results) are reached.
var scale = 1

func sipAddrScaled(n, i int) netip.Addr { return netip.AddrFrom4([4]byte{10, byte(i), 0, byte(n)}) }

func counters(c [4]int64) types.Counters {
	return types.Counters{BytesRcvd: uint64(c[0]), BytesSent: uint64(c[1]), PacketsRcvd: uint64(c[2]), PacketsSent: uint64(c[3])}
}

func absCounters(c types.Counters) [4]int64 {
	return [4]int64{int64(c.BytesRcvd), int64(c.BytesSent), int64(c.PacketsRcvd), int64(c.PacketsSent)}
}

var queryEcho = results.Query{Attributes: []string{"sip"}, Condition: ""}

// hostResult builds what the querier delivers for one host.
func hostResult(h hostT) (*results.Result, error) {
	if h.Err != "" {
		// plugins/querier/apiclient: qr = results.New(); qr.SetErr(err); qr.Hostname = wl.Host
		r := results.New()
		r.SetErr(errors.New(h.Err))
		r.Hostname = h.Name
		return r, nil
	}
	r := results.New()
	r.Start()
	r.Hostname = h.Name
	code := types.StatusOK
	if h.Status == "empty" {
		code = types.StatusEmpty
	}
	r.Status = results.Status{Code: code}
	r.HostsStatuses[h.Name] = results.Status{Code: code}
	for i := 0; i < scale; i++ {
		for _, m := range h.Rows {
			r.Rows = append(r.Rows, results.Row{
				Labels:     results.Labels{Timestamp: rowTime(m.K.Ts, m.Zone), Iface: m.K.Iface, Hostname: m.K.Host, HostID: m.K.Hid},
				Attributes: results.Attributes{SrcIP: sipAddrScaled(m.K.Sip, i)},
				Counters:   counters(m.C),
			})
		}
	}
	r.Query = queryEcho
	r.Summary.Interfaces = append(results.Interfaces{}, h.Ifaces...)
	r.Summary.First, r.Summary.Last = rangeTime(h.First), rangeTime(h.Last)
	r.Summary.Totals = counters([4]int64{h.Tot[0] * int64(scale), h.Tot[1] * int64(scale), h.Tot[2] * int64(scale), h.Tot[3] * int64(scale)})
	r.Summary.Stats = &workload.Stats{BytesLoaded: uint64(h.Stats[0]), BytesDecompressed: uint64(h.Stats[1]),
		BlocksProcessed: uint64(h.Stats[2]), BlocksCorrupted: uint64(h.Stats[3]),
		DirectoriesProcessed: uint64(h.Stats[4]), Workloads: uint64(h.Stats[5])}
	r.Summary.Hits.Total = h.Hits * scale
	r.Summary.Hits.Displayed = len(h.Rows) * scale
	r.Summary.DataAvailable = true
	// the reply of a host travels as JSON
	b, err := jsoniter.Marshal(r)
	if err != nil {
		return nil, err
	}
	dec := new(results.Result)
	if err := jsoniter.Unmarshal(b, dec); err != nil {
		return nil, err
	}
	if len(dec.Rows) != len(h.Rows)*scale {
		return nil, fmt.Errorf("JSON transport changed the number of rows of host %s", h.Name)
	}
	dec.Hostname = h.Name
	return dec, nil
}

func statusCode(c types.Status) string {
	switch c {
	case types.StatusOK:
		return "ok"
	case types.StatusEmpty:
		return "empty"
	case types.StatusError:
		return "error"
	case types.StatusMissingData:
		return "missing data"
	}
	return string(c)
}

func rowLess(a, b rowT) bool {
	ka, kb := fmt.Sprint(a.K), fmt.Sprint(b.K)
	if ka != kb {
		return ka < kb
	}
	return fmt.Sprint(a.C) < fmt.Sprint(b.C)
}

func (o *obsT) normalise() {
	if o.Rows == nil {
		o.Rows = []rowT{}
	}
	if o.Hs == nil {
		o.Hs = []hsT{}
	}
	if o.Ifaces == nil {
		o.Ifaces = []string{}
	}
	for i := range o.Rows {
		o.Rows[i].Zone = ""
	}
	sort.Slice(o.Rows, func(a, b int) bool { return rowLess(o.Rows[a], o.Rows[b]) })
	sort.Slice(o.Hs, func(a, b int) bool { return o.Hs[a].Host < o.Hs[b].Host })
	sort.Strings(o.Ifaces)
}

// project maps a real result to the observable of the specification.
func project(r *results.Result) (o obsT, bad string) {
	replicas := make([][]rowT, scale)
	for _, row := range r.Rows {
		a := row.Attributes.SrcIP
		sip, rep := -1, 0
		if a.Is4() {
			b := a.As4()
			if b[0] == 10 && int(b[1]) < scale && b[2] == 0 {
				sip, rep = int(b[3]), int(b[1])
			}
		}
		if sip < 0 {
			bad = "row with an address nobody sent: " + a.String()
		}
		replicas[rep] = append(replicas[rep], rowT{K: keyT{Ts: absRowTime(row.Labels.Timestamp), Iface: row.Labels.Iface, Host: row.Labels.Hostname,
			Hid: row.Labels.HostID, Sip: sip}, C: absCounters(row.Counters)})
	}
	o.Rows = replicas[0]
	for i := 1; i < scale; i++ {
		a, b := append([]rowT{}, replicas[0]...), append([]rowT{}, replicas[i]...)
		sort.Slice(a, func(x, y int) bool { return rowLess(a[x], a[y]) })
		sort.Slice(b, func(x, y int) bool { return rowLess(b[x], b[y]) })
		if !sameRows(a, b) {
			bad = fmt.Sprintf("scaled result incomplete: replica %d has %d rows, replica 0 has %d (result holds %d rows in total)", i, len(b), len(a), len(r.Rows))
			break
		}
	}
	o.Tot = absCounters(r.Summary.Totals)
	if scale > 1 {
		for k := range o.Tot {
			if o.Tot[k]%int64(scale) != 0 && bad == "" {
				bad = "scaled totals are not a multiple of the scale"
			}
			o.Tot[k] /= int64(scale)
		}
	}
	if s := r.Summary.Stats; s != nil {
		o.Stats = [6]int64{int64(s.BytesLoaded), int64(s.BytesDecompressed), int64(s.BlocksProcessed), int64(s.BlocksCorrupted),
			int64(s.DirectoriesProcessed), int64(s.Workloads)}
	}
	o.Hits = r.Summary.Hits.Total
	if scale > 1 {
		if o.Hits%scale != 0 && bad == "" {
			bad = "scaled hit count is not a multiple of the scale"
		}
		o.Hits /= scale
	}
	for h, st := range r.HostsStatuses {
		o.Hs = append(o.Hs, hsT{Host: h, Code: statusCode(st.Code), Msg: st.Message})
	}
	seen := map[string]bool{}
	for _, i := range r.Summary.Interfaces {
		if !seen[i] {
			seen[i] = true
			o.Ifaces = append(o.Ifaces, i)
		}
	}
	o.First, o.Last = absRangeTime(r.Summary.First), absRangeTime(r.Summary.Last)
	switch r.Status.Code {
	case types.StatusOK:
		o.Status = "ok"
	case types.StatusEmpty, types.StatusMissingData:
		o.Status = "norows" // which of the two "no rows" codes applies is not C15's business
	default:
		o.Status = string(r.Status.Code)
	}
	o.normalise()
	return o, bad
}

// ---------------------------------------------------------------- comparison

var statsNames = [6]string{"bytes_loaded", "bytes_decompressed", "blocks_processed", "blocks_corrupted", "directories_processed", "workloads"}

type diff struct {
	Cls    string   `json:"cls"`
	Fields []string `json:"fields,omitempty"`
	Msg    string   `json:"msg"`
}

func sameRows(a, b []rowT) bool {
	if len(a) != len(b) {
		return false
	}
	for i := range a {
		if a[i] != b[i] {
			return false
		}
	}
	return true
}

// mergeByKey adds up rows with the same labels and attributes.
func mergeByKey(rows []rowT) (out []rowT, dups int) {
	idx := map[keyT]int{}
	for _, r := range rows {
		if i, ok := idx[r.K]; ok {
			for j := range r.C {
				out[i].C[j] += r.C[j]
			}
			dups++
			continue
		}
		idx[r.K] = len(out)
		out = append(out, r)
	}
	sort.Slice(out, func(a, b int) bool { return rowLess(out[a], out[b]) })
	return out, dups
}

// compare returns one diff per root-cause class.
func compare(exp, got obsT, stream bool) []diff {
	var ds []diff
	extraHits := 0
	if !sameRows(exp.Rows, got.Rows) {
		merged, dups := mergeByKey(got.Rows)
		timed := false
		for _, r := range got.Rows {
			timed = timed || r.K.Ts != 0
		}
		if dups > 0 && timed && sameRows(exp.Rows, merged) {
			// the rows are all there, but rows with the same labels (equal instants) and attributes were not added up
			extraHits = dups
			ds = append(ds, diff{Cls: "rows-equal-instant-not-merged",
				Msg: fmt.Sprintf("%d row(s) with equal labels and attributes (time labels are the same instant) were not merged: got %v, merged rows %v", dups, got.Rows, exp.Rows)})
		} else {
			ds = append(ds, diff{Cls: "rows", Msg: fmt.Sprintf("rows (multiset) %v, merged rows %v", got.Rows, exp.Rows)})
		}
	}
	if got.Hits != exp.Hits+extraHits {
		ds = append(ds, diff{Cls: "hits", Msg: fmt.Sprintf("hits.total %d, sum of the hosts' hits minus merged rows %d", got.Hits, exp.Hits)})
	}
	if got.Tot != exp.Tot {
		ds = append(ds, diff{Cls: "totals", Msg: fmt.Sprintf("totals %v, sum %v", got.Tot, exp.Tot)})
	}
	if got.Stats != exp.Stats {
		var f []string
		for i := range got.Stats {
			if got.Stats[i] != exp.Stats[i] {
				f = append(f, statsNames[i])
			}
		}
		ds = append(ds, diff{Cls: "stats-not-summed", Fields: f, Msg: fmt.Sprintf("statistics %v, sum of the hosts' statistics %v %v", got.Stats, exp.Stats, statsNames)})
	}
	if fmt.Sprint(got.Hs) != fmt.Sprint(exp.Hs) {
		cls := "host-statuses"
		for _, e := range exp.Hs {
			if e.Code != "error" {
				continue
			}
			found := false
			for _, g := range got.Hs {
				found = found || g == e
			}
			if !found {
				cls = "failed-host-not-reported"
			}
		}
		ds = append(ds, diff{Cls: cls, Msg: fmt.Sprintf("hosts statuses %v, expected %v", got.Hs, exp.Hs)})
	}
	if fmt.Sprint(got.Ifaces) != fmt.Sprint(exp.Ifaces) {
		ds = append(ds, diff{Cls: "interfaces", Msg: fmt.Sprintf("interfaces %v, union %v", got.Ifaces, exp.Ifaces)})
	}
	if got.First != exp.First || got.Last != exp.Last {
		ds = append(ds, diff{Cls: "time-range-not-union", Msg: fmt.Sprintf("covered time range [%d, %d], union of the hosts' ranges [%d, %d]", got.First, got.Last, exp.First, exp.Last)})
	}
	if got.Status != exp.Status {
		cls := "status"
		if stream && exp.Status == "ok" && got.Status == "norows" {
			cls = "stream-status-stale"
		}
		ds = append(ds, diff{Cls: cls, Msg: fmt.Sprintf("status %q, expected %q (rows: %d)", got.Status, exp.Status, len(got.Rows))})
	}
	return ds
}

// ---------------------------------------------------------------- the querier stub

type listResolver struct{}

func (listResolver) Resolve(_ context.Context, q string) (hosts.Hosts, error) {
	return hosts.Hosts(strings.Split(q, ",")), nil
}

// orderedQuerier delivers the prepared results in a fixed order.
type orderedQuerier struct{ results []*results.Result }

func (s *orderedQuerier) Query(_ context.Context, _ hosts.Hosts, _ *query.Args) (<-chan *results.Result, <-chan struct{}) {
	ch := make(chan *results.Result, len(s.results))
	ka := make(chan struct{})
	for _, r := range s.results {
		ch <- r
	}
	close(ch)
	close(ka)
	return ch, ka
}

// racingQuerier delivers every result from its own goroutine after a seeded delay.
type racingQuerier struct {
	results []*results.Result
	delays  []time.Duration
}

func (s *racingQuerier) Query(_ context.Context, _ hosts.Hosts, _ *query.Args) (<-chan *results.Result, <-chan struct{}) {
	ch := make(chan *results.Result)
	ka := make(chan struct{})
	close(ka)
	var wg sync.WaitGroup
	for i, r := range s.results {
		wg.Add(1)
		go func(r *results.Result, d time.Duration) {
			defer wg.Done()
			time.Sleep(d)
			ch <- r
		}(r, s.delays[i])
	}
	go func() { wg.Wait(); close(ch) }()
	return ch, ka
}

type runOut struct {
	final    obsT
	partials []obsT
	bad      string
	seq      []string // identity of the rows of the final result in the order they were returned
	raw      string   // rows (as a sorted list with their counters), totals and hit counts of the final result
}

// curResolution is the time_resolution argument of the queries being executed ("" = none)
var curResolution string

// sortVariant is one way of asking for the rows: sort key, direction, ascending.  The property speaks
// about the merged result whatever was asked for; the order of its rows is part of it.
type sortVariant struct {
	name string
	opts []query.Option
}

var sortVariants = []sortVariant{
	{"default", nil},
	{"bytes-out", []query.Option{query.WithSortBy("bytes"), query.WithDirectionOut()}},
	{"bytes-in-asc", []query.Option{query.WithSortBy("bytes"), query.WithDirectionIn(), query.WithSortAscending()}},
	{"packets-sum", []query.Option{query.WithSortBy("packets"), query.WithDirectionSum()}},
	{"packets-out-asc", []query.Option{query.WithSortBy("packets"), query.WithDirectionOut(), query.WithSortAscending()}},
	{"bytes-default", []query.Option{query.WithSortBy("bytes")}},
	{"packets-in", []query.Option{query.WithSortBy("packets"), query.WithDirectionIn()}},
}

// curVariant is the sort variant of the behaviour being executed (chosen per multiset of host results)
var curVariant sortVariant

func runOnce(resolvers *hosts.ResolverMap, q interface {
	Query(context.Context, hosts.Hosts, *query.Args) (<-chan *results.Result, <-chan struct{})
}, names []string, timed, stream bool) (out runOut, err error, panicked string) {
	qt := "iface,sip"
	if timed {
		qt = "time,iface,sip"
	}
	opts := append([]query.Option{query.WithFormat("json"), query.WithFirst(fmt.Sprint(rangeBase - 3600)), query.WithLast(fmt.Sprint(rangeBase + 86400)),
		query.WithNumResults(1000), query.WithQueryHosts(strings.Join(names, ","))}, curVariant.opts...)
	args := query.NewArgs(qt, "any", opts...)
	args.TimeResolution = curResolution
	runner := gqdist.NewQueryRunner(resolvers, q)
	var res *results.Result
	panicked = hx.Catch(func() {
		if !stream {
			res, err = runner.Run(context.Background(), args)
			return
		}
		send := sse.Sender(func(m sse.Message) error {
			if p, ok := m.Data.(*api.PartialResult); ok && p != nil && p.Result != nil {
				o, bad := project(p.Result) // the sender sees the running result: snapshot it now
				out.partials = append(out.partials, o)
				if bad != "" && scale == 1 { // partial results are capped at 100 rows by design: a scaled partial may be incomplete
					out.bad = bad
				}
			}
			return nil
		})
		res, err = runner.RunStreaming(context.Background(), args, send)
	})
	if panicked != "" || err != nil {
		return
	}
	if res == nil {
		err = errors.New("nil result")
		return
	}
	var bad string
	var rawRows []string
	for _, row := range res.Rows {
		rawRows = append(rawRows, fmt.Sprintf("%d|%s|%s|%s|%s=%v", row.Labels.Timestamp.Unix(), row.Labels.Iface, row.Labels.Hostname, row.Labels.HostID, row.Attributes.SrcIP, row.Counters))
	}
	sort.Strings(rawRows)
	out.raw = fmt.Sprintf("rows=%v totals=%v hits=%d/%d", rawRows, res.Summary.Totals, res.Summary.Hits.Total, res.Summary.Hits.Displayed)
	for _, row := range res.Rows {
		out.seq = append(out.seq, fmt.Sprintf("%d|%s|%s|%s|%s", row.Labels.Timestamp.Unix(), row.Labels.Iface, row.Labels.Hostname, row.Labels.HostID, row.Attributes.SrcIP))
	}
	out.final, bad = project(res)
	if bad != "" {
		out.bad = bad
	}
	return
}

// ---------------------------------------------------------------- replay

type poolT struct {
	Pool []hostT `json:"pool"`
}

// Replay executes TLC behaviours: first line = the pool, then one behaviour per line.
func Replay(seed uint64, racing int, in io.Reader, out io.Writer) {
	o := hx.NewOut(out)
	defer o.Flush()
	if _, err := logging.Init(slog.LevelError+8, logging.EncodingPlain, logging.WithOutput(io.Discard), logging.WithErrorOutput(io.Discard)); err != nil {
		hx.Die("logging: %v", err)
	}
	resolvers := hosts.NewResolverMap()
	resolvers.Set("string", listResolver{})
	rng := hx.NewRNG(seed)
	var pool []hostT
	timed := false
	n, runs, cmps, bad, races := 0, 0, 0, 0, 0
	// the rows of the final result, in the order returned, of the first behaviour seen per multiset of host
	// results (and streaming flag): every other arrival order of the same multiset must return the same sequence
	firstSeq := map[string][]string{}
	firstOrder := map[string][]int{}
	orderCmps, binCmps, variantsUsed := 0, 0, map[string]int{}
	err := hx.Lines(in, func(line []byte) error {
		if pool == nil {
			var p poolT
			if err := json.Unmarshal(line, &p); err != nil || len(p.Pool) == 0 {
				return fmt.Errorf("first line must be the pool: %v", err)
			}
			pool = p.Pool
			for _, h := range pool {
				for _, r := range h.Rows {
					timed = timed || r.K.Ts != 0
				}
			}
			return nil
		}
		var b behT
		if err := json.Unmarshal(line, &b); err != nil {
			return fmt.Errorf("behaviour %d: %v", n, err)
		}
		id := n
		n++
		var order []int
		var exps []obsT // expected observation after each arrival
		var final *obsT
		for i := range b.Steps {
			b.Steps[i].Exp.normalise()
			switch b.Steps[i].Act.Name {
			case "Arrive":
				h := b.Steps[i].Act.H
				if h < 1 || h > len(pool) {
					return fmt.Errorf("behaviour %d: host %d not in the pool", id, h)
				}
				order = append(order, h)
				exps = append(exps, b.Steps[i].Exp)
			case "Finish":
				final = &b.Steps[i].Exp
			}
		}
		if final == nil || len(order) == 0 {
			return fmt.Errorf("behaviour %d is incomplete", id)
		}
		build := func() ([]*results.Result, []string, error) {
			var rs []*results.Result
			var names []string
			for _, h := range order {
				r, err := hostResult(pool[h-1])
				if err != nil {
					return nil, nil, err
				}
				rs = append(rs, r)
				names = append(names, pool[h-1].Name)
			}
			return rs, names, nil
		}
		emit := func(step int, mode string, ds []diff, extra string) {
			bad++
			classes := []string{}
			for _, d := range ds {
				classes = append(classes, d.Cls)
			}
			o.Emit(map[string]any{"id": id, "ok": false, "step": step, "mode": mode, "stream": b.Stream, "diffs": ds, "classes": classes,
				"msg": extra, "order": order, "behaviour": json.RawMessage(line)})
		}
		rs, names, err := build()
		if err != nil {
			return err
		}
		sortedOrder := append([]int{}, order...)
		sort.Ints(sortedOrder)
		gkey := fmt.Sprint(sortedOrder, b.Stream)
		gh := 0
		for _, c := range gkey {
			gh = (gh*31 + int(c)) % 1000003
		}
		curVariant = sortVariants[(gh+int(seed))%len(sortVariants)]
		variantsUsed[curVariant.name]++
		res, rerr, p := runOnce(resolvers, &orderedQuerier{results: rs}, names, timed, b.Stream)
		runs++
		if p == "" && rerr == nil && res.bad == "" {
			// the order of the returned rows under every sort variant: the same for every arrival order
			for _, v := range sortVariants {
				seq := res.seq
				if v.name != curVariant.name {
					saved := curVariant
					curVariant = v
					rsV, namesV, errV := build()
					if errV != nil {
						return errV
					}
					resV, rerrV, pV := runOnce(resolvers, &orderedQuerier{results: rsV}, namesV, timed, false)
					curVariant = saved
					runs++
					if pV != "" || rerrV != nil || resV.bad != "" {
						continue
					}
					seq = resV.seq
				}
				vkey := gkey + "|" + v.name
				prev, ok := firstSeq[vkey]
				if !ok {
					firstSeq[vkey], firstOrder[vkey] = seq, append([]int{}, order...)
					continue
				}
				orderCmps++
				same := len(prev) == len(seq)
				for i := 0; same && i < len(prev); i++ {
					same = prev[i] == seq[i]
				}
				if !same {
					emit(len(order), "row-order", []diff{{Cls: "row-order-depends-on-arrival", Msg: fmt.Sprintf("sort variant %s: arrival order %v returned the rows as %v, arrival order %v as %v",
						v.name, firstOrder[vkey], prev, order, seq)}}, "the same host results in another arrival order")
					break
				}
			}
		}
		if timed && p == "" && rerr == nil && res.bad == "" && id%2 == 0 {
			// the same query with results binned to one hour: the streaming run must end with the result of
			// the run without streaming (rows, totals, hit counts)
			saved := curVariant
			curVariant, curResolution = sortVariants[0], "1h"
			var raws [2]string
			okBoth := true
			for k, streaming := range []bool{false, true} {
				rsB, namesB, errB := build()
				if errB != nil {
					curVariant, curResolution = saved, ""
					return errB
				}
				resB, rerrB, pB := runOnce(resolvers, &orderedQuerier{results: rsB}, namesB, timed, streaming)
				runs++
				if pB != "" || rerrB != nil {
					okBoth = false
					break
				}
				raws[k] = resB.raw
			}
			curVariant, curResolution = saved, ""
			if okBoth {
				binCmps++
				if raws[0] != raws[1] {
					emit(len(order), "binned", []diff{{Cls: "streaming-differs-from-plain-when-binned", Msg: fmt.Sprintf("time_resolution 1h: without streaming %s, streaming %s", raws[0], raws[1])}},
						"the same query with and without streaming")
				}
			}
		}
		switch {
		case p != "":
			emit(len(order), "ordered", []diff{{Cls: "panic", Msg: p}}, "the query runner panicked")
		case rerr != nil:
			emit(len(order), "ordered", []diff{{Cls: "run-error", Msg: rerr.Error()}}, "the query runner returned an error")
		case res.bad != "":
			emit(len(order), "ordered", []diff{{Cls: "rows", Msg: res.bad}}, "foreign row")
		default:
			// every arrival that produced a partial result (failed hosts produce none)
			if b.Stream {
				pi := 0
				for i, h := range order {
					if pool[h-1].Err != "" {
						continue
					}
					if pi >= len(res.partials) {
						emit(i, "partial", []diff{{Cls: "partial-missing", Msg: "no partial result was sent after this arrival"}}, "")
						break
					}
					cmps++
					if ds := compare(exps[i], res.partials[pi], true); len(ds) > 0 {
						emit(i, "partial", ds, fmt.Sprintf("partial result after arrival %d (host %s)", i+1, pool[h-1].Name))
						break
					}
					pi++
				}
			}
			cmps++
			if ds := compare(*final, res.final, b.Stream); len(ds) > 0 {
				emit(len(order), "final", ds, "returned result")
			}
		}
		// the same behaviour with every row replicated 40 times (results beyond the 100-row cap of partial results)
		if id%4 == 0 {
			scale = 40
			rsS, namesS, errS := build()
			if errS != nil {
				scale = 1
				return errS
			}
			resS, rerrS, pS := runOnce(resolvers, &orderedQuerier{results: rsS}, namesS, timed, b.Stream)
			runs++
			switch {
			case pS != "":
				emit(len(order), "scaled", []diff{{Cls: "panic", Msg: pS}}, "the query runner panicked")
			case rerrS != nil:
				emit(len(order), "scaled", []diff{{Cls: "run-error", Msg: rerrS.Error()}}, "the query runner returned an error")
			case resS.bad != "":
				emit(len(order), "scaled", []diff{{Cls: "rows-large-result", Msg: resS.bad}}, "result with every row replicated 40 times")
			default:
				cmps++
				if ds := compare(*final, resS.final, b.Stream); len(ds) > 0 {
					emit(len(order), "scaled", ds, "returned result (rows replicated 40 times)")
				}
			}
			scale = 1
		}
		// random interleavings: the same results from concurrent goroutines
		for k := 0; k < racing; k++ {
			rs, names, err := build()
			if err != nil {
				return err
			}
			rq := &racingQuerier{results: rs}
			for range rs {
				rq.delays = append(rq.delays, time.Duration(rng.Intn(300))*time.Microsecond)
			}
			res, rerr, p := runOnce(resolvers, rq, names, timed, b.Stream)
			races++
			switch {
			case p != "":
				emit(len(order), "racing", []diff{{Cls: "panic", Msg: p}}, "the query runner panicked")
			case rerr != nil:
				emit(len(order), "racing", []diff{{Cls: "run-error", Msg: rerr.Error()}}, "the query runner returned an error")
			default:
				cmps++
				if ds := compare(*final, res.final, b.Stream); len(ds) > 0 {
					emit(len(order), "racing", ds, "returned result (results delivered concurrently)")
				}
			}
		}
		return nil
	})
	if err != nil {
		hx.Die("hm-replay: %v", err)
	}
	o.Emit(map[string]any{"summary": true, "behaviours": n, "runs": runs, "racing_runs": races, "compares": cmps, "failed": bad,
		"row_order_compares": orderCmps, "binned_stream_vs_plain_compares": binCmps, "sort_variants": variantsUsed})
}

func init() {
	hx.Register("hm-replay", func(args []string) {
		fs := flag.NewFlagSet("hm-replay", flag.ExitOnError)
		seed := fs.Uint64("seed", 1, "seed of the random interleavings")
		racing := fs.Int("racing", 0, "additional runs per behaviour with concurrently delivered results")
		fs.Parse(args)
		Replay(*seed, *racing, os.Stdin, os.Stdout)
	})
}
