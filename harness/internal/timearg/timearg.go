// Package timearg binds spec/timearg/TimeArg.tla to pkg/query/time.go (property C28).
//
// Replay (F): TLC-generated steps for the relative grammar (ParseRelative / ParseMalformed) and the
// range rule (ParseRange) are executed on ParseTimeArgument / ParseTimeRange /
// ParseTimeRangeCollectErrors; `now` is bracketed by two clock reads.
//
// Drive (B): instants between 1970 and 2068 are formatted under every layout of the documented list
// (read from the specification, not from the code), the real ParseTimeArgument is called and one
// event per call is logged together with the trusted base relation "layout L' accepts the text as
// instant u" (time.ParseInLocation in the process' local zone); TimeArgTrace.tla judges every event.
// The local zone is the process' TZ (one child process per zone).
package timearg

import (
	"encoding/json"
	"flag"
	"fmt"
	"io"
	"os"
	"sort"
	"strconv"
	"strings"
	"time"

	"verifharness/internal/hx"

	"github.com/els0r/goProbe/v4/pkg/query"
)

func init() {
	hx.Register("timearg-replay", func(args []string) { Replay(os.Stdin, os.Stdout) })
	hx.Register("timearg-drive", func(args []string) {
		fs := flag.NewFlagSet("timearg-drive", flag.ExitOnError)
		seed := fs.Uint64("seed", 1, "seed")
		n := fs.Int("n", 60, "random instants")
		dm := fs.Int("daymonth", 20, "day/month <= 12 instants (max 144)")
		offs := fs.Int("offs", 2, "zone offsets per (instant, layout) for layouts carrying an offset (max 6)")
		layouts := fs.String("layouts", "", "JSON file with the documented layout list printed by TLC")
		years := fs.String("dstyears", "1996,2021,2037", "years whose zone transitions are visited")
		fs.Parse(args)
		var ys []int
		for _, y := range strings.Split(*years, ",") {
			v, err := strconv.Atoi(y)
			if err != nil {
				hx.Die("timearg-drive: bad -dstyears")
			}
			ys = append(ys, v)
		}
		Drive(*seed, *n, *dm, *offs, ys, *layouts, os.Stdout)
	})
}

// ---------------------------------------------------------------- F

type relSpec struct {
	D, H, M int
	Colon   bool `json:"colon"`
	Pad     bool `json:"pad"`
}

type act struct {
	Name  string  `json:"name"`
	Text  string  `json:"text"`
	R     relSpec `json:"r"`
	Fn    string  `json:"fn"`
	First string  `json:"first"`
	Last  string  `json:"last"`
}

type exp struct {
	Kind    string `json:"kind"`
	Delta   int64  `json:"delta"`
	Verdict string `json:"verdict"`
	First   string `json:"first"`
	Last    string `json:"last"`
}

type step struct {
	Act act `json:"act"`
	Exp exp `json:"exp"`
}

const none = 1000000

func units(r relSpec) string {
	s := ""
	if r.D != none {
		s += "d"
	}
	if r.H != none {
		s += "h"
	}
	if r.M != none {
		s += "m"
	}
	return s
}

// Replay executes TLC steps (one JSON array [ {act, exp} ] per line).
func Replay(in io.Reader, out io.Writer) {
	o := hx.NewOut(out)
	defer o.Flush()
	n, bad, steps := 0, 0, 0
	per := map[string]int{}
	err := hx.Lines(in, func(line []byte) error {
		var beh []step
		if err := json.Unmarshal(line, &beh); err != nil {
			return fmt.Errorf("behaviour %d: %v", n, err)
		}
		for i, st := range beh {
			a, e := st.Act, st.Exp
			cls, msg := "", ""
			desc := map[string]any{"binding": "F", "op": a.Name}
			steps++
			per[a.Name]++
			switch a.Name {
			case "ParseRelative", "ParseMalformed":
				var got int64
				var perr error
				var now0, now1 int64
				p := hx.Catch(func() {
					now0 = time.Now().Unix()
					got, perr = query.ParseTimeArgument(a.Text)
					now1 = time.Now().Unix()
				})
				if a.Name == "ParseRelative" {
					desc["units"], desc["colon"], desc["pad"] = units(a.R), a.R.Colon, a.R.Pad
				}
				switch {
				case p != "":
					cls, msg = "panic", p
				case a.Name == "ParseMalformed":
					// outside the documented grammar: only "does not crash" is observed
				case perr != nil:
					cls, msg = "rejected", fmt.Sprintf("%q rejected: %v", a.Text, perr)
				case got < now0-e.Delta || got > now1-e.Delta:
					cls = "wrong-instant"
					msg = fmt.Sprintf("%q = now-%d, specification says now-%d (now in [%d,%d], got %d)", a.Text, now0-got, e.Delta, now0, now1, got)
				}
			case "ParseRange":
				desc["fn"], desc["verdict"] = a.Fn, e.Verdict
				var first, last int64
				var rejected bool
				var why string
				p := hx.Catch(func() {
					switch a.Fn {
					case "ParseTimeRange":
						var err error
						first, last, err = query.ParseTimeRange(a.First, a.Last)
						rejected = err != nil
						why = fmt.Sprint(err)
					case "ParseTimeRangeCollectErrors":
						f, l, details := query.ParseTimeRangeCollectErrors(a.First, a.Last)
						first, last = f, l
						rejected = len(details) > 0
						for _, d := range details {
							why += d.Message + "; "
						}
					default:
						hx.Die("timearg: unknown range function %s", a.Fn)
					}
				})
				switch {
				case p != "":
					cls, msg = "panic", p
				case e.Verdict == "reject" && !rejected:
					cls, msg = "range-accepted", fmt.Sprintf("range [%q, %q] starts after its end but was accepted as [%d, %d]", a.First, a.Last, first, last)
				case e.Verdict == "accept" && rejected:
					cls, msg = "range-rejected", fmt.Sprintf("range [%q, %q] is in order but was rejected: %s", a.First, a.Last, why)
				case e.Verdict == "accept":
					if e.First != "" && strconv.FormatInt(first, 10) != e.First {
						cls, msg = "wrong-instant", fmt.Sprintf("first %q parsed as %d, specification says %s", a.First, first, e.First)
					} else if e.Last != "" && strconv.FormatInt(last, 10) != e.Last {
						cls, msg = "wrong-instant", fmt.Sprintf("last %q parsed as %d, specification says %s", a.Last, last, e.Last)
					}
				}
			default:
				hx.Die("timearg: unknown action %s", a.Name)
			}
			if cls != "" {
				bad++
				desc["cls"] = cls
				o.Emit(map[string]any{"id": n, "ok": false, "step": i, "msg": msg, "desc": desc, "behaviour": json.RawMessage(line)})
				break
			}
		}
		n++
		return nil
	})
	if err != nil {
		hx.Die("timearg replay: %v", err)
	}
	o.Emit(map[string]any{"summary": true, "behaviours": n, "steps": steps, "failed": bad, "per_action": per})
}

// ---------------------------------------------------------------- B

type layout struct {
	Fmt string `json:"fmt"`
	Sec bool   `json:"sec"`
	Off bool   `json:"off"`
}

type accept struct {
	L int    `json:"l"`
	U string `json:"u"`
}

type result struct {
	OK bool   `json:"ok"`
	U  string `json:"u"`
}

type event struct {
	Layout int      `json:"layout"` // 1-based index into the documented list, 0 = epoch digits
	T      string   `json:"t"`
	Text   string   `json:"text"`
	Chars  []string `json:"chars"`
	Acc    []accept `json:"acc"`
	Twin   bool     `json:"twin"`
	Got    result   `json:"got"`
	TZ     string   `json:"tz"`
	Off    string   `json:"off"`
	Why    string   `json:"why"` // how the instant was chosen
	Panic  string   `json:"panic,omitempty"`
}

var fixedOffsets = []int{0, -7 * 3600, 4*3600 + 1800, 10 * 3600, 2 * 3600, -(3*3600 + 1800)}

type inst struct {
	t   int64
	why string
}

// transitions finds the UTC offset changes of the local zone within a year.
func transitions(year int) []int64 {
	var out []int64
	start := time.Date(year, 1, 1, 0, 0, 0, 0, time.UTC).Unix()
	end := time.Date(year+1, 1, 1, 0, 0, 0, 0, time.UTC).Unix()
	off := func(t int64) int { _, o := time.Unix(t, 0).In(time.Local).Zone(); return o }
	prev := off(start)
	for t := start + 3600; t <= end; t += 3600 {
		if o := off(t); o != prev {
			lo, hi := t-3600, t // offset(lo) = prev, offset(hi) = o
			for hi-lo > 1 {
				mid := (lo + hi) / 2
				if off(mid) == prev {
					lo = mid
				} else {
					hi = mid
				}
			}
			out = append(out, hi)
			prev = o
		}
	}
	return out
}

// Drive writes one event per (instant, layout, zone offset).
func Drive(seed uint64, nrand, ndm, noffs int, dstYears []int, layoutsFile string, out io.Writer) {
	raw, err := os.ReadFile(layoutsFile)
	if err != nil {
		hx.Die("timearg drive: %v", err)
	}
	var layouts []layout
	if err := json.Unmarshal(raw, &layouts); err != nil || len(layouts) == 0 {
		hx.Die("timearg drive: bad layout list: %v", err)
	}
	tz := os.Getenv("TZ")
	rng := hx.NewRNG(seed*7919 + uint64(len(tz)))
	o := hx.NewOut(out)
	defer o.Flush()

	lo := time.Date(1970, 1, 2, 0, 0, 0, 0, time.UTC).Unix()
	hi := time.Date(2068, 12, 30, 12, 0, 0, 0, time.UTC).Unix()
	var insts []inst
	add := func(t int64, why string) {
		if t >= lo && t <= hi {
			insts = append(insts, inst{t, why})
		}
	}
	add(lo, "first day of 1970")
	add(lo+59, "first day of 1970")
	add(hi, "end of 2068")
	add(time.Date(2068, 6, 15, 8, 5, 9, 0, time.UTC).Unix(), "year 2068")
	add(time.Date(1999, 12, 31, 23, 59, 59, 0, time.UTC).Unix(), "two-digit year 99")
	add(time.Date(2000, 1, 1, 0, 0, 0, 0, time.UTC).Unix(), "two-digit year 00")
	add(time.Date(2000, 2, 29, 12, 0, 1, 0, time.UTC).Unix(), "leap day")
	add(time.Date(1969+1, 12, 31, 23, 59, 0, 0, time.UTC).Unix(), "end of 1970")
	add(1<<31-1, "2^31-1")
	add(1<<31, "2^31")
	add(time.Date(2038, 1, 19, 3, 14, 8, 0, time.UTC).Unix()+86400*365*20, "after 2038")
	// day <= 12: day/month ambiguity
	var dm []inst
	for d := 1; d <= 12; d++ {
		for m := 1; m <= 12; m++ {
			dm = append(dm, inst{time.Date(2011, time.Month(m), d, 10, 30, 15, 0, time.Local).Unix(), "day<=12"})
		}
	}
	for i := 0; i < ndm && len(dm) > 0; i++ {
		k := rng.Intn(len(dm))
		insts = append(insts, dm[k])
		dm = append(dm[:k], dm[k+1:]...)
	}
	add(time.Date(2011, 5, 13, 10, 30, 15, 0, time.Local).Unix(), "day 13")
	add(time.Date(2011, 12, 31, 23, 59, 59, 0, time.Local).Unix(), "day 31")
	// DST gaps and overlaps of the local zone
	for _, y := range dstYears {
		for _, tr := range transitions(y) {
			for _, d := range []int64{-7200, -3601, -3600, -1800, -1, 0, 1, 1799, 3599, 3600, 7200} {
				add(tr+d, "zone transition")
			}
		}
	}
	for i := 0; i < nrand; i++ {
		add(lo+int64(rng.U64()%uint64(hi-lo)), "random")
	}

	twinDeltas := []int64{900, 1800, 2700, 3600, 5400, 7200, 10800}
	emit := func(e event) {
		e.TZ = tz
		e.Chars = strings.Split(e.Text, "")
		if e.Acc == nil {
			e.Acc = []accept{}
		}
		for j, l := range layouts {
			if u, err := time.ParseInLocation(l.Fmt, e.Text, time.Local); err == nil {
				e.Acc = append(e.Acc, accept{j + 1, strconv.FormatInt(u.Unix(), 10)})
			}
		}
		sort.Slice(e.Acc, func(a, b int) bool { return e.Acc[a].L < e.Acc[b].L })
		var got int64
		var perr error
		p := hx.Catch(func() { got, perr = query.ParseTimeArgument(e.Text) })
		switch {
		case p != "":
			e.Panic = p
			e.Got = result{false, ""}
		case perr != nil:
			e.Got = result{false, ""}
		default:
			e.Got = result{true, strconv.FormatInt(got, 10)}
		}
		o.Emit(e)
	}
	for _, in := range insts {
		for i, l := range layouts {
			t := in.t
			if !l.Sec {
				t -= t % 60
			}
			if l.Off {
				offs := append([]int{}, fixedOffsets...)
				for k := 0; k < noffs && len(offs) > 0; k++ {
					x := rng.Intn(len(offs))
					off := offs[x]
					offs = append(offs[:x], offs[x+1:]...)
					z := time.FixedZone("", off)
					emit(event{Layout: i + 1, T: strconv.FormatInt(t, 10), Text: time.Unix(t, 0).In(z).Format(l.Fmt),
						Off: time.Unix(t, 0).In(z).Format("-0700"), Why: in.why})
				}
			} else {
				text := time.Unix(t, 0).In(time.Local).Format(l.Fmt)
				twin := false
				for _, d := range twinDeltas {
					for _, s := range []int64{-1, 1} {
						if time.Unix(t+s*d, 0).In(time.Local).Format(l.Fmt) == text {
							twin = true
						}
					}
				}
				emit(event{Layout: i + 1, T: strconv.FormatInt(t, 10), Text: text, Twin: twin, Off: "local", Why: in.why})
			}
		}
		// the instant as epoch digits (and once with leading zeros)
		emit(event{Layout: 0, T: strconv.FormatInt(in.t, 10), Text: strconv.FormatInt(in.t, 10), Off: "epoch", Why: in.why})
	}
	emit(event{Layout: 0, T: "1456358400", Text: "0001456358400", Off: "epoch", Why: "leading zeros"})
	emit(event{Layout: 0, T: "0", Text: "0", Off: "epoch", Why: "zero"})
}
