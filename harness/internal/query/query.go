// Package query binds spec/query/Query.tla (property C08) to the goDB query engine.
//
// Replay (F): TLC prints (database, query, expected result) cases; every database is written with
// the real goDB.DBWriter, every query is run through engine.QueryRunner.Run, the returned rows are
// projected to the specification's flat row records and compared as multisets, together with
// Summary.Totals, Summary.Hits.Total and Summary.Interfaces.
//
// Drive (B): a seeded generator builds larger databases and queries, runs them and logs
// {database, query, rows}; QueryTrace.tla evaluates Result(db, q) on every logged event.
//
// The package has no oracle of its own: it only concretises, runs, projects and compares with
// what TLC printed.  Classification of mismatches into descriptor classes is done by checks/c08.py.
package query

import (
	"context"
	"encoding/json"
	"fmt"
	"net/netip"
	"os"
	"path/filepath"
	"sort"
	"strconv"
	"strings"

	"verifharness/internal/cond"
	"verifharness/internal/hx"

	"github.com/els0r/goProbe/v4/pkg/capture/capturetypes"
	"github.com/els0r/goProbe/v4/pkg/goDB"
	"github.com/els0r/goProbe/v4/pkg/goDB/encoder/encoders"
	"github.com/els0r/goProbe/v4/pkg/goDB/engine"
	"github.com/els0r/goProbe/v4/pkg/goDB/storage/gpfile"
	gpquery "github.com/els0r/goProbe/v4/pkg/query"
	"github.com/els0r/goProbe/v4/pkg/results"
	"github.com/els0r/goProbe/v4/pkg/types/hashmap"
)

// Rec is a stored record of Query.tla: flow 5-tuple and the four counters.
type Rec struct {
	F cond.Flow `json:"f"`
	C [4]uint64 `json:"c"`
}

// Block is one block of Query.tla.
type Block struct {
	Iface string `json:"iface"`
	TS    int64  `json:"ts"`
	Recs  []Rec  `json:"recs"`
}

// DB is a database of Query.tla: a sequence of blocks.
type DB []Block

// Query is a query of Query.tla.
type Query struct {
	Ifaces []string   `json:"ifaces"`
	Attrs  []string   `json:"attrs"`
	Time   bool       `json:"time"`
	Iface  bool       `json:"iface"`
	Cond   *cond.Tree `json:"cond"`
	First  int64      `json:"first"`
	Last   int64      `json:"last"`
	Dir    string     `json:"dir"`
}

// Row is a flat result row of Query.tla (FlatRow).
type Row struct {
	Iface string `json:"iface"`
	TS    int64  `json:"ts"`
	SIP   []int  `json:"sip"`
	DIP   []int  `json:"dip"`
	Dport int    `json:"dport"`
	Proto int    `json:"proto"`
	BR    uint64 `json:"br"`
	BS    uint64 `json:"bs"`
	PR    uint64 `json:"pr"`
	PS    uint64 `json:"ps"`
}

// Res is the observable result of a query.
type Res struct {
	Rows   []Row     `json:"rows"`
	Totals [4]uint64 `json:"totals"`
	Hits   int       `json:"hits"`
	Ifaces []string  `json:"ifaces"`
}

// Key renders a row canonically (multiset comparison).
func (r Row) Key() string {
	return fmt.Sprintf("%s|%d|%v|%v|%d|%d|%d|%d|%d|%d", r.Iface, r.TS, r.SIP, r.DIP, r.Dport, r.Proto, r.BR, r.BS, r.PR, r.PS)
}

// SortedKeys returns the canonical forms of the rows, sorted.
func SortedKeys(rows []Row) []string {
	k := make([]string, len(rows))
	for i, r := range rows {
		k[i] = r.Key()
	}
	sort.Strings(k)
	return k
}

// SameRows compares two row lists as multisets.
func SameRows(a, b []Row) bool {
	if len(a) != len(b) {
		return false
	}
	ka, kb := SortedKeys(a), SortedKeys(b)
	for i := range ka {
		if ka[i] != kb[i] {
			return false
		}
	}
	return true
}

func has(l []string, s string) bool {
	for _, x := range l {
		if x == s {
			return true
		}
	}
	return false
}

// WriteDB writes the database with the real DBWriter: one Write per block, blocks of an interface
// in time order (the writer appends).  Counters and keys go through the public hashmap API.
func WriteDB(dir string, db DB) error {
	blocks := append(DB(nil), db...)
	sort.SliceStable(blocks, func(i, j int) bool {
		if blocks[i].Iface != blocks[j].Iface {
			return blocks[i].Iface < blocks[j].Iface
		}
		return blocks[i].TS < blocks[j].TS
	})
	if err := os.MkdirAll(dir, 0o755); err != nil {
		return err
	}
	for _, b := range blocks {
		m := hashmap.NewAggFlowMap()
		for _, r := range b.Recs {
			hashmap.AggFlowMap(*m).SetOrUpdate(r.F.Key(), r.F.Fam == 4, r.C[0], r.C[1], r.C[2], r.C[3])
		}
		w := goDB.NewDBWriter(dir, b.Iface, encoders.EncoderTypeLZ4)
		if err := w.Write(m, capturetypes.CaptureStats{}, b.TS); err != nil {
			return fmt.Errorf("write %s@%d: %w", b.Iface, b.TS, err)
		}
	}
	return nil
}

// WriteDays writes n consecutive day directories of one interface, each with one block holding
// the given records, using one bulk writer call per day (fast path for databases with thousands
// of days).  Block i has timestamp day0 + i*86400 + off.
func WriteDays(dir, iface string, day0 int64, n int, off int64, recs []Rec) error {
	if err := os.MkdirAll(dir, 0o755); err != nil {
		return err
	}
	for i := 0; i < n; i++ {
		m := hashmap.NewAggFlowMap()
		for _, r := range recs {
			hashmap.AggFlowMap(*m).SetOrUpdate(r.F.Key(), r.F.Fam == 4, r.C[0], r.C[1], r.C[2], r.C[3])
		}
		ts := day0 + int64(i)*gpfile.EpochDay + off
		w := goDB.NewDBWriter(dir, iface, encoders.EncoderTypeLZ4)
		if err := w.Write(m, capturetypes.CaptureStats{}, ts); err != nil {
			return fmt.Errorf("write %s@%d: %w", iface, ts, err)
		}
	}
	return nil
}

// QueryType renders the attribute / label selection ("sip,dport,time").
func (q Query) QueryType() string {
	var p []string
	for _, a := range []string{"sip", "dip", "dport", "proto"} {
		if has(q.Attrs, a) {
			p = append(p, a)
		}
	}
	if q.Time {
		p = append(p, "time")
	}
	if q.Iface {
		p = append(p, "iface")
	}
	return strings.Join(p, ",")
}

// Condition renders the condition text including the direction filter; variant selects on which
// side of the top-level conjunction the direction filter is placed.
func (q Query) Condition(variant int) string {
	text := ""
	if q.Cond != nil && q.Cond.K != "true" {
		text = cond.Render(q.Cond)
	}
	if q.Dir == "" || q.Dir == "none" {
		return text
	}
	d := "dir = " + q.Dir
	if text == "" {
		return d
	}
	if variant%2 == 0 {
		return text + " & " + d
	}
	return d + " & " + text
}

// Args builds the real query arguments.
func (q Query) Args(variant int, lowMem bool) *gpquery.Args {
	ifs := append([]string(nil), q.Ifaces...)
	sort.Strings(ifs)
	if variant%3 == 2 { // the order of the interface list is irrelevant
		for i, j := 0, len(ifs)-1; i < j; i, j = i+1, j-1 {
			ifs[i], ifs[j] = ifs[j], ifs[i]
		}
	}
	return &gpquery.Args{
		Query:      q.QueryType(),
		Ifaces:     strings.Join(ifs, ","),
		Condition:  q.Condition(variant),
		First:      strconv.FormatInt(q.First, 10),
		Last:       strconv.FormatInt(q.Last, 10),
		Format:     "json",
		NumResults: 1 << 40,
		MaxMemPct:  90,
		LowMem:     lowMem,
	}
}

func addrInts(a netip.Addr) []int {
	if !a.IsValid() {
		return []int{}
	}
	b := a.AsSlice()
	out := make([]int, len(b))
	for i, x := range b {
		out[i] = int(x)
	}
	return out
}

// Project maps the engine's result to the specification's observable.  Fields the query did not
// ask for are not looked at (the specification is silent about them).
func Project(q Query, res *results.Result) Res {
	out := Res{Rows: make([]Row, 0, len(res.Rows)), Ifaces: append([]string{}, res.Summary.Interfaces...)}
	for _, r := range res.Rows {
		row := Row{Iface: "-", SIP: []int{}, DIP: []int{}, Dport: -1, Proto: -1,
			BR: r.Counters.BytesRcvd, BS: r.Counters.BytesSent, PR: r.Counters.PacketsRcvd, PS: r.Counters.PacketsSent}
		if q.Iface || len(q.Ifaces) > 1 {
			row.Iface = r.Labels.Iface
		}
		if q.Time {
			row.TS = r.Labels.Timestamp.Unix()
		}
		if has(q.Attrs, "sip") {
			row.SIP = addrInts(r.Attributes.SrcIP)
		}
		if has(q.Attrs, "dip") {
			row.DIP = addrInts(r.Attributes.DstIP)
		}
		if has(q.Attrs, "dport") {
			row.Dport = int(r.Attributes.DstPort)
		}
		if has(q.Attrs, "proto") {
			row.Proto = int(r.Attributes.IPProto)
		}
		out.Rows = append(out.Rows, row)
	}
	t := res.Summary.Totals
	out.Totals = [4]uint64{t.BytesRcvd, t.BytesSent, t.PacketsRcvd, t.PacketsSent}
	out.Hits = res.Summary.Hits.Total
	return out
}

// Run runs the query on the database at dir through the real engine.  err covers returned errors
// and panics.
func Run(dir string, q Query, variant int, lowMem bool) (out Res, err string) {
	p := hx.Catch(func() {
		res, e := engine.NewQueryRunner(dir).Run(context.Background(), q.Args(variant, lowMem))
		if e != nil {
			err = "error: " + e.Error()
			return
		}
		if res == nil {
			err = "error: nil result"
			return
		}
		out = Project(q, res)
	})
	if p != "" {
		if len(p) > 1500 {
			p = p[:1500]
		}
		return out, p
	}
	return out, err
}

// Diff compares got with the expected observable; kind "" = equal.
func Diff(exp, got Res) (kind, msg string) {
	if !SameRows(exp.Rows, got.Rows) {
		ek, gk := SortedKeys(exp.Rows), SortedKeys(got.Rows)
		em := map[string]int{}
		for _, k := range ek {
			em[k]++
		}
		var extra, missing []string
		for _, k := range gk {
			if em[k] > 0 {
				em[k]--
			} else {
				extra = append(extra, k)
			}
		}
		for _, k := range ek {
			if em[k] > 0 {
				em[k]--
				missing = append(missing, k)
			}
		}
		if len(extra) > 4 {
			extra = extra[:4]
		}
		if len(missing) > 4 {
			missing = missing[:4]
		}
		return "rows", fmt.Sprintf("rows differ: %d returned, %d expected; missing %v; unexpected %v", len(gk), len(ek), missing, extra)
	}
	if exp.Totals != got.Totals {
		return "totals", fmt.Sprintf("Summary.Totals %v, expected %v", got.Totals, exp.Totals)
	}
	if exp.Hits != got.Hits {
		return "hits", fmt.Sprintf("Summary.Hits.Total %d, expected %d", got.Hits, exp.Hits)
	}
	e, g := append([]string{}, exp.Ifaces...), append([]string{}, got.Ifaces...)
	sort.Strings(e)
	sort.Strings(g)
	if strings.Join(e, ",") != strings.Join(g, ",") {
		return "ifaces", fmt.Sprintf("Summary.Interfaces %v, expected %v", got.Ifaces, exp.Ifaces)
	}
	return "", ""
}

// Store keeps the databases of a run on disk, written on first use.
type Store struct {
	Root    string
	DBs     map[string]DB
	written map[string]string
}

// NewStore creates a store below root.
func NewStore(root string) *Store {
	return &Store{Root: root, DBs: map[string]DB{}, written: map[string]string{}}
}

// Dir returns the directory of the named database, writing it if needed.
func (s *Store) Dir(name string) (string, error) {
	if d, ok := s.written[name]; ok {
		return d, nil
	}
	db, ok := s.DBs[name]
	if !ok {
		return "", fmt.Errorf("unknown database %q", name)
	}
	d := filepath.Join(s.Root, "db-"+name)
	if err := WriteDB(d, db); err != nil {
		return "", err
	}
	s.written[name] = d
	return d, nil
}

// ParseDBs reads {"dbs": {name: db}}.
func ParseDBs(line []byte) (map[string]DB, error) {
	var u struct {
		DBs map[string]DB `json:"dbs"`
	}
	if err := json.Unmarshal(line, &u); err != nil {
		return nil, err
	}
	return u.DBs, nil
}
