package query

import (
	"bytes"
	"encoding/json"
	"flag"
	"fmt"
	"io"
	"os"

	"verifharness/internal/hx"
)

// Case is one generated (database, query, expected result) triple of QueryGen.tla.
type Case struct {
	DB    string `json:"db"`
	Q     Query  `json:"q"`
	Exp   Res    `json:"exp"`
	PTag  string `json:"ptag"`  // "same" | "neq" | "or": does the as-built family pruning change the result
	PRows []Row  `json:"prows"` // rows of the as-built pipeline when ptag != "same"
	Class string `json:"class"` // generator class (informational)
}

func init() {
	hx.Register("query-replay", func(args []string) {
		fs := flag.NewFlagSet("query-replay", flag.ExitOnError)
		dir := fs.String("dir", "", "scratch directory for the databases")
		lowmem := fs.Bool("lowmem", false, "run the queries in low-memory mode")
		fs.Parse(args)
		if *dir == "" {
			hx.Die("query-replay: -dir required")
		}
		Replay(*dir, *lowmem, os.Stdin, os.Stdout)
	})
	hx.Register("query-drive", func(args []string) {
		fs := flag.NewFlagSet("query-drive", flag.ExitOnError)
		dir := fs.String("dir", "", "scratch directory for the databases")
		seed := fs.Uint64("seed", 1, "seed")
		ndb := fs.Int("dbs", 2, "number of databases")
		nq := fs.Int("queries", 20, "queries per database")
		size := fs.Int("size", 1, "size class of the databases (1 small .. 3 large)")
		fs.Parse(args)
		if *dir == "" {
			hx.Die("query-drive: -dir required")
		}
		Drive(*dir, *seed, *ndb, *nq, *size, os.Stdin, os.Stdout)
	})
}

// Replay: first input line {"dbs": {name: db}}, then one case per line.  Output: one line per
// failing case and a summary.
func Replay(dir string, lowMem bool, in io.Reader, out io.Writer) {
	o := hx.NewOut(out)
	defer o.Flush()
	st := NewStore(dir)
	n, bad, rows := 0, 0, 0
	first := true
	err := hx.Lines(in, func(line []byte) error {
		if first {
			first = false
			dbs, err := ParseDBs(line)
			if err != nil || len(dbs) == 0 {
				return fmt.Errorf("first line must be the databases: %v", err)
			}
			st.DBs = dbs
			return nil
		}
		var c Case
		if err := json.Unmarshal(line, &c); err != nil {
			return fmt.Errorf("case %d: %v", n, err)
		}
		id := n
		n++
		d, err := st.Dir(c.DB)
		if err != nil {
			return fmt.Errorf("case %d: %v", id, err)
		}
		// marker for the check: if a worker goroutine of the engine crashes the whole process, the last
		// marker names the case that was running
		fmt.Fprintf(os.Stderr, "QCASE %d\n", id)
		got, rerr := Run(d, c.Q, id, lowMem)
		rows += len(got.Rows)
		kind, msg := "", ""
		if rerr != "" {
			kind, msg = "error", rerr
			if len(rerr) > 5 && rerr[:5] == "panic" {
				kind = "panic"
			}
		} else {
			kind, msg = Diff(c.Exp, got)
		}
		if kind != "" {
			bad++
			if got.Rows == nil {
				got.Rows = []Row{}
			}
			if got.Ifaces == nil {
				got.Ifaces = []string{}
			}
			o.Emit(map[string]any{"ok": false, "id": id, "kind": kind, "msg": msg, "got": got,
				"eq_prows": rerr == "" && c.PTag != "same" && c.PTag != "" && SameRows(c.PRows, got.Rows),
				"text": c.Q.Condition(id), "qtype": c.Q.QueryType(),
				"case": json.RawMessage(bytes.TrimSpace(line))})
		}
		return nil
	})
	if err != nil {
		hx.Die("query replay: %v", err)
	}
	o.Emit(map[string]any{"summary": true, "cases": n, "failed": bad, "rows": rows, "dbs_written": len(st.written)})
}
