package query

import (
	"fmt"
	"io"
	"path/filepath"
	"sort"

	"verifharness/internal/cond"
	"verifharness/internal/hx"
)

// Drive (B): seeded databases and queries far beyond the TLC generation bounds are run on the real
// engine and logged; QueryTrace.tla evaluates Result(db, q) of the specification on every event.
//
// Events:  {"ev":"DB","id":n,"db":[blocks]}   a new current database
//          {"ev":"Q","q":{...},"rows":[...],"totals":[...],"hits":n,"ifaces":[...],"err":""}
// Counters are kept small enough for sums to stay below 2^31 (TLC integers).

// address pool: the specification's adversarial addresses plus neighbours; further random ones are
// drawn per database.
var pool4 = [][]int{{10, 200, 0, 1}, {10, 0, 0, 1}, {32, 1, 0, 0}, {0, 0, 0, 0}, {255, 255, 255, 255}, {10, 128, 0, 0}, {10, 127, 255, 255}, {192, 168, 1, 17}}
var pool6 = [][]int{
	{32, 1, 0, 0, 0, 0, 0, 0, 0, 0, 0, 0, 0, 0, 0, 1}, {10, 0, 0, 0, 0, 0, 0, 0, 0, 0, 0, 0, 0, 0, 0, 1},
	{0, 0, 0, 0, 0, 0, 0, 0, 0, 0, 0, 0, 0, 0, 0, 1}, {255, 2, 0, 0, 0, 0, 0, 0, 0, 0, 0, 0, 0, 0, 0, 1},
	{32, 1, 13, 184, 0, 0, 0, 1, 128, 0, 0, 0, 0, 0, 0, 1}, {32, 1, 13, 184, 0, 0, 0, 0, 255, 255, 255, 255, 255, 255, 255, 255},
	{254, 128, 0, 0, 0, 0, 0, 0, 2, 0, 0, 255, 254, 0, 0, 1}}

var (
	dports = []int{0, 22, 53, 80, 255, 256, 443, 8080, 65535}
	dprots = []int{0, 1, 6, 17, 58, 255}
	dcmps  = []string{"=", "!=", "<", "<=", ">", ">="}
	dsyms  = map[int]string{6: "tcp", 17: "udp", 1: "icmp"}
)

type gen struct {
	rng   *hx.RNG
	a4    [][]int
	a6    [][]int
	ports []int
}

// lowZero reports an IPv6 address whose bytes 4..15 are all zero.  Such addresses are exercised by a
// dedicated class of the forward replay (QueryGen, database "z"); the driver does not draw them so
// that what a seed finds does not depend on a 1-in-128 bit flip.
func lowZero(a []int) bool {
	if len(a) != 16 {
		return false
	}
	for _, x := range a[4:] {
		if x != 0 {
			return false
		}
	}
	return true
}

func (g *gen) addr(fam int) []int {
	p := g.a4
	if fam == 6 {
		p = g.a6
	}
	a := append([]int(nil), p[g.rng.Intn(len(p))]...)
	if g.rng.Intn(4) == 0 {
		bit := g.rng.Intn(len(a) * 8)
		a[bit/8] ^= 0x80 >> (bit % 8)
	}
	if lowZero(a) {
		a[15] = 2
	}
	return a
}

func (g *gen) fam() int {
	if g.rng.Intn(5) < 2 {
		return 6
	}
	return 4
}

func (g *gen) flow() cond.Flow {
	fam := g.fam()
	return cond.Flow{Fam: fam, SIP: g.addr(fam), DIP: g.addr(fam), Dport: g.ports[g.rng.Intn(len(g.ports))], Proto: dprots[g.rng.Intn(len(dprots))]}
}

func (g *gen) counters() [4]uint64 {
	r := g.rng
	c := [4]uint64{uint64(r.Intn(20000)), uint64(r.Intn(20000)), uint64(r.Intn(20)), uint64(r.Intn(20))}
	switch r.Intn(6) {
	case 0:
		c[1], c[3] = 0, 0 // inbound only
	case 1:
		c[0], c[2] = 0, 0 // outbound only
	case 2:
		c[2], c[3] = 0, 0 // no packets at all
	}
	return c
}

func (g *gen) atom() *cond.Tree {
	r := g.rng
	switch r.Intn(10) {
	case 0, 1, 2:
		return &cond.Tree{K: "atom", Attr: []string{"sip", "dip", "src", "dst", "host"}[r.Intn(5)], Cmp: dcmps[r.Intn(2)], B: g.addr(g.fam())}
	case 3, 4, 5:
		a := g.addr(g.fam())
		max := len(a) * 8
		p := r.Intn(max + 1)
		if r.Intn(3) == 0 {
			c := []int{0, 1, 7, 8, 9, 24, 31, 32, 63, 64, 65, 127, 128}
			p = c[r.Intn(len(c))]
			if p > max {
				p = max
			}
		}
		return &cond.Tree{K: "atom", Attr: []string{"snet", "dnet", "net"}[r.Intn(3)], Cmp: dcmps[r.Intn(2)], B: a, N: p}
	case 6, 7:
		return &cond.Tree{K: "atom", Attr: []string{"dport", "port"}[r.Intn(2)], Cmp: dcmps[r.Intn(6)], B: []int{}, N: g.ports[r.Intn(len(g.ports))]}
	default:
		n := dprots[r.Intn(len(dprots))]
		t := &cond.Tree{K: "atom", Attr: []string{"proto", "protocol", "ipproto"}[r.Intn(3)], Cmp: dcmps[r.Intn(6)], B: []int{}, N: n}
		if s, ok := dsyms[n]; ok && r.Intn(2) == 0 {
			t.Sym = s
		}
		return t
	}
}

func (g *gen) tree(depth int) *cond.Tree {
	if depth == 0 || g.rng.Intn(3) == 0 {
		return g.atom()
	}
	switch g.rng.Intn(5) {
	case 0:
		return &cond.Tree{K: "not", X: g.tree(depth - 1)}
	case 1, 2:
		return &cond.Tree{K: "and", L: g.tree(depth - 1), R: g.tree(depth - 1)}
	default:
		return &cond.Tree{K: "or", L: g.tree(depth - 1), R: g.tree(depth - 1)}
	}
}

// TreeJSON prints a tree with every atom field present (TLC reads it back as Cond.tla records).
func TreeJSON(t *cond.Tree) map[string]any {
	if t == nil {
		return map[string]any{"k": "true"}
	}
	switch t.K {
	case "true":
		return map[string]any{"k": "true"}
	case "atom":
		b := t.B
		if b == nil {
			b = []int{}
		}
		return map[string]any{"k": "atom", "attr": t.Attr, "cmp": t.Cmp, "b": b, "n": t.N, "sym": t.Sym}
	case "not":
		return map[string]any{"k": "not", "x": TreeJSON(t.X)}
	default:
		return map[string]any{"k": t.K, "l": TreeJSON(t.L), "r": TreeJSON(t.R)}
	}
}

// QueryJSON prints a query in the form QueryTrace.tla reads.
func QueryJSON(q Query) map[string]any {
	ifs, at := q.Ifaces, q.Attrs
	if ifs == nil {
		ifs = []string{}
	}
	if at == nil {
		at = []string{}
	}
	return map[string]any{"ifaces": ifs, "attrs": at, "time": q.Time, "iface": q.Iface, "cond": TreeJSON(q.Cond),
		"first": q.First, "last": q.Last, "dir": q.Dir}
}

// DriveDay0 is the first day of the driver's databases (day aligned).
const DriveDay0 = int64(1700006400)

func (g *gen) database(size int) (DB, []string) {
	r := g.rng
	nif := 1 + r.Intn(2+size)
	ndays := 1 + r.Intn(1+2*size)
	maxBlocks := []int{0, 4, 8, 14}[size]
	maxFlows := []int{0, 12, 40, 90}[size]
	// per database address sets: pool plus a few random addresses
	g.a4, g.a6 = append([][]int(nil), pool4...), append([][]int(nil), pool6...)
	for i := 0; i < 2+size; i++ {
		g.a4 = append(g.a4, []int{r.Intn(256), r.Intn(256), r.Intn(256), r.Intn(256)})
		a := make([]int, 16)
		for j := range a {
			a[j] = r.Intn(256)
		}
		g.a6 = append(g.a6, a)
	}
	g.ports = append([]int(nil), dports...)
	var db DB
	var ifaces []string
	for i := 0; i < nif; i++ {
		iface := fmt.Sprintf("eth%d", i)
		if i == 2 {
			iface = "wan_x"
		}
		has := false
		for d := 0; d < ndays; d++ {
			if d > 0 && r.Intn(5) == 0 {
				continue // a day without data
			}
			slots := map[int]bool{}
			nb := 1 + r.Intn(maxBlocks)
			for b := 0; b < nb; b++ {
				s := r.Intn(288)
				switch r.Intn(5) {
				case 0:
					s = 0 // exactly midnight
				case 1:
					s = 287 // the last slot of the day
				}
				slots[s] = true
			}
			var ss []int
			for s := range slots {
				ss = append(ss, s)
			}
			sort.Ints(ss)
			for _, s := range ss {
				blk := Block{Iface: iface, TS: DriveDay0 + int64(d)*86400 + int64(s)*300, Recs: []Rec{}}
				nf := r.Intn(maxFlows + 1)
				seen := map[string]bool{}
				for len(blk.Recs) < nf {
					f := g.flow()
					k := string(f.Key())
					if seen[k] {
						continue
					}
					seen[k] = true
					blk.Recs = append(blk.Recs, Rec{F: f, C: g.counters()})
				}
				db = append(db, blk)
				has = true
			}
		}
		if has {
			ifaces = append(ifaces, iface)
		}
	}
	return db, ifaces
}

func (g *gen) query(db DB, ifaces []string) Query {
	r := g.rng
	q := Query{Attrs: []string{}, Dir: "none"}
	for _, a := range []string{"sip", "dip", "dport", "proto"} {
		if r.Intn(2) == 0 {
			q.Attrs = append(q.Attrs, a)
		}
	}
	q.Time = r.Intn(3) == 0
	q.Iface = r.Intn(3) == 0
	if len(q.Attrs) == 0 && !q.Time && !q.Iface {
		q.Attrs = []string{"dport"}
	}
	for _, i := range ifaces {
		if r.Intn(3) > 0 {
			q.Ifaces = append(q.Ifaces, i)
		}
	}
	if len(q.Ifaces) == 0 {
		q.Ifaces = []string{ifaces[r.Intn(len(ifaces))]}
	}
	if r.Intn(6) > 0 {
		q.Cond = g.tree(1 + r.Intn(3))
	} else {
		q.Cond = &cond.Tree{K: "true"}
	}
	if r.Intn(3) == 0 {
		q.Dir = []string{"in", "out", "uni", "bi"}[r.Intn(4)]
	}
	// time range: bounds on, next to, or between block timestamps
	var tss []int64
	for _, b := range db {
		tss = append(tss, b.TS)
	}
	sort.Slice(tss, func(i, j int) bool { return tss[i] < tss[j] })
	pick := func() int64 {
		t := tss[r.Intn(len(tss))]
		return t + []int64{0, 0, 1, -1, 150, -150, 299, -299, 300, -300, 86400, -86400}[r.Intn(12)]
	}
	switch r.Intn(4) {
	case 0:
		q.First, q.Last = tss[0]-1000, tss[len(tss)-1]+1000
	default:
		a, b := pick(), pick()
		if a > b {
			a, b = b, a
		}
		q.First, q.Last = a, b
	}
	return q
}

// Drive generates, runs and logs.
func Drive(dir string, seed uint64, ndb, nq, size int, in io.Reader, out io.Writer) {
	o := hx.NewOut(out)
	defer o.Flush()
	if size < 1 || size > 3 {
		size = 1
	}
	g := &gen{rng: hx.NewRNG(seed*31 + 7)}
	for d := 0; d < ndb; d++ {
		db, ifaces := g.database(size)
		if len(ifaces) == 0 {
			d--
			continue
		}
		ddir := filepath.Join(dir, fmt.Sprintf("drive-%d", d))
		if err := WriteDB(ddir, db); err != nil {
			hx.Die("query drive: %v", err)
		}
		nrec := 0
		for _, b := range db {
			nrec += len(b.Recs)
		}
		o.Emit(map[string]any{"ev": "DB", "id": d, "db": db, "records": nrec, "blocks": len(db)})
		for k := 0; k < nq; k++ {
			q := g.query(db, ifaces)
			variant := k
			got, err := Run(ddir, q, variant, k%4 == 3)
			if got.Rows == nil {
				got.Rows = []Row{}
			}
			if got.Ifaces == nil {
				got.Ifaces = []string{}
			}
			o.Emit(map[string]any{"ev": "Q", "dbid": d, "q": QueryJSON(q), "rows": got.Rows, "totals": got.Totals, "hits": got.Hits,
				"ifaces": got.Ifaces, "err": err, "text": q.Condition(variant), "qtype": q.QueryType()})
		}
	}
}
