// Package livequery binds spec/livequery/LiveQuery.tla (property C29) to the real capture manager,
// the real write-out path and the real query engine.
//
// world.go: a capture.Manager whose captures read from scripted sources, whose periodic write-outs
// are released one at a time by the harness (gated write-out handler around writeout.GoDBHandler)
// and whose database lives in a scratch directory.  No hook in /repo is needed:
//   - packets:    capture.WithSourceInitFn + a scripted slimcap SourceZeroCopy (as in
//                 harness/internal/packet/direction.go)
//   - write-outs: Manager.ScheduleWriteouts with a 1 ms interval; the write-out handler (an
//                 interface the caller of NewManager supplies) parks every scheduled write-out
//                 until the harness grants it and substitutes the block timestamp
//   - memory:     the captures' FlowLog is read by reflection (inspected only)
package livequery

import (
	"context"
	"errors"
	"fmt"
	"os"
	"reflect"
	"sync"
	"time"
	"unsafe"

	"github.com/els0r/goProbe/v4/cmd/goProbe/config"
	gpcapture "github.com/els0r/goProbe/v4/pkg/capture"
	"github.com/els0r/goProbe/v4/pkg/capture/capturetypes"
	"github.com/els0r/goProbe/v4/pkg/goDB/encoder/encoders"
	"github.com/els0r/goProbe/v4/pkg/goprobe/writeout"
	"github.com/fako1024/gotools/link"
	slimcap "github.com/fako1024/slimcap/capture"
)

// ---------------------------------------------------------------- scripted capture source

type srcPkt struct {
	ip      []byte
	pktType byte
	size    uint32
}

// scriptedSource implements slimcap's capture.SourceZeroCopy: NextIPPacketZeroCopy blocks until the
// harness hands over a packet, Unblock() was called (ErrCaptureUnblocked) or Close()
// (ErrCaptureStopped).  When the capture loop comes back for the next packet the previous one has
// been processed completely: that is signalled on consumed.
type scriptedSource struct {
	name     string
	pk       chan srcPkt
	unblock  chan struct{}
	closed   chan struct{}
	consumed chan struct{}
	pending  bool
	once     sync.Once
}

func newScriptedSource(name string) *scriptedSource {
	return &scriptedSource{name: name, pk: make(chan srcPkt), unblock: make(chan struct{}, 1),
		closed: make(chan struct{}), consumed: make(chan struct{}, 1)}
}

var errNotScripted = errors.New("scripted source: only the zero-copy IP packet interface is implemented")

func (s *scriptedSource) NextIPPacketZeroCopy() (slimcap.IPLayer, slimcap.PacketType, uint32, error) {
	if s.pending {
		s.pending = false
		s.consumed <- struct{}{}
	}
	select {
	case p := <-s.pk:
		s.pending = true
		return slimcap.IPLayer(p.ip), p.pktType, p.size, nil
	case <-s.unblock:
		return nil, 0, 0, slimcap.ErrCaptureUnblocked
	case <-s.closed:
		return nil, 0, 0, slimcap.ErrCaptureStopped
	}
}

func (s *scriptedSource) NextPayloadZeroCopy() ([]byte, slimcap.PacketType, uint32, error) {
	return nil, 0, 0, errNotScripted
}
func (s *scriptedSource) NewPacket() slimcap.Packet { return nil }
func (s *scriptedSource) NextPacket(slimcap.Packet) (slimcap.Packet, error) {
	return nil, errNotScripted
}
func (s *scriptedSource) NextPayload([]byte) ([]byte, byte, uint32, error) {
	return nil, 0, 0, errNotScripted
}
func (s *scriptedSource) NextIPPacket(slimcap.IPLayer) (slimcap.IPLayer, slimcap.PacketType, uint32, error) {
	return nil, 0, 0, errNotScripted
}
func (s *scriptedSource) NextPacketFn(func([]byte, uint32, slimcap.PacketType, byte) error) error {
	return errNotScripted
}
func (s *scriptedSource) Stats() (slimcap.Stats, error) { return slimcap.Stats{}, nil }
func (s *scriptedSource) Link() *link.Link                { return &link.Link{} }
func (s *scriptedSource) Unblock() error {
	select {
	case s.unblock <- struct{}{}:
	default:
	}
	return nil
}
func (s *scriptedSource) Close() error {
	s.once.Do(func() { close(s.closed) })
	return nil
}

const stepTimeout = 30 * time.Second

// send hands one packet to the capture loop and waits until it has been processed.
func (s *scriptedSource) send(p srcPkt) error {
	select {
	case s.pk <- p:
	case <-time.After(stepTimeout):
		return errors.New("capture loop does not fetch packets (dead?)")
	}
	select {
	case <-s.consumed:
		return nil
	case <-time.After(stepTimeout):
		return errors.New("capture loop did not finish processing the packet")
	}
}

// ---------------------------------------------------------------- gated write-out handler

type schedKeyT struct{}

var schedKey = schedKeyT{}

// gatedHandler is the writeout.Handler given to the manager.  A write-out started by the manager's
// own schedule (context tagged with schedKey) announces itself on arrived and then waits for a
// grant carrying the block timestamp; every other write-out (the final one of Update/Close) is
// passed through with the next free timestamp.
type gatedHandler struct {
	inner   writeout.Handler
	arrived chan struct{}
	grants  chan int64
	written chan struct{}
	quit    chan struct{}
	mu      sync.Mutex
	finalTS int64
}

func newGatedHandler(inner writeout.Handler, finalTS int64) *gatedHandler {
	return &gatedHandler{inner: inner, arrived: make(chan struct{}), grants: make(chan int64),
		written: make(chan struct{}), quit: make(chan struct{}), finalTS: finalTS}
}

func discard(ch <-chan capturetypes.TaggedAggFlowMap) <-chan struct{} {
	done := make(chan struct{})
	go func() {
		for range ch {
		}
		done <- struct{}{}
	}()
	return done
}

func (h *gatedHandler) HandleWriteout(ctx context.Context, _ time.Time, ch <-chan capturetypes.TaggedAggFlowMap) <-chan struct{} {
	if ctx.Value(schedKey) == nil {
		h.mu.Lock()
		ts := h.finalTS
		h.finalTS += 300
		h.mu.Unlock()
		return h.inner.HandleWriteout(ctx, time.Unix(ts, 0), ch)
	}
	select {
	case h.arrived <- struct{}{}:
	case <-h.quit:
		return discard(ch)
	}
	select {
	case ts := <-h.grants:
		innerDone := h.inner.HandleWriteout(ctx, time.Unix(ts, 0), ch)
		done := make(chan struct{})
		go func() {
			<-innerDone
			select {
			case h.written <- struct{}{}:
			case <-h.quit:
			}
			done <- struct{}{}
		}()
		return done
	case <-h.quit:
		return discard(ch)
	}
}

// ---------------------------------------------------------------- the world

// T0 is the timestamp of the first (empty) block of every interface; block k is at T0 + 300 (k-1).
const T0 = int64(1700000100)

type world struct {
	db     string
	mgr    *gpcapture.Manager
	h      *gatedHandler
	ifaces []string
	mu     sync.Mutex
	srcs   map[string]*scriptedSource
	caps   map[string]*gpcapture.Capture
	cancel context.CancelFunc
	blocks int
}

// startWorld creates the database directory, starts one capture per interface and performs the
// first write-out (an empty block at T0), so that every interface exists in the database.
func startWorld(ifaces []string) (*world, error) {
	dir, err := os.MkdirTemp("", "verif-lq-db-")
	if err != nil {
		return nil, err
	}
	w := &world{db: dir, ifaces: ifaces, srcs: map[string]*scriptedSource{}, caps: map[string]*gpcapture.Capture{}}
	w.h = newGatedHandler(writeout.NewGoDBHandler(dir, encoders.EncoderTypeLZ4), T0+300*100000)
	w.mgr = gpcapture.NewManager(w.h, gpcapture.WithSourceInitFn(func(c *gpcapture.Capture) (slimcap.SourceZeroCopy, error) {
		s := newScriptedSource(c.Iface())
		w.mu.Lock()
		w.srcs[c.Iface()] = s
		w.caps[c.Iface()] = c
		w.mu.Unlock()
		return s, nil
	}))
	cfg := &config.Config{Interfaces: config.Ifaces{}}
	for _, i := range ifaces {
		cfg.Interfaces[i] = config.CaptureConfig{RingBuffer: &config.RingBufferConfig{
			BlockSize: config.DefaultRingBufferBlockSize, NumBlocks: config.DefaultRingBufferNumBlocks}}
	}
	if _, _, _, err := w.mgr.Update(context.Background(), cfg); err != nil {
		os.RemoveAll(dir)
		return nil, fmt.Errorf("Manager.Update: %v", err)
	}
	for _, i := range ifaces {
		if w.srcs[i] == nil {
			w.stop()
			return nil, fmt.Errorf("capture on %s was not started", i)
		}
	}
	ctx, cancel := context.WithCancel(context.WithValue(context.Background(), schedKey, true))
	w.cancel = cancel
	w.mgr.ScheduleWriteouts(ctx, time.Millisecond)
	select {
	case <-w.h.arrived:
	case <-time.After(stepTimeout):
		w.stop()
		return nil, errors.New("the manager's write-out schedule never started a write-out")
	}
	if err := w.writeout(); err != nil {
		w.stop()
		return nil, err
	}
	return w, nil
}

// writeout releases exactly one scheduled write-out and returns when it is complete (the data is
// written and the manager is parked at the gate again, i.e. performWriteout has returned).
func (w *world) writeout() error {
	ts := T0 + 300*int64(w.blocks)
	select {
	case w.h.grants <- ts:
	case <-time.After(stepTimeout):
		return errors.New("no scheduled write-out is waiting at the gate")
	}
	select {
	case <-w.h.written:
	case <-time.After(stepTimeout):
		return errors.New("write-out did not complete")
	}
	select {
	case <-w.h.arrived:
	case <-time.After(stepTimeout):
		return errors.New("write-out schedule did not come back to the gate")
	}
	w.blocks++
	return nil
}

func (w *world) stop() {
	if w.h != nil {
		close(w.h.quit)
	}
	if w.cancel != nil {
		w.cancel()
	}
	done := make(chan struct{})
	go func() { w.mgr.Close(context.Background()); close(done) }()
	select {
	case <-done:
	case <-time.After(stepTimeout):
	}
	os.RemoveAll(w.db)
}

// flowLog returns the capture's flow log (unexported field, only inspected; the capture loop is
// parked in the scripted source whenever the harness looks).
func (w *world) flowLog(iface string) (*gpcapture.FlowLog, error) {
	c := w.caps[iface]
	if c == nil {
		return nil, fmt.Errorf("no capture for %s", iface)
	}
	f := reflect.ValueOf(c).Elem().FieldByName("flowLog")
	if !f.IsValid() || f.Kind() != reflect.Ptr {
		return nil, errors.New("Capture has no flowLog field any more")
	}
	return (*gpcapture.FlowLog)(unsafe.Pointer(f.Pointer())), nil
}
